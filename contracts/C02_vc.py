"""C02, engine A part (S rung: concrete shapes, symbolic contents).

The real `error_rate` / `prefix_error_rates` source is executed symbolically; for every pair the
reported count is proved to lie between the fewest and the most edits among minimum-cost alignments
(contracts/strspec.py::edits_tables), to equal the unit-cost Levenshtein distance when the three
costs are equal, and to follow the normalisation / empty-reference convention of the statement.
"""
import z3

from contracts import strspec as sp
from contracts.C01_vc import EOS, PAD, col, model_inputs, sym_pair
from vf.pyvc import api, ctensor as ct, interp as ip
from vf.pyvc.api import VC

M = "pydrobert.torch._string"
INS, DEL, SUB = z3.Reals("ins_cost del_cost sub_cost")


def er_vc(R, H, N, eos_set, include_eos, batch_first, norm, variant):
    import pydrobert.torch.functional as F

    name = "R%dH%dN%d[eos=%s,inc=%s,bf=%s,norm=%s,%s]" % (R, H, N, eos_set, include_eos, batch_first, norm, variant)
    eos = EOS if eos_set else None
    excl = variant == "prefix_excl"

    def thunk(I):
        ref_in, hyp_in, ref, hyp = sym_pair(R, H, N, batch_first)
        I.ex.ghost.update(ref=ref, hyp=hyp)
        kw = dict(eos=eos, include_eos=include_eos, norm=norm, batch_first=batch_first, ins_cost=INS, del_cost=DEL, sub_cost=SUB, warn=False)
        if variant == "rate":
            return I.call(F.error_rate, [ref_in, hyp_in], kw)
        return I.call(F.prefix_error_rates, [ref_in, hyp_in], dict(kw, padding=PAD, exclude_last=excl))

    uniform = z3.And(INS == DEL, DEL == SUB)

    def post(p):
        if not api.returns(p) or not isinstance(p.value, ct.CT):
            return False
        out, ref, hyp = p.value, p.ghost["ref"], p.ghost["hyp"]
        want_shape = (N,) if variant == "rate" else ((N, H + (0 if excl else 1)) if batch_first else (H + (0 if excl else 1), N))
        if out.shape != want_shape:
            return False
        goals = []
        one = z3.RealVal(1)
        for n in range(N):
            rc, hc = col(ref, n), col(hyp, n)
            rl, hl = sp.first_eos_len(rc, eos, include_eos), sp.first_eos_len(hc, eos, include_eos)
            D, Emin, Emax = sp.edits_tables(rc, hc, INS, DEL, SUB)
            D1 = sp.lev_table(rc, hc, one, one, one)

            def clause(got, lo, hi, lev1, jlen):
                """got vs [lo, hi] edits, = lev1 when costs equal; jlen = length of the hypothesis (prefix)"""
                lo, hi = z3.ToReal(lo), z3.ToReal(hi)
                if norm:
                    rlr = z3.ToReal(rl)
                    nonempty = z3.And(lo <= got * rlr, got * rlr <= hi, z3.Implies(uniform, got * rlr == lev1))
                    empty = got == z3.If(jlen > 0, one, z3.RealVal(0))  # empty reference: 0 if the hypothesis is empty too, else 1
                    return z3.If(rl > 0, nonempty, empty)
                return z3.And(lo <= got, got <= hi, z3.Implies(uniform, got == lev1))

            if variant == "rate":
                goals.append(clause(out.a[n], sp.sel2(Emin, rl, hl), sp.sel2(Emax, rl, hl), sp.sel2(D1, rl, hl), hl))
            else:
                for j in range(out.shape[1 if batch_first else 0]):
                    got = out.a[(n, j) if batch_first else (j, n)]
                    valid = (j < hl) if excl else (j <= hl)
                    sel = lambda T: sp.ite_select([T[r][j] for r in range(R + 1)], rl)
                    goals.append(z3.If(valid, clause(got, sel(Emin), sel(Emax), sel(D1), z3.IntVal(j)), got == z3.ToReal(PAD)))
        return goals if goals else z3.BoolVal(True)

    def twin(p):  # must fail: "always the FEWEST edits" is stronger than the code's tie-breaking guarantees
        if not api.returns(p) or not isinstance(p.value, ct.CT) or variant != "rate" or norm:
            return None
        ref, hyp = p.ghost["ref"], p.ghost["hyp"]
        gs = []
        for n in range(N):
            rc, hc = col(ref, n), col(hyp, n)
            rl, hl = sp.first_eos_len(rc, eos, include_eos), sp.first_eos_len(hc, eos, include_eos)
            D, Emin, Emax = sp.edits_tables(rc, hc, INS, DEL, SUB)
            gs.append(p.value.a[n] == z3.ToReal(sp.sel2(Emin, rl, hl)) + 1)
        return z3.And(gs)

    twins = [("fewest_plus_one", twin)] if (variant == "rate" and not norm) else []
    # the largest shapes of the thorough tier take seconds per obligation on an idle machine: a budget that survives a loaded one
    return VC("C02.S.edits_of_min_cost_alignment", name, M, "_string_matching", thunk, pre=[INS > 0, DEL > 0, SUB > 0], timeout_ms=(300000 if R + H >= 5 else None),
              posts=[("between_fewest_and_most_edits_of_min_cost_alignments", post)], twins=twins, inputs=model_inputs(R, H, N),
              replay=lambda m: replay_er(m, R, H, N, eos_set, include_eos, batch_first, norm, variant),
              assumptions=["float arithmetic treated as real arithmetic", "torch primitive contracts in vf/pyvc/ctensor.py (differentially tested)",
                           "minimum-cost alignments characterised by the Wagner-Fischer argmin sets"])


def configs(quick):
    top = 3 if quick else 4
    for R in range(top):
        for H in range(top):
            for eos_set, include_eos in ((False, False), (True, False), (True, True)):
                for batch_first in (False, True):
                    for norm in (False, True):
                        for variant in ("rate", "prefix", "prefix_excl"):
                            if quick and batch_first and variant != "prefix":
                                continue
                            if quick and eos_set and not include_eos and (R + H) % 2:
                                continue
                            yield (R, H, 2 if R + H <= 1 else 1, eos_set, include_eos, batch_first, norm, variant)


def replay_er(m, R, H, N, eos_set, include_eos, batch_first, norm, variant):
    import itertools
    import torch
    import pydrobert.torch.functional as F

    ins, dele, sub = (float(m[k]) for k in ("ins", "del", "sub"))
    if min(ins, dele, sub) <= 0 or max(ins, dele, sub) > 1e4:
        return None
    eos = int(m["eos"]) if eos_set else None
    ref = torch.tensor([[int(m.get("ref_%d_%d" % (r, n), 0)) for n in range(N)] for r in range(R)], dtype=torch.long).reshape(R, N)
    hyp = torch.tensor([[int(m.get("hyp_%d_%d" % (h, n), 0)) for n in range(N)] for h in range(H)], dtype=torch.long).reshape(H, N)
    pad = int(m.get("padding", -1))
    kw = dict(eos=eos, include_eos=include_eos, norm=norm, batch_first=batch_first, ins_cost=ins, del_cost=dele, sub_cost=sub, warn=False)
    a, b = (ref.t(), hyp.t()) if batch_first else (ref, hyp)
    try:
        out = F.error_rate(a, b, **kw) if variant == "rate" else F.prefix_error_rates(a, b, padding=pad, exclude_last=variant == "prefix_excl", **kw)
    except Exception as e:
        return "real function raised %s: %s" % (type(e).__name__, e)

    def ln(c):
        return len(c) if (eos is None or eos not in c) else c.index(eos) + (1 if include_eos else 0)

    def tables(x, y):
        inf = float("inf")
        D = [[0.0] * (len(y) + 1) for _ in range(len(x) + 1)]
        lo = [[0] * (len(y) + 1) for _ in range(len(x) + 1)]
        hi = [[0] * (len(y) + 1) for _ in range(len(x) + 1)]
        for r in range(len(x) + 1):
            for j in range(len(y) + 1):
                if r == 0 or j == 0:
                    D[r][j] = r * dele + j * ins
                    lo[r][j] = hi[r][j] = r + j
                    continue
                ne = x[r - 1] != y[j - 1]
                c = [(D[r][j - 1] + ins, lo[r][j - 1] + 1, hi[r][j - 1] + 1), (D[r - 1][j - 1] + (sub if ne else 0.0), lo[r - 1][j - 1] + ne, hi[r - 1][j - 1] + ne),
                     (D[r - 1][j] + dele, lo[r - 1][j] + 1, hi[r - 1][j] + 1)]
                D[r][j] = min(v[0] for v in c)
                arg = [v for v in c if abs(v[0] - D[r][j]) <= 1e-9 * (1 + abs(D[r][j]))]
                lo[r][j], hi[r][j] = min(v[1] for v in arg), max(v[2] for v in arg)
        return D, lo, hi

    for n in range(N):
        rc, hc = ref[:, n].tolist(), hyp[:, n].tolist()
        rl, hl = ln(rc), ln(hc)
        D, lo, hi = tables(rc[:rl], hc[:hl])
        items = [(float(out[n]), hl, True)] if variant == "rate" else None
        if items is None:
            o = out[n] if batch_first else out[:, n]
            items = [(float(o[j]), j, (j < hl if variant == "prefix_excl" else j <= hl)) for j in range(o.shape[0])]
        for got, j, valid in items:
            if not valid:
                if got != pad:
                    return "pair %d prefix %d beyond the hypothesis: got %g, padding %d" % (n, j, got, pad)
                continue
            if norm and rl == 0:
                want = 1.0 if j > 0 else 0.0
                if got != want:
                    return "pair %d: empty reference, hypothesis length %d: got %g expected %g" % (n, j, got, want)
                continue
            a_, b_ = lo[rl][j] / (rl if norm else 1), hi[rl][j] / (rl if norm else 1)
            if not (a_ - 1e-4 <= got <= b_ + 1e-4):
                return "pair %d ref=%s hyp=%s (prefix %d) costs=(%g,%g,%g): got %g outside [%g, %g]" % (n, rc[:rl], hc[:hl], j, ins, dele, sub, got, a_, b_)
    return None


def vcs(ctx):
    return [er_vc(*c) for c in configs(ctx.quick)]


# ---- minimum_error_rate_loss against error_rate's contract (modular) ------------------------------------------------------------
def mer_vc(N, Mn, R, H, ref3d, batch_first, sub_avg, reduction, norm):
    """The callee `error_rate` is replaced by its contract: it returns one symbolic rate per (element, sample) column and its
    obligations record the arguments it received, so that a dropped option or a reference repeated along the wrong axis is a
    refuted obligation. softmax has its assumed contract (non-negative weights summing to one, a function of the scores)."""
    import pydrobert.torch._string as S

    name = "N%dM%dR%dH%d[ref%s,bf=%s,sub_avg=%s,%s,norm=%s]" % (N, Mn, R, H, "3d" if ref3d else "2d", batch_first, sub_avg, reduction, norm)
    INC = z3.Bool("include_eos")

    def thunk(I):
        lp = ct.CT.symbolic("lp", (N, Mn), "float")
        ref = ct.CT.symbolic("ref", (N, Mn, R) if ref3d else (N, R), "long")
        hyp = ct.CT.symbolic("hyp", (N, Mn, H), "long")
        er = ct.CT.symbolic("er", (N * Mn,), "float")
        I.ex.ghost.update(lp=lp, ref=ref, hyp=hyp, er=er, calls=[])

        def er_contract(I2, a, k):
            I2.ex.ghost["calls"].append((a, dict(k)))
            return er

        I.contracts["pydrobert.torch._string.error_rate"] = er_contract
        to_tm = lambda t: ct.CT(ct.np.moveaxis(t.a, -1, 0).copy(), t.dtype)  # (N,M,T) -> (T,N,M)
        a_ref, a_hyp = (ref, hyp) if batch_first else (to_tm(ref), to_tm(hyp))
        return I.call(S.minimum_error_rate_loss, [lp, a_ref, a_hyp], dict(eos=EOS, include_eos=INC, sub_avg=sub_avg, batch_first=batch_first, norm=norm,
                                                                          ins_cost=INS, del_cost=DEL, sub_cost=SUB, reduction=reduction, warn=False))

    def post(p):
        if not api.returns(p) or not isinstance(p.value, ct.CT):
            return False
        g = p.ghost
        if len(g["calls"]) != 1:
            return False
        a, k = g["calls"][0]
        goals = []
        # -- what error_rate received
        kw = dict(k)
        names = ["ref", "hyp", "eos", "include_eos", "norm", "batch_first", "ins_cost", "del_cost", "sub_cost", "warn"]
        for i, v in enumerate(a):
            kw[names[i]] = v
        same = lambda x, y: (x is y) if not (ct.is_z3(x) or ct.is_z3(y)) else ip.to_z3(x).eq(ip.to_z3(y))
        goals.append(("callee.options", z3.BoolVal(bool(same(kw.get("eos"), EOS) and same(kw.get("include_eos"), INC) and kw.get("norm") is norm and kw.get("batch_first") is batch_first
                                                        and same(kw.get("ins_cost"), INS) and same(kw.get("del_cost"), DEL) and same(kw.get("sub_cost"), SUB)))))
        cref, chyp = kw.get("ref"), kw.get("hyp")
        ok_layout = isinstance(cref, ct.CT) and isinstance(chyp, ct.CT) and cref.shape == ((N * Mn, R) if batch_first else (R, N * Mn)) and chyp.shape == ((N * Mn, H) if batch_first else (H, N * Mn))
        if not ok_layout:
            goals.append(("callee.layout", z3.BoolVal(False)))
        else:
            eqs = []
            for n in range(N):
                for m in range(Mn):
                    c = n * Mn + m  # the column error_rate's result is later viewed at (n, m)
                    for r in range(R):
                        want = g["ref"].a[n, m, r] if ref3d else g["ref"].a[n, r]
                        got = cref.a[c, r] if batch_first else cref.a[r, c]
                        eqs.append(ip.to_z3(got) == want)
                    for h in range(H):
                        got = chyp.a[c, h] if batch_first else chyp.a[h, c]
                        eqs.append(ip.to_z3(got) == g["hyp"].a[n, m, h])
            goals.append(("callee.columns_pair_ref_n_with_sample_nm", z3.And(eqs) if eqs else z3.BoolVal(True)))
        # -- the formula: loss[n,m] = softmax(lp[n])[m] * (er[n,m] - sub_avg * mean_m er[n,.])
        w = ct.f_softmax(_FakeI(p), g["lp"], 1)  # same uninterpreted weights as in the run (functional contract)
        terms = []
        for n in range(N):
            mean = z3.Sum([g["er"].a[n * Mn + m] for m in range(Mn)]) / Mn
            for m in range(Mn):
                e = g["er"].a[n * Mn + m] - (mean if sub_avg else 0)
                terms.append(((n, m), ip.to_z3(w.a[n, m]) * e))
        out = p.value
        if reduction == "none":
            goals.append(("formula.none", z3.And([ip.to_z3(out.a[n, m]) == t for (n, m), t in terms]) if out.shape == (N, Mn) else z3.BoolVal(False)))
        else:
            tot = z3.Sum([t for _, t in terms])
            goals.append(("formula." + reduction, ip.to_z3(out.a[()]) == (tot / (N * Mn) if reduction == "mean" else tot) if out.shape == () else z3.BoolVal(False)))
        return goals

    return VC("C02.mer.formula_vc", name, M, "minimum_error_rate_loss", thunk, pre=[INS > 0, DEL > 0, SUB > 0], posts=[("softmax_weighted_error_rates", post)], inputs={},
              assumptions=["error_rate replaced by its contract (one rate per column; C02.S.* decide the rates themselves)", "softmax contract of vf/pyvc/ctensor.py (weights a function of the scores)"])


class _FakeI:
    """minimal interpreter facade to re-apply the softmax contract in a postcondition (assumptions are already in the path condition)"""

    def __init__(self, p):
        class E:
            def assume(s, c):
                pass
        self.ex = E()


def mer_vcs(ctx):
    out = []
    for ref3d in (False, True):
        for bf in (False, True):
            for sub_avg in (False, True):
                for red in ("mean", "sum", "none"):
                    for norm in (True, False):
                        if ctx.quick and (sub_avg != norm) and red != "none":
                            continue
                        out.append(mer_vc(2, 2, 2, 1, ref3d, bf, sub_avg, red, norm))
    if not ctx.quick:
        out += [mer_vc(1, 3, 1, 2, r3, bf, True, "mean", True) for r3 in (False, True) for bf in (False, True)]
    return out


# ---- P rung: error_rate (return_mistakes path of _string_matching) for SYMBOLIC shapes (R, H, N) ------------------------------------
def p_vcs(ctx=None):
    """C02.P.edits_between_fewest_and_most. The real `error_rate` -> `_string_matching(return_mistakes=True)` over tensors of symbolic
    shape. Spec: D = Wagner-Fischer table; Emin / Emax = fewest / most edits among minimum-cost alignments, used only through
        Emin(r, j) = Emax(r, j) = r + j                  when r = 0 or j = 0
        move m is optimal at (r, j)  ->  Emin(r, j) <= Emin(pred_m) + e_m  and  Emax(r, j) >= Emax(pred_m) + e_m
    (consequences of their definition as min / max over the optimal moves; e_m = 1 for an insertion or deletion, [tokens differ] for a
    substitution). Two nested invariants for a skolem batch element n0:
      outer, after k hypothesis positions:   FORALL r <= R.  row[r] = D(r, min(k, hyp_len))  and  Emin <= mistakes[r] <= Emax there
      inner (the sequential deletion pass), before reference position i:
            FORALL r < i.  row[r], mistakes[r] final for column k + 1;   FORALL r >= i.  row[r], mistakes[r] as on entry to the pass
    Result: Emin(ref_len, hyp_len) <= error count <= Emax(ref_len, hyp_len); with norm, divided by the reference length
    (empty reference: 1 if the hypothesis is not empty, else 0)."""
    from vf.pyvc import symtensor as stn
    from vf.pyvc.interp import LoopSpec, PathAbort

    R, H, N, N0, R0 = z3.Ints("R H N n0 r0")
    HL0, RL0 = z3.Ints("hyp_len_n0 ref_len_n0")
    REF = z3.Function("ref", z3.IntSort(), z3.IntSort(), z3.IntSort())
    HYP = z3.Function("hyp", z3.IntSort(), z3.IntSort(), z3.IntSort())
    LR = z3.Function("ref_len", z3.IntSort(), z3.IntSort())
    LH = z3.Function("hyp_len", z3.IntSort(), z3.IntSort())
    D = z3.Function("D", z3.IntSort(), z3.IntSort(), z3.IntSort(), z3.RealSort())
    EMIN = z3.Function("Emin", z3.IntSort(), z3.IntSort(), z3.RealSort())  # for the skolem batch element: (r, j)
    EMAX = z3.Function("Emax", z3.IntSort(), z3.IntSort(), z3.RealSort())
    n, r, j = z3.Ints("n r j")
    mn = lambda a, b: z3.If(a <= b, a, b)
    differ = lambda rr, jj, nn: REF(rr, nn) != HYP(jj, nn)
    neqc = lambda rr, jj, nn: z3.If(differ(rr, jj, nn), SUB, z3.RealVal(0))
    neq1 = lambda rr, jj, nn: z3.If(differ(rr, jj, nn), z3.RealVal(1), z3.RealVal(0))
    c00 = lambda nn: D(nn, 0, 0) == 0
    cr0 = lambda nn, rr: z3.Implies(rr >= 1, D(nn, rr, 0) == D(nn, rr - 1, 0) + DEL)
    c0j = lambda nn, jj: z3.Implies(jj >= 1, D(nn, 0, jj) == D(nn, 0, jj - 1) + INS)
    crj = lambda nn, rr, jj: z3.Implies(z3.And(rr >= 1, jj >= 1), D(nn, rr, jj) == mn(mn(D(nn, rr, jj - 1) + INS, D(nn, rr - 1, jj - 1) + neqc(rr - 1, jj - 1, nn)), D(nn, rr - 1, jj) + DEL))
    SPEC = [z3.ForAll([n], c00(n)), z3.ForAll([n, r], cr0(n, r)), z3.ForAll([n, j], c0j(n, j)), z3.ForAll([n, r, j], crj(n, r, j))]
    SPEC_AT = lambda nn, rr, jj: z3.And(c00(nn), cr0(nn, rr), c0j(nn, jj), crj(nn, rr, jj))
    e_base = lambda rr, jj: z3.Implies(z3.And(rr >= 0, jj >= 0, z3.Or(rr == 0, jj == 0)), z3.And(EMIN(rr, jj) == z3.ToReal(rr + jj), EMAX(rr, jj) == z3.ToReal(rr + jj)))
    e_moves = lambda rr, jj: z3.Implies(z3.And(rr >= 1, jj >= 1), z3.And(
        z3.Implies(D(N0, rr, jj) == D(N0, rr, jj - 1) + INS, z3.And(EMIN(rr, jj) <= EMIN(rr, jj - 1) + 1, EMAX(rr, jj) >= EMAX(rr, jj - 1) + 1)),
        z3.Implies(D(N0, rr, jj) == D(N0, rr - 1, jj - 1) + neqc(rr - 1, jj - 1, N0), z3.And(EMIN(rr, jj) <= EMIN(rr - 1, jj - 1) + neq1(rr - 1, jj - 1, N0), EMAX(rr, jj) >= EMAX(rr - 1, jj - 1) + neq1(rr - 1, jj - 1, N0))),
        z3.Implies(D(N0, rr, jj) == D(N0, rr - 1, jj) + DEL, z3.And(EMIN(rr, jj) <= EMIN(rr - 1, jj) + 1, EMAX(rr, jj) >= EMAX(rr - 1, jj) + 1))))
    ESPEC = [z3.ForAll([r, j], e_base(r, j)), z3.ForAll([r, j], e_moves(r, j))]
    E_AT = lambda rr, jj: z3.And(e_base(rr, jj), e_moves(rr, jj))

    def make_vc(eos_set, include_eos, batch_first, norm):
        name = "error_rate[symbolic R,H,N; eos=%s,include_eos=%s,batch_first=%s,norm=%s; unequal costs]" % ("set" if eos_set else "unset", include_eos, batch_first, norm)
        RLs = (lambda nn: z3.If(LR(nn) == R, R, LR(nn) + 1)) if include_eos else (lambda nn: LR(nn))
        HLs = (lambda nn: z3.If(LH(nn) == H, H, LH(nn) + 1)) if include_eos else (lambda nn: LH(nn))
        st = {}  # state shared between the outer and the inner loop contract of one path

        def thunk(I):
            import pydrobert.torch.functional as F

            I.stubs.update(stn.stubs())
            st.clear()
            if batch_first:
                ref = stn.ST((N, R), lambda b, a: REF(ip.to_z3(a), ip.to_z3(b)), "long")
                hyp = stn.ST((N, H), lambda b, a: HYP(ip.to_z3(a), ip.to_z3(b)), "long")
            else:
                ref = stn.ST((R, N), lambda a, b: REF(ip.to_z3(a), ip.to_z3(b)), "long")
                hyp = stn.ST((H, N), lambda a, b: HYP(ip.to_z3(a), ip.to_z3(b)), "long")
            calls = []

            def lens_contract(I2, a, k):
                tok = a[0]
                calls.append(tok)
                L = LR if len(calls) == 1 else LH
                I2.ex.oblige("lens.called_on_time_major_tensor_dim0", z3.And(z3.BoolVal(a[2] == 0), ip.to_z3(tok.shape[0]) == (R if len(calls) == 1 else H), ip.to_z3(tok.elem(R0, N0)) == (REF if len(calls) == 1 else HYP)(R0, N0)))
                bound = lambda nn: z3.Implies(z3.And(0 <= nn, nn < N), z3.And(0 <= L(nn), L(nn) <= ip.to_z3(tok.shape[0])))
                I2.ex.assume(z3.ForAll([n], bound(n)))
                I2.ex.instance(bound(N0))
                return stn.ST((N,), lambda a_: L(ip.to_z3(a_)), "long")

            I.contracts["pydrobert.torch._string._lens_from_eos"] = lens_contract
            I.ex.ghost["any_points"] = {1: [(N0,)], 2: [(0, N0)]}
            if not eos_set:
                I.ex.assume(z3.ForAll([n], z3.And(LR(n) == R, LH(n) == H)))
                I.ex.instance(z3.And(LR(N0) == R, LH(N0) == H))
            return I.call(F.error_rate, [ref, hyp], dict(eos=EOS if eos_set else None, include_eos=include_eos, norm=norm, batch_first=batch_first, ins_cost=INS, del_cost=DEL, sub_cost=SUB, warn=False))

        val = lambda t, rr: ip.to_z3(t.elem(rr, N0))
        fin = lambda row, mis, rr, jj: z3.And(val(row, rr) == D(N0, rr, jj), EMIN(rr, jj) <= val(mis, rr), val(mis, rr) <= EMAX(rr, jj))
        fin_at = lambda row, mis, rr, jj: z3.Implies(z3.And(0 <= rr, rr <= R), fin(row, mis, rr, jj))

        class Outer(LoopSpec):
            def run(self, I, s, f):
                row0, mis0 = ip.local(f, "row"), ip.local(f, "mistakes")
                same = z3.And(ip.to_z3(ip.local(f, "hyp_lens").elem(N0)) == HL0, ip.to_z3(ip.local(f, "ref_lens").elem(N0)) == RL0)
                I.ex.oblige("dp.lengths_are_spec_lengths", same)
                I.ex.assume(same)
                zero = z3.IntVal(0)
                g_base = fin(row0, mis0, zero, zero)
                g_step = z3.Implies(z3.And(1 <= R0, R0 <= R, fin(row0, mis0, R0 - 1, zero)), fin(row0, mis0, R0, zero))
                for x in [SPEC_AT(N0, R0, zero), E_AT(R0, zero), E_AT(zero, zero)] + stn.lin_instances(I, R0 - 1):
                    I.ex.instance(x)
                I.ex.oblige("dp.init.base", g_base)
                I.ex.oblige("dp.init.step", g_step)
                ROW = stn._fresh("row", z3.IntSort(), z3.IntSort(), z3.RealSort())
                MIS = stn._fresh("mistakes", z3.IntSort(), z3.IntSort(), z3.RealSort())
                f.locals["row"] = stn.ST((R + 1, N), lambda a, b: ROW(ip.to_z3(a), ip.to_z3(b)), "float")
                f.locals["mistakes"] = stn.ST((R + 1, N), lambda a, b: MIS(ip.to_z3(a), ip.to_z3(b)), "float")
                if I.ex.choose(2) == 0:
                    k = I.ex.fresh("int", "iter")
                    I.ex.assume(z3.And(0 <= k, k < H))
                    rowk, misk = f.locals["row"], f.locals["mistakes"]
                    jk = mn(k, HL0)
                    I.ex.assume(z3.ForAll([r], fin_at(rowk, misk, r, jk)))
                    for rr in (R0, R0 - 1, z3.IntVal(0)):
                        I.ex.instance(fin_at(rowk, misk, rr, jk))
                    st.update(k=k, rowk=rowk, misk=misk, jk=jk)
                    it = I.eval(s.iter, f)
                    I.ex.oblige("dp.loop.range", z3.And(ip.to_z3(it.lo) == 1, ip.to_z3(it.hi) == H + 1, ip.to_z3(it.step) == 1))
                    I.assign(s.target, k + 1, f)
                    I.exec_block(s.body, f)
                    row1, mis1 = ip.local(f, "row"), ip.local(f, "mistakes")
                    jn = mn(k + 1, HL0)
                    goal = z3.Implies(z3.And(0 <= R0, R0 <= R), fin(row1, mis1, R0, jn))
                    I.ex.oblige("dp.step", goal)
                    raise PathAbort()
                I.ex.assume(z3.ForAll([r], fin_at(f.locals["row"], f.locals["mistakes"], r, mn(H, HL0))))
                I.ex.instance(fin_at(f.locals["row"], f.locals["mistakes"], RL0, mn(H, HL0)))

        class Inner(LoopSpec):
            """for ref_idx in range(1, max_ref_steps + 1): the sequential deletion pass of one hypothesis position"""

            def run(self, I, s, f):
                if "k" not in st:
                    raise ip.Unsupported("the deletion pass is reached outside an iteration of the hypothesis loop")
                k, rowk, misk, jk = st["k"], st["rowk"], st["misk"], st["jk"]
                A = k + 1 <= HL0  # the column k + 1 exists for the skolem element (otherwise the pass's results are discarded)
                pre_row, pre_mis = ip.local(f, "row"), ip.local(f, "mistakes")
                pre_row_e, pre_mis_e = pre_row.elem, pre_mis.elem
                PRE = lambda t_e, rr: ip.to_z3(t_e(rr, N0))
                jn = k + 1

                def inv_at(row, mis, i, rr):
                    return z3.Implies(z3.And(A, 0 <= rr, rr <= R), z3.And(
                        z3.Implies(rr < i, fin(row, mis, rr, jn)),
                        z3.Implies(rr >= i, z3.And(val(row, rr) == PRE(pre_row_e, rr), val(mis, rr) == PRE(pre_mis_e, rr)))))

                it = I.eval(s.iter, f)
                I.ex.oblige("del_pass.range", z3.And(ip.to_z3(it.lo) == 1, ip.to_z3(it.hi) == R + 1, ip.to_z3(it.step) == 1))
                # entry: position 0 is final (first row of the table), everything else as on entry
                for x in (SPEC_AT(N0, z3.IntVal(0), jn), E_AT(z3.IntVal(0), jn), E_AT(z3.IntVal(0), jk), fin_at(rowk, misk, z3.IntVal(0), jk)):
                    I.ex.instance(x)
                I.ex.oblige("del_pass.init", inv_at(pre_row, pre_mis, z3.IntVal(1), R0))
                ROWI = stn._fresh("row_in_pass", z3.IntSort(), z3.IntSort(), z3.RealSort())
                MISI = stn._fresh("mistakes_in_pass", z3.IntSort(), z3.IntSort(), z3.RealSort())
                f.locals["row"] = stn.ST((R + 1, N), lambda a, b: ROWI(ip.to_z3(a), ip.to_z3(b)), "float")
                f.locals["mistakes"] = stn.ST((R + 1, N), lambda a, b: MISI(ip.to_z3(a), ip.to_z3(b)), "float")
                rowi, misi = f.locals["row"], f.locals["mistakes"]
                rowi_e, misi_e = rowi.elem, misi.elem
                snap_row = stn.ST((R + 1, N), rowi_e, "float")
                snap_mis = stn.ST((R + 1, N), misi_e, "float")
                rr_ = z3.Int("r_inv")
                if I.ex.choose(2) == 0:
                    i = I.ex.fresh("int", "ref_idx")
                    I.ex.assume(z3.And(1 <= i, i <= R))
                    I.ex.assume(z3.ForAll([rr_], inv_at(snap_row, snap_mis, i, rr_)))
                    for rr in (i, i - 1, R0):
                        I.ex.instance(inv_at(snap_row, snap_mis, i, rr))
                    # what the proof reads: the table and the edit bounds at (i, k + 1) and its three predecessors' facts; the
                    # outer invariant at the reference positions i and i - 1 of the previous column
                    for x in (SPEC_AT(N0, i, jn), E_AT(i, jn), fin_at(rowk, misk, i, jk), fin_at(rowk, misk, i - 1, jk)):
                        I.ex.instance(x)
                    I.assign(s.target, i, f)
                    I.exec_block(s.body, f)
                    I.ex.oblige("del_pass.step", inv_at(ip.local(f, "row"), ip.local(f, "mistakes"), i + 1, R0))
                    raise PathAbort()
                I.ex.assume(z3.ForAll([rr_], inv_at(snap_row, snap_mis, R + 1, rr_)))
                I.ex.instance(inv_at(snap_row, snap_mis, R + 1, R0))

        loops = {("_string_matching", 0): Outer("dp.loop", None, None, None, {}), ("_string_matching", 1): Inner("del_pass", None, None, None, {})}

        def post(p):
            if not api.returns(p) or not hasattr(p.value, "elem"):
                return False
            e = ip.to_z3(p.value.elem(N0))
            lo, hi, rl = EMIN(RL0, HL0), EMAX(RL0, HL0), z3.ToReal(RL0)
            if not norm:
                return [("error_count_between_fewest_and_most_edits_of_min_cost_alignments", z3.And(lo <= e, e <= hi))]
            return [("error_rate_between_fewest_and_most_edits_over_reference_length",
                     z3.If(RL0 == 0, e == z3.If(HL0 > 0, z3.RealVal(1), z3.RealVal(0)), z3.And(lo <= e * rl, e * rl <= hi)))]

        pre = [INS > 0, DEL > 0, SUB > 0, z3.Not(z3.And(INS == DEL, DEL == SUB)), R >= 0, H >= 0, N >= 1, 0 <= N0, N0 < N, 0 <= R0, R0 <= R,
               HL0 == HLs(N0), RL0 == RLs(N0)] + SPEC + ESPEC
        return VC("C02.P.edits_between_fewest_and_most", name, M, "_string_matching", thunk, pre=pre, posts=[("final", post)], loops=loops,
                  inputs={"R": R, "H": H, "N": N}, timeout_ms=30000,
                  assumptions=["Wagner-Fischer recurrence = minimum over edit scripts (definition of D); Emin / Emax used through the consequences of their definition as min / max over the optimal moves (the same definition as contracts/strspec.py::edits_tables)",
                               "tensors as index functions with in-place stores as functional updates (vf/pyvc/symtensor.py); any() contract; lin_c abstraction of index * cost; float arithmetic treated as real arithmetic, x / 0 arbitrary",
                               "both loop-invariant rules and the induction over the reference index applied outside the solver; callee contract of _lens_from_eos (C01.P.lens_first_eos)",
                               "unequal costs (the equal-cost shortcut is C01.P.dp's and, for the edit counts, the S rung's); exclude_last / prefix variants: S rung"])

    return [make_vc(True, False, False, False), make_vc(False, False, False, False), make_vc(True, True, True, False), make_vc(True, False, False, True)]
