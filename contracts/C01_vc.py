"""C01, engine A part.

S rung (concrete shapes, symbolic contents): the real `edit_distance` / `prefix_edit_distances`
source is executed over symbolic token tensors of every shape up to the bound, symbolic eos and
symbolic positive costs; the result of every pair is proved equal to the Wagner-Fischer spec
(contracts/strspec.py) selected at the first-eos lengths. Complete for each shape over ALL
contents/costs/eos values; bounded in the shapes -> labelled bounded, never counted as proved.

P rung (symbolic shape): `_lens_from_eos` first-eos contract, see lens_vcs().
"""
import itertools

import z3

from contracts import strspec as sp
from vf.pyvc import api, ctensor as ct, interp as ip
from vf.pyvc.api import VC

M = "pydrobert.torch._string"
INS, DEL, SUB = z3.Reals("ins_cost del_cost sub_cost")
EOS = z3.Int("eos")
PAD = z3.Int("padding")


def sym_pair(R, H, N, batch_first):
    ref = ct.CT.symbolic("ref", (R, N), "long")
    hyp = ct.CT.symbolic("hyp", (H, N), "long")
    if batch_first:
        return ct.CT(ref.a.T.copy(), "long"), ct.CT(hyp.a.T.copy(), "long"), ref, hyp
    return ref, hyp, ref, hyp


def col(t, n):
    return [t.a[i, n] for i in range(t.shape[0])]


def model_inputs(R, H, N):
    d = {"ins": INS, "del": DEL, "sub": SUB, "eos": EOS, "padding": PAD}
    for n in range(N):
        for r in range(R):
            d["ref_%d_%d" % (r, n)] = z3.Int("ref_%d_%d" % (r, n))
        for h in range(H):
            d["hyp_%d_%d" % (h, n)] = z3.Int("hyp_%d_%d" % (h, n))
    return d


def dist_vc(R, H, N, eos_set, include_eos, batch_first, norm, variant):
    """variant: 'dist' | 'prefix' | 'prefix_excl'"""
    import pydrobert.torch.functional as F

    name = "R%dH%dN%d[eos=%s,inc=%s,bf=%s,norm=%s,%s]" % (R, H, N, eos_set, include_eos, batch_first, norm, variant)
    eos = EOS if eos_set else None

    def thunk(I):
        ref_in, hyp_in, ref, hyp = sym_pair(R, H, N, batch_first)
        I.ex.ghost.update(ref=ref, hyp=hyp)
        kw = dict(eos=eos, include_eos=include_eos, norm=norm, batch_first=batch_first, ins_cost=INS, del_cost=DEL, sub_cost=SUB, warn=False)
        if variant == "dist":
            return I.call(F.edit_distance, [ref_in, hyp_in], kw)
        return I.call(F.prefix_edit_distances, [ref_in, hyp_in], dict(kw, padding=PAD, exclude_last=(variant == "prefix_excl")))

    def post(p):
        if not api.returns(p):
            return False
        out, ref, hyp = p.value, p.ghost["ref"], p.ghost["hyp"]
        if not isinstance(out, ct.CT):
            return False
        goals = []
        excl = variant == "prefix_excl"
        want_shape = (N,) if variant == "dist" else ((N, H + (0 if excl else 1)) if batch_first else (H + (0 if excl else 1), N))
        if out.shape != want_shape:
            return False
        for n in range(N):
            rc, hc = col(ref, n), col(hyp, n)
            rl, hl = sp.first_eos_len(rc, eos, include_eos), sp.first_eos_len(hc, eos, include_eos)
            D = sp.lev_table(rc, hc, INS, DEL, SUB)
            if variant == "dist":
                want = sp.sel2(D, rl, hl)
                got = out.a[n]
                if norm:
                    goals.append(z3.Implies(rl > 0, got * z3.ToReal(rl) == want))  # division by an empty reference is outside C01's statement
                else:
                    goals.append(got == want)
            else:
                for j in range(out.shape[1 if batch_first else 0]):
                    got = out.a[(n, j) if batch_first else (j, n)]
                    valid = (j < hl) if excl else (j <= hl)
                    row_j = [D[r][j] for r in range(R + 1)]
                    want = sp.ite_select(row_j, rl)
                    if norm:
                        ok = z3.Implies(rl > 0, got * z3.ToReal(rl) == want)
                    else:
                        ok = got == want
                    goals.append(z3.If(valid, ok, got == z3.ToReal(PAD)))
        return goals if goals else z3.BoolVal(True)

    def twin(p):  # must-fail: insertion and deletion costs swapped in the spec
        if not api.returns(p) or not isinstance(p.value, ct.CT) or variant != "dist" or norm:
            return None
        ref, hyp = p.ghost["ref"], p.ghost["hyp"]
        gs = []
        for n in range(N):
            rc, hc = col(ref, n), col(hyp, n)
            rl, hl = sp.first_eos_len(rc, eos, include_eos), sp.first_eos_len(hc, eos, include_eos)
            gs.append(p.value.a[n] == sp.sel2(sp.lev_table(rc, hc, DEL, INS, SUB), rl, hl))
        return z3.And(gs)

    twins = [("ins_del_swapped", twin)] if (variant == "dist" and not norm and R != H and (R > 0 or H > 0)) else []
    return VC("C01.S.levenshtein", name, M, "_string_matching", thunk, pre=[INS > 0, DEL > 0, SUB > 0], posts=[("equals_weighted_levenshtein_at_first_eos_lengths", post)],
              twins=twins, inputs=model_inputs(R, H, N), replay=lambda m: replay_dist(m, R, H, N, eos_set, include_eos, batch_first, norm, variant),
              assumptions=["float arithmetic treated as real arithmetic (NaN/inf only via the bounded driver)",
                           "Wagner-Fischer recurrence = minimum over edit scripts (textbook theorem, taken as the definition)",
                           "torch primitive contracts in vf/pyvc/ctensor.py (differentially tested against real torch)"])


def configs(quick):
    shapes = [(R, H) for R in range(0, 3) for H in range(0, 3)] if quick else [(R, H) for R in range(0, 4) for H in range(0, 4)]
    for (R, H) in shapes:
        for eos_set, include_eos in ((False, False), (True, False), (True, True)):
            for batch_first in (False, True):
                for norm in (False, True):
                    for variant in ("dist", "prefix", "prefix_excl"):
                        if quick and batch_first and (R + H) % 2 == 0 and variant != "prefix":
                            continue  # quick tier thins the layout flag on half the shapes; thorough runs the full grid
                        yield (R, H, 2 if R + H <= 2 else 1, eos_set, include_eos, batch_first, norm, variant)


def replay_dist(m, R, H, N, eos_set, include_eos, batch_first, norm, variant):
    """run the real function on the counter-model and compare with an exact-rational DP"""
    from fractions import Fraction
    import torch
    import pydrobert.torch.functional as F

    ins, dele, sub = (float(m[k]) for k in ("ins", "del", "sub"))
    if min(ins, dele, sub) <= 0 or max(ins, dele, sub) > 1e4:
        return None
    eos = int(m["eos"]) if eos_set else None
    ref = torch.tensor([[int(m.get("ref_%d_%d" % (r, n), 0)) for n in range(N)] for r in range(R)], dtype=torch.long).reshape(R, N)
    hyp = torch.tensor([[int(m.get("hyp_%d_%d" % (h, n), 0)) for n in range(N)] for h in range(H)], dtype=torch.long).reshape(H, N)
    pad = int(m.get("padding", -1))
    kw = dict(eos=eos, include_eos=include_eos, norm=norm, batch_first=batch_first, ins_cost=ins, del_cost=dele, sub_cost=sub, warn=False)
    a, b = (ref.t(), hyp.t()) if batch_first else (ref, hyp)
    try:
        out = F.edit_distance(a, b, **kw) if variant == "dist" else F.prefix_edit_distances(a, b, padding=pad, exclude_last=variant == "prefix_excl", **kw)
    except Exception as e:
        return "real function raised %s: %s" % (type(e).__name__, e)

    def ln(colv):
        if eos is None or eos not in colv:
            return len(colv)
        return colv.index(eos) + (1 if include_eos else 0)

    def lev(x, y):
        D = [[0.0] * (len(y) + 1) for _ in range(len(x) + 1)]
        for r in range(1, len(x) + 1):
            D[r][0] = D[r - 1][0] + dele
        for j in range(1, len(y) + 1):
            D[0][j] = D[0][j - 1] + ins
        for r in range(1, len(x) + 1):
            for j in range(1, len(y) + 1):
                D[r][j] = min(D[r][j - 1] + ins, D[r - 1][j - 1] + (sub if x[r - 1] != y[j - 1] else 0.0), D[r - 1][j] + dele)
        return D

    for n in range(N):
        rc, hc = ref[:, n].tolist(), hyp[:, n].tolist()
        rl, hl = ln(rc), ln(hc)
        D = lev(rc[:rl], hc[:hl])
        if variant == "dist":
            want = D[rl][hl] / (rl if norm else 1) if not (norm and rl == 0) else None
            got = float(out[n])
            if want is not None and abs(got - want) > 1e-4 * (1 + abs(want)):
                return "pair %d: ref=%s hyp=%s eos=%s costs=(%g,%g,%g): got %g, weighted Levenshtein %g" % (n, rc, hc, eos, ins, dele, sub, got, want)
        else:
            o = out[n] if batch_first else out[:, n]
            for j in range(o.shape[0]):
                valid = j < hl if variant == "prefix_excl" else j <= hl
                got = float(o[j])
                if not valid:
                    if got != pad:
                        return "pair %d prefix %d beyond the hypothesis: got %g, padding %d" % (n, j, got, pad)
                elif not (norm and rl == 0):
                    want = D[rl][j] / (rl if norm else 1)
                    if abs(got - want) > 1e-4 * (1 + abs(want)):
                        return "pair %d prefix %d: ref=%s hyp=%s: got %g, expected %g" % (n, j, rc, hc, got, want)
    return None


def vcs(ctx):
    return [dist_vc(*c) for c in configs(ctx.quick)]


# ---- P rung: _lens_from_eos for a SYMBOLIC sequence length ----------------------------------------------------------------------
def lens_vcs():
    """C01.lens.first_eos: contract on the real `_lens_from_eos` for one generic column of symbolic length T >= 0.
    torch.cumsum / sum over the symbolic extent are given their recurrence contracts (vf/pyvc/symvec.py); the
    postcondition is derived by a ghost induction over t (base, step, use) whose three obligations are discharged
    quantifier-free; the induction principle itself is part of the trusted base."""
    from vf.pyvc import symvec

    T, Tk, J = z3.Ints("T t_ind j_sk")
    tok = z3.Function("tok", z3.IntSort(), z3.IntSort())

    def thunk(I):
        import pydrobert.torch._string as S

        v = symvec.SymVec(T, lambda t: tok(t), "long")
        I.stubs["torch.cumsum"] = symvec._cumsum
        return I.call(S._lens_from_eos, [v, EOS, 0], {})

    def post(p):
        if not api.returns(p) or not ip.is_z3(p.value):
            return False
        defs = p.ghost.get("defs", {})
        if "cumsum" not in defs or "partial_sum" not in defs:
            return False
        c, S = defs["cumsum"], defs["partial_sum"]
        iseos = lambda t: tok(t) == EOS
        b = lambda cond: z3.If(cond, 1, 0)

        def inv(t, j):  # I(t), with the universally quantified "no eos before S(t)" instantiated at j
            return z3.And(0 <= S(t), S(t) <= t, z3.Implies(z3.And(0 <= j, j < S(t)), z3.Not(iseos(j))),
                          z3.Implies(S(t) < t, z3.And(iseos(S(t)), c(t - 1) >= 1)),
                          z3.Implies(z3.And(S(t) == t, t >= 1), c(t - 1) == 0))

        # instances of the primitives' recurrence contracts at the induction variable (FORALL-elimination), built by the SAME builders
        # as the contracts the executed code was given (vf/pyvc/symvec.py) - so a change of what the code asks of cumsum / sum (another
        # dtype, another operand) changes these instances with it
        (c_base, c_step), (s_base, s_step) = defs["cumsum_instances"], defs["partial_sum_instances"]
        inst = z3.And(c_base, c_step(Tk - 1), s_base, s_step(Tk))
        # the summed and the accumulated vectors are what the contract is about: eos indicator, and "count so far is zero"
        shape_ok = z3.And(p.ghost["defs"]["cumsum_operand"](J) == iseos(J), p.ghost["defs"]["partial_sum_operand"](J) == (c(J) == 0))
        r = p.value
        return [("induction.base", inv(z3.IntVal(0), J)),
                ("induction.step", z3.Implies(z3.And(0 <= Tk, Tk < T, inst, inv(Tk, J)), inv(Tk + 1, J))),
                ("induction.use", z3.Implies(z3.And(r == S(T), inv(T, J)),
                                             z3.And(0 <= r, r <= T, z3.Implies(z3.And(0 <= J, J < r), z3.Not(iseos(J))), z3.Implies(r < T, iseos(r))))),
                ("result_is_partial_sum_at_T", r == S(T)),
                ("operands_are_the_eos_indicator_and_the_zero_count_test", shape_ok)]

    return [VC("C01.P.lens_first_eos", "_lens_from_eos[symbolic length]", M, "_lens_from_eos", thunk, pre=[T >= 0], posts=[("first_eos_or_full_length", post)],
               twins=[("last_eos", lambda p: z3.Implies(z3.And(0 <= J, J < T, tok(J) == EOS), J <= p.value) if api.returns(p) and ip.is_z3(p.value) else None)],
               inputs={"T": T, "eos": EOS},
               assumptions=["assumed torch contracts: eq element-wise; cumsum by its recurrence; sum by its partial-sum recurrence (vf/pyvc/symvec.py)",
                            "induction principle over the naturals (base + step => for all t <= T) applied outside the solver",
                            "TorchScript executes _lens_from_eos with the semantics of its Python source",
                            "one generic column along the reduced dimension (the function is column-wise)"])]


# ---- P rung: the dynamic programme of _string_matching for SYMBOLIC shapes (R, H, N) -----------------------------------------------
def dp_vcs(ctx=None):
    """C01.P.dp: the real `_string_matching`, entered through the public `edit_distance` / `prefix_edit_distances`, executed over
    tensors of symbolic shape (vf/pyvc/symtensor.py).
    Spec D(n, r, j): weighted Levenshtein cost between ref[:r, n] and hyp[:j, n] (Wagner-Fischer recurrence = definition).
    Loop invariant at the head of the iteration for hypothesis position k+1:  FORALL r <= R. row[r, n] = D(n, r, min(k, cap[n])),
    cap = hyp_len (or hyp_len - 1 with exclude_last, where the last prefix is never computed); in prefix mode also
    FORALL j <= k. prefix_ers[j, n] = D(n, ref_len[n], min(j, cap[n])).
    Because one vectorised row update hides an induction over the reference index r (the `del_mat` / min(1) trick), initialisation
    and preservation are each proved by an explicit induction over r (base and step obligations), for a skolem batch element n.
    Equal costs: the code runs the programme with unit costs and multiplies by the common cost c; the spec is then c * D_1 and the
    lemma `uniform_cost_scaling_step` (c * D_1 satisfies the recurrence of D_c cell by cell, nonlinear real arithmetic) ties it to D_c.
    Assumed: callee contract of `_lens_from_eos` (proved separately: C01.P.lens_first_eos), the min(dim) / any() contracts, the
    lin_c abstraction of index * cost products, the induction principle."""
    from vf.pyvc import symtensor as stn
    from vf.pyvc.interp import LoopSpec, PathAbort

    R, H, N, N0, R0 = z3.Ints("R H N n0 r0")
    HL0, RL0 = z3.Ints("hyp_len_n0 ref_len_n0")  # names for the spec lengths of the skolem batch element
    REF = z3.Function("ref", z3.IntSort(), z3.IntSort(), z3.IntSort())
    HYP = z3.Function("hyp", z3.IntSort(), z3.IntSort(), z3.IntSort())
    LR = z3.Function("ref_len", z3.IntSort(), z3.IntSort())
    LH = z3.Function("hyp_len", z3.IntSort(), z3.IntSort())
    D = z3.Function("D", z3.IntSort(), z3.IntSort(), z3.IntSort(), z3.RealSort())
    n, r, j = z3.Ints("n r j")
    mn = lambda a, b: z3.If(a <= b, a, b)
    mx = lambda a, b: z3.If(a >= b, a, b)
    one = z3.RealVal(1)

    def spec_for(ci, cd, cs):
        """(quantified definition of D, builder of its instance at one cell)"""
        neq = lambda rr, jj, nn: z3.If(REF(rr, nn) != HYP(jj, nn), cs, z3.RealVal(0))
        c00 = lambda nn: D(nn, 0, 0) == 0
        cr0 = lambda nn, rr: z3.Implies(rr >= 1, D(nn, rr, 0) == D(nn, rr - 1, 0) + cd)
        c0j = lambda nn, jj: z3.Implies(jj >= 1, D(nn, 0, jj) == D(nn, 0, jj - 1) + ci)
        crj = lambda nn, rr, jj: z3.Implies(z3.And(rr >= 1, jj >= 1), D(nn, rr, jj) == mn(mn(D(nn, rr, jj - 1) + ci, D(nn, rr - 1, jj - 1) + neq(rr - 1, jj - 1, nn)), D(nn, rr - 1, jj) + cd))
        quantified = [z3.ForAll([n], c00(n)), z3.ForAll([n, r], cr0(n, r)), z3.ForAll([n, j], c0j(n, j)), z3.ForAll([n, r, j], crj(n, r, j))]
        at_cell = lambda nn, rr, jj: z3.And(c00(nn), cr0(nn, rr), c0j(nn, jj), crj(nn, rr, jj))
        return quantified, at_cell

    out = []
    J0 = z3.Int("j0")
    PADR = z3.ToReal(PAD)
    C = lambda **k: dict(dict(prefix=False, eos_set=True, include_eos=False, batch_first=False, norm=False, uniform=False, exclude_last=False), **k)
    configs = [C(), C(eos_set=False), C(include_eos=True), C(batch_first=True), C(norm=True), C(uniform=True), C(uniform=True, norm=True, include_eos=True),
               C(prefix=True), C(prefix=True, include_eos=True, batch_first=True), C(prefix=True, exclude_last=True), C(prefix=True, norm=True),
               C(prefix=True, uniform=True, exclude_last=True, batch_first=True)]
    def make_vc(cfg):  # one scope per configuration (the helpers below close over its constants)
        prefix, eos_set, include_eos, batch_first, norm, uniform, excl = (cfg[k] for k in ("prefix", "eos_set", "include_eos", "batch_first", "norm", "uniform", "exclude_last"))
        name = "%s[symbolic R,H,N; eos=%s,include_eos=%s,batch_first=%s,norm=%s,exclude_last=%s; %s costs]" % (
            "prefix_edit_distances" if prefix else "edit_distance", "set" if eos_set else "unset", include_eos, batch_first, norm, excl, "equal" if uniform else "unequal")
        # spec lengths: first-eos length (C01.P.lens_first_eos), +1 for the counted eos when there is one
        RLs = (lambda nn: z3.If(LR(nn) == R, R, LR(nn) + 1)) if include_eos else (lambda nn: LR(nn))
        HLs = (lambda nn: z3.If(LH(nn) == H, H, LH(nn) + 1)) if include_eos else (lambda nn: LH(nn))
        CAP = mx(HL0 - 1, 0) if excl else HL0  # the last hypothesis prefix the loop computes for the skolem element
        LAST = mx(H - 1, 0) if excl else H  # number of loop iterations
        ROWS = H if excl else H + 1  # rows of the prefix result
        MULT = INS if uniform else one

        def thunk(I, eos_set=eos_set, include_eos=include_eos, batch_first=batch_first, prefix=prefix, norm=norm, excl=excl):
            import pydrobert.torch.functional as F

            I.stubs.update(stn.stubs())
            if batch_first:
                ref = stn.ST((N, R), lambda b, a: REF(ip.to_z3(a), ip.to_z3(b)), "long")
                hyp = stn.ST((N, H), lambda b, a: HYP(ip.to_z3(a), ip.to_z3(b)), "long")
            else:
                ref = stn.ST((R, N), lambda a, b: REF(ip.to_z3(a), ip.to_z3(b)), "long")
                hyp = stn.ST((H, N), lambda a, b: HYP(ip.to_z3(a), ip.to_z3(b)), "long")
            calls = []

            def lens_contract(I2, a, k):
                tok = a[0]
                calls.append(tok)
                L = LR if len(calls) == 1 else LH  # the function asks for the reference lengths first, then the hypothesis lengths
                I2.ex.oblige("lens.called_on_time_major_tensor_dim0", z3.And(z3.BoolVal(a[2] == 0), ip.to_z3(tok.shape[0]) == (R if len(calls) == 1 else H), ip.to_z3(tok.elem(R0, N0)) == (REF if len(calls) == 1 else HYP)(R0, N0)))
                T = tok.shape[0]
                bound = lambda nn: z3.Implies(z3.And(0 <= nn, nn < N), z3.And(0 <= L(nn), L(nn) <= ip.to_z3(T)))
                I2.ex.assume(z3.ForAll([n], bound(n)))
                I2.ex.instance(bound(N0))
                return stn.ST((N,), lambda a_: L(ip.to_z3(a_)), "long")

            I.contracts["pydrobert.torch._string._lens_from_eos"] = lens_contract
            I.ex.ghost["any_points"] = {1: [(N0,)], 2: [(0, N0)]}  # every any() contract is instantiated at the skolem batch element
            if not eos_set:
                I.ex.assume(z3.ForAll([n], z3.And(LR(n) == R, LH(n) == H)))
                I.ex.instance(z3.And(LR(N0) == R, LH(N0) == H))
            kw = dict(eos=EOS if eos_set else None, include_eos=include_eos, norm=norm, batch_first=batch_first, ins_cost=INS, del_cost=DEL, sub_cost=SUB, warn=False)
            if prefix:  # through the public wrappers: their argument forwarding is part of what is verified
                return I.call(F.prefix_edit_distances, [ref, hyp], dict(kw, padding=PAD, exclude_last=excl))
            return I.call(F.edit_distance, [ref, hyp], kw)

        def pe_at(f, k, jj, CAP=CAP):
            pe = ip.local(f, "prefix_ers")
            return z3.Implies(z3.And(0 <= jj, jj <= k), ip.to_z3(pe.elem(jj, N0)) == D(N0, RL0, mn(jj, CAP)))

        def pe_inv(f, k):  # prefix mode: FORALL j <= k. prefix_ers[j, n0] = D(n0, ref_len, min(j, cap))
            return z3.ForAll([j], pe_at(f, k, j))

        def row_at(row, rr, jj):
            return z3.Implies(z3.And(0 <= rr, rr <= R), ip.to_z3(row.elem(rr, N0)) == D(N0, rr, jj))

        def hyp_inv(I, f, k, CAP=CAP):  # FORALL r at the skolem batch element
            row = ip.local(f, "row")
            return z3.ForAll([r], row_at(row, r, mn(k, CAP)))

        class DPLoop(LoopSpec):
            def run(self, I, s, f, prefix=prefix, CAP=CAP, LAST=LAST, ROWS=ROWS, SPEC_AT=None):
                SPEC_AT = self.spec_at
                row0 = ip.local(f, "row")
                at = lambda row, rr, jj: ip.to_z3(row.elem(rr, N0)) == D(N0, rr, jj)
                # the lengths the loop works with are the spec lengths
                same = z3.And(ip.to_z3(ip.local(f, "hyp_lens").elem(N0)) == HL0, ip.to_z3(ip.local(f, "ref_lens").elem(N0)) == RL0)
                I.ex.oblige("dp.lengths_are_spec_lengths", same)
                I.ex.assume(same)  # proved just above as its own obligation; stated as a fact for the obligations that follow
                # initialisation, by induction over r  (instances: the definition of D at the cells involved, lin recurrences)
                g_base = at(row0, z3.IntVal(0), z3.IntVal(0))  # (element functions are lazy: building the goals first creates the lin_c terms)
                g_step = z3.Implies(z3.And(1 <= R0, R0 <= R, at(row0, R0 - 1, z3.IntVal(0))), at(row0, R0, z3.IntVal(0)))
                I.ex.instance(SPEC_AT(N0, R0, z3.IntVal(0)))
                for x in stn.lin_instances(I, R0 - 1):
                    I.ex.instance(x)
                I.ex.oblige("dp.init.base", g_base)
                I.ex.oblige("dp.init.step", g_step)
                if prefix:
                    # the conclusion of the induction just proved (base + step), then the first prefix row (when there is one)
                    I.ex.assume(z3.ForAll([r], row_at(row0, r, z3.IntVal(0))))
                    I.ex.instance(row_at(row0, RL0, z3.IntVal(0)))
                    I.ex.oblige("dp.prefix.rows", ip.to_z3(ip.local(f, "prefix_ers").shape[0]) == ROWS)
                    I.ex.oblige("dp.prefix.init", z3.Implies(ROWS >= 1, ip.to_z3(ip.local(f, "prefix_ers").elem(z3.IntVal(0), N0)) == D(N0, RL0, 0)))
                    PE = stn._fresh("prefix_ers", z3.IntSort(), z3.IntSort(), z3.RealSort())
                    f.locals["prefix_ers"] = stn.ST((ROWS, N), lambda a, b: PE(ip.to_z3(a), ip.to_z3(b)), "float")
                ROW = stn._fresh("row", z3.IntSort(), z3.IntSort(), z3.RealSort())
                f.locals["row"] = stn.ST((R + 1, N), lambda a, b: ROW(ip.to_z3(a), ip.to_z3(b)), "float")
                if I.ex.choose(2) == 0:
                    k = I.ex.fresh("int", "iter")
                    I.ex.assume(z3.And(0 <= k, k < LAST))
                    I.ex.assume(hyp_inv(I, f, k))
                    rowk = ip.local(f, "row")
                    for rr in (R0, R0 - 1, z3.IntVal(0)):  # FORALL-elimination: the cells the step obligations read
                        I.ex.instance(row_at(rowk, rr, mn(k, CAP)))
                    if prefix:
                        I.ex.assume(pe_inv(f, k))
                        I.ex.instance(pe_at(f, k, J0))
                    it = I.eval(s.iter, f)  # the real range(...) of the loop: its bounds are checked against the iteration count used here
                    I.ex.oblige("dp.loop.range", z3.And(ip.to_z3(it.lo) == 1, mx(ip.to_z3(it.hi) - 1, 0) == LAST, ip.to_z3(it.step) == 1))
                    I.assign(s.target, k + 1, f)
                    n_min = len(I.ex.ghost.get("mins", []))
                    I.exec_block(s.body, f)
                    row1 = ip.local(f, "row")
                    jn = mn(k + 1, CAP)
                    # instances for the step: definition of D at the cells (R0, jn), (0, jn); the min(1) contract of the vectorised
                    # deletion step at reference positions R0, R0 - 1 and 0 (lower bounds at the positions the proof compares,
                    # attainment); lin recurrences at the distances involved
                    I.ex.instance(SPEC_AT(N0, R0, jn))
                    for mm in I.ex.ghost.get("mins", [])[n_min:]:
                        w_ = lambda rr: mm["w"](rr, N0)
                        for o, kk in (([R0, N0], R0), ([R0, N0], w_(R0 - 1)), ([R0 - 1, N0], w_(R0)), ([R0 - 1, N0], R0 - 1), ([z3.IntVal(0), N0], z3.IntVal(0))):
                            I.ex.instance(mm["lb"](o, kk))
                        for o in ([R0, N0], [R0 - 1, N0], [z3.IntVal(0), N0]):
                            I.ex.instance(mm["att"](o))
                        for dist in (R0 - 1 - w_(R0), R0 - 1 - w_(R0 - 1)):
                            for x in stn.lin_instances(I, dist):
                                I.ex.instance(x)
                    # preservation, by induction over r
                    I.ex.oblige("dp.step.base", at(row1, z3.IntVal(0), jn))
                    I.ex.oblige("dp.step.ind", z3.Implies(z3.And(1 <= R0, R0 <= R, at(row1, R0 - 1, jn)), at(row1, R0, jn)))
                    if prefix:
                        I.ex.assume(z3.ForAll([r], row_at(row1, r, jn)))  # conclusion of the induction over r
                        I.ex.instance(row_at(row1, RL0, jn))
                        I.ex.oblige("dp.prefix.step", z3.Implies(z3.And(0 <= J0, J0 <= k + 1), ip.to_z3(ip.local(f, "prefix_ers").elem(J0, N0)) == D(N0, RL0, mn(J0, CAP))))
                    raise PathAbort()
                I.ex.assume(hyp_inv(I, f, LAST))
                I.ex.instance(row_at(ip.local(f, "row"), RL0, mn(LAST, CAP)))
                if prefix:
                    I.ex.assume(pe_inv(f, LAST))
                    I.ex.instance(pe_at(f, LAST, J0))

        SPEC, SPEC_AT = spec_for(one, one, one) if uniform else spec_for(INS, DEL, SUB)
        loop = DPLoop("dp.loop", None, None, None, {})
        loop.spec_at = SPEC_AT

        def post(p, prefix=prefix, batch_first=batch_first, norm=norm, excl=excl, MULT=MULT, ROWS=ROWS):
            if not api.returns(p) or not hasattr(p.value, "elem"):
                return False
            rl = z3.ToReal(RL0)

            def value(jj):  # the property's value for the hypothesis prefix of length jj
                d = MULT * D(N0, RL0, jj)
                if not norm:
                    return d
                return z3.If(RL0 == 0, z3.If(jj > 0, one, z3.RealVal(0)), d / rl)

            if prefix:
                e = ip.to_z3(p.value.elem(N0, J0) if batch_first else p.value.elem(J0, N0))
                shape_ok = z3.And(ip.to_z3(p.value.shape[1 if batch_first else 0]) == ROWS, ip.to_z3(p.value.shape[0 if batch_first else 1]) == N)
                valid = (J0 < HL0) if excl else (J0 <= HL0)
                return [("result_shape", shape_ok), ("prefix_distance_is_D_up_to_the_hyp_length", z3.Implies(z3.And(J0 < ROWS, valid), e == value(J0))),
                        ("padding_beyond_the_hyp_length", z3.Implies(z3.And(J0 < ROWS, z3.Not(valid)), e == PADR))]
            return [("distance_is_D_at_the_lengths", ip.to_z3(p.value.elem(N0)) == value(HL0))]

        costs = [INS > 0, INS == DEL, DEL == SUB] if uniform else [INS > 0, DEL > 0, SUB > 0, z3.Not(z3.And(INS == DEL, DEL == SUB))]
        pre = costs + [R >= 0, H >= 0, N >= 1, 0 <= N0, N0 < N, 0 <= R0, HL0 == HLs(N0), RL0 == RLs(N0), 0 <= J0, J0 <= H] + SPEC
        lemmas = []
        if uniform:
            # c * D_1 obeys the recurrence of D_c: one cell, for arbitrary neighbours a (left), b (diagonal), d (up) and mismatch e in {0,1}
            a, b, d, c, e = z3.Reals("a_left b_diag d_up c_cost e_neq")
            lemmas = [("uniform_cost_scaling_step", [c > 0, z3.Or(e == 0, e == 1)], mn(mn(c * a + c, c * b + c * e), c * d + c) == c * mn(mn(a + 1, b + e), d + 1))]
        return (VC("C01.P.dp", name, M, "_string_matching", thunk, pre=pre, posts=[("final", post)], loops={("_string_matching", 0): loop}, lemmas=lemmas,
                      inputs={"R": R, "H": H, "N": N}, timeout_ms=20000,
                      assumptions=["Wagner-Fischer recurrence = minimum over edit scripts (taken as the definition of D)",
                                   "min(dim) contract: lower bound of the finite entries, attained at a finite entry; any() contract; tensors as index functions (vf/pyvc/symtensor.py)",
                                   "index * cost products abstracted to lin_c(i) with lin_c(0) = 0, lin_c(i+1) = lin_c(i) + c", "float arithmetic treated as real arithmetic; x / 0 is an arbitrary value",
                                   "induction over the reference index and over the loop applied outside the solver; callee contract of _lens_from_eos (C01.P.lens_first_eos)",
                                   "equal costs: spec stated as c * D_1 (unit-cost table); the cell-wise scaling lemma is proved, the induction that lifts it to the whole table is applied outside the solver",
                                   "configurations: public edit_distance and prefix_edit_distances in 12 flag combinations of eos, include_eos, batch_first, norm, exclude_last, equal/unequal costs every combination per shape is the S rung's"]))
    out = [make_vc(cfg) for cfg in configs]
    return out
