"""C09, engine A part (S rung): pad_masked_sequence on symbolic contents and masks.

The real source (lens = mask.sum, prefix mask, masked_select -> masked_scatter) is executed symbolically; proved for
all contents and ALL masks: lens = number of selected elements per row; each row = the selected elements in order,
then the padding value."""
import z3

from vf.pyvc import api, ctensor as ct, interp as ip
from vf.pyvc.api import VC

M = "pydrobert.torch._pad"


def masked_vc(N, T, F, batch_first):
    import pydrobert.torch._pad as P

    name = "N%dT%dF%d[bf=%s]" % (N, T, F, batch_first)
    PADV = z3.Real("padding_value")

    def thunk(I):
        x = ct.CT.symbolic("x", (N, T) + ((F,) if F else ()), "float")
        m = ct.CT.symbolic("m", (N, T), "bool")
        I.ex.ghost.update(x=x, m=m)
        a, b = (x, m) if batch_first else (ct.CT(ct.np.swapaxes(x.a, 0, 1).copy(), "float"), ct.CT(m.a.T.copy(), "bool"))
        return I.call(P.pad_masked_sequence, [a, b, batch_first, PADV], {})

    def post(p):
        if not api.returns(p) or not isinstance(p.value, tuple):
            return False
        out, lens = p.value
        x, m = p.ghost["x"], p.ghost["m"]
        o = out.a if batch_first else ct.np.swapaxes(out.a, 0, 1)
        goals = []
        for n in range(N):
            acc, before = z3.IntVal(0), []
            for t in range(T):
                before.append(acc)
                acc = acc + z3.If(m.a[n, t], 1, 0)
            goals.append(("n%d.len" % n, ip.to_z3(lens.a[n]) == acc))
            for q in range(T):
                cell = [o[n, q, f] for f in range(F)] if F else [o[n, q]]
                goals.append(("n%d.slot%d.pad" % (n, q), z3.Implies(q >= acc, z3.And([ip.to_z3(c) == PADV for c in cell]))))
                for t in range(T):
                    src = [x.a[n, t, f] for f in range(F)] if F else [x.a[n, t]]
                    goals.append(("n%d.slot%d.from%d" % (n, q, t), z3.Implies(z3.And(m.a[n, t], before[t] == q), z3.And([ip.to_z3(c) == s for c, s in zip(cell, src)]))))
        return goals

    return VC("C09.S.masked_compaction", name, M, "pad_masked_sequence", thunk, posts=[("selected_in_order_then_padding", post)], inputs={},
              assumptions=["boolean-mask selection + masked_scatter = stable row-major compaction (vf/pyvc/ctensor.py, differentially tested)"])


def shift_vc(training):
    """P rung: random_shift for a generic batch element of SYMBOLIC length and symbolic proportions: each side gets a non-negative
    whole number of elements below proportion * length; the reported length is the old one plus both; the padding itself is
    delegated to pad_variable with exactly (input, lengths, amounts, mode, value); evaluation mode is the identity."""
    import pydrobert.torch._img as IMG

    LEN = z3.Int("length")
    PL, PR, U0, U1, VAL = z3.Reals("prop_left prop_right u_left u_right value")
    name = "random_shift[symbolic length and proportions; training=%s]" % training

    class Input:
        def __vc_getattr__(self, I, nm):
            me = self

            class M_:
                def __vc_call__(s, I2, a, k):
                    return 3 if nm == "dim" else (1 if (nm == "size" and a and a[0] == 0) else ip.Opaque("input.%s" % nm))

            if nm in ("dim", "size"):
                return M_()
            if nm == "shape":
                return (1, 7, 2)
            raise ip.Unsupported("input.%s" % nm)

    def thunk(I):
        x = Input()
        lens = ct.CT(ct.obj_array(LEN, (1,)), "long")
        calls = []

        def rand_like(I2, t, **k):
            a = ct.obj_array(0, t.shape)
            a[0, 0], a[1, 0] = U0, U1
            return ct.CT(a, "float")

        def pad_variable(I2, a, k):
            calls.append(a)
            return ("padded", a[0])

        I.stubs["torch.rand_like"] = rand_like
        I.contracts["pydrobert.torch._pad.pad_variable"] = pad_variable
        out = I.call(IMG.random_shift, [x, lens, (PL, PR), "constant", VAL, training], {})
        I.ex.ghost.update(x=x, lens=lens, calls=calls)
        return out

    def post(p):
        if not api.returns(p) or not isinstance(p.value, tuple) or len(p.value) != 2:
            return False
        out, out_lens = p.value
        g = p.ghost
        if not training:
            return [("evaluation_mode_is_the_identity", z3.BoolVal(out is g["x"] and out_lens is g["lens"] and not g["calls"]))]
        if len(g["calls"]) != 1:
            return [("pads_through_pad_variable_once", z3.BoolVal(False))]
        a = g["calls"][0]
        pad = a[2]
        ok_args = a[0] is g["x"] and a[1] is g["lens"] and isinstance(pad, ct.CT) and tuple(pad.shape) == (2, 1) and a[3] == "constant" and a[4] is VAL and isinstance(out, tuple) and out[1] is g["x"]
        if not ok_args:
            return [("pad_variable_receives_input_lengths_amounts_mode_value", z3.BoolVal(False))]
        l, r = ip.to_z3(pad.a[0, 0]), ip.to_z3(pad.a[1, 0])
        Lr = z3.ToReal(LEN)
        return [("pad_variable_receives_input_lengths_amounts_mode_value", z3.BoolVal(True)),
                ("left_amount_is_a_whole_number_in_range", z3.And(z3.is_int(l), l >= 0, z3.ToReal(l) <= PL * Lr, z3.Implies(PL * Lr > 0, z3.ToReal(l) < PL * Lr))),
                ("right_amount_is_a_whole_number_in_range", z3.And(z3.is_int(r), r >= 0, z3.ToReal(r) <= PR * Lr, z3.Implies(PR * Lr > 0, z3.ToReal(r) < PR * Lr))),
                ("reported_length", ip.to_z3(out_lens.a[0]) == LEN + l + r)]

    return VC("C09.P.shift_amounts", name, "pydrobert.torch._img", "random_shift", thunk, pre=[LEN >= 0, PL >= 0, PR >= 0, U0 >= 0, U0 < 1, U1 >= 0, U1 < 1],
              posts=[("shift_bounds", post)], inputs={"length": LEN, "prop_left": PL, "prop_right": PR, "u_left": U0, "u_right": U1},
              twins=[("amounts_may_reach_the_proportion", lambda p: (ip.to_z3(p.ghost["calls"][0][2].a[0, 0]) >= 1) if api.returns(p) and p.ghost["calls"] else None)] if training else [],
              assumptions=["torch.rand_like yields values in [0, 1); one generic batch element (the amounts are computed element-wise); pad_variable is replaced by a recording contract (its own behaviour: C09.pad.* bounded clauses)",
                           "float arithmetic treated as real arithmetic (lengths * proportion exact)"])


def p_vcs(ctx):
    return [shift_vc(True), shift_vc(False)]


def vcs(ctx):
    shapes = [(1, 2, 0), (2, 2, 0), (1, 3, 2)] if ctx.quick else [(1, 1, 0), (1, 2, 0), (2, 2, 0), (2, 3, 0), (1, 3, 2), (2, 2, 2)]
    return [masked_vc(N, T, F, bf) for (N, T, F) in shapes for bf in (False, True)]
