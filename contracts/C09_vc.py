"""C09, engine A part (S rung): pad_masked_sequence on symbolic contents and masks.

The real source (lens = mask.sum, prefix mask, masked_select -> masked_scatter) is executed symbolically; proved for
all contents and ALL masks: lens = number of selected elements per row; each row = the selected elements in order,
then the padding value."""
import z3

from vf.pyvc import api, ctensor as ct, interp as ip
from vf.pyvc.api import VC

M = "pydrobert.torch._pad"


def masked_vc(N, T, F, batch_first):
    import pydrobert.torch._pad as P

    name = "N%dT%dF%d[bf=%s]" % (N, T, F, batch_first)
    PADV = z3.Real("padding_value")

    def thunk(I):
        x = ct.CT.symbolic("x", (N, T) + ((F,) if F else ()), "float")
        m = ct.CT.symbolic("m", (N, T), "bool")
        I.ex.ghost.update(x=x, m=m)
        a, b = (x, m) if batch_first else (ct.CT(ct.np.swapaxes(x.a, 0, 1).copy(), "float"), ct.CT(m.a.T.copy(), "bool"))
        return I.call(P.pad_masked_sequence, [a, b, batch_first, PADV], {})

    def post(p):
        if not api.returns(p) or not isinstance(p.value, tuple):
            return False
        out, lens = p.value
        x, m = p.ghost["x"], p.ghost["m"]
        o = out.a if batch_first else ct.np.swapaxes(out.a, 0, 1)
        goals = []
        for n in range(N):
            acc, before = z3.IntVal(0), []
            for t in range(T):
                before.append(acc)
                acc = acc + z3.If(m.a[n, t], 1, 0)
            goals.append(("n%d.len" % n, ip.to_z3(lens.a[n]) == acc))
            for q in range(T):
                cell = [o[n, q, f] for f in range(F)] if F else [o[n, q]]
                goals.append(("n%d.slot%d.pad" % (n, q), z3.Implies(q >= acc, z3.And([ip.to_z3(c) == PADV for c in cell]))))
                for t in range(T):
                    src = [x.a[n, t, f] for f in range(F)] if F else [x.a[n, t]]
                    goals.append(("n%d.slot%d.from%d" % (n, q, t), z3.Implies(z3.And(m.a[n, t], before[t] == q), z3.And([ip.to_z3(c) == s for c, s in zip(cell, src)]))))
        return goals

    return VC("C09.S.masked_compaction", name, M, "pad_masked_sequence", thunk, posts=[("selected_in_order_then_padding", post)], inputs={},
              assumptions=["boolean-mask selection + masked_scatter = stable row-major compaction (vf/pyvc/ctensor.py, differentially tested)"])


def vcs(ctx):
    shapes = [(1, 2, 0), (2, 2, 0), (1, 3, 2)] if ctx.quick else [(1, 1, 0), (1, 2, 0), (2, 2, 0), (2, 3, 0), (1, 3, 2), (2, 2, 2)]
    return [masked_vc(N, T, F, bf) for (N, T, F) in shapes for bf in (False, True)]
