"""C09, engine A part (S rung): pad_masked_sequence on symbolic contents and masks.

The real source (lens = mask.sum, prefix mask, masked_select -> masked_scatter) is executed symbolically; proved for
all contents and ALL masks: lens = number of selected elements per row; each row = the selected elements in order,
then the padding value."""
import z3

from vf.pyvc import api, ctensor as ct, interp as ip
from vf.pyvc.api import VC

M = "pydrobert.torch._pad"


def masked_vc(N, T, F, batch_first):
    import pydrobert.torch._pad as P

    name = "N%dT%dF%d[bf=%s]" % (N, T, F, batch_first)
    PADV = z3.Real("padding_value")

    def thunk(I):
        x = ct.CT.symbolic("x", (N, T) + ((F,) if F else ()), "float")
        m = ct.CT.symbolic("m", (N, T), "bool")
        I.ex.ghost.update(x=x, m=m)
        a, b = (x, m) if batch_first else (ct.CT(ct.np.swapaxes(x.a, 0, 1).copy(), "float"), ct.CT(m.a.T.copy(), "bool"))
        return I.call(P.pad_masked_sequence, [a, b, batch_first, PADV], {})

    def post(p):
        if not api.returns(p) or not isinstance(p.value, tuple):
            return False
        out, lens = p.value
        x, m = p.ghost["x"], p.ghost["m"]
        o = out.a if batch_first else ct.np.swapaxes(out.a, 0, 1)
        goals = []
        for n in range(N):
            acc, before = z3.IntVal(0), []
            for t in range(T):
                before.append(acc)
                acc = acc + z3.If(m.a[n, t], 1, 0)
            goals.append(("n%d.len" % n, ip.to_z3(lens.a[n]) == acc))
            for q in range(T):
                cell = [o[n, q, f] for f in range(F)] if F else [o[n, q]]
                goals.append(("n%d.slot%d.pad" % (n, q), z3.Implies(q >= acc, z3.And([ip.to_z3(c) == PADV for c in cell]))))
                for t in range(T):
                    src = [x.a[n, t, f] for f in range(F)] if F else [x.a[n, t]]
                    goals.append(("n%d.slot%d.from%d" % (n, q, t), z3.Implies(z3.And(m.a[n, t], before[t] == q), z3.And([ip.to_z3(c) == s for c, s in zip(cell, src)]))))
        return goals

    return VC("C09.S.masked_compaction", name, M, "pad_masked_sequence", thunk, posts=[("selected_in_order_then_padding", post)], inputs={},
              assumptions=["boolean-mask selection + masked_scatter = stable row-major compaction (vf/pyvc/ctensor.py, differentially tested)"])



def window_pair_prover(I, N, F, LIN, lin_step, facts_at, sk0, sk1):
    """the reasoning shared by pad_variable and chunk_by_slices: a masked_select through a WINDOW mask (entry (n, t, f) masked iff
    lo(n) <= t < hi(n)) scattered through another window mask of the same width per sequence moves entry (n, t - shift(n) + lo_src(n), f)
    of the source to (n, t, f). Returns prove(tag, rec_src, rec_dst, (lo, hi) source, (lo, hi) destination, shift) which emits the
    obligations (windows checked against the code's masks; inductions over coefficients, frames, sequences) and registers the
    instances at the postcondition's skolem position sk0. sk1 = skolem position of the lemmas; facts_at(n) = the precondition at n."""
    N0, T0, F0 = sk0
    N1, T1, F1 = sk1
    a_, b_, c_ = z3.Ints("a_q b_q c_q")
    clamp = lambda v, lo, hi: z3.If(v < lo, lo, z3.If(v > hi, hi, v))

    def window_lemmas(tag, rec, lo, hi):
        ext = rec["dims"][1]
        for mx in I.ex.ghost.get("maxes", []):
            for y in (mx["ub"](N1), mx["ub"](N0)):
                I.ex.instance(y)
        I.ex.oblige("structure.compaction.%s.extents" % tag, z3.And(rec["dims"][0] == N, rec["dims"][2] == F))
        I.ex.oblige("compaction.%s.window_inside_the_extent" % tag, z3.Implies(z3.And(0 <= N1, N1 < N), z3.And(0 <= lo(N1), lo(N1) <= hi(N1), hi(N1) <= ext)))
        row = lambda n, t: z3.And(t >= lo(n), t < hi(n))
        mm = lambda n, t, f: z3.Implies(z3.And(0 <= n, n < N, 0 <= t, t < ext, 0 <= f, f < F), rec["mask"]([n, t, f]) == row(n, t))
        I.ex.oblige("compaction.%s.mask_is_the_window" % tag, mm(N1, T1, F1))
        I.ex.assume(z3.ForAll([a_, b_, c_], mm(a_, b_, c_)))
        cf, ct_ = rec["CNT"][2], rec["CNT"][1]
        lem = lambda n, t, f: z3.Implies(z3.And(0 <= n, n < N, 0 <= t, t < ext, 0 <= f, f <= F), cf(n, t, f) == z3.If(row(n, t), f, 0))
        for y in (rec["base"](2, [N1, T1]), rec["step"](2, [N1, T1], F1), mm(N1, T1, F1)):
            I.ex.instance(y)
        I.ex.oblige("compaction.%s.coefficients.base" % tag, lem(N1, T1, z3.IntVal(0)))
        I.ex.oblige("compaction.%s.coefficients.step" % tag, z3.Implies(z3.And(0 <= F1, F1 < F, lem(N1, T1, F1)), lem(N1, T1, F1 + 1)))
        I.ex.assume(z3.ForAll([a_, b_, c_], lem(a_, b_, c_)))
        cl = lambda n, t: z3.Implies(z3.And(0 <= n, n < N, 0 <= t, t <= ext), ct_(n, t) == LIN(clamp(t - lo(n), 0, hi(n) - lo(n))))
        for y in (rec["base"](1, [N1]), rec["step"](1, [N1], T1), lem(N1, T1, F), lin_step(clamp(T1 - lo(N1), 0, hi(N1) - lo(N1))), facts_at(N1)):
            I.ex.instance(y)
        I.ex.oblige("compaction.%s.frames.base" % tag, cl(N1, z3.IntVal(0)))
        I.ex.oblige("compaction.%s.frames.step" % tag, z3.Implies(z3.And(0 <= T1, T1 < ext, cl(N1, T1)), cl(N1, T1 + 1)))
        I.ex.assume(z3.ForAll([a_, b_], cl(a_, b_)))
        rec.update(lem_f=lem, lem_t=cl, mm=mm)
        return cl

    def prove(tag, rec1, rec2, src_win, dst_win, shift):
        (slo, shi), (dlo, dhi) = src_win, dst_win
        cl1 = window_lemmas(tag + ".source", rec1, slo, shi)
        cl2 = window_lemmas(tag + ".destination", rec2, dlo, dhi)
        c1, c2 = rec1["CNT"], rec2["CNT"]
        I.ex.oblige("compaction.%s.windows_have_one_width" % tag, z3.Implies(z3.And(0 <= N1, N1 < N), shi(N1) - slo(N1) == dhi(N1) - dlo(N1)))
        same = lambda n: z3.Implies(z3.And(0 <= n, n <= N), c1[0](n) == c2[0](n))
        for y in (rec1["base"](0, []), rec2["base"](0, []), rec1["step"](0, [], N1), rec2["step"](0, [], N1), cl1(N1, rec1["dims"][1]), cl2(N1, rec2["dims"][1]), facts_at(N1)):
            I.ex.instance(y)
        I.ex.oblige("compaction.%s.sequences.base" % tag, same(z3.IntVal(0)))
        I.ex.oblige("compaction.%s.sequences.step" % tag, z3.Implies(z3.And(0 <= N1, N1 < N, same(N1)), same(N1 + 1)))
        I.ex.assume(z3.ForAll([a_], same(a_)))
        I.ex.instance(same(N))
        src_pos = [N0, T0 - shift(N0) + slo(N0), F0]
        for y in (same(N0), cl1(N0, src_pos[1]), cl2(N0, T0), rec1["lem_f"](N0, src_pos[1], F0), rec2["lem_f"](N0, T0, F0), rec1["inj"](src_pos), rec1["mm"](*src_pos), rec2["mm"](N0, T0, F0), facts_at(N0)):
            I.ex.instance(y)

    prove.window_lemmas = window_lemmas
    return prove


def pad_p_vc(mode="constant"):
    """P rung: pad_variable for SYMBOLIC batch size N, sequence extent T, feature size F, lengths and pad amounts, per mode.
    masked_select / masked_scatter have the assumed row-major compaction contract of vf/pyvc/symtensor.py (one counter per dimension,
    defined by recurrences; the k-th selected entry is the entry with k masked entries before it). Every mask the function builds is
    a WINDOW mask - entry (n, t, f) is masked iff lo(n) <= t < hi(n) - and every masked_scatter pairs a destination window with a
    source window of the same width per sequence:
        the sequence itself:  source [0, len) of x             -> destination [left, left + len)
        left padding:         source [0, left) of the buffer   -> destination [0, left)                 (reflect / replicate)
        right padding:        source [0, right) of the buffer  -> destination [left + len, left + len + right)
    For each pair the sidecar proves, each by an explicit induction (base / step obligations, instances from the contract's builders):
      (f) inside one frame the number of masked coefficients below f is f (window masks do not depend on the coefficient);
      (t) inside one sequence the number of masked entries before frame t is F * clamp(t - lo, 0, hi - lo)
          (i * F is the function lin_F with lin_F(i + 1) = lin_F(i) + F);
      (n) the number of masked entries in the sequences before n is the same for source and destination;
    hence rank_source(n, t - shift, f) = rank_destination(n, t, f): the destination receives exactly the source's entry.
    Postcondition at a skolem (n0, t0, f0): out[n0, t0, f0] = x[n0, t0 - left, f0] inside the sequence; in the padding the constant,
    the reflected entry x[n0, left - t0] resp. x[n0, len - 2 - (t0 - left - len)], or the replicated end x[n0, 0] resp. x[n0, len - 1];
    `value` beyond the padded sequence; the output extent is max_n (len + left + right)."""
    import pydrobert.torch._pad as P
    from vf.pyvc import symtensor as stn

    z = ip.to_z3
    N, T, F, N0, T0, F0, N1, T1, F1 = z3.Ints("N T F n0 t0 f0 n1 t1 f1")
    VAL = z3.Real("value")
    Iz, Rz = z3.IntSort(), z3.RealSort()
    X, LENS, PADF = z3.Function("x", Iz, Iz, Iz, Rz), z3.Function("lens", Iz, Iz), z3.Function("pad", Iz, Iz, Iz)
    LIN = z3.Function("lin_F", Iz, Iz)
    L, PL, PR = (lambda n: LENS(n)), (lambda n: PADF(0, n)), (lambda n: PADF(1, n))
    clamp = lambda v, lo, hi: z3.If(v < lo, lo, z3.If(v > hi, hi, v))
    extra = {"constant": lambda n: z3.BoolVal(True), "reflect": lambda n: z3.And(PL(n) < L(n), PR(n) < L(n)), "replicate": lambda n: L(n) >= 1}[mode]
    lens_ok = lambda n: z3.Implies(z3.And(0 <= n, n < N), z3.And(0 <= L(n), L(n) <= T, PL(n) >= 0, PR(n) >= 0, extra(n)))
    lin_step = lambda i: LIN(i + 1) == LIN(i) + F
    n_, i_ = z3.Ints("n_q i_q")
    a_, b_, c_ = z3.Ints("a_q b_q c_q")
    zero = lambda n: z3.IntVal(0)
    # (source window, destination window, shift destination -> source frame) of the scatters, in the order the function performs them
    pairs = [("sequence", (zero, L), (PL, lambda n: PL(n) + L(n)), PL)]
    if mode != "constant":
        pairs += [("left_padding", (zero, PL), (zero, PL), zero), ("right_padding", (zero, PR), (lambda n: PL(n) + L(n), lambda n: PL(n) + L(n) + PR(n)), lambda n: PL(n) + L(n))]
    name = "pad_variable[%s; symbolic N, T, F, lengths, pads]" % mode

    def thunk(I):
        I.stubs.update(stn.stubs())
        I.ex.ghost["unroll_small_sums"] = True  # pad.sum(0) runs over the two sides
        x = stn.ST((N, T, F), lambda a, b, c: X(z(a), z(b), z(c)), "float")
        lens = stn.ST((N,), lambda a: LENS(z(a)), "long")
        pad = stn.ST((2, N), lambda a, b: PADF(z(a), z(b)), "long")
        for y in (lens_ok(N0), lens_ok(N1)):
            I.ex.instance(y)
        I.ex.ghost["any_points"] = {1: [(N0,), (N1,)]}
        done = []

        def skolem_hook(ii):  # in-bounds obligations of gather: the lengths at the new position
            return [lens_ok(a) for a in ii]

        prove_pair = window_pair_prover(I, N, F, LIN, lin_step, lens_ok, (N0, T0, F0), (N1, T1, F1))

        def hook(rec2, src):
            """at a scatter: the inductions for its pair of windows, then the instances the postcondition needs"""
            rec1 = getattr(src, "compaction", None)
            if rec1 is None or rec1["rank_"] != 3 or rec2["rank_"] != 3 or len(done) >= len(pairs):
                raise ip.Unsupported("a masked_scatter the contract does not know (source must be a masked_select of a rank-3 tensor; %d scatters in mode %s)" % (len(pairs), mode))
            tag, src_win, dst_win, shift = pairs[len(done)]
            if not done:
                I.ex.ghost["Tp"] = rec2["dims"][1]
            prove_pair(tag, rec1, rec2, src_win, dst_win, shift)
            done.append(tag)
            I.ex.ghost["scatters_done"] = len(done)

        I.ex.ghost["scatter_hooks"] = [hook]
        I.ex.ghost["skolem_hooks"] = [skolem_hook]
        return I.call(P.pad_variable, [x, lens, pad, mode, VAL], {})

    def post(p):
        if not api.returns(p) or not hasattr(p.value, "elem") or "Tp" not in p.ghost:
            return False
        out, TP = p.value, p.ghost["Tp"]
        if p.ghost.get("scatters_done") != len(pairs):
            return [("every_scatter_of_the_mode_was_performed", z3.BoolVal(False))]
        mx = [m for m in p.ghost.get("maxes", []) if z3.eq(z3.simplify(m["max"] - TP), z3.IntVal(0))]
        if len(mx) != 1:
            return [("one_maximum_for_the_output_extent", z3.BoolVal(False))]
        w = mx[0]["argmax"]
        at = z3.And(0 <= N0, N0 < N, 0 <= T0, T0 < TP, 0 <= F0, F0 < F)
        lo, hi = PL(N0), PL(N0) + L(N0)
        o = z(out.elem(N0, T0, F0))
        left = {"constant": VAL, "reflect": X(N0, PL(N0) - T0, F0), "replicate": X(N0, 0, F0)}[mode]
        right = {"constant": VAL, "reflect": X(N0, L(N0) - 2 - (T0 - hi), F0), "replicate": X(N0, L(N0) - 1, F0)}[mode]
        return [("result_shape", z3.And(z3.BoolVal(len(out.shape) == 3), z(out.shape[0]) == N, z(out.shape[1]) == TP, z(out.shape[2]) == F)),
                ("output_extent_is_the_longest_padded_sequence", z3.And(z3.Implies(z3.And(0 <= N0, N0 < N), TP >= L(N0) + PL(N0) + PR(N0)), 0 <= w, w < N, TP == L(w) + PL(w) + PR(w))),
                ("sequence_copied_behind_its_left_padding", z3.Implies(z3.And(at, T0 >= lo, T0 < hi), o == X(N0, T0 - lo, F0))),
                ("left_padding", z3.Implies(z3.And(at, T0 < lo), o == left)),
                ("right_padding", z3.Implies(z3.And(at, T0 >= hi, T0 < hi + PR(N0)), o == right)),
                ("beyond_the_padded_sequence_is_the_padding_value", z3.Implies(z3.And(at, T0 >= hi + PR(N0)), o == VAL))]

    pre = [N >= 1, T >= 0, F >= 1, z3.ForAll([n_], lens_ok(n_)), LIN(0) == 0, z3.ForAll([i_], lin_step(i_))]
    return VC("C09.P.pad_variable", name, M, "pad_variable", thunk, pre=pre, posts=[("per_sequence_pad", post)], inputs={"N": N, "T": T, "F": F}, timeout_ms=40000, max_paths=64,
              witness_hints=[N == 1, T == 2, F == 1],
              assumptions=["masked_select / masked_scatter = stable row-major compaction, stated through per-dimension counters (assumed contract of vf/pyvc/symtensor.py, differentially tested against torch); max over a vector = an attained upper bound, any = exists (assumed contracts)",
                           "lengths within [0, T], pad amounts non-negative (reflect: both pads below the length; replicate: length at least 1 - the function raises otherwise): preconditions; lin_F(i) = i * F by its recurrence (definition)",
                           "the inductions (coefficients, frames, sequences - per pair of windows) are applied outside the solver: base and step are obligations",
                           "values are moved, not computed: no float arithmetic involved"])


def chunk_p_vc(mode="constant"):
    """`mode` = 'replicate': three select -> scatter pairs (left padding, right padding, then the slice entries), lengths >= 1; inside the
    reported length the chunk is the slice of the replicate-padded sequence: x[n, clamp(start + t, 0, len - 1), f].
    P rung: chunk_by_slices (constant mode, lengths given) for SYMBOLIC batch size, extent, feature size, lengths and slice bounds -
    any bounds: negative starts, ends beyond the length, empty and inverted slices. Same compaction contracts and the same
    window-pair reasoning as pad_variable: source window = the part of the slice inside the sequence, [max(start, 0), min(end, len))
    (empty when that is inverted), destination window = [left, left + its width) with left = the frames the slice starts before the
    sequence. Postcondition at a skolem (n0, t0, f0): the reported length is max(end - start, 0); below it, out[n0, t0, f0] is
    x[n0, start + t0, f0] when 0 <= start + t0 < len and `value` otherwise (the slice of the constant-padded sequence); from the
    reported length on, `value`; the output extent covers every reported length."""
    import pydrobert.torch._pad as P
    from vf.pyvc import symtensor as stn

    z = ip.to_z3
    N, T, F, N0, T0, F0, N1, T1, F1 = z3.Ints("N T F n0 t0 f0 n1 t1 f1")
    VAL = z3.Real("value")
    Iz, Rz = z3.IntSort(), z3.RealSort()
    X, LENS, SL = z3.Function("x", Iz, Iz, Iz, Rz), z3.Function("lens", Iz, Iz), z3.Function("slices", Iz, Iz, Iz)
    LIN = z3.Function("lin_F", Iz, Iz)
    mx_ = lambda a, b: z3.If(a >= b, a, b)
    mn_ = lambda a, b: z3.If(a <= b, a, b)
    ST_, EN = (lambda n: SL(n, 0)), (lambda n: SL(n, 1))
    L = lambda n: LENS(n)
    s0 = lambda n: mx_(ST_(n), 0)
    e0 = lambda n: mn_(EN(n), L(n))
    nonempty_src = lambda n: e0(n) > s0(n)
    slo = lambda n: z3.If(nonempty_src(n), s0(n), 0)
    shi = lambda n: z3.If(nonempty_src(n), e0(n), 0)
    CL = lambda n: mx_(EN(n) - ST_(n), 0)
    LP = lambda n: z3.If(CL(n) == 0, 0, mx_(-ST_(n), 0))
    WID = lambda n: mx_(e0(n) - s0(n), 0)
    dlo, dhi = LP, (lambda n: LP(n) + WID(n))
    lens_ok = lambda n: z3.Implies(z3.And(0 <= n, n < N), z3.And((1 if mode == "replicate" else 0) <= L(n), L(n) <= T))
    lin_step = lambda i: LIN(i + 1) == LIN(i) + F
    n_, i_ = z3.Ints("n_q i_q")
    RP = lambda n: z3.If(CL(n) == 0, 0, mx_(EN(n) - L(n), 0))
    zero = lambda n: z3.IntVal(0)
    pairs = [("slice", (slo, shi), (dlo, dhi), dlo)]
    if mode == "replicate":
        pairs = [("left_padding", (zero, LP), (zero, LP), zero), ("right_padding", (zero, RP), (dhi, lambda n: dhi(n) + RP(n)), dhi)] + pairs

    def thunk(I):
        I.stubs.update(stn.stubs())
        x = stn.ST((N, T, F), lambda a, b, c: X(z(a), z(b), z(c)), "float")
        lens = stn.ST((N,), lambda a: LENS(z(a)), "long")
        slices = stn.ST((N, 2), lambda a, b: SL(z(a), z(b)), "long")
        for y in (lens_ok(N0), lens_ok(N1)):
            I.ex.instance(y)
        I.ex.ghost["any_points"] = {1: [(N0,), (N1,)]}
        prove_pair = window_pair_prover(I, N, F, LIN, lin_step, lens_ok, (N0, T0, F0), (N1, T1, F1))
        done = []

        def hook(rec2, src):
            rec1 = getattr(src, "compaction", None)
            if rec1 is None or rec1["rank_"] != 3 or rec2["rank_"] != 3 or len(done) >= len(pairs):
                raise ip.Unsupported("a masked_scatter the contract does not know (mode %s performs %d, each of a masked_select of a rank-3 tensor)" % (mode, len(pairs)))
            tag, src_win, dst_win, shift = pairs[len(done)]
            I.ex.ghost["Tp"] = rec2["dims"][1]
            prove_pair(tag, rec1, rec2, src_win, dst_win, shift)
            done.append(tag)
            I.ex.ghost["scatters_done"] = len(done)

        I.ex.ghost["scatter_hooks"] = [hook]
        I.ex.ghost["skolem_hooks"] = [lambda ii: [lens_ok(a) for a in ii]]
        return I.call(P.chunk_by_slices, [x, slices, lens, mode, VAL], {})

    def post(p):
        if not api.returns(p) or not isinstance(p.value, tuple) or len(p.value) != 2 or "Tp" not in p.ghost:
            return False
        out, clens = p.value
        TP = p.ghost["Tp"]
        if p.ghost.get("scatters_done") != len(pairs):
            return [("every_scatter_of_the_mode_was_performed", z3.BoolVal(False))]
        at = z3.And(0 <= N0, N0 < N, 0 <= T0, T0 < TP, 0 <= F0, F0 < F)
        o = z(out.elem(N0, T0, F0))
        j = ST_(N0) + T0
        if mode == "replicate":
            jc = z3.If(j < 0, 0, z3.If(j > L(N0) - 1, L(N0) - 1, j))
            return [("result_shape", z3.And(z3.BoolVal(len(out.shape) == 3 and len(clens.shape) == 1), z(out.shape[0]) == N, z(out.shape[1]) == TP, z(out.shape[2]) == F, z(clens.shape[0]) == N)),
                    ("reported_length_is_the_requested_one", z3.Implies(z3.And(0 <= N0, N0 < N), z3.And(z(clens.elem(N0)) == CL(N0), CL(N0) <= TP))),
                    ("chunk_is_the_slice_of_the_replicate_padded_sequence", z3.Implies(z3.And(at, T0 < CL(N0)), o == X(N0, jc, F0)))]
        return [("result_shape", z3.And(z3.BoolVal(len(out.shape) == 3 and len(clens.shape) == 1), z(out.shape[0]) == N, z(out.shape[1]) == TP, z(out.shape[2]) == F, z(clens.shape[0]) == N)),
                ("reported_length_is_the_requested_one", z3.Implies(z3.And(0 <= N0, N0 < N), z3.And(z(clens.elem(N0)) == CL(N0), CL(N0) <= TP))),
                ("inside_the_sequence_the_slice_is_copied", z3.Implies(z3.And(at, T0 < CL(N0), 0 <= j, j < L(N0)), o == X(N0, j, F0))),
                ("outside_the_sequence_the_padding_value", z3.Implies(z3.And(at, T0 < CL(N0), z3.Not(z3.And(0 <= j, j < L(N0)))), o == VAL)),
                ("beyond_the_reported_length_the_padding_value", z3.Implies(z3.And(at, T0 >= CL(N0)), o == VAL))]

    pre = [N >= 1, T >= 0, F >= 1, z3.ForAll([n_], lens_ok(n_)), LIN(0) == 0, z3.ForAll([i_], lin_step(i_))]
    return VC("C09.P.chunk_by_slices", "chunk_by_slices[%s; symbolic N, T, F, lengths, slice bounds]" % mode, M, "chunk_by_slices", thunk, pre=pre, posts=[("per_sequence_slice", post)],
              inputs={"N": N, "T": T, "F": F}, timeout_ms=40000, max_paths=64, witness_hints=[N == 1, T == 2, F == 1],
              assumptions=["masked_select / masked_scatter = stable row-major compaction, stated through per-dimension counters (assumed contract of vf/pyvc/symtensor.py, differentially tested against torch); max over a vector = an attained upper bound (assumed contract)",
                           "lengths within [0, T]: precondition; slice bounds arbitrary integers; lin_F(i) = i * F by its recurrence (definition)",
                           "the inductions (coefficients, frames, sequences) are applied outside the solver: base and step are obligations",
                           "modes 'constant' and 'replicate' (lengths >= 1 there - the function raises otherwise) with lengths given (reflect and omitted lengths: bounded driver); values are moved, not computed"])


def prove_prefix_compaction(I, rec1, rec2, sm, N, T, F, LIN, lin_step, MASK, sk0, sk1, prove):
    """masked_select through an ARBITRARY mask MASK(n, t) (independent of the last coordinate) scattered into the prefix windows
    [0, cnt(n, T)), where cnt(n, t) = the partial sums `sm` of the code's own count of the mask: emits the obligations (the code's masks
    are these; count range and growth, coefficients, frames, sequences - each an induction) and registers the instances for the
    postcondition at sk0 = (n0, t0, f0, q0). Returns cnt."""
    N0, T0, F0, Q0 = sk0
    N1, T1, F1 = sk1
    a_, b_, c_ = z3.Ints("a_q b_q c_q")
    PS = sm["S"]
    I.ex.oblige("structure.compaction.count_runs_over_the_frames", z3.And(sm["T"] == T, rec1["dims"][0] == N, rec1["dims"][1] == T, rec1["dims"][2] == F))
    I.ex.oblige("compaction.counted_value_is_the_mask", z3.Implies(z3.And(0 <= N1, N1 < N, 0 <= T1, T1 < T), sm["val"]([N1], T1) == z3.If(MASK(N1, T1), 1, 0)))
    cv = lambda n, t: z3.Implies(z3.And(0 <= n, n < N, 0 <= t, t < T), sm["val"]([n], t) == z3.If(MASK(n, t), 1, 0))
    I.ex.assume(z3.ForAll([a_, b_], cv(a_, b_)))
    for y in (sm["base"](N1), sm["step"](N1, T1), cv(N1, T1), sm["base"](N0), cv(N0, T0), sm["step"](N0, T0)):
        I.ex.instance(y)
    # 0 <= cnt(n, t) <= t
    rng = lambda n, t: z3.Implies(z3.And(0 <= n, n < N, 0 <= t, t <= T), z3.And(0 <= PS(n, t), PS(n, t) <= t))
    I.ex.oblige("count.range.base", rng(N1, z3.IntVal(0)))
    I.ex.oblige("count.range.step", z3.Implies(z3.And(0 <= T1, T1 < T, rng(N1, T1)), rng(N1, T1 + 1)))
    I.ex.assume(z3.ForAll([a_, b_], rng(a_, b_)))
    # cnt(n0, t) > cnt(n0, t0) for t > t0 when frame t0 is selected
    later = lambda t: z3.Implies(z3.And(0 <= N0, N0 < N, 0 <= T0, T0 < t, t <= T, MASK(N0, T0)), PS(N0, t) >= PS(N0, T0) + 1)
    I.ex.instance(sm["step"](N0, T1))
    I.ex.instance(cv(N0, T1))
    I.ex.oblige("count.grows_after_a_selected_frame.base", later(T0 + 1))
    I.ex.oblige("count.grows_after_a_selected_frame.step", z3.Implies(z3.And(T0 < T1, T1 < T, later(T1)), later(T1 + 1)))
    I.ex.assume(z3.ForAll([b_], later(b_)))
    for y in (later(T), rng(N0, T0), rng(N0, T), rng(N1, T), rng(N1, T1)):
        I.ex.instance(y)
    # source: arbitrary mask - coefficients, then frames against the partial sums
    mm = lambda n, t, f: z3.Implies(z3.And(0 <= n, n < N, 0 <= t, t < T, 0 <= f, f < F), rec1["mask"]([n, t, f]) == MASK(n, t))
    I.ex.oblige("compaction.source.mask_is_the_given_mask", mm(N1, T1, F1))
    I.ex.assume(z3.ForAll([a_, b_, c_], mm(a_, b_, c_)))
    cf, ctt = rec1["CNT"][2], rec1["CNT"][1]
    lem = lambda n, t, f: z3.Implies(z3.And(0 <= n, n < N, 0 <= t, t < T, 0 <= f, f <= F), cf(n, t, f) == z3.If(MASK(n, t), f, 0))
    for y in (rec1["base"](2, [N1, T1]), rec1["step"](2, [N1, T1], F1), mm(N1, T1, F1)):
        I.ex.instance(y)
    I.ex.oblige("compaction.source.coefficients.base", lem(N1, T1, z3.IntVal(0)))
    I.ex.oblige("compaction.source.coefficients.step", z3.Implies(z3.And(0 <= F1, F1 < F, lem(N1, T1, F1)), lem(N1, T1, F1 + 1)))
    I.ex.assume(z3.ForAll([a_, b_, c_], lem(a_, b_, c_)))
    cl1 = lambda n, t: z3.Implies(z3.And(0 <= n, n < N, 0 <= t, t <= T), ctt(n, t) == LIN(PS(n, t)))
    for y in (rec1["base"](1, [N1]), rec1["step"](1, [N1], T1), lem(N1, T1, F), lin_step(PS(N1, T1))):
        I.ex.instance(y)
    I.ex.oblige("compaction.source.frames.base", cl1(N1, z3.IntVal(0)))
    I.ex.oblige("compaction.source.frames.step", z3.Implies(z3.And(0 <= T1, T1 < T, cl1(N1, T1)), cl1(N1, T1 + 1)))
    I.ex.assume(z3.ForAll([a_, b_], cl1(a_, b_)))
    rec1.update(lem_f=lem, lem_t=cl1, mm=mm)
    # destination: the window [0, lens); sequences; then the instances for the postcondition at (n0, q0 = cnt(n0, t0), f0)
    lens_ = lambda n: PS(n, T)
    cl2 = prove.window_lemmas("destination", rec2, (lambda n: z3.IntVal(0)), lens_)
    c1, c2 = rec1["CNT"], rec2["CNT"]
    same = lambda n: z3.Implies(z3.And(0 <= n, n <= N), c1[0](n) == c2[0](n))
    for y in (rec1["base"](0, []), rec2["base"](0, []), rec1["step"](0, [], N1), rec2["step"](0, [], N1), cl1(N1, T), cl2(N1, rec2["dims"][1])):
        I.ex.instance(y)
    I.ex.oblige("structure.compaction.destination.extent", rec2["dims"][1] == T)
    I.ex.oblige("compaction.sequences.base", same(z3.IntVal(0)))
    I.ex.oblige("compaction.sequences.step", z3.Implies(z3.And(0 <= N1, N1 < N, same(N1)), same(N1 + 1)))
    I.ex.assume(z3.ForAll([a_], same(a_)))
    q = PS(N0, T0)
    for y in (same(N), same(N0), cl1(N0, T0), cl2(N0, q), cl2(N0, Q0), lem(N0, T0, F0), rec2["lem_f"](N0, q, F0), rec2["lem_f"](N0, Q0, F0), rec1["inj"]([N0, T0, F0]), mm(N0, T0, F0),
              rec2["mm"](N0, q, F0), rec2["mm"](N0, Q0, F0)):
        I.ex.instance(y)

    return PS


def masked_p_vc(batch_first):
    """P rung: pad_masked_sequence for SYMBOLIC batch size, extent, feature size and ANY mask. With cnt(n, t) = number of selected
    frames of sequence n before t (the partial sums of the code's own `mask.sum(1)`, assumed partial-sum contract):
        lens[n] = cnt(n, T);   every selected frame t lands at position cnt(n, t):  out[n, cnt(n, t), f] = x[n, t, f];
        out[n, q, f] = padding value for q >= lens[n]
    (positions below lens[n] are all hit: cnt grows by one at every selected frame). Compaction contracts as in pad_variable; the
    source mask is arbitrary, so its frame counter is F * cnt(n, t) (induction over t against the partial sums), the destination is
    the window [0, lens[n]); further lemmas by induction: 0 <= cnt(n, t) <= t and cnt(n, t) > cnt(n, t0) for t > t0 selected."""
    import pydrobert.torch._pad as P
    from vf.pyvc import symtensor as stn

    z = ip.to_z3
    N, T, F, N0, T0, F0, N1, T1, F1, Q0 = z3.Ints("N T F n0 t0 f0 n1 t1 f1 q0")
    PADV = z3.Real("padding_value")
    Iz, Rz, Bz = z3.IntSort(), z3.RealSort(), z3.BoolSort()
    X, MASK = z3.Function("x", Iz, Iz, Iz, Rz), z3.Function("mask", Iz, Iz, Bz)
    LIN = z3.Function("lin_F", Iz, Iz)
    lin_step = lambda i: LIN(i + 1) == LIN(i) + F
    i_ = z3.Int("i_q")
    a_, b_, c_ = z3.Ints("a_q b_q c_q")
    true_at = lambda n: z3.BoolVal(True)

    def thunk(I):
        I.stubs.update(stn.stubs())
        xe = (lambda a, b, c: X(z(a), z(b), z(c))) if batch_first else (lambda b, a, c: X(z(a), z(b), z(c)))
        me = (lambda a, b: MASK(z(a), z(b))) if batch_first else (lambda b, a: MASK(z(a), z(b)))
        x = stn.ST((N, T, F) if batch_first else (T, N, F), xe, "float")
        m = stn.ST((N, T) if batch_first else (T, N), me, "bool")
        prove = window_pair_prover(I, N, F, LIN, lin_step, true_at, (N0, Q0, F0), (N1, T1, F1))

        def hook(rec2, src):
            rec1 = getattr(src, "compaction", None)
            sums = [s_ for s_ in I.ex.ghost.get("sums", []) if s_.get("kind") == "sum"]
            if rec1 is None or rec1["rank_"] != 3 or rec2["rank_"] != 3 or len(sums) != 1 or "cnt" in I.ex.ghost:
                raise ip.Unsupported("pad_masked_sequence: one mask.sum and one scatter of a masked_select of a rank-3 tensor expected")
            I.ex.ghost["cnt"] = prove_prefix_compaction(I, rec1, rec2, sums[0], N, T, F, LIN, lin_step, MASK, (N0, T0, F0, Q0), (N1, T1, F1), prove)

        I.ex.ghost["scatter_hooks"] = [hook]
        return I.call(P.pad_masked_sequence, [x, m, batch_first, PADV], {})

    def post(p):
        if not api.returns(p) or not isinstance(p.value, tuple) or len(p.value) != 2 or "cnt" not in p.ghost:
            return False
        out, lens = p.value
        PS = p.ghost["cnt"]
        oe = (lambda n, t, f: z(out.elem(n, t, f))) if batch_first else (lambda n, t, f: z(out.elem(t, n, f)))
        shp = (N, T, F) if batch_first else (T, N, F)
        at = z3.And(0 <= N0, N0 < N, 0 <= F0, F0 < F)
        return [("result_shape", z3.And(z3.BoolVal(len(out.shape) == 3 and len(lens.shape) == 1), z3.And([z(a) == b for a, b in zip(out.shape, shp)]), z(lens.shape[0]) == N)),
                ("reported_length_is_the_number_of_selected_frames", z3.Implies(z3.And(0 <= N0, N0 < N), z(lens.elem(N0)) == PS(N0, T))),
                ("selected_frame_lands_at_its_count", z3.Implies(z3.And(at, 0 <= T0, T0 < T, MASK(N0, T0)), z3.And(PS(N0, T0) < PS(N0, T), oe(N0, PS(N0, T0), F0) == X(N0, T0, F0)))),
                ("padding_from_the_reported_length_on", z3.Implies(z3.And(at, PS(N0, T) <= Q0, Q0 < T), oe(N0, Q0, F0) == PADV))]

    pre = [N >= 1, T >= 0, F >= 1, LIN(0) == 0, z3.ForAll([i_], lin_step(i_))]
    return VC("C09.P.pad_masked_sequence", "pad_masked_sequence[batch_first=%s; symbolic N, T, F, any mask]" % batch_first, M, "pad_masked_sequence", thunk, pre=pre, posts=[("selected_in_order_then_padding", post)],
              inputs={"N": N, "T": T, "F": F}, timeout_ms=40000, max_paths=64, witness_hints=[N == 1, T == 2, F == 1],
              assumptions=["masked_select / masked_scatter = stable row-major compaction through per-dimension counters, sum over a symbolic extent = partial sums (assumed contracts of vf/pyvc/symtensor.py, differentially tested against torch)",
                           "cnt(n, t) = the partial sums of the code's mask.sum(1) (checked: the summand is the mask); lin_F(i) = i * F by its recurrence (definition)",
                           "the inductions (count range, count growth, coefficients, frames, sequences) are applied outside the solver: base and step are obligations",
                           "one trailing feature dimension; values are moved, not computed"])


def masked_p_vcs(ctx):
    return [masked_p_vc(True), masked_p_vc(False)]


def pad_p_vcs(ctx):
    return [pad_p_vc("constant"), pad_p_vc("reflect"), pad_p_vc("replicate")]


def chunk_p_vcs(ctx):
    return [chunk_p_vc("constant"), chunk_p_vc("replicate")]


def shift_vc(training):
    """P rung: random_shift for a generic batch element of SYMBOLIC length and symbolic proportions: each side gets a non-negative
    whole number of elements below proportion * length; the reported length is the old one plus both; the padding itself is
    delegated to pad_variable with exactly (input, lengths, amounts, mode, value); evaluation mode is the identity."""
    import pydrobert.torch._img as IMG

    LEN = z3.Int("length")
    PL, PR, U0, U1, VAL = z3.Reals("prop_left prop_right u_left u_right value")
    name = "random_shift[symbolic length and proportions; training=%s]" % training

    class Input:
        def __vc_getattr__(self, I, nm):
            me = self

            class M_:
                def __vc_call__(s, I2, a, k):
                    return 3 if nm == "dim" else (1 if (nm == "size" and a and a[0] == 0) else ip.Opaque("input.%s" % nm))

            if nm in ("dim", "size"):
                return M_()
            if nm == "shape":
                return (1, 7, 2)
            raise ip.Unsupported("input.%s" % nm)

    def thunk(I):
        x = Input()
        lens = ct.CT(ct.obj_array(LEN, (1,)), "long")
        calls = []

        def rand_like(I2, t, **k):
            a = ct.obj_array(0, t.shape)
            a[0, 0], a[1, 0] = U0, U1
            return ct.CT(a, "float")

        def pad_variable(I2, a, k):
            calls.append(a)
            return ("padded", a[0])

        I.stubs["torch.rand_like"] = rand_like
        I.contracts["pydrobert.torch._pad.pad_variable"] = pad_variable
        out = I.call(IMG.random_shift, [x, lens, (PL, PR), "constant", VAL, training], {})
        I.ex.ghost.update(x=x, lens=lens, calls=calls)
        return out

    def post(p):
        if not api.returns(p) or not isinstance(p.value, tuple) or len(p.value) != 2:
            return False
        out, out_lens = p.value
        g = p.ghost
        if not training:
            return [("evaluation_mode_is_the_identity", z3.BoolVal(out is g["x"] and out_lens is g["lens"] and not g["calls"]))]
        if len(g["calls"]) != 1:
            return [("pads_through_pad_variable_once", z3.BoolVal(False))]
        a = g["calls"][0]
        pad = a[2]
        ok_args = a[0] is g["x"] and a[1] is g["lens"] and isinstance(pad, ct.CT) and tuple(pad.shape) == (2, 1) and a[3] == "constant" and a[4] is VAL and isinstance(out, tuple) and out[1] is g["x"]
        if not ok_args:
            return [("pad_variable_receives_input_lengths_amounts_mode_value", z3.BoolVal(False))]
        l, r = ip.to_z3(pad.a[0, 0]), ip.to_z3(pad.a[1, 0])
        Lr = z3.ToReal(LEN)
        return [("pad_variable_receives_input_lengths_amounts_mode_value", z3.BoolVal(True)),
                ("left_amount_is_a_whole_number_in_range", z3.And(z3.is_int(l), l >= 0, z3.ToReal(l) <= PL * Lr, z3.Implies(PL * Lr > 0, z3.ToReal(l) < PL * Lr))),
                ("right_amount_is_a_whole_number_in_range", z3.And(z3.is_int(r), r >= 0, z3.ToReal(r) <= PR * Lr, z3.Implies(PR * Lr > 0, z3.ToReal(r) < PR * Lr))),
                ("reported_length", ip.to_z3(out_lens.a[0]) == LEN + l + r)]

    return VC("C09.P.shift_amounts", name, "pydrobert.torch._img", "random_shift", thunk, pre=[LEN >= 0, PL >= 0, PR >= 0, U0 >= 0, U0 < 1, U1 >= 0, U1 < 1],
              posts=[("shift_bounds", post)], inputs={"length": LEN, "prop_left": PL, "prop_right": PR, "u_left": U0, "u_right": U1},
              twins=[("amounts_may_reach_the_proportion", lambda p: (ip.to_z3(p.ghost["calls"][0][2].a[0, 0]) >= 1) if api.returns(p) and p.ghost["calls"] else None)] if training else [],
              assumptions=["torch.rand_like yields values in [0, 1); one generic batch element (the amounts are computed element-wise); pad_variable is replaced by a recording contract (its own behaviour: C09.pad.* bounded clauses)",
                           "float arithmetic treated as real arithmetic (lengths * proportion exact)"])


def p_vcs(ctx):
    return [shift_vc(True), shift_vc(False)]


def vcs(ctx):
    shapes = [(1, 2, 0), (2, 2, 0), (1, 3, 2)] if ctx.quick else [(1, 1, 0), (1, 2, 0), (2, 2, 0), (2, 3, 0), (1, 3, 2), (2, 2, 2)]
    return [masked_vc(N, T, F, bf) for (N, T, F) in shapes for bf in (False, True)]
