"""C09 - bounded run-time contracts (engine B) for variable-length padding, chunking, masked
compaction and the random-shift layer.

Real functions under contract (called through their public entry points):
  pydrobert.torch.functional.pad_variable / modules.PadVariable          (_pad.py)
  pydrobert.torch.functional.chunk_by_slices / modules.ChunkBySlices     (_pad.py)
  pydrobert.torch.functional.pad_masked_sequence / modules.PadMaskedSequence (_pad.py)
  pydrobert.torch.functional.random_shift / modules.RandomShift          (_img.py)

Oracle (written from the property text, pure Python on lists, no tensor code shared with the
library): take ONE sequence x[n, :len], pad it by the standard rule
  constant   every pad cell = value
  replicate  left cells = first element, right cells = last element
  reflect    cell at offset k (k >= 1) outside an end mirrors the element k steps inside it,
             the end element itself not repeated
then slice it. `pad_rule` below is additionally cross-checked against torch.nn.functional.pad
(guard clause C09.guard.oracle) so that "standard rule" means torch's.

Legal inputs (the property's quantifier): lens in 0..T; constant: any pad; replicate: lens >= 1,
any pad; reflect: every pad amount < that row's length (hence lens >= 1).  Illegal cases are never
generated; a checker handed one returns None (vacuous).
"""
import itertools
import random
import warnings

warnings.filterwarnings("ignore", category=FutureWarning, message=".*torch.jit.script.*")

MODES = ("constant", "reflect", "replicate")
VALUE = -1.0  # never occurs among the data (data are 1, 2, 3, ...)
VARIANTS = (  # (trailing dims, dtype, entry point)
    ([], "float32", "functional"),
    ([2], "float32", "module"),
    ([2, 1], "int64", "functional"),
)

# ---------------------------------------------------------------------------------------------
# the independent spec


def legal(mode, L, lp, rp):
    if mode == "constant":
        return True
    if mode == "replicate":
        return L >= 1
    return lp < L and rp < L  # reflect


def pad_rule(seq, lp, rp, mode, fill):
    """seq: list of items (the valid part of one sequence). Returns the padded list."""
    L = len(seq)
    out = []
    for i in range(-lp, L + rp):
        if 0 <= i < L:
            out.append(seq[i])
        elif mode == "constant":
            out.append(fill)
        elif mode == "replicate":
            out.append(seq[0] if i < 0 else seq[L - 1])
        else:  # reflect: mirror around the end element
            out.append(seq[-i] if i < 0 else seq[2 * (L - 1) - i])
    return out


def slice_rule(seq, s, e, mode, fill):
    """the chunk [s, e) of one sequence: pad as far as the slice reaches, then slice.
    Returns None when the needed pad is illegal for the mode."""
    L = len(seq)
    if e <= s:
        return []  # empty and inverted slices
    lp, rp = max(0, -s), max(0, e - L)
    if not legal(mode, L, lp, rp):
        return None
    return pad_rule(seq, lp, rp, mode, fill)[s + lp: e + lp]


def slice_legal(mode, L, s, e):
    if e <= s:
        return mode == "constant" or L >= 1  # nothing to pad; reflect/replicate still need a non-empty sequence
    return legal(mode, L, max(0, -s), max(0, e - L))


# ---------------------------------------------------------------------------------------------
# helpers


def _prod(rest):
    f = 1
    for r in rest:
        f *= r
    return f


def _mk_x(N, T, rest, dtype):
    """distinct values 1.. in every cell (also beyond lens, so a leak from the invalid part shows)"""
    import torch

    n = N * T * _prod(rest)
    x = torch.arange(1, n + 1, dtype=torch.int64).view([N, T] + list(rest))
    return x.to(getattr(torch, dtype))


def _rows(t, N):
    """(N, T, *) tensor -> list over n of list over t of flat item lists"""
    if t.numel() == 0:  # N == 0 or no time steps
        return [[] for _ in range(N)]
    return t.reshape(N, t.shape[1], _prod(t.shape[2:])).tolist()


def _fill(F, dtype, value=VALUE):
    return [int(value) if dtype.startswith("int") else float(value)] * F


def _shape_msg(out, x, N, need, what):
    if out.dtype != x.dtype:
        return "%s: dtype %s, input %s" % (what, out.dtype, x.dtype)
    if out.dim() != x.dim() or out.shape[0] != N or tuple(out.shape[2:]) != tuple(x.shape[2:]):
        return "%s: shape %s does not keep batch/trailing dims of %s" % (what, tuple(out.shape), tuple(x.shape))
    if out.shape[1] < need:
        return "%s: time dimension %d shorter than the longest requested row %d" % (what, out.shape[1], need)
    return None


# ---------------------------------------------------------------------------------------------
# C09.padvar.post


def check_padvar(case):
    """case: {mode, T, rest, dtype, via, lens[N], pad[2][N]}"""
    import torch
    from pydrobert.torch import functional as PF
    from pydrobert.torch import modules as PM

    mode, T, rest, dtype = case["mode"], case["T"], case.get("rest", []), case.get("dtype", "float32")
    lens, pad = case["lens"], case["pad"]
    N = len(lens)
    if any(not (0 <= L <= T) or not legal(mode, L, pad[0][n], pad[1][n]) for n, L in enumerate(lens)):
        return None
    x = _mk_x(N, T, rest, dtype)
    lens_t = torch.tensor(lens, dtype=torch.long)
    pad_t = torch.tensor(pad, dtype=torch.long).view(2, N)
    if case.get("via", "functional") == "module":
        out = PM.PadVariable(mode, VALUE)(x, lens_t, pad_t)
    else:
        out = PF.pad_variable(x, lens_t, pad_t, mode, VALUE)
    want_lens = [L + pad[0][n] + pad[1][n] for n, L in enumerate(lens)]
    msg = _shape_msg(out, x, N, max(want_lens, default=0), "pad_variable")
    if msg:
        return msg
    F = _prod(rest)
    xr, orr = _rows(x, N), _rows(out, N)
    fill = _fill(F, dtype)
    for n, L in enumerate(lens):
        want = pad_rule(xr[n][:L], pad[0][n], pad[1][n], mode, fill)
        got = orr[n][: want_lens[n]]
        if got != want:
            return "row %d (len %d, pad %d/%d, %s): got %s want %s" % (n, L, pad[0][n], pad[1][n], mode, got, want)
    return None


def _pad_rowcfgs(mode, T, pads):
    """every legal (L, lp, rp) with L in 0..T, lp, rp in pads"""
    out = []
    for L in range(T + 1):
        for lp in pads:
            for rp in pads:
                if legal(mode, L, lp, rp):
                    out.append((L, lp, rp))
    return out


def _padvar_case(mode, T, rows, variant=0):
    rest, dtype, via = VARIANTS[variant]
    return {"mode": mode, "T": T, "rest": rest, "dtype": dtype, "via": via, "lens": [r[0] for r in rows],
            "pad": [[r[1] for r in rows], [r[2] for r in rows]]}


def _reduced_pads(T):
    return sorted({0, 1, max(T - 1, 0), T, T + 1, 2 * T + 2})


def padvar_bound(ctx):
    if ctx.quick:
        return dict(t1=4, t2full=2, t2red=3, t3=2, nrand=0)
    return dict(t1=6, t2full=3, t2red=5, t3=3, nrand=30000)


def cases_padvar(ctx):
    b = padvar_bound(ctx)
    for mode in MODES:
        # the empty batch
        for T in (0, 2):
            yield {"mode": mode, "T": T, "rest": [], "dtype": "float32", "via": "functional", "lens": [], "pad": [[], []]}
        # single rows: every length, every pad 0..2T+2 (beyond the batch's time dimension), every variant
        for T in range(0, b["t1"] + 1):
            for row in _pad_rowcfgs(mode, T, range(0, 2 * T + 3)):
                for v in range(len(VARIANTS)):
                    yield _padvar_case(mode, T, [row], v)
        # ordered pairs of rows (batch interaction)
        for T in range(1, b["t2red"] + 1):
            pads = range(0, 2 * T + 3) if T <= b["t2full"] else _reduced_pads(T)
            cfgs = _pad_rowcfgs(mode, T, pads)
            for r0 in cfgs:
                for r1 in cfgs:
                    yield _padvar_case(mode, T, [r0, r1], 0)
        # triples over a reduced pad set
        for T in range(1, b["t3"] + 1):
            cfgs = _pad_rowcfgs(mode, T, sorted({0, 1, T + 1}))
            for rows in itertools.product(cfgs, repeat=3):
                yield _padvar_case(mode, T, list(rows), 1)
    rng = random.Random(ctx.seed * 7919 + 1)
    for _ in range(b["nrand"]):
        mode = rng.choice(MODES)
        N, T = rng.randint(1, 5), rng.randint(1, 9)
        rows = []
        for _n in range(N):
            L = rng.randint(0 if mode == "constant" else 1, T)
            hi = L - 1 if mode == "reflect" else 3 * T + 3
            rows.append((L, rng.randint(0, hi), rng.randint(0, hi)))
        yield _padvar_case(mode, T, rows, rng.randrange(len(VARIANTS)))


# ---------------------------------------------------------------------------------------------
# C09.chunk.post


def check_chunk(case):
    """case: {mode, T, rest, dtype, via, lens[N] or None, slices[N][2]}"""
    import torch
    from pydrobert.torch import functional as PF
    from pydrobert.torch import modules as PM

    mode, T, rest, dtype = case["mode"], case["T"], case.get("rest", []), case.get("dtype", "float32")
    slices = case["slices"]
    N = len(slices)
    lens = case["lens"] if case.get("lens") is not None else [T] * N
    if any(not (0 <= L <= T) or not slice_legal(mode, L, slices[n][0], slices[n][1]) for n, L in enumerate(lens)):
        return None
    x = _mk_x(N, T, rest, dtype)
    lens_t = None if case.get("lens") is None else torch.tensor(lens, dtype=torch.long)
    sl_t = torch.tensor(slices, dtype=torch.long).view(N, 2)
    if case.get("via", "functional") == "module":
        out, out_lens = PM.ChunkBySlices(mode, VALUE)(x, sl_t, lens_t)
    else:
        out, out_lens = PF.chunk_by_slices(x, sl_t, lens_t, mode, VALUE)
    want_lens = [max(e - s, 0) for s, e in slices]
    if tuple(out_lens.shape) != (N,) or out_lens.tolist() != want_lens:
        return "chunk lengths %s, requested %s (slices %s)" % (out_lens.tolist(), want_lens, slices)
    msg = _shape_msg(out, x, N, max(want_lens, default=0), "chunk_by_slices")
    if msg:
        return msg
    F = _prod(rest)
    xr, orr = _rows(x, N), _rows(out, N)
    fill = _fill(F, dtype)
    for n, L in enumerate(lens):
        s, e = slices[n]
        want = slice_rule(xr[n][:L], s, e, mode, fill)
        got = orr[n][: want_lens[n]]
        if got != want:
            return "row %d (len %d, slice [%d,%d), %s): got %s want %s" % (n, L, s, e, mode, got, want)
    return None


def _chunk_rowcfgs(mode, T, ends):
    out = []
    for L in range(T + 1):
        for s in ends:
            for e in ends:
                if slice_legal(mode, L, s, e):
                    out.append((L, s, e))
    return out


def _chunk_case(mode, T, rows, variant=0, lens_none=False):
    rest, dtype, via = VARIANTS[variant]
    return {"mode": mode, "T": T, "rest": rest, "dtype": dtype, "via": via, "lens": None if lens_none else [r[0] for r in rows],
            "slices": [[r[1], r[2]] for r in rows]}


def _kinds(T):
    """slice end points that realise, for some length, every kind named by the property: negative
    start, end beyond the length, wholly in the left / right padding (with an offset), exact, empty, inverted"""
    return sorted({-T - 1, -1, 0, T, T + 1, 2 * T - 1})


def chunk_bound(ctx):
    if ctx.quick:
        return dict(t1=4, t2full=2, t2red=3, t3=2, nrand=0)
    return dict(t1=6, t2full=2, t2red=4, t3=2, nrand=30000)


def cases_chunk(ctx):
    b = chunk_bound(ctx)
    for mode in MODES:
        for T in (0, 2):  # the empty batch
            yield {"mode": mode, "T": T, "rest": [], "dtype": "float32", "via": "functional", "lens": [], "slices": []}
        # single rows: every length, every slice in [-T-2, 2T+2]^2
        for T in range(0, b["t1"] + 1):
            for row in _chunk_rowcfgs(mode, T, range(-T - 2, 2 * T + 3)):
                for v in range(len(VARIANTS)):
                    yield _chunk_case(mode, T, [row], v)
                if row[0] == T:
                    yield _chunk_case(mode, T, [row], 0, lens_none=True)
        # ordered pairs
        for T in range(1, b["t2red"] + 1):
            ends = range(-T - 1, 2 * T + 1) if T <= b["t2full"] else _kinds(T)
            cfgs = _chunk_rowcfgs(mode, T, ends)
            for r0 in cfgs:
                for r1 in cfgs:
                    yield _chunk_case(mode, T, [r0, r1], 0)
        # triples over the kinds of slices
        for T in range(2, b["t3"] + 1):
            cfgs = _chunk_rowcfgs(mode, T, sorted({-1, T - 1, 2 * T - 1}))
            for rows in itertools.product(cfgs, repeat=3):
                yield _chunk_case(mode, T, list(rows), 1)
    rng = random.Random(ctx.seed * 7919 + 2)
    for _ in range(b["nrand"]):
        mode = rng.choice(MODES)
        N, T = rng.randint(1, 5), rng.randint(1, 9)
        rows = []
        while len(rows) < N:
            L = rng.randint(0 if mode == "constant" else 1, T)
            s, e = rng.randint(-2 * T - 2, 3 * T + 2), rng.randint(-2 * T - 2, 3 * T + 2)
            if mode == "reflect" and rng.random() < 0.8:  # aim at the legal window
                s, e = rng.randint(-L + 1, 2 * L - 1), rng.randint(-L + 1, 2 * L - 1)
            if slice_legal(mode, L, s, e):
                rows.append((L, s, e))
        full = all(r[0] == T for r in rows)
        yield _chunk_case(mode, T, rows, rng.randrange(len(VARIANTS)), lens_none=full and rng.random() < 0.5)


# ---------------------------------------------------------------------------------------------
# C09.masked.post


def check_masked(case):
    """case: {N, T, rest, dtype, via, batch_first, mask[N][T] of 0/1}"""
    import torch
    from pydrobert.torch import functional as PF
    from pydrobert.torch import modules as PM

    N, T, rest, dtype, bf = case["N"], case["T"], case.get("rest", []), case.get("dtype", "float32"), case["batch_first"]
    mask = case["mask"]
    x = _mk_x(N, T, rest, dtype)
    m = torch.tensor(mask, dtype=torch.bool).view(N, T)
    xin, min_ = (x, m) if bf else (x.transpose(0, 1), m.transpose(0, 1))
    if case.get("via", "functional") == "module":
        out, lens = PM.PadMaskedSequence(bf, VALUE)(xin, min_)
    else:
        out, lens = PF.pad_masked_sequence(xin, min_, bf, VALUE)
    if tuple(out.shape) != tuple(xin.shape) or out.dtype != x.dtype:
        return "output shape/dtype %s/%s differs from the input's %s/%s" % (tuple(out.shape), out.dtype, tuple(xin.shape), x.dtype)
    want_lens = [sum(1 for b in row if b) for row in mask]
    if tuple(lens.shape) != (N,) or lens.tolist() != want_lens:
        return "lens %s, want the per-row counts %s" % (lens.tolist(), want_lens)
    if not bf:
        out = out.transpose(0, 1)
    F = _prod(rest)
    xr, orr = _rows(x, N), _rows(out, N)
    fill = _fill(F, dtype)
    for n in range(N):
        want = [xr[n][t] for t in range(T) if mask[n][t]]
        want = want + [fill] * (T - len(want))
        if orr[n] != want:
            return "row %d mask %s: got %s want %s" % (n, mask[n], orr[n], want)
    return None


def masked_bound(ctx):
    return dict(bits=12, nmax=3, tmax=4, nrand=0) if ctx.quick else dict(bits=15, nmax=4, tmax=6, nrand=20000)


def cases_masked(ctx):
    b = masked_bound(ctx)
    for bf in (True, False):
        for T in (0, 3):
            yield {"N": 0, "T": T, "rest": [], "dtype": "float32", "via": "functional", "batch_first": bf, "mask": []}
        for N in range(1, b["nmax"] + 1):
            for T in range(0, b["tmax"] + 1):
                if N * T > b["bits"]:
                    continue
                for bits in itertools.product((0, 1), repeat=N * T):
                    mask = [list(bits[n * T:(n + 1) * T]) for n in range(N)]
                    for v in (0, 1) if N * T <= 9 else (sum(bits) % 2,):
                        rest, dtype, via = VARIANTS[v]
                        yield {"N": N, "T": T, "rest": rest, "dtype": dtype, "via": via, "batch_first": bf, "mask": mask}
    rng = random.Random(ctx.seed * 7919 + 3)
    for _ in range(b["nrand"]):
        N, T = rng.randint(1, 6), rng.randint(1, 12)
        p = rng.random()
        rest, dtype, via = VARIANTS[rng.randrange(len(VARIANTS))]
        yield {"N": N, "T": T, "rest": rest, "dtype": dtype, "via": via, "batch_first": rng.random() < 0.5,
               "mask": [[int(rng.random() < p) for _ in range(T)] for _ in range(N)]}


# ---------------------------------------------------------------------------------------------
# C09.shift.bounds


U_MAX = 1.0 - 2.0 ** -24  # the largest float32 below 1 (torch.rand draws from [0, 1))


def check_shift(case):
    """case: {api: module|functional, mode, prop: float | [left, right], T, rest, dtype, lens[N], training,
              u: 'rand' | 'zero' | 'half' | 'max', seed}
    u != 'rand' replaces the uniform draw torch.rand_like by that constant (the extreme draws)."""
    import torch
    from pydrobert.torch import functional as PF
    from pydrobert.torch import modules as PM

    import pydrobert.torch._img as IMG

    mode, T, rest, dtype = case["mode"], case["T"], case.get("rest", []), case.get("dtype", "float32")
    lens, prop, training = case["lens"], case["prop"], case["training"]
    N = len(lens)
    pl, pr = (prop, prop) if not isinstance(prop, (list, tuple)) else prop
    if any(not (0 <= L <= T) or (mode != "constant" and L < 1) for L in lens):
        return None
    if mode == "reflect" and max(pl, pr) > 1.0:
        return None  # documented: rejected at construction
    x = _mk_x(N, T, rest, dtype)
    lens_t = torch.tensor(lens, dtype=torch.long)
    torch.manual_seed(case.get("seed", 0))
    saved = torch.rand_like
    u = case.get("u", "rand")
    if u != "rand":
        uval = {"zero": 0.0, "half": 0.5, "max": U_MAX}[u]
        torch.rand_like = lambda t, *a, **k: torch.full_like(t, uval)
    # observe the pad amounts the layer hands to pad_variable (when it goes through its module-level name)
    seen = []
    saved_pv = IMG.pad_variable

    def spy(x_, lens_, pad_, *a, **k):
        seen.append((lens_.clone(), pad_.clone()))
        return saved_pv(x_, lens_, pad_, *a, **k)

    IMG.pad_variable = spy
    try:
        if case.get("api", "functional") == "module":
            layer = PM.RandomShift(tuple(prop) if isinstance(prop, list) else prop, mode, VALUE)
            layer.train(training)
            out, out_lens = layer(x, lens_t)
        else:
            out, out_lens = PF.random_shift(x, lens_t, (float(pl), float(pr)), mode, VALUE, training)
    finally:
        torch.rand_like = saved
        IMG.pad_variable = saved_pv
    if not training:
        if tuple(out.shape) != tuple(x.shape) or not torch.equal(out, x) or not torch.equal(out_lens, lens_t):
            return "evaluation mode is not the identity: out_lens %s vs %s, out shape %s vs %s" % (out_lens.tolist(), lens, tuple(out.shape), tuple(x.shape))
        return None
    if tuple(out_lens.shape) != (N,):
        return "out_lens has shape %s" % (tuple(out_lens.shape),)
    ol = out_lens.tolist()
    msg = _shape_msg(out, x, N, max(ol, default=0), "random_shift")
    if msg:
        return msg
    F = _prod(rest)
    xr, orr = _rows(x, N), _rows(out, N)
    fill = _fill(F, dtype)
    exact = None  # the (left, right) amounts actually added, when observable
    if len(seen) == 1 and seen[0][0].tolist() == lens and tuple(seen[0][1].shape) == (2, N):
        if seen[0][1].is_floating_point() or seen[0][1].is_complex():
            return "pad amounts are not whole numbers (dtype %s)" % seen[0][1].dtype
        exact = seen[0][1].tolist()
    for n, L in enumerate(lens):
        if exact is not None:
            p0, p1 = exact[0][n], exact[1][n]
            if not (0 <= p0 <= pl * L and 0 <= p1 <= pr * L):
                return "row %d len %d: added (%d, %d) elements, outside 0..%s*len / 0..%s*len" % (n, L, p0, p1, pl, pr)
            if ol[n] != L + p0 + p1:
                return "row %d len %d: added (%d, %d) elements but reported length %d" % (n, L, p0, p1, ol[n])
            if not legal(mode, L, p0, p1):
                return "row %d len %d: added (%d, %d) elements, not a legal %s pad" % (n, L, p0, p1, mode)
            want = pad_rule(xr[n][:L], p0, p1, mode, fill)
            if orr[n][: ol[n]] != want:
                return "row %d len %d (%s): padded by (%d, %d): got %s want %s" % (n, L, mode, p0, p1, orr[n][: ol[n]], want)
        d = ol[n] - L
        max0, max1 = int(pl * L), int(pr * L)  # whole numbers not exceeding prop * len (props are dyadic, products exact)
        cands = [(p0, d - p0) for p0 in range(0, max0 + 1) if 0 <= d - p0 <= max1]
        if not cands:
            return "row %d len %d: %d elements added, not a split into 0..%d left and 0..%d right" % (n, L, d, max0, max1)
        got = orr[n][: ol[n]]
        ok = False
        for p0, p1 in cands:
            if legal(mode, L, p0, p1) and got == pad_rule(xr[n][:L], p0, p1, mode, fill):
                ok = True
                break
        if not ok:
            return "row %d len %d (%s, prop %s): output row %s of length %d is not the sequence %s padded by any admissible (left,right) in %s" % (
                n, L, mode, prop, got, ol[n], xr[n][:L], cands)
    return None


PROPS = (0.0, 0.5, 1.0, [0.25, 1.0], [1.0, 0.0], 2.5, [0.5, 3.0])


def shift_bound(ctx):
    return dict(tmax=4, seeds=3, nrand=0) if ctx.quick else dict(tmax=6, seeds=8, nrand=20000)


def _lens_sets(mode, T, N):
    lo = 0 if mode == "constant" else 1
    return itertools.product(range(lo, T + 1), repeat=N)


def cases_shift(ctx):
    b = shift_bound(ctx)
    for mode in MODES:
        for prop in PROPS:
            pm = max(prop) if isinstance(prop, list) else prop
            if mode == "reflect" and pm > 1.0:
                continue
            for T in range(1, b["tmax"] + 1):
                for N in (1, 2):
                    if N == 2 and T > 3 and ctx.quick:
                        continue
                    for lens in _lens_sets(mode, T, N):
                        base = {"mode": mode, "prop": prop, "T": T, "rest": [2] if T % 2 else [], "dtype": "float32", "lens": list(lens)}
                        for u in ("zero", "half", "max"):
                            yield dict(base, api="functional", training=True, u=u, seed=0)
                        for sd in range(b["seeds"]):
                            yield dict(base, api="functional", training=True, u="rand", seed=ctx.seed * 1000 + sd)
                        yield dict(base, api="functional", training=False, u="rand", seed=0)
                        if N == 1 or T <= 2:  # the layer itself (train / eval switch, configured proportion)
                            yield dict(base, api="module", training=True, u="max", seed=0)
                            yield dict(base, api="module", training=True, u="rand", seed=ctx.seed * 1000 + 1)
                            yield dict(base, api="module", training=False, u="rand", seed=0)
    rng = random.Random(ctx.seed * 7919 + 4)
    for i in range(b["nrand"]):
        mode = rng.choice(MODES)
        hi = 1.0 if mode == "reflect" else 3.0
        prop = [rng.randint(0, int(hi * 8)) / 8.0, rng.randint(0, int(hi * 8)) / 8.0]
        N, T = rng.randint(1, 4), rng.randint(1, 16)
        lens = [rng.randint(0 if mode == "constant" else 1, T) for _ in range(N)]
        rest, dtype, _ = VARIANTS[rng.randrange(len(VARIANTS))]
        yield {"api": "functional", "mode": mode, "prop": prop, "T": T, "rest": rest, "dtype": dtype, "lens": lens,
               "training": rng.random() < 0.9, "u": rng.choice(("rand", "rand", "max", "half")), "seed": ctx.seed * 100000 + i}


# ---------------------------------------------------------------------------------------------
# guard: the oracle's pad rule is torch's


def oracle_crosscheck():
    import torch
    import torch.nn.functional as TF

    n = bad = 0
    for mode in MODES:
        for L in range(0, 7):
            seq = [[float(10 * t + f) for f in range(2)] for t in range(1, L + 1)]
            for lp in range(0, 2 * L + 3):
                for rp in range(0, 2 * L + 3):
                    if not legal(mode, L, lp, rp):
                        continue
                    if L == 0:
                        ref = [[VALUE, VALUE]] * (lp + rp)
                    else:
                        t = torch.tensor(seq).t().unsqueeze(0)  # (1, F, L): torch pads the last dim
                        kw = {"value": VALUE} if mode == "constant" else {}
                        ref = TF.pad(t, (lp, rp), mode, **kw).squeeze(0).t().tolist()
                    n += 1
                    bad += pad_rule(seq, lp, rp, mode, [VALUE, VALUE]) != ref
    return n, bad


# ---------------------------------------------------------------------------------------------
# findings on the unchanged tree (see the final report of the builder; the maintainer of
# known_findings.jsonl decides what becomes a fix and what a known finding)


def _padvar_replicate_big(case, msg):
    return case["mode"] == "replicate" and len(case["lens"]) > 0 and max(case["pad"][0] + case["pad"][1]) > case["T"]


def _chunk_replicate_big(case, msg):
    if case["mode"] != "replicate" or not case["slices"]:
        return False
    lens = case["lens"] if case.get("lens") is not None else [case["T"]] * len(case["slices"])
    return any(e > s and (-s > case["T"] or e - L > case["T"]) for (s, e), L in zip(case["slices"], lens))


def _shift_replicate_big(case, msg):
    prop = case["prop"]
    pm = max(prop) if isinstance(prop, (list, tuple)) else prop
    return case["mode"] == "replicate" and case["training"] and case.get("u") != "zero" and bool(case["lens"]) and int(pm * max(case["lens"])) > case["T"]


def _chunk_t0(case, msg):
    return case["T"] == 0 and case["mode"] == "constant" and any(e > s for s, e in case["slices"])


def _padvar_n0(case, msg):
    return len(case["lens"]) == 0


def _shift_pair(case, msg):
    return case.get("api") == "module" and isinstance(case["prop"], (list, tuple)) and "is not a float" in msg


FINDINGS = [
    {"id": "KF-C09-1", "property": "C09", "clause": "C09.padvar.post",
     "what": "pad_variable(mode='replicate') with a pad larger than the batch's time dimension T: _get_padding_buffers sizes its masks by arange(T), so the pad buffers are truncated/broadcast -> RuntimeError (T >= 2) or rows padded with another row's amounts (T == 1)",
     "class": "mode == 'replicate' and some pad amount (left or right, any row) > T",
     "witness": {"mode": "replicate", "T": 1, "rest": [], "dtype": "float32", "via": "functional", "lens": [1, 1], "pad": [[0, 0], [1, 2]]}},
    {"id": "KF-C09-2", "property": "C09", "clause": "C09.chunk.post",
     "what": "chunk_by_slices(mode='replicate') with a non-empty slice reaching more than T beyond either end of its sequence: same _get_padding_buffers truncation as KF-C09-1",
     "class": "mode == 'replicate' and some row has a non-empty slice with -start > T or end - len > T",
     "witness": {"mode": "replicate", "T": 2, "rest": [], "dtype": "float32", "via": "functional", "lens": [2], "slices": [[-3, 1]]}},
    {"id": "KF-C09-3", "property": "C09", "clause": "C09.shift.bounds",
     "what": "random_shift(mode='replicate') with a proportion > 1 can draw a pad > T and then fails as KF-C09-1",
     "class": "mode == 'replicate' and training and floor(max(prop) * max(lens)) > T (and the uniform draw not forced to 0)",
     "witness": {"api": "functional", "mode": "replicate", "prop": 2.5, "T": 2, "rest": [], "dtype": "float32", "lens": [2], "training": True, "u": "max", "seed": 0}},
    {"id": "KF-C09-4", "property": "C09", "clause": "C09.chunk.post",
     "what": "chunk_by_slices on a zero-length time dimension returns length 0 for every row, also for non-empty slices (constant mode), instead of the requested length filled with the pad value",
     "class": "T == 0 and mode == 'constant' and some slice is non-empty",
     "witness": {"mode": "constant", "T": 0, "rest": [], "dtype": "float32", "via": "functional", "lens": [0], "slices": [[0, 1]]}},
    {"id": "KF-C09-5", "property": "C09", "clause": "C09.padvar.post",
     "what": "pad_variable raises RuntimeError (max() of an empty tensor) on an empty batch, where chunk_by_slices and pad_masked_sequence return empty results",
     "class": "N == 0",
     "witness": {"mode": "constant", "T": 2, "rest": [], "dtype": "float32", "via": "functional", "lens": [], "pad": [[], []]}},
    {"id": "KF-C09-6", "property": "C09", "clause": "C09.shift.bounds",
     "what": "RandomShift cannot be configured with a (left, right) pair of proportions: argcheck.is_float raises ValueError, the constructor only catches TypeError",
     "class": "RandomShift constructed with prop given as a pair",
     "witness": {"api": "module", "mode": "constant", "prop": [0.25, 1.0], "T": 1, "rest": [2], "dtype": "float32", "lens": [1], "training": True, "u": "max", "seed": 0}},
]
KNOWN_MATCH = {
    "KF-C09-1": _padvar_replicate_big,
    "KF-C09-2": _chunk_replicate_big,
    "KF-C09-3": _shift_replicate_big,
    "KF-C09-4": _chunk_t0,
    "KF-C09-5": _padvar_n0,
    "KF-C09-6": _shift_pair,
}

CHECKERS = {
    "C09.padvar.post": check_padvar,
    "C09.chunk.post": check_chunk,
    "C09.masked.post": check_masked,
    "C09.shift.bounds": check_shift,
}


def _wanted(ctx, name):
    only = getattr(ctx, "only", None)
    return not only or any(name.startswith(o) for o in only)


def run_bounded(ctx):
    from vf.core import Clause

    ctx.known_match.update(KNOWN_MATCH)
    n, bad = oracle_crosscheck()
    ctx.add_clause(Clause(name="C09.guard.oracle", kind="guard", status="ok" if bad == 0 else "error", evaluations=n,
                          detail="the spec's pad rule vs torch.nn.functional.pad (constant/reflect/replicate, len<=6, pads<=2len+2): %d disagreements" % bad))
    if bad:
        ctx.errors.append("C09 oracle disagrees with torch.nn.functional.pad")
    pb, cb, mb, sb = padvar_bound(ctx), chunk_bound(ctx), masked_bound(ctx), shift_bound(ctx)
    if _wanted(ctx, "C09.padvar.post"):
        ctx.bounded(
            "C09.padvar.post", check_padvar, cases_padvar(ctx),
            bound="3 modes; N=0; N=1: T<=%d, all lens, all legal pads 0..2T+2, trailing dims {(),(2,),(2,1)}; N=2 (ordered pairs): T<=%d all legal pads 0..2T+2, T<=%d pads in {0,1,T-1,T,T+1,2T+2}; "
                  "N=3: T<=%d pads in {0,1,T+1}; lens>=1 for replicate, pads<len for reflect; %d seeded random batches (N<=5, T<=9, pads<=3T+3)" % (
                      pb["t1"], pb["t2full"], pb["t2red"], pb["t3"], pb["nrand"]),
            text="pad_variable / PadVariable: shape keeps batch and trailing dims, and every row's first len+left+right cells equal that sequence alone padded by the constant/reflect/replicate rule (pure-Python oracle)",
            nontrivial=lambda c: len(c["lens"]) > 0 and max(c["pad"][0] + c["pad"][1]) > 0,
            chunk=256, functions=["_pad.pad_variable", "_pad._get_padding_buffers", "_pad.PadVariable.forward"])
    if _wanted(ctx, "C09.chunk.post"):
        ctx.bounded(
            "C09.chunk.post", check_chunk, cases_chunk(ctx),
            bound="3 modes; N=0; N=1: T<=%d, all lens (and lens omitted), all legal slices in [-T-2,2T+2]^2, trailing dims {(),(2,),(2,1)}; N=2 (ordered pairs): T<=%d all legal slices in [-T-1,2T]^2, "
                  "T<=%d end points in {-T-1,-1,0,T,T+1,2T-1}; N=3: T in 2..%d end points {-1,T-1,2T-1}, all lens; %d seeded random batches (N<=5, T<=9, slices in [-2T-2,3T+2])" % (
                      cb["t1"], cb["t2full"], cb["t2red"], cb["t3"], cb["nrand"]),
            text="chunk_by_slices / ChunkBySlices: reported lengths = max(end-start,0) exactly, and every row's valid part equals that sequence alone padded as far as the slice reaches and sliced (negative starts, ends beyond the length, slices wholly in either padding, empty, inverted)",
            nontrivial=lambda c: any(e > s and (s < 0 or e > (c["lens"][i] if c.get("lens") is not None else c["T"])) for i, (s, e) in enumerate(c["slices"])),
            chunk=256, functions=["_pad.chunk_by_slices", "_pad._get_padding_buffers", "_pad.ChunkBySlices.forward"])
    if _wanted(ctx, "C09.masked.post"):
        ctx.bounded(
            "C09.masked.post", check_masked, cases_masked(ctx),
            bound="N=0; N<=%d, T<=%d with N*T<=%d: every boolean mask, both batch_first settings, trailing dims {(),(2,)}; %d seeded random masks (N<=6, T<=12)" % (mb["nmax"], mb["tmax"], mb["bits"], mb["nrand"]),
            text="pad_masked_sequence / PadMaskedSequence: lens = per-row count of True, row = selected elements in order followed by padding_value, shape unchanged",
            nontrivial=lambda c: any(0 < sum(r) < len(r) for r in c["mask"]),
            chunk=256, functions=["_pad.pad_masked_sequence", "_pad.PadMaskedSequence.forward"])
    if _wanted(ctx, "C09.shift.bounds"):
        ctx.bounded(
            "C09.shift.bounds", check_shift, cases_shift(ctx),
            bound="3 modes x prop in {0,.5,1,(.25,1),(1,0),2.5,(.5,3)} (<=1 for reflect); T<=%d, N=1 all lens, N=2 all lens pairs (T<=3 in quick); uniform draw replaced by 0, .5, max-float-below-1 and %d seeded real draws; "
                  "training and evaluation; functional and RandomShift layer; %d seeded random configurations (N<=4, T<=16, prop in eighths)" % (sb["tmax"], sb["seeds"], sb["nrand"]),
            text="random_shift / RandomShift: in training every output row is the original sequence padded (by the mode's rule) with whole numbers 0<=left<=prop_left*len, 0<=right<=prop_right*len of elements and out_lens = len+left+right; evaluation mode returns input and lengths unchanged",
            nontrivial=lambda c: c["training"] and (max(c["prop"]) if isinstance(c["prop"], list) else c["prop"]) > 0,
            chunk=128, functions=["_img.random_shift", "_img.RandomShift.__init__", "_img.RandomShift.forward", "_pad.pad_variable"])
    ctx.replay_known_witnesses()
    ctx.not_applicable.append("C09.shift: the distribution of the random pad amounts (only their admissible range, for real seeded draws and for the extreme draws 0 and 1-2^-24, is checked)")
    ctx.assume(
        "inputs are (N,T,*) tensors of distinct values 1,2,3,... (float32 or int64), pad value -1; contents do not influence control flow in the functions under contract",
        "illegal inputs (reflect with a pad >= the row's length, replicate/reflect with a zero-length row) are outside the property and not generated",
        "cells of an output row beyond its reported length are unconstrained (the property speaks of the valid part); the output time dimension only has to hold the longest row",
        "random_shift draws its randomness through torch.rand_like (replaced by constants for the extreme-draw cases; if it did not, those cases degrade to ordinary seeded draws)",
        "random_shift pads through the name _img.pad_variable, where the pad amounts are observed exactly; if it did not, only the existence of admissible amounts explaining the output is checked",
        "proportions are dyadic rationals so prop*len is exact in floating point",
    )
