"""C06, engine A part (S rung): the two-path trie descent `_lookup_calc_idx_log_probs` returns the back-off recursion for ALL
listed values, per table structure.

For every enumerated table structure (vocabulary size, start symbol inside / outside the vocabulary, order, which n-grams are
listed) the flat buffers are built by the REAL `LookupLanguageModel._build_trie` from a table of distinct sentinel numbers; every
sentinel in the value buffers is then replaced by a symbol - a listed log-probability becomes "finite real or -inf" (the library
treats a -inf entry as absent-but-with-children), a listed back-off weight a real. The real descent is executed over these
buffers for every history of the bound, and its result is compared with the recursion of the property text evaluated on the
symbolic table:

    value(ctx, w) = listed(ctx + w)                       if listed and finite
                  = backoff(ctx) [0 if not listed] + value(ctx without its oldest token, w)   otherwise;  -inf if ctx is empty

Complete over all VALUES per structure and history; bounded in structures, histories and batch layout -> labelled bounded.
Not covered here: that `_build_trie` places the values where the descent looks for them is exercised only through the sentinel
construction (a misplaced value shows as a wrong symbol in the result); chunked / per-element idx / reload are the bounded driver's.
"""
import itertools
import warnings

import z3

from contracts import C06_rt as rt
from vf.pyvc import api, ctensor as ct, interp as ip
from vf.pyvc.api import VC

M = "pydrobert.torch._lm"


def structure_vc(V, sos, N, present):
    import numpy as np
    import torch

    case = {"V": V, "sos": sos, "N": N, "present": present}
    _, _, _, tab0 = rt.table_of(case)
    keys = sorted(tab0, key=lambda k: (len(k), k))
    name = "V%dsos%dN%d[%s]" % (V, sos, N, ",".join("".join(str(t) if 0 <= t < 10 else "s" for t in k) for k in keys))
    # sentinel table: distinct float32-exact numbers
    sent_p = {k: -float(16 + 2 * i) for i, k in enumerate(keys)}
    sent_b = {k: -float(17 + 2 * i) for i, k in enumerate(keys)}
    tab = {k: (sent_p[k], sent_b[k] if len(k) < N else 0.0) for k in keys}
    P = {k: z3.Real("logp_" + "_".join(map(str, k))) for k in keys}
    PF = {k: z3.Bool("logp_is_minus_inf_" + "_".join(map(str, k))) for k in keys}
    Bo = {k: z3.Real("backoff_" + "_".join(map(str, k))) for k in keys}
    by_p = {v: k for k, v in sent_p.items()}
    by_b = {v: k for k, v in sent_b.items()}

    def buffers():
        from pydrobert.torch.modules import LookupLanguageModel

        with warnings.catch_warnings():
            warnings.simplefilter("ignore")
            lm = LookupLanguageModel(V, sos, rt.prob_dicts_of(N, tab))

        def sym(buf, kind):
            a = np.empty((buf.numel(),), dtype=object)
            for i, v in enumerate(buf.tolist()):
                if v in by_p and kind == "p":
                    a[i] = ct.NegGuarded(PF[by_p[v]], P[by_p[v]])
                elif v in by_b:
                    a[i] = Bo[by_b[v]]
                elif v in by_p:
                    a[i] = ct.NegGuarded(PF[by_p[v]], P[by_p[v]])
                elif v == float("-inf"):
                    a[i] = -ct.INF
                elif v != v:
                    a[i] = ct.NAN  # placeholder node of the flat trie
                elif v == float("inf"):
                    raise ip.Unsupported("value buffer holds %r" % v)
                else:
                    from fractions import Fraction

                    a[i] = Fraction(v)
            return ct.CT(a, "float")

        def ints(buf):
            a = np.empty((buf.numel(),), dtype=object)
            for i, v in enumerate(buf.tolist()):
                a[i] = int(v)
            return ct.CT(a, "long")

        return lm, sym(lm.logps, "p"), sym(lm.logbs, "b"), ints(lm.ids), ints(lm.offsets)

    toks = list(range(V)) + ([sos] if not 0 <= sos < V else [])
    hists = [h for T in range(0, N + 1) for h in itertools.product(toks, repeat=T)]

    def thunk(I):
        import pydrobert.torch._lm as LM

        lm, logps, logbs, ids, offsets = buffers()
        outs = []
        for T in range(0, N + 1):
            hs = [h for h in hists if len(h) == T]
            Bsz = len(hs)
            a = np.empty((T, Bsz), dtype=object)
            for b_, h in enumerate(hs):
                for t_ in range(T):
                    a[t_, b_] = int(h[t_])
            hist = ct.CT(a, "long")
            hidx = ct.CT(ct.obj_array(T), "long")
            out = I.call(LM._lookup_calc_idx_log_probs, [hist, hidx, offsets, ids, logps, logbs, sos, V, N, lm.max_ngram_nodes, lm.max_direct_descendants], {})
            outs.append((hs, out))
        return outs

    def value(ctx, w):
        """(is -inf, finite value) of the recursion on the symbolic table"""
        k = ctx + (w,)
        if not ctx:
            if k in P:
                return PF[k], P[k]
            return z3.BoolVal(True), z3.RealVal(0)
        bo = Bo[ctx] if ctx in Bo and len(ctx) < N else z3.RealVal(0)
        f2, v2 = value(ctx[1:], w)
        if k in P:
            return z3.If(PF[k], f2, z3.BoolVal(False)), z3.If(PF[k], bo + v2, P[k])
        return f2, bo + v2

    def post(p):
        if not api.returns(p) or not isinstance(p.value, list):
            return False
        goals = []
        for hs, out in p.value:
            if not isinstance(out, ct.CT) or tuple(out.shape) != (len(hs), V):
                return [("result_shape", z3.BoolVal(False))]
            for b_, h in enumerate(hs):
                ctx = (tuple([sos] * (N - 1)) + tuple(h))
                ctx = ctx[len(ctx) - (N - 1):] if N > 1 else ()
                for w in range(V):
                    try:
                        f, v = ct.ng_split(out.a[b_, w])
                    except ip.Unsupported:  # a NaN cell reached the result
                        goals.append(("hist=%s.w=%d.is_a_number" % ("".join(map(str, h)) or "-", w), z3.BoolVal(False)))
                        continue
                    f = z3.BoolVal(f) if isinstance(f, bool) else f
                    wf, wv = value(ctx, w)
                    goals.append(("hist=%s.w=%d" % ("".join(str(t) if 0 <= t < 10 else "s" for t in h) or "-", w), z3.And(f == wf, z3.Implies(z3.Not(wf), ip.to_z3(v) == wv))))
        return goals

    inputs = {}
    for k in keys:
        inputs["logp_" + "_".join(map(str, k))] = P[k]
        inputs["logp_is_minus_inf_" + "_".join(map(str, k))] = PF[k]
        inputs["backoff_" + "_".join(map(str, k))] = Bo[k]

    def replay(m):
        return replay_structure(m, V, sos, N, keys)

    return VC("C06.S.descent_is_backoff_recursion", name, M, "_lookup_calc_idx_log_probs", thunk, posts=[("katz_recursion_for_all_values", post)], inputs=inputs, replay=replay,
              twins=[("backoff_weights_ignored", lambda p: z3.And([z3.Implies(z3.Not(ct.ng_split(out.a[b_, w])[0]) if ip.is_z3(ct.ng_split(out.a[b_, w])[0]) else z3.BoolVal(not ct.ng_split(out.a[b_, w])[0]),
                                                                              ip.to_z3(ct.ng_split(out.a[b_, w])[1]) == (P[(w,)] if (w,) in P else 0))
                                                                   for hs, out in p.value for b_ in range(len(hs)) for w in range(V)]) if api.returns(p) else None)] if any(len(k) > 1 for k in keys) else [],
              timeout_ms=60000, max_paths=64,
              assumptions=["value buffers: the real _build_trie run on a table of distinct sentinel numbers, each sentinel then replaced by a symbol (listed log-probability: finite real or -inf; back-off weight: real); the layout of ids / offsets is whatever the real builder produced",
                           "torch contracts of vf/pyvc/ctensor.py (indexing with integer tensors, repeat, repeat_interleave, isfinite, any, where, masked_fill, cat, clamp); float arithmetic treated as real arithmetic",
                           "histories: every token sequence of length 0..N over the vocabulary (plus the start symbol when it lies outside), all positions predicted after the whole history, one batch per length"])


def replay_structure(m, V, sos, N, keys):
    """native replay: the model's values put into a real LookupLanguageModel, compared with the recursion"""
    import torch
    from pydrobert.torch.modules import LookupLanguageModel

    tab = {}
    for k in keys:
        nm = "_".join(map(str, k))
        lp = m.get("logp_" + nm) or 0.0
        if m.get("logp_is_minus_inf_" + nm):
            lp = rt.NEG
        bo = m.get("backoff_" + nm) or 0.0
        if abs(float(lp)) > 1e6 and lp != rt.NEG or abs(float(bo)) > 1e6:
            return None
        tab[k] = (float(lp), float(bo) if len(k) < N else 0.0)
    with warnings.catch_warnings():
        warnings.simplefilter("ignore")
        lm = LookupLanguageModel(V, sos, rt.prob_dicts_of(N, tab))
    oracle = rt.Katz(V, sos, N, tab)
    toks = list(range(V)) + ([sos] if not 0 <= sos < V else [])
    for T in range(0, N + 1):
        for h in itertools.product(toks, repeat=T):
            hist = torch.tensor(h, dtype=torch.long).view(T, 1)
            got = lm.calc_idx_log_probs(hist, dict(), torch.tensor(T))[0][0].tolist()
            want = oracle.after(list(h))
            for w in range(V):
                if not rt._close(got[w], want[w], False):
                    return "%s: after history %s token %d has log-probability %r, the back-off recursion gives %r" % (rt.describe(tab), list(h), w, got[w], want[w])
    return None


def descent_p_vc(unigram=False, vector_idx=False):
    """P rung: `_lookup_calc_idx_log_probs` for a SYMBOLIC order N >= 2, batch size, vocabulary, history length, history index, start
    symbol (inside / outside the vocabulary) and ANY flat trie that is well-formed, proved with a loop invariant over the descent.

    Abstract view of the buffers (the data-structure half of the contract):
        children of node d = positions [offsets[d] + d, offsets[d + 1] + d + 1), the child at position p carries token ids[p - U];
        well_formed: there is a level function with  level = 1 on the unigram nodes,  1 <= level(d) <= N - 1  ==>  d + 1 < O, the
        child range lies inside [U, P) and has at most S slots, children are one level deeper and carry pairwise different tokens.
        has_child(d, t) / child(d, t): the (then unique) child of d carrying token t - definitional.
    Spec over the view (the property's recursion, by recursion on the context length k; q = batch element, w = next token,
    tok(k, q) = the k-th most recent history token, start symbols in front of a short history):
        ngram_node(0) = w,  ngram_listed(k) = ngram_listed(k-1) and has_child(ngram_node(k-1), tok(k)),   (the n-gram tok(k)..tok(1) w)
        context_node(0) = tok(1), context_listed(k) likewise with tok(k+1)                                   (the context tok(k+1)..tok(1))
        katz(0) = logp[w];  katz(k) = logp[ngram_node(k)] if listed and finite, else backoff(k) + katz(k-1),
        backoff(k) = logb[context_node(k-1)] if context_listed(k-1) else 0.
    `vector_idx`: the history index is a VECTOR (one index per batch element - what the CTC prefix search passes); the code then cuts the
    context window of every element out of the padded history with masked_select + view; the compaction counters (C09) show the
    window of element q is rows hidx[q] - (N-1) .. hidx[q] - 1, by induction over the frames of one element and over the elements
    (count before element q = q (N-1)).
    Postcondition: out[q, w] = katz(N-1, q, w)  (as -inf-or-real).   That the buffers built by `_build_trie` are well-formed and
    that their view is the table is the bounded driver's run-time contract (contracts/C06_rt.py::trie_view_check)."""
    import pydrobert.torch._lm as LM
    from vf.pyvc import symtensor as stn
    from vf.pyvc.interp import LoopSpec, PathAbort

    z = ip.to_z3
    B, V, T, O, G, S, SOS, HIDX, X0, R0, Q0 = z3.Ints("B V T O G S sos hidx x0 r0 q0")
    N = 1 if unigram else z3.Int("N")
    Iz, Rz, Bz = z3.IntSort(), z3.RealSort(), z3.BoolSort()
    fn = lambda nm, *sorts: z3.Function(nm, *sorts)
    HIST, OFF, IDS, LPV, LPF, LB = fn("hist", Iz, Iz, Iz), fn("offsets", Iz, Iz), fn("ids", Iz, Iz), fn("logp", Iz, Rz), fn("logp_is_minus_inf", Iz, Bz), fn("logb", Iz, Rz)
    LEVEL, HAS, CHILD = fn("level", Iz, Iz), fn("has_child", Iz, Iz, Bz), fn("child", Iz, Iz, Iz)
    EXN, NODEN, EXP, NODEP = fn("ngram_listed", Iz, Iz, Iz, Bz), fn("ngram_node", Iz, Iz, Iz, Iz), fn("context_listed", Iz, Iz, Bz), fn("context_node", Iz, Iz, Iz)
    KF, KV = fn("katz_is_minus_inf", Iz, Iz, Iz, Bz), fn("katz", Iz, Iz, Iz, Rz)
    SH = z3.If(z3.And(0 <= SOS, SOS < V), 0, 1)
    U = V + SH + (0 if unigram else 1)
    P = O + G
    M_ = B * V
    mp = lambda t: z3.If(z3.And(SH == 1, t == SOS), V, t)
    HIDXV = fn("hidx_of", Iz, Iz)
    HX = (lambda q: HIDXV(q)) if vector_idx else (lambda q: HIDX)
    TOK = lambda k, q: mp(z3.If(HX(q) - k >= 0, HIST(HX(q) - k, q), SOS))
    HXOK = lambda q: z3.Implies(z3.And(0 <= q, q < B), z3.And(0 <= HX(q), HX(q) <= T))
    cs = lambda d: OFF(d) + d
    ce = lambda d: OFF(d + 1) + d + 1
    inner = lambda d: z3.And(1 <= LEVEL(d), LEVEL(d) <= N - 1)
    TOKOK = lambda t, b: z3.Implies(z3.And(0 <= t, t < T, 0 <= b, b < B), z3.Or(z3.And(0 <= HIST(t, b), HIST(t, b) < V), HIST(t, b) == SOS))
    AX_U = lambda d: z3.Implies(z3.And(0 <= d, d < V + SH), LEVEL(d) == 1)
    AX_A = lambda d: z3.Implies(inner(d), z3.And(0 <= d, d + 1 < O, U <= cs(d), cs(d) <= ce(d), ce(d) <= P, ce(d) - cs(d) <= S))
    AX_B = lambda d, p: z3.Implies(z3.And(inner(d), cs(d) <= p, p < ce(d)), LEVEL(p) == LEVEL(d) + 1)
    AX_C = lambda d, p, q: z3.Implies(z3.And(inner(d), cs(d) <= p, p < q, q < ce(d)), IDS(p - U) != IDS(q - U))
    DEF_I = lambda d, t, p: z3.Implies(z3.And(inner(d), cs(d) <= p, p < ce(d), IDS(p - U) == t), z3.And(HAS(d, t), CHILD(d, t) == p))
    DEF_II = lambda d, t: z3.Implies(z3.And(inner(d), HAS(d, t)), z3.And(cs(d) <= CHILD(d, t), CHILD(d, t) < ce(d), IDS(CHILD(d, t) - U) == t))
    BASE_N = lambda q, w: z3.And(EXN(0, q, w), NODEN(0, q, w) == w)
    REC_N = lambda k, q, w: z3.Implies(k >= 1, z3.And(EXN(k, q, w) == z3.And(EXN(k - 1, q, w), HAS(NODEN(k - 1, q, w), TOK(k, q))),
                                                      NODEN(k, q, w) == z3.If(EXN(k, q, w), CHILD(NODEN(k - 1, q, w), TOK(k, q)), NODEN(k - 1, q, w))))
    BASE_P = lambda q: z3.And(EXP(0, q), NODEP(0, q) == TOK(1, q))
    REC_P = lambda k, q: z3.Implies(k >= 1, z3.And(EXP(k, q) == z3.And(EXP(k - 1, q), HAS(NODEP(k - 1, q), TOK(k + 1, q))),
                                                   NODEP(k, q) == z3.If(EXP(k, q), CHILD(NODEP(k - 1, q), TOK(k + 1, q)), NODEP(k - 1, q))))
    BO = lambda k, q: z3.If(k >= N, z3.RealVal(0), z3.If(EXP(k - 1, q), LB(NODEP(k - 1, q)), z3.RealVal(0)))
    clob = lambda k, q, w: z3.And(EXN(k, q, w), z3.Not(LPF(NODEN(k, q, w))))
    BASE_K = lambda q, w: z3.And(KF(0, q, w) == LPF(w), KV(0, q, w) == LPV(w))
    REC_K = lambda k, q, w: z3.Implies(k >= 1, z3.And(KF(k, q, w) == z3.If(clob(k, q, w), z3.BoolVal(False), KF(k - 1, q, w)),
                                                      KV(k, q, w) == z3.If(clob(k, q, w), LPV(NODEN(k, q, w)), BO(k, q) + KV(k - 1, q, w))))
    PEND = lambda k, q, w: z3.If(z3.Or(k == 0, clob(k, q, w)), BO(k + 1, q), z3.RealVal(0))
    d_, p_, q_, t_, k_, w_, b_, x_, j_, r_ = z3.Ints("d_q p_q q_q t_q k_q w_q b_q x_q j_q r_q")
    Bq = lambda c: z3.BoolVal(c) if isinstance(c, bool) else c
    state = {"cur": None}

    def inv_at(st, k, x, parts=False):
        """the invariant after k iterations at position x of the (M + B)-vectors: n-gram path below M, context path from M on"""
        d = z(st["desc"].elem(x))
        fnd = Bq(st["found"].elem(x))
        fl, vl = ct.ng_split(st["last_logps"].elem(x))
        fl, vl = Bq(fl), z(vl)
        pend = z(st["last_backoffs"].elem(x))
        q, w, qp = x / V, x % V, x - M_
        rng, lo, hi = z3.And(0 <= x, x < M_ + B), z3.And(0 <= x, x < M_), z3.And(M_ <= x, x < M_ + B)
        out = [("node_level", z3.Implies(rng, z3.And(1 <= LEVEL(d), LEVEL(d) <= k + 1))),
               ("ngram_path.listed", z3.Implies(lo, fnd == EXN(k, q, w))), ("ngram_path.node", z3.Implies(lo, d == NODEN(k, q, w))),
               ("value.is_minus_inf", z3.Implies(lo, fl == KF(k, q, w))),
               ("value.plus_pending_backoff", z3.Implies(z3.And(lo, z3.Not(KF(k, q, w))), vl + pend == BO(k + 1, q) + KV(k, q, w))),
               ("pending_backoff", z3.Implies(lo, pend == PEND(k, q, w))),
               ("context_path.listed", z3.Implies(z3.And(hi, k <= N - 2), fnd == EXP(k, qp))), ("context_path.node", z3.Implies(z3.And(hi, k <= N - 2), d == NODEP(k, qp)))]
        return out if parts else z3.And([g for _, g in out])

    def thunk(I):
        I.stubs.update(stn.stubs())
        state["cur"] = None
        hist = stn.ST((T, B), lambda t, b: HIST(z(t), z(b)), "long")
        hidx = stn.ST((B,), lambda b: HIDXV(z(b)), "long") if vector_idx else stn.ST((), lambda: HIDX, "long")
        offsets = stn.ST((O,), lambda d: OFF(z(d)), "long")
        ids = stn.ST((O + G - U,), lambda p: IDS(z(p)), "long")
        logps = stn.ST((P,), lambda p: ct.NegGuarded(LPF(z(p)), LPV(z(p))), "float")
        logbs = stn.ST((O,), lambda d: LB(z(d)), "float")

        def site(x):
            """instances at position x for the iteration in progress (its invariant, the well-formedness of the node it stands on, and -
            once the match test and the match sum exist - their contracts, the lemma about the sum and the definitions they meet)"""
            cur = state["cur"]
            if cur is None:
                return [TOKOK(HX(x) - 1, x), AX_U(mp(HIST(HX(x) - 1, x))), AX_U(mp(SOS)), AX_A(mp(HIST(HX(x) - 1, x))), AX_A(mp(SOS)), HXOK(x)] + state.get("window", lambda q: [])(x) + (state["window_row"](z3.IntVal(1), x) if "window_row" in state else [])
            st, k = cur["st"], cur["k"]
            d = z(st["desc"].elem(x))
            out = [inv_at(st, k, x), AX_A(d), HXOK(x / V)] + [mn["lb"](x / V) for mn in I.ex.ghost.get("mins_all", [])]
            if cur.get("lemma") is not None:
                an, t = cur["any"], z(ip.local(cur["frame"], "hist_n").elem(x))
                wx = an["W"](x)
                out += [an["witness"]([x]), cur["lemma"](x, S), DEF_I(d, t, cs(d) + wx), DEF_II(d, t), an["intro"]([x], CHILD(d, t) - cs(d)), AX_B(d, cs(d) + wx), AX_A(cs(d) + wx)]
            return out

        def hook(ii):
            out = []
            for x in (ii[0], ii[0] + M_):
                out += site(x)
            return out

        def sum_hook(rec):
            cur = state["cur"]
            if cur is None or cur.get("lemma") is not None:
                raise ip.Unsupported("a sum the contract does not know (one match sum per iteration of the descent)")
            an = I.ex.ghost["anys"][-1]
            cur["any"], cur["sum"] = an, rec
            PS, Wt = rec["S"], an["W"]
            O0, Jl = I.ex.fresh("int", "o_lemma"), I.ex.fresh("int", "j_lemma")
            I.ex.assume(z3.And(0 <= O0, O0 < M_ + B))
            lemma = lambda o, J: z3.Implies(z3.And(0 <= o, o < M_ + B, 0 <= J, J <= S), PS(o, J) == z3.If(z3.And(an["B"](o), J > Wt(o)), rec["val"]([o], Wt(o)), 0))
            d = z(cur["st"]["desc"].elem(O0))
            for x in [inv_at(cur["st"], cur["k"], O0), AX_A(d), an["witness"]([O0]), an["intro"]([O0], Jl), rec["base"](O0), rec["step"](O0, Jl),
                      AX_C(d, cs(d) + Jl, cs(d) + Wt(O0)), AX_C(d, cs(d) + Wt(O0), cs(d) + Jl)]:
                I.ex.instance(x)
            I.ex.oblige("structure.descent.match_sum.runs_over_the_descendant_slots", z3.And(rec["T"] == S, an["n"] == S))
            I.ex.oblige("descent.match_sum.base", lemma(O0, z3.IntVal(0)))
            I.ex.oblige("descent.match_sum.step", z3.Implies(z3.And(0 <= Jl, Jl < S, lemma(O0, Jl)), lemma(O0, Jl + 1)))
            I.ex.assume(z3.ForAll([x_, j_], lemma(x_, j_)))  # conclusion of the induction over the slot index, for every position
            cur["lemma"] = lemma

        def select_hook(rec, sel):
            """per-element index: the masked_select that cuts the context windows out of the padded history"""
            mins = I.ex.ghost.get("mins_all", [])
            if not vector_idx or rec["rank_"] != 2 or len(mins) != 1 or "window" in state:
                raise ip.Unsupported("a masked_select the contract does not know (the context windows of a per-element history index)")
            MINH = mins[0]["min"]
            REM = z3.If(N - 1 - MINH > 0, N - 1 - MINH, 0)
            lo = lambda q: HX(q) + REM - (N - 1)
            hi = lambda q: HX(q) + REM
            TT = rec["dims"][1]
            Q1, T1 = I.ex.fresh("int", "q_lemma"), I.ex.fresh("int", "t_lemma")
            qa, ta = z3.Ints("q_w t_w")
            clamp = lambda v, a, b: z3.If(v < a, a, z3.If(v > b, b, v))
            for y in (mins[0]["lb"](Q1), mins[0]["lb"](Q0), HXOK(Q1), HXOK(Q0)):
                I.ex.instance(y)
            I.ex.oblige("structure.window.extents", z3.And(rec["dims"][0] == B, TT == T + REM))
            I.ex.oblige("window.inside_the_padded_history", z3.Implies(z3.And(0 <= Q1, Q1 < B), z3.And(0 <= lo(Q1), hi(Q1) <= TT)))
            mm = lambda q, t: z3.Implies(z3.And(0 <= q, q < B, 0 <= t, t < TT), rec["mask"]([q, t]) == z3.And(lo(q) <= t, t < hi(q)))
            I.ex.oblige("window.mask_is_the_last_rows_before_the_index", mm(Q1, T1))
            I.ex.assume(z3.ForAll([qa, ta], mm(qa, ta)))
            c0, c1 = rec["CNT"]
            fr = lambda q, t: z3.Implies(z3.And(0 <= q, q < B, 0 <= t, t <= TT), c1(q, t) == clamp(t - lo(q), 0, N - 1))
            for y in (rec["base"](1, [Q1]), rec["step"](1, [Q1], T1), mm(Q1, T1)):
                I.ex.instance(y)
            I.ex.oblige("window.frames.base", fr(Q1, z3.IntVal(0)))
            I.ex.oblige("window.frames.step", z3.Implies(z3.And(0 <= T1, T1 < TT, fr(Q1, T1)), fr(Q1, T1 + 1)))
            I.ex.assume(z3.ForAll([qa, ta], fr(qa, ta)))
            el = lambda q: z3.Implies(z3.And(0 <= q, q <= B), c0(q) == q * (N - 1))
            for y in (rec["base"](0, []), rec["step"](0, [], Q1), fr(Q1, TT)):
                I.ex.instance(y)
            I.ex.oblige("window.elements.base", el(z3.IntVal(0)))
            I.ex.oblige("window.elements.step", z3.Implies(z3.And(0 <= Q1, Q1 < B, el(Q1)), el(Q1 + 1)))
            I.ex.assume(z3.ForAll([qa], el(qa)))
            I.ex.instance(el(B))  # the view(B, N - 1) that follows needs the total
            state["window"] = lambda q: [el(q), HXOK(q), mins[0]["lb"](q)]
            state["window_row"] = lambda r, q: [el(q), fr(q, lo(q) + N - 1 - r), mm(q, lo(q) + N - 1 - r), rec["inj"]([q, lo(q) + N - 1 - r]), HXOK(q), mins[0]["lb"](q), TOKOK(HX(q) - r, q)]

        class Descent(LoopSpec):
            def run(self, I2, s, f):
                names = ("desc", "found", "last_logps", "last_backoffs")
                hist_l = ip.local(f, "hist")
                row_at = lambda r, q: z3.Implies(z3.And(1 <= r, r <= N - 1, 0 <= q, q < B), z(hist_l.elem(N - 1 - r, q)) == TOK(r, q))
                for x in [TOKOK(HX(Q0) - R0, Q0), HXOK(Q0)] + (state["window_row"](R0, Q0) if "window_row" in state else []) + [mn["lb"](Q0) for mn in I.ex.ghost.get("mins_all", [])]:
                    I.ex.instance(x)
                I.ex.oblige("descent.context.rows_are_the_last_tokens", z3.And(z3.BoolVal(len(hist_l.shape) == 2), z(hist_l.shape[0]) == N - 1, z(hist_l.shape[1]) == B, row_at(R0, Q0)))
                I.ex.assume(z3.ForAll([r_, q_], row_at(r_, q_)))
                it = I.eval(s.iter, f)
                I.ex.oblige("structure.descent.loop.range", z3.And(z(it.lo) == 1, z(it.hi) == N, z(it.step) == 1))
                st0 = {nm: ip.local(f, nm) for nm in names}
                qn, wn, qp = X0 / V, X0 % V, X0 - M_
                for x in [BASE_N(qn, wn), BASE_K(qn, wn), BASE_P(qn), BASE_P(qp), AX_U(wn), row_at(z3.IntVal(1), qn), row_at(z3.IntVal(1), qp),
                          TOKOK(HX(qn) - 1, qn), TOKOK(HX(qp) - 1, qp), AX_U(TOK(1, qn)), AX_U(TOK(1, qp)), HXOK(qn), HXOK(qp)]:
                    I.ex.instance(x)
                for lbl, g in inv_at(st0, z3.IntVal(0), X0, parts=True):
                    I.ex.oblige("descent.init." + lbl, g)
                fr = lambda nm, *sorts: stn._fresh(nm, *sorts)
                DESC, FOUND, LLF, LLV, PENDF = fr("desc", Iz, Iz), fr("found", Iz, Bz), fr("last_logp_is_minus_inf", Iz, Bz), fr("last_logp", Iz, Rz), fr("last_backoff", Iz, Rz)
                st = {"desc": stn.ST((M_ + B,), lambda i: DESC(z(i)), "long"), "found": stn.ST((M_ + B,), lambda i: FOUND(z(i)), "bool"),
                      "last_logps": stn.ST((M_,), lambda i: ct.NegGuarded(LLF(z(i)), LLV(z(i))), "float"), "last_backoffs": stn.ST((M_,), lambda i: PENDF(z(i)), "float")}
                for nm in names:
                    f.locals[nm] = st[nm]
                if I.ex.choose(2) == 0:
                    k = I.ex.fresh("int", "iter")
                    I.ex.assume(z3.And(0 <= k, k < N - 1))
                    I.ex.assume(z3.ForAll([x_], inv_at(st, k, x_)))
                    state["cur"] = cur = {"st": st, "k": k, "frame": f, "lemma": None}
                    for x in (X0, M_ + qn):
                        I.ex.instance(inv_at(st, k, x))
                    I.assign(s.target, k + 1, f)
                    I.exec_block(s.body, f)
                    st1 = {nm: ip.local(f, nm) for nm in names}
                    if cur.get("lemma") is None:
                        raise ip.Unsupported("the loop body computed no match sum")
                    for x in (X0, M_ + qn):
                        for y in site(x):
                            I.ex.instance(y)
                    for y in [REC_N(k + 1, qn, wn), REC_K(k + 1, qn, wn), REC_P(k + 1, qn), REC_P(k + 1, qp), row_at(k + 1, qn), row_at(k + 2, qn), row_at(k + 2, qp), row_at(k + 1, qp)]:
                        I.ex.instance(y)
                    for lbl, g in inv_at(st1, k + 1, X0, parts=True):
                        I.ex.oblige("descent.preserve." + lbl, g)
                    raise PathAbort()
                I.ex.assume(z3.ForAll([x_], inv_at(st, z3.IntVal(0) + N - 1, x_)))
                I.ex.instance(inv_at(st, z3.IntVal(0) + N - 1, X0))
                I.ex.ghost["flat_result"] = st["last_logps"]

        I.loops[("_lookup_calc_idx_log_probs", 0)] = Descent("descent", None, None, None, {})
        I.ex.ghost["skolem_hooks"] = [hook]
        I.ex.ghost["sum_hooks"] = [sum_hook]
        I.ex.ghost["select_hooks"] = [select_hook]
        state.pop("window", None)
        state.pop("window_row", None)
        out = I.call(LM._lookup_calc_idx_log_probs, [hist, hidx, offsets, ids, logps, logbs, SOS, V, N, G, S], {})
        if unigram:
            I.ex.instance(BASE_K(X0 / V, X0 % V))
        return out

    B0, W0 = z3.Ints("b0 w0")

    def post(p):
        if not api.returns(p) or not hasattr(p.value, "elem"):
            return False
        out = p.value
        goals = [("result_shape", z3.And(z3.BoolVal(len(out.shape) == 2), z(out.shape[0]) == B, z(out.shape[1]) == V))]
        if unigram:
            f0, v0 = ct.ng_split(out.elem(B0, W0))
            goals.append(("unigram_value", z3.Implies(z3.And(0 <= B0, B0 < B, 0 <= W0, W0 < V), z3.And(Bq(f0) == LPF(W0), z(v0) == LPV(W0)))))
            return goals
        flat = p.ghost.get("flat_result")
        if flat is None:
            return False
        fl, vl = ct.ng_split(flat.elem(X0))
        q, w = X0 / V, X0 % V
        kf, kv = KF(z3.IntVal(0) + N - 1, q, w), KV(z3.IntVal(0) + N - 1, q, w)
        fo, vo = ct.ng_split(out.elem(B0, W0))
        ff, vf = ct.ng_split(flat.elem(B0 * V + W0))
        goals += [("flat_result_is_the_katz_recursion_at_full_context", z3.Implies(z3.And(0 <= X0, X0 < M_), z3.And(Bq(fl) == kf, z3.Implies(z3.Not(kf), z(vl) == kv)))),
                  ("result_is_the_row_major_view_of_the_flat_result", z3.And(Bq(fo) == Bq(ff), z(vo) == z(vf)))]
        return goals

    wf = [z3.ForAll([d_], AX_U(d_)), z3.ForAll([d_], AX_A(d_)), z3.ForAll([d_, p_], AX_B(d_, p_)), z3.ForAll([d_, p_, q_], AX_C(d_, p_, q_)),
          z3.ForAll([d_, t_, p_], DEF_I(d_, t_, p_)), z3.ForAll([d_, t_], DEF_II(d_, t_)), z3.ForAll([t_, b_], TOKOK(t_, b_))]
    spec = [z3.ForAll([q_, w_], BASE_N(q_, w_)), z3.ForAll([k_, q_, w_], REC_N(k_, q_, w_)), z3.ForAll([q_], BASE_P(q_)), z3.ForAll([k_, q_], REC_P(k_, q_)),
            z3.ForAll([q_, w_], BASE_K(q_, w_)), z3.ForAll([k_, q_, w_], REC_K(k_, q_, w_))]
    pre = [B >= (2 if vector_idx else 1), V >= 1, T >= 0, 0 <= HIDX, HIDX <= T, z3.ForAll([q_], HXOK(q_)), O >= U, G >= 1, S >= 0, S <= V + SH, 1 <= R0, 0 <= Q0, Q0 < B] + ([] if unigram else [N >= 2, R0 <= N - 1]) + wf + spec
    # (b V + w) div V = b and (b V + w) mod V = w: ties the flat index of the loop to the matrix index of the result (nonlinear, raw)
    bb, ww, vv = z3.Ints("b_l w_l v_l")
    lemmas = [("row_major_index_splits_back", [vv >= 1, 0 <= ww, ww < vv, bb >= 0], z3.And((bb * vv + ww) / vv == bb, (bb * vv + ww) % vv == ww), "raw")]
    return VC("C06.P.descent_is_katz_on_the_view", "_lookup_calc_idx_log_probs[%s%s; symbolic batch, vocabulary, history, start symbol, trie]" % ("N = 1" if unigram else "symbolic N >= 2", "; per-element history index" if vector_idx else ""), M, "_lookup_calc_idx_log_probs", thunk,
              pre=pre, posts=[("katz_recursion_on_the_trie_view", post)], lemmas=lemmas, inputs={"B": B, "V": V, "T": T, "O": O, "G": G, "S": S, "sos": SOS, "hidx": HIDX}, timeout_ms=60000, max_paths=64,
              witness_hints=[B == (2 if vector_idx else 1), V == 2, S == 2, X0 == 1] + ([] if unigram else [N == 3]),
              assumptions=["well-formed flat trie (level function, child ranges inside the buffers, at most S slots per node, sibling tokens pairwise different) and history tokens inside the vocabulary or the start symbol: preconditions; that `_build_trie` establishes them and that the view equals the table: run-time contract of the bounded driver",
                           "has_child / child, the listed / node / katz functions: definitions by choice resp. by recursion on the context length (conservative)",
                           "any over a symbolic extent = exists (with a witness function), sum = partial sums: assumed contracts; tensors as index functions (vf/pyvc/symtensor.py); the lemma `a sum with one unmasked slot is that slot` is proved by induction over the slot index inside the iteration",
                           "scalar history index, or one index per batch element for batches of at least two (a one-element index vector takes the scalar route and is covered by the S rung and the bounded driver); float arithmetic treated as real arithmetic; -inf as a flag"])


def p_vcs(ctx):
    return [descent_p_vc(True), descent_p_vc(False), descent_p_vc(False, vector_idx=True)]


def structures(quick):
    """(V, sos, N, present bitmask over canonical_grams) with all unigrams listed (the library requires them)"""
    out = []
    for V, sos, N in ((2, 0, 2), (2, 2, 2), (2, 0, 3)) if quick else ((2, 0, 2), (2, 2, 2), (2, 0, 3), (2, 2, 3), (3, 0, 2)):
        grams = rt.canonical_grams(V, sos, N)
        n1 = len(grams[0])
        higher = sum(len(g) for g in grams[1:])
        rng = __import__("random").Random(V * 100 + N * 10 + (sos if sos < V else 9))
        masks = set()
        if higher <= 4:
            masks = set(range(2 ** higher))
        else:
            masks = {0, 2 ** higher - 1}
            while len(masks) < (4 if quick else 10):
                masks.add(rng.getrandbits(higher))
        top = len(grams[-1])
        for hm in sorted(masks):
            if N > 1 and not (hm >> (higher - top)):
                continue  # the library refuses a table whose highest order is empty
            out.append((V, sos, N, (2 ** n1 - 1) | (hm << n1)))
    return out


def vcs(ctx):
    return [structure_vc(*s) for s in structures(ctx.quick)]
