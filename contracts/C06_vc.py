"""C06, engine A part (S rung): the two-path trie descent `_lookup_calc_idx_log_probs` returns the back-off recursion for ALL
listed values, per table structure.

For every enumerated table structure (vocabulary size, start symbol inside / outside the vocabulary, order, which n-grams are
listed) the flat buffers are built by the REAL `LookupLanguageModel._build_trie` from a table of distinct sentinel numbers; every
sentinel in the value buffers is then replaced by a symbol - a listed log-probability becomes "finite real or -inf" (the library
treats a -inf entry as absent-but-with-children), a listed back-off weight a real. The real descent is executed over these
buffers for every history of the bound, and its result is compared with the recursion of the property text evaluated on the
symbolic table:

    value(ctx, w) = listed(ctx + w)                       if listed and finite
                  = backoff(ctx) [0 if not listed] + value(ctx without its oldest token, w)   otherwise;  -inf if ctx is empty

Complete over all VALUES per structure and history; bounded in structures, histories and batch layout -> labelled bounded.
Not covered here: that `_build_trie` places the values where the descent looks for them is exercised only through the sentinel
construction (a misplaced value shows as a wrong symbol in the result); chunked / per-element idx / reload are the bounded driver's.
"""
import itertools
import warnings

import z3

from contracts import C06_rt as rt
from vf.pyvc import api, ctensor as ct, interp as ip
from vf.pyvc.api import VC

M = "pydrobert.torch._lm"


def structure_vc(V, sos, N, present):
    import numpy as np
    import torch

    case = {"V": V, "sos": sos, "N": N, "present": present}
    _, _, _, tab0 = rt.table_of(case)
    keys = sorted(tab0, key=lambda k: (len(k), k))
    name = "V%dsos%dN%d[%s]" % (V, sos, N, ",".join("".join(str(t) if 0 <= t < 10 else "s" for t in k) for k in keys))
    # sentinel table: distinct float32-exact numbers
    sent_p = {k: -float(16 + 2 * i) for i, k in enumerate(keys)}
    sent_b = {k: -float(17 + 2 * i) for i, k in enumerate(keys)}
    tab = {k: (sent_p[k], sent_b[k] if len(k) < N else 0.0) for k in keys}
    P = {k: z3.Real("logp_" + "_".join(map(str, k))) for k in keys}
    PF = {k: z3.Bool("logp_is_minus_inf_" + "_".join(map(str, k))) for k in keys}
    Bo = {k: z3.Real("backoff_" + "_".join(map(str, k))) for k in keys}
    by_p = {v: k for k, v in sent_p.items()}
    by_b = {v: k for k, v in sent_b.items()}

    def buffers():
        from pydrobert.torch.modules import LookupLanguageModel

        with warnings.catch_warnings():
            warnings.simplefilter("ignore")
            lm = LookupLanguageModel(V, sos, rt.prob_dicts_of(N, tab))

        def sym(buf, kind):
            a = np.empty((buf.numel(),), dtype=object)
            for i, v in enumerate(buf.tolist()):
                if v in by_p and kind == "p":
                    a[i] = ct.NegGuarded(PF[by_p[v]], P[by_p[v]])
                elif v in by_b:
                    a[i] = Bo[by_b[v]]
                elif v in by_p:
                    a[i] = ct.NegGuarded(PF[by_p[v]], P[by_p[v]])
                elif v == float("-inf"):
                    a[i] = -ct.INF
                elif v != v:
                    a[i] = ct.NAN  # placeholder node of the flat trie
                elif v == float("inf"):
                    raise ip.Unsupported("value buffer holds %r" % v)
                else:
                    from fractions import Fraction

                    a[i] = Fraction(v)
            return ct.CT(a, "float")

        def ints(buf):
            a = np.empty((buf.numel(),), dtype=object)
            for i, v in enumerate(buf.tolist()):
                a[i] = int(v)
            return ct.CT(a, "long")

        return lm, sym(lm.logps, "p"), sym(lm.logbs, "b"), ints(lm.ids), ints(lm.offsets)

    toks = list(range(V)) + ([sos] if not 0 <= sos < V else [])
    hists = [h for T in range(0, N + 1) for h in itertools.product(toks, repeat=T)]

    def thunk(I):
        import pydrobert.torch._lm as LM

        lm, logps, logbs, ids, offsets = buffers()
        outs = []
        for T in range(0, N + 1):
            hs = [h for h in hists if len(h) == T]
            Bsz = len(hs)
            a = np.empty((T, Bsz), dtype=object)
            for b_, h in enumerate(hs):
                for t_ in range(T):
                    a[t_, b_] = int(h[t_])
            hist = ct.CT(a, "long")
            hidx = ct.CT(ct.obj_array(T), "long")
            out = I.call(LM._lookup_calc_idx_log_probs, [hist, hidx, offsets, ids, logps, logbs, sos, V, N, lm.max_ngram_nodes, lm.max_direct_descendants], {})
            outs.append((hs, out))
        return outs

    def value(ctx, w):
        """(is -inf, finite value) of the recursion on the symbolic table"""
        k = ctx + (w,)
        if not ctx:
            if k in P:
                return PF[k], P[k]
            return z3.BoolVal(True), z3.RealVal(0)
        bo = Bo[ctx] if ctx in Bo and len(ctx) < N else z3.RealVal(0)
        f2, v2 = value(ctx[1:], w)
        if k in P:
            return z3.If(PF[k], f2, z3.BoolVal(False)), z3.If(PF[k], bo + v2, P[k])
        return f2, bo + v2

    def post(p):
        if not api.returns(p) or not isinstance(p.value, list):
            return False
        goals = []
        for hs, out in p.value:
            if not isinstance(out, ct.CT) or tuple(out.shape) != (len(hs), V):
                return [("result_shape", z3.BoolVal(False))]
            for b_, h in enumerate(hs):
                ctx = (tuple([sos] * (N - 1)) + tuple(h))
                ctx = ctx[len(ctx) - (N - 1):] if N > 1 else ()
                for w in range(V):
                    try:
                        f, v = ct.ng_split(out.a[b_, w])
                    except ip.Unsupported:  # a NaN cell reached the result
                        goals.append(("hist=%s.w=%d.is_a_number" % ("".join(map(str, h)) or "-", w), z3.BoolVal(False)))
                        continue
                    f = z3.BoolVal(f) if isinstance(f, bool) else f
                    wf, wv = value(ctx, w)
                    goals.append(("hist=%s.w=%d" % ("".join(str(t) if 0 <= t < 10 else "s" for t in h) or "-", w), z3.And(f == wf, z3.Implies(z3.Not(wf), ip.to_z3(v) == wv))))
        return goals

    inputs = {}
    for k in keys:
        inputs["logp_" + "_".join(map(str, k))] = P[k]
        inputs["logp_is_minus_inf_" + "_".join(map(str, k))] = PF[k]
        inputs["backoff_" + "_".join(map(str, k))] = Bo[k]

    def replay(m):
        return replay_structure(m, V, sos, N, keys)

    return VC("C06.S.descent_is_backoff_recursion", name, M, "_lookup_calc_idx_log_probs", thunk, posts=[("katz_recursion_for_all_values", post)], inputs=inputs, replay=replay,
              twins=[("backoff_weights_ignored", lambda p: z3.And([z3.Implies(z3.Not(ct.ng_split(out.a[b_, w])[0]) if ip.is_z3(ct.ng_split(out.a[b_, w])[0]) else z3.BoolVal(not ct.ng_split(out.a[b_, w])[0]),
                                                                              ip.to_z3(ct.ng_split(out.a[b_, w])[1]) == (P[(w,)] if (w,) in P else 0))
                                                                   for hs, out in p.value for b_ in range(len(hs)) for w in range(V)]) if api.returns(p) else None)] if any(len(k) > 1 for k in keys) else [],
              timeout_ms=60000, max_paths=64,
              assumptions=["value buffers: the real _build_trie run on a table of distinct sentinel numbers, each sentinel then replaced by a symbol (listed log-probability: finite real or -inf; back-off weight: real); the layout of ids / offsets is whatever the real builder produced",
                           "torch contracts of vf/pyvc/ctensor.py (indexing with integer tensors, repeat, repeat_interleave, isfinite, any, where, masked_fill, cat, clamp); float arithmetic treated as real arithmetic",
                           "histories: every token sequence of length 0..N over the vocabulary (plus the start symbol when it lies outside), all positions predicted after the whole history, one batch per length"])


def replay_structure(m, V, sos, N, keys):
    """native replay: the model's values put into a real LookupLanguageModel, compared with the recursion"""
    import torch
    from pydrobert.torch.modules import LookupLanguageModel

    tab = {}
    for k in keys:
        nm = "_".join(map(str, k))
        lp = m.get("logp_" + nm) or 0.0
        if m.get("logp_is_minus_inf_" + nm):
            lp = rt.NEG
        bo = m.get("backoff_" + nm) or 0.0
        if abs(float(lp)) > 1e6 and lp != rt.NEG or abs(float(bo)) > 1e6:
            return None
        tab[k] = (float(lp), float(bo) if len(k) < N else 0.0)
    with warnings.catch_warnings():
        warnings.simplefilter("ignore")
        lm = LookupLanguageModel(V, sos, rt.prob_dicts_of(N, tab))
    oracle = rt.Katz(V, sos, N, tab)
    toks = list(range(V)) + ([sos] if not 0 <= sos < V else [])
    for T in range(0, N + 1):
        for h in itertools.product(toks, repeat=T):
            hist = torch.tensor(h, dtype=torch.long).view(T, 1)
            got = lm.calc_idx_log_probs(hist, dict(), torch.tensor(T))[0][0].tolist()
            want = oracle.after(list(h))
            for w in range(V):
                if not rt._close(got[w], want[w], False):
                    return "%s: after history %s token %d has log-probability %r, the back-off recursion gives %r" % (rt.describe(tab), list(h), w, got[w], want[w])
    return None


def structures(quick):
    """(V, sos, N, present bitmask over canonical_grams) with all unigrams listed (the library requires them)"""
    out = []
    for V, sos, N in ((2, 0, 2), (2, 2, 2), (2, 0, 3)) if quick else ((2, 0, 2), (2, 2, 2), (2, 0, 3), (2, 2, 3), (3, 0, 2)):
        grams = rt.canonical_grams(V, sos, N)
        n1 = len(grams[0])
        higher = sum(len(g) for g in grams[1:])
        rng = __import__("random").Random(V * 100 + N * 10 + (sos if sos < V else 9))
        masks = set()
        if higher <= 4:
            masks = set(range(2 ** higher))
        else:
            masks = {0, 2 ** higher - 1}
            while len(masks) < (4 if quick else 10):
                masks.add(rng.getrandbits(higher))
        top = len(grams[-1])
        for hm in sorted(masks):
            if N > 1 and not (hm >> (higher - top)):
                continue  # the library refuses a table whose highest order is empty
            out.append((V, sos, N, (2 ** n1 - 1) | (hm << n1)))
    return out


def vcs(ctx):
    return [structure_vc(*s) for s in structures(ctx.quick)]
