"""C16, engine A part: crash safety of the persistence part of update_for_epoch, as cut-point obligations.

The real `update_for_epoch` is executed symbolically with a ghost file system. Callee contracts (each
verified on its own body below or assumed, as listed):
  save_model_and_optimizer_with_info(info)  -> events  replace(model_path(e), e); replace(optim_path(e), e)
  save_info_to_hist(info)                   -> cache_hist[e] := info ; event append(e)
  _clean_up_files(*paths)                   -> event remove_set(paths)  (a crash may leave ANY subset removed)
  get_model/optimizer_path_with_info(info)  -> MP(e) / OP(e): injective in e ("{epoch}" in the format) or constant
  get_best_epoch                            -> earliest argmin (proved in C15.best.argmin); the second call on the
                                               history extended by row e is  e if rnd(new) < rnd(val(best)) else best
                                               (lemma C16.best.extend, discharged with quantifiers below)
Ghost state: files : path -> epoch tag | -1 (absent), csv_last : last epoch in the history file.
Pre-state invariant (keep-last-and-best-only): exactly the files of `last` and of the best epoch exist, correctly
tagged; (keep-all): every recorded epoch's files exist. For EVERY prefix of the event list of EVERY path of the
real code the recovery predicate is proved: the last recorded and the best recorded epoch are loadable with their
own parameters. After the full list the exact-keep / keep-all invariant is re-established.
"""
import z3

from contracts import C15_vc as c15
from contracts.C15_vc import A0, ET, EP, LAST, RND, VM, TM, hist_pre, mk_optimizer, mk_self, params_pre
from vf.pyvc import api, interp as ip
from vf.pyvc.api import VC
from vf.pyvc.interp import SObj

M = "pydrobert.torch.training"
FILES0 = z3.Array("files0", z3.IntSort(), z3.IntSort())
B1 = z3.Int("best_before")
PSK = z3.Int("path_skolem")
KSK2 = z3.Int("epoch_skolem")
ABSENT = z3.IntVal(-1)


def path_fns(mode):
    """(MP, OP) for the three format kinds"""
    if mode == "unique":
        return (lambda e: 2 * e + 10), (lambda e: 2 * e + 11)
    if mode == "const":
        return (lambda e: z3.IntVal(0)), (lambda e: z3.IntVal(1))
    if mode == "model_unique_optim_const":
        return (lambda e: 2 * e + 10), (lambda e: z3.IntVal(1))
    raise ValueError(mode)


class GFS:
    def __init__(self):
        self.events = []

    def state_after(self, events, subset_flags=None):
        files, csv_last = FILES0, LAST
        for i, ev in enumerate(events):
            if ev[0] == "replace":
                files = z3.Store(files, ev[1], ev[2])
            elif ev[0] == "append":
                csv_last = ev[1]
            elif ev[0] == "remove_set":
                for j, pth in enumerate(ev[1]):
                    if subset_flags is not None and i == len(events) - 1:
                        files = z3.If(subset_flags[j], z3.Store(files, pth, ABSENT), files)
                    else:
                        files = z3.Store(files, pth, ABSENT)
        return files, csv_last


def vcs_for(mode, keep):
    MP, OP = path_fns(mode)
    name = "update_for_epoch[paths=%s,keep_last_and_best_only=%s]" % (mode, keep)
    e = LAST + 1

    def thunk(I):
        obj, hm = mk_self(I, state_dir="d", keep=keep, ne_set=True, lr0_none=False, l10_set=True, csv="h.csv")
        opt = mk_optimizer()
        gfs = GFS()
        calls = {"best": 0}
        I.ex.ghost.update(self=obj, hm=hm, gfs=gfs)

        def c_mp(I2, a, k):
            return MP(ip.to_z3(a[1]["epoch"]))

        def c_op(I2, a, k):
            return OP(ip.to_z3(a[1]["epoch"]))

        def c_save(I2, a, k):
            ep = ip.to_z3(a[3]["epoch"])
            gfs.events.append(("replace", MP(ep), ep))
            gfs.events.append(("replace", OP(ep), ep))

        def c_hist(I2, a, k):
            info = a[1]
            hm.__vc_setitem__(I2, info["epoch"], info)
            gfs.events.append(("append", ip.to_z3(info["epoch"])))

        def c_clean(I2, a, k):
            gfs.events.append(("remove_set", [ip.to_z3(p) for p in a[1:]]))

        def c_best(I2, a, k):
            calls["best"] += 1
            if calls["best"] == 1:
                return B1
            return z3.If(RND(VM) < RND(z3.Select(A0["val_met"], B1)), e, B1)  # lemma C16.best.extend

        def exists(I2, pth):
            files, _ = gfs.state_after(gfs.events)
            return z3.Select(files, ip.to_z3(pth)) != ABSENT

        I.contracts.update({
            "TrainingStateController.get_model_path_with_info": c_mp, "TrainingStateController.get_optimizer_path_with_info": c_op,
            "TrainingStateController.save_model_and_optimizer_with_info": c_save, "TrainingStateController.save_info_to_hist": c_hist,
            "TrainingStateController._clean_up_files": c_clean, "TrainingStateController.get_best_epoch": c_best})
        I.stubs["posixpath.exists"] = exists
        I.stubs["genericpath.exists"] = exists
        return I.call(I.getattr(obj, "update_for_epoch"), [SObj(None, {}, "model"), opt, TM, VM], {})

    # ---- pre-state --------------------------------------------------------------------------------------------------------
    def tagged(files, k):
        return z3.Implies(k >= 1, z3.And(z3.Select(files, MP(k)) == k, z3.Select(files, OP(k)) == k))

    pre = params_pre(True) + hist_pre(A0, LAST) + [0 <= B1, B1 <= LAST,
                                                    # B1 is the earliest argmin of the formatted metric: only the instance the lemma needs is stated
                                                    z3.Select(FILES0, PSK) >= -1]
    if keep:
        member0 = z3.Or(z3.And(LAST >= 1, z3.Or(PSK == MP(LAST), PSK == OP(LAST))), z3.And(B1 >= 1, z3.Or(PSK == MP(B1), PSK == OP(B1))))
        pre += [tagged(FILES0, LAST), tagged(FILES0, B1), (z3.Select(FILES0, PSK) != ABSENT) == member0]
    else:
        pre += [z3.Implies(z3.And(1 <= KSK2, KSK2 <= LAST), z3.And(z3.Select(FILES0, MP(KSK2)) == KSK2, z3.Select(FILES0, OP(KSK2)) == KSK2)),
                tagged(FILES0, LAST), tagged(FILES0, B1),
                # single-fault model: no checkpoint files of a not-yet-recorded epoch lie around from an earlier crashed run
                z3.Select(FILES0, MP(e)) == ABSENT, z3.Select(FILES0, OP(e)) == ABSENT]

    def recovery(files, csv_last):
        """a controller started now loads a prefix history ending at csv_last; its last and best epochs must be loadable"""
        best = z3.If(csv_last == e, z3.If(RND(VM) < RND(z3.Select(A0["val_met"], B1)), e, B1), B1)
        return z3.And(tagged(files, csv_last), tagged(files, best))

    def post_cut(p):
        gfs = p.ghost["gfs"]
        if p.outcome == "raise":
            # refusing to overwrite the best checkpoint: nothing may have touched the disk
            return [("refusal_touches_nothing", z3.BoolVal(len(gfs.events) == 0))]
        goals = []
        evs = gfs.events
        for k in range(len(evs) + 1):
            files, csv_last = gfs.state_after(evs[:k])
            goals.append(("after_event_%d_of_%d:%s" % (k, len(evs), evs[k - 1][0] if k else "start"), recovery(files, csv_last)))
            if k and evs[k - 1][0] == "remove_set" and evs[k - 1][1]:
                flags = [z3.Bool("removed_%d" % j) for j in range(len(evs[k - 1][1]))]
                files, csv_last = gfs.state_after(evs[:k], flags)
                goals.append(("inside_clean_up_any_subset_removed", recovery(files, csv_last)))
        return goals

    def post_final(p):
        if p.outcome == "raise":
            return None
        gfs = p.ghost["gfs"]
        files, csv_last = gfs.state_after(gfs.events)
        b2 = z3.If(RND(VM) < RND(z3.Select(A0["val_met"], B1)), e, B1)
        goals = [("history_appended_once", z3.And(csv_last == e, z3.BoolVal(sum(1 for ev in gfs.events if ev[0] == "append") == 1)))]
        if keep:
            member = z3.Or(PSK == MP(e), PSK == OP(e), z3.And(b2 >= 1, z3.Or(PSK == MP(b2), PSK == OP(b2))))
            goals.append(("exactly_last_and_best_files_remain", z3.And(tagged(files, e), tagged(files, b2), (z3.Select(files, PSK) != ABSENT) == member)))
        else:
            goals.append(("every_recorded_epoch_stays_loadable", z3.Implies(z3.And(1 <= KSK2, KSK2 <= e), z3.And(z3.Select(files, MP(KSK2)) == KSK2, z3.Select(files, OP(KSK2)) == KSK2))))
        return goals

    def post_refusal(p):
        """the update refuses (ValueError, before touching anything) exactly when it would overwrite the best checkpoint"""
        b2 = z3.If(RND(VM) < RND(z3.Select(A0["val_met"], B1)), e, B1)
        would = z3.And(z3.BoolVal(keep), b2 != e, z3.Or(MP(e) == MP(b2), OP(e) == OP(b2)))
        if p.outcome == "raise":
            return [("refuses_only_if_it_would_overwrite_best", z3.And(would, z3.BoolVal(api.raises(p, "ValueError"))))]
        return [("never_overwrites_best", z3.Not(would))]

    return VC("C16.order.cutpoints", name, M, "TrainingStateController.update_for_epoch", thunk, pre=pre,
              posts=[("recovery_at_every_cut", post_cut), ("final_state", post_final), ("refusal", post_refusal)],
              twins=[("nothing_is_ever_written", lambda p: z3.BoolVal(len(p.ghost["gfs"].events) == 0))],
              inputs={"last": LAST, "best_before": B1, "val_met": VM}, assumptions=c15.ASSUME + [
                  "file-system events are atomic (os.replace, one CSV append, os.remove); torn writes inside torch.save hit only the temporary file",
                  "checkpoint paths are an injective function of the epoch, or constant, per format kind; model and optimizer paths differ",
                  "a crash is a process death between two file-system events (or between two deletions of the clean-up)"],
              timeout_ms=60000, max_paths=20000)


def lemma_vc():
    """C16.best.extend: earliest-argmin over [0,last] extended by one row"""
    arr = A0["val_met"]
    b2, k = z3.Int("b2"), z3.Int("kq")
    e = LAST + 1
    arr2 = z3.Store(arr, e, VM)

    def am(b, a, hi):
        return z3.And(0 <= b, b <= hi, z3.ForAll([k], z3.Implies(z3.And(0 <= k, k <= hi), RND(z3.Select(a, b)) <= RND(z3.Select(a, k)))),
                      z3.ForAll([k], z3.Implies(z3.And(0 <= k, k < b), RND(z3.Select(a, k)) > RND(z3.Select(a, b)))))

    goal = b2 == z3.If(RND(VM) < RND(z3.Select(arr, B1)), e, B1)
    return VC("C16.order.cutpoints", "lemma:best_extend", M, "TrainingStateController.get_best_epoch", lambda I: None, posts=[],
              lemmas=[("best_of_extended_history", [LAST >= 0, am(B1, arr, LAST), am(b2, arr2, e)], goal)], inputs={"last": LAST})


def vcs(ctx):
    out = [lemma_vc()]
    for keep in (True, False):
        out.append(vcs_for("unique", keep))
    return out


def finding_vcs(ctx):
    """the format kinds without the epoch field: expected to be refuted (known finding KF-C16-2)"""
    return [vcs_for("const", True), vcs_for("const", False), vcs_for("model_unique_optim_const", True)]
