"""C08 (bounded, engine B) - SpecAugment draws stay within bounds and masking touches only masked cells.

Run-time contracts on the real functions
    pydrobert.torch.modules.SpecAugment.draw_parameters / apply_parameters / __call__
    pydrobert.torch.functional.spec_augment, spec_augment_draw_parameters,
    spec_augment_apply_parameters, warp_1d_grid
against oracles written from the property text (never from the implementation).

Clauses
    C08.draw.bounds   every drawn parameter respects every configured limit
    C08.apply.masks   no warp: exactly the masked bands are zero, everything else bit-identical, shape kept
    C08.call.modes    __call__/spec_augment: eval mode returns the input unchanged; training output has the
                      input's shape, equals apply(draw) under the same generator state, zero cells form
                      whole frames inside the valid region / whole coefficients, within the caps
    C08.warp.grid     warp_1d_grid: finite for orders 1..3; order 1 non-decreasing over the valid frames and
                      first/last valid frame read within half a frame of themselves
    C08.warp.order    the same order/ends statement observed end-to-end through apply_parameters on a ramp
    C08.warp.range    apply_parameters with warps of order 1..3: shape, finite, inside the range of the input

"Every random draw" is covered two ways: real generator seeds, and *adversarial draws*: torch.rand is
replaced by a constant-pattern stub returning the extreme values of its contract (0 and 1-2^-24, the
largest float32 below 1), the midpoint, and alternating mixtures. Every drawn quantity is a monotone
function of its uniform variate (product with a non-negative constant, then floor/affine), so the
two extremes bound every draw in between.
"""
import contextlib
import math
import random
import re
from fractions import Fraction

U_MAX = 1.0 - 2.0 ** -24  # largest float32 < 1: the top of torch.rand's contract [0, 1)
REL = Fraction(1, 2 ** 22)  # float32 rounding allowance on a length*proportion product (two roundings of 2^-24, with margin)
FRAME_TOL = 1e-3  # frames; tolerance on "non-decreasing" and "within half a frame"
END_CLASS = 0.1  # frames; see KF-C08-1


# ---------------------------------------------------------------------------------------------
# helpers


def _torch():
    import warnings

    import torch

    warnings.simplefilter("ignore")
    return torch


@contextlib.contextmanager
def _draws(spec):
    """spec: 'seed:<int>' -> real generator seeded; otherwise a pattern string over {L,H,M,A,B}: the k-th call of
    torch.rand returns a tensor filled per pattern[k % len]: L=0, H=1-2^-24, M=0.5, A/B = H,L / L,H alternating
    along the flattened index."""
    torch = _torch()
    if spec.startswith("seed:"):
        torch.manual_seed(int(spec[5:]))
        yield
        return
    real = torch.rand
    state = {"k": 0}

    def fake(*size, **kw):
        if len(size) == 1 and isinstance(size[0], (tuple, list, torch.Size)):
            size = tuple(size[0])
        ch = spec[state["k"] % len(spec)]
        state["k"] += 1
        n = 1
        for s in size:
            n *= s
        if ch in "LHM":
            flat = torch.full((n,), {"L": 0.0, "H": U_MAX, "M": 0.5}[ch], dtype=torch.float32)
        else:
            flat = torch.zeros(n, dtype=torch.float32)
            flat[(0 if ch == "A" else 1)::2] = U_MAX
        out = flat.reshape(size)
        dev = kw.get("device")
        return out.to(dev) if dev is not None else out

    torch.rand = fake
    try:
        yield
    finally:
        torch.rand = real


def _dtype(name):
    torch = _torch()
    return {"f32": torch.float32, "f64": torch.float64, "f16": torch.float16}[name or "f32"]


def _bits(x):
    torch = _torch()
    return x.contiguous().view({torch.float32: torch.int32, torch.float64: torch.int64, torch.float16: torch.int16}[x.dtype])


def _module(cfg, order=1):
    from pydrobert.torch.modules import SpecAugment

    mtw, mfw, mtm, mfm, mtp, ntm, ntp, nfm = cfg
    return SpecAugment(mtw, mfw, mtm, mfm, mtp, ntm, ntp, nfm, order)


def _shape_only_feats(N, T, F, dtype):
    """(N,T,F) tensor without N*T*F storage (draw_parameters reads only shape/dtype/device)"""
    torch = _torch()
    return torch.zeros(1, 1, 1, dtype=dtype).expand(N, T, F)


def _intlist(x, what):
    """tensor -> nested python ints; integer-valuedness is part of the contract (widths/starts index cells)"""
    v = x.tolist()

    def conv(o):
        if isinstance(o, list):
            return [conv(i) for i in o]
        if isinstance(o, float):
            if o != o or o != int(o):
                raise ValueError("%s holds a non-integer %r" % (what, o))
            return int(o)
        return int(o)

    return conv(v)


# ---------------------------------------------------------------------------------------------
# oracle for drawn parameters (from the property text and the documented meaning of each limit)


def _prop_cap(L, p):
    """largest integer k with k <= L*p, the product taken exactly over the rationals, allowing the relative float32
    rounding REL (the library documents int(p * length) and computes it in float32)"""
    return math.floor(Fraction(L) * Fraction(p) * (1 + REL))


def _draw_violations(params, N, F, lens, cfg, eps=2.0 ** -23):
    """-> list of messages; params as returned by draw_parameters; lens: python ints (per row); eps: machine epsilon of
    the feature dtype (the window rim is compared up to it)"""
    mtw, mfw, mtm, mfm, mtp, ntm, ntp, nfm = cfg
    w0, w, v0, v, t0, t, f0, f = params
    bad = []
    torch = _torch()

    def empty(x):
        return x is None or x.numel() == 0

    # ---- time masks: widths/counts under the absolute and the proportional caps, inside the valid frames
    if empty(t) != empty(t0):
        bad.append("time mask starts/widths: one is empty, the other is not")
    elif not empty(t):
        if t.shape != t0.shape or t.dim() != 2 or t.size(0) != N:
            return ["time mask tensors have shapes %s/%s, expected (N=%d, M)" % (tuple(t0.shape), tuple(t.shape), N)]
        try:
            tl, t0l = _intlist(t, "t"), _intlist(t0, "t_0")
        except ValueError as e:
            return [str(e)]
        for n in range(N):
            L = lens[n]
            wcap = min(mtm, _prop_cap(L, mtp))
            ccap = min(ntm, _prop_cap(L, ntp))
            cnt = 0
            for m, (a, k) in enumerate(zip(t0l[n], tl[n])):
                if k < 0 or k > wcap:
                    bad.append("row %d (L=%d) time mask %d has width %d, cap min(%d, floor(%d*%r))=%d" % (n, L, m, k, mtm, L, mtp, wcap))
                if a < 0 or a + k > L:
                    bad.append("row %d (L=%d) time mask %d = [%d,%d) leaves the valid frames [0,%d)" % (n, L, m, a, a + k, L))
                cnt += k > 0
            if cnt > ccap:
                bad.append("row %d (L=%d) has %d non-empty time masks, cap min(%d, floor(%d*%r))=%d" % (n, L, cnt, ntm, L, ntp, ccap))
    # ---- frequency masks
    if empty(f) != empty(f0):
        bad.append("freq mask starts/widths: one is empty, the other is not")
    elif not empty(f):
        if f.shape != f0.shape or f.dim() != 2 or f.size(0) != N:
            return ["freq mask tensors have shapes %s/%s, expected (N=%d, M)" % (tuple(f0.shape), tuple(f.shape), N)]
        try:
            fl, f0l = _intlist(f, "f"), _intlist(f0, "f_0")
        except ValueError as e:
            return [str(e)]
        wcap = min(mfm, F)
        for n in range(N):
            cnt = 0
            for m, (a, k) in enumerate(zip(f0l[n], fl[n])):
                if k < 0 or k > wcap:
                    bad.append("row %d freq mask %d has width %d, cap min(%d, F=%d)" % (n, m, k, mfm, F))
                if a < 0 or a + k > F:
                    bad.append("row %d freq mask %d = [%d,%d) leaves the coefficients [0,%d)" % (n, m, a, a + k, F))
                cnt += k > 0
            if cnt > nfm:
                bad.append("row %d has %d non-empty freq masks, cap %d" % (n, cnt, nfm))

    # ---- warps: shift at most the configured maximum and at most half the extent; centre at least that far
    # from both ends of the extent; shifted centre still inside the extent
    def warp(c, s, maxw, extents, name):
        if empty(c) != empty(s):
            bad.append("%s warp centre/shift: one is empty, the other is not" % name)
            return
        if empty(s):
            return
        if c.shape != (N,) or s.shape != (N,):
            bad.append("%s warp tensors have shapes %s/%s, expected (%d,)" % (name, tuple(c.shape), tuple(s.shape), N))
            return
        if not (torch.isfinite(c).all() and torch.isfinite(s).all()):
            bad.append("%s warp parameters are not finite" % name)
            return
        cl, sl = c.double().tolist(), s.double().tolist()
        for n in range(N):
            E = extents[n]
            W = min(float(maxw), E / 2.0)
            tol = 1e-6 * (1 + E) + 2 * eps
            if abs(sl[n]) > W + tol:
                bad.append("row %d (extent %d) %s shift %.9g exceeds min(max warp %r, extent/2)=%.9g" % (n, E, name, sl[n], maxw, W))
            if cl[n] < W - tol or cl[n] > E - W + tol:
                bad.append("row %d (extent %d) %s warp centre %.9g outside [%.9g, %.9g]" % (n, E, name, cl[n], W, E - W))
            if cl[n] + sl[n] < -tol or cl[n] + sl[n] > E + tol:
                bad.append("row %d (extent %d) %s warp moves its centre to %.9g, outside [0, %d]" % (n, E, name, cl[n] + sl[n], E))

    warp(w0, w, mtw, lens, "time")
    warp(v0, v, mfw, [F] * N, "freq")
    # ---- a limit of zero switches the step off
    if not mtw and not empty(w) and bool((w != 0).any()):
        bad.append("max_time_warp=0 but a non-zero time shift was drawn")
    if not mfw and not empty(v) and bool((v != 0).any()):
        bad.append("max_freq_warp=0 but a non-zero freq shift was drawn")
    return bad


def check_draw(case):
    """case: {T, F, lens: [..]|None, cfg: [8 limits], rand: pattern|'seed:k', dtype}"""
    torch = _torch()
    T, F, cfg = case["T"], case["F"], case["cfg"]
    lens = case.get("lens")
    N = len(lens) if lens is not None else case.get("N", 2)
    feats = _shape_only_feats(N, T, F, _dtype(case.get("dtype")))
    lt = torch.tensor(lens, dtype=torch.long) if lens is not None else None
    sa = _module(cfg)
    with _draws(case["rand"]):
        params = sa.draw_parameters(feats, lt)
    if len(params) != 8:
        return "draw_parameters returned %d values, expected 8" % len(params)
    bad = _draw_violations(params, N, F, lens if lens is not None else [T] * N, cfg, torch.finfo(feats.dtype).eps)
    if bad:
        return "%d limit(s) broken; first: %s" % (len(bad), bad[0])
    return None


# value grids (quick tier): zero and non-zero limits, proportions 0 and 1, warps larger than half the length
Q_TW = [0.0, 0.5, 1.0, 2.5, 80.0]
Q_FW = [0.0, 0.5, 2.0, 80.0]
Q_MTM = [0, 1, 2, 5, 100]
Q_MTP = [0.0, 0.04, 0.25, 0.29, 0.5, 1.0]
Q_NTM = [0, 1, 2, 20]
Q_NTP = [0.0, 0.04, 0.3, 1.0]
Q_MFM = [0, 1, 3, 27]
Q_NFM = [0, 1, 2]
Q_F = [1, 2, 3, 5, 8, 30]
PATTERNS = ["LL", "LH", "HL", "HH", "MM", "AB", "BA"]
LENS_SMALL = list(range(1, 25))
LENS_BIG = [25, 31, 32, 33, 50, 99, 100, 101, 127, 128, 129, 1000, 4095, 4096, 4097, 65535, 65536, 2 ** 20 - 1, 2 ** 20]
DTYPES = ["f32", "f32", "f32", "f64", "f16"]


def _cyc(lst, i, mul=1, off=0):
    return lst[(i * mul + off) % len(lst)]


def cases_draw(ctx):
    quick = ctx.quick
    tw, fw, mtm, mtp, ntm, ntp, mfm, nfm, fs = Q_TW, Q_FW, Q_MTM, Q_MTP, Q_NTM, Q_NTP, Q_MFM, Q_NFM, Q_F
    lens_sets = [(24, LENS_SMALL), (2 ** 20, LENS_SMALL[::5] + LENS_BIG)]
    if not quick:
        tw = tw + [0.25, 3.0, 12.0, 1e6]
        fw = fw + [1.0, 15.0]
        mtm = mtm + [3, 24, 2 ** 20]
        mtp = mtp + [0.01, 0.07, 0.1, 0.3, 0.7, 0.99]
        ntm = ntm + [3, 5]
        ntp = ntp + [0.01, 0.29, 0.5, 0.99]
        mfm = mfm + [2, 8]
        nfm = nfm + [5]
        lens_sets.append((2 ** 24, [2 ** 20 + 1, 2 ** 22 - 1, 2 ** 22 + 3, 2 ** 23 - 1, 2 ** 23, 2 ** 23 + 1, 2 ** 24 - 1, 2 ** 24]))
    rands = PATTERNS + ["seed:%d" % (ctx.seed * 1000 + k) for k in range(2 if quick else 5)]
    pk = random.Random(ctx.seed + 8000).choice  # the limits outside the group under full product are picked pseudo-randomly (seeded)
    # time-mask group: full product of its four limits
    for a in mtm:
        for b in mtp:
            for c in ntm:
                for d in ntp:
                    for T, lens in lens_sets:
                        for r in rands:
                            yield {"T": T, "F": pk(fs), "lens": lens, "cfg": [pk(tw), pk(fw), a, pk(mfm), b, c, d, pk(nfm)], "rand": r, "dtype": pk(DTYPES)}
    # warp group: full product of both warp limits and F
    for a in tw:
        for b in fw:
            for F in fs:
                for T, lens in lens_sets:
                    for r in rands:
                        yield {"T": T, "F": F, "lens": lens, "cfg": [a, b, pk(mtm), pk(mfm), pk(mtp), pk(ntm), pk(ntp), pk(nfm)], "rand": r, "dtype": pk(DTYPES)}
    # frequency-mask group: full product of its limits and F
    for a in mfm:
        for b in nfm:
            for F in fs:
                for r in rands:
                    yield {"T": 24, "F": F, "lens": LENS_SMALL, "cfg": [pk(tw), pk(fw), pk(mtm), a, pk(mtp), pk(ntm), pk(ntp), b], "rand": r, "dtype": pk(DTYPES)}
    # lengths omitted (every row has length T)
    for T in range(1, 13 if quick else 41):
        for r in rands:
            for k in range(4):
                yield {"T": T, "F": pk(fs), "lens": None, "N": 3, "cfg": [pk(tw), pk(fw), pk(mtm), pk(mfm), pk(mtp), pk(ntm), pk(ntp), pk(nfm)], "rand": r, "dtype": pk(DTYPES)}
    if not quick:
        rng = random.Random(ctx.seed + 8001)
        for k in range(30000):
            T = rng.choice([rng.randint(1, 64), rng.randint(1, 4096), rng.randint(1, 2 ** 24)])
            N = rng.randint(1, 6)
            lens = [rng.choice([1, T, rng.randint(1, T), max(1, T - rng.randint(0, 3))]) for _ in range(N)]
            cfg = [rng.choice([0.0, rng.random() * 4, rng.random() * T, 2.0 * T]), rng.choice([0.0, rng.random() * 4, 80.0]),
                   rng.choice([0, rng.randint(1, 8), rng.randint(1, T), 2 * T]), rng.choice([0, rng.randint(1, 8), 27]),
                   rng.choice([0.0, 1.0, rng.random(), rng.random() / 10]), rng.choice([0, 1, rng.randint(1, 20)]),
                   rng.choice([0.0, 1.0, rng.random(), rng.random() / 10]), rng.choice([0, 1, 2, 4])]
            r = rng.choice(PATTERNS + ["seed:%d" % rng.randrange(2 ** 31)] * 7)
            yield {"T": T, "F": rng.choice([1, 2, 3, 7, 40, 80]), "lens": lens, "cfg": cfg, "rand": r, "dtype": rng.choice(DTYPES)}


def _draw_nontrivial(c):
    mtw, mfw, mtm, mfm, mtp, ntm, ntp, nfm = c["cfg"]
    return bool(mtw or mfw or (mtm and mtp and ntm and ntp) or (mfm and nfm))


# ---------------------------------------------------------------------------------------------
# C08.apply.masks


def _mask_oracle(N, T, F, rows):
    """rows[n] = [t0s, ts, f0s, fs] -> nested bool list: cell (n,t,f) is masked iff some time band [t0,t0+t) holds t
    or some frequency band [f0,f0+f) holds f"""
    out = []
    for n in range(N):
        t0s, ts, f0s, fs = rows[n]
        tm = [any(a <= x < a + k for a, k in zip(t0s, ts)) for x in range(T)]
        fm = [any(a <= x < a + k for a, k in zip(f0s, fs)) for x in range(F)]
        out.append([[tm[x] or fm[y] for y in range(F)] for x in range(T)])
    return out


def _feats(N, T, F, dtype, seed, specials=True, positive=False):
    torch = _torch()
    g = torch.Generator().manual_seed(seed)
    x = torch.randn(N, T, F, generator=g, dtype=torch.float64)
    if positive:
        x = torch.rand(N, T, F, generator=g, dtype=torch.float64) * 3 + 5
    x = x.to(dtype)
    if specials and not positive:
        flat = x.view(-1)
        n = flat.numel()
        for k, v in enumerate([-0.0, float("inf"), float("nan"), 0.0]):
            if n > k + 2:
                flat[(seed * 7 + k * 3) % n] = v
    return x


def _compare_masked(out, feats, mask):
    """None or message: masked cells zero, other cells bit-identical"""
    torch = _torch()
    if tuple(out.shape) != tuple(feats.shape):
        return "output shape %s differs from input shape %s" % (tuple(out.shape), tuple(feats.shape))
    if out.dtype != feats.dtype:
        return "output dtype %s differs from input dtype %s" % (out.dtype, feats.dtype)
    m = torch.tensor(mask, dtype=torch.bool)
    wrong_zero = m & ~(out == 0)
    if bool(wrong_zero.any()):
        idx = wrong_zero.nonzero()[0].tolist()
        return "masked cell %s is %r, expected 0" % (idx, out[tuple(idx)].item())
    diff = (~m) & (_bits(out) != _bits(feats))
    if bool(diff.any()):
        idx = diff.nonzero()[0].tolist()
        return "unmasked cell %s changed from %r to %r" % (idx, feats[tuple(idx)].item(), out[tuple(idx)].item())
    return None


def check_masks(case):
    """case: {T, F, rows: [[t0s, ts, f0s, fs], ...], lens: [..]|None, dtype, seed, none: bool, fn: bool}"""
    torch = _torch()
    T, F, rows = case["T"], case["F"], case["rows"]
    N = len(rows)
    feats = _feats(N, T, F, _dtype(case.get("dtype")), case.get("seed", 0))
    orig = feats.clone()
    lens = case.get("lens")
    lt = torch.tensor(lens, dtype=torch.long) if lens is not None else None
    off = None if case.get("none") else torch.empty(0)

    def ten(col):
        vals = [r[col] for r in rows]
        if not vals[0]:
            return off
        return torch.tensor(vals, dtype=torch.long)

    params = (off, off, off, off, ten(0), ten(1), ten(2), ten(3))
    if case.get("fn"):
        from pydrobert.torch.functional import spec_augment_apply_parameters

        out = spec_augment_apply_parameters(feats, params, 1, lt)
    else:
        out = _module([0.0, 0.0, 0, 0, 0.0, 0, 0.0, 0]).apply_parameters(feats, params, lt)
    return _compare_masked(out, orig, _mask_oracle(N, T, F, rows))


def _bands(size, maxw):
    return [(a, k) for a in range(size + 1) for k in range(maxw + 1)]


def _mask_rows(T, F, MT, MF):
    import itertools

    bt, bf = _bands(T, T), _bands(F, F)
    for tsel in itertools.product(bt, repeat=MT):
        for fsel in itertools.product(bf, repeat=MF):
            yield [[a for a, _ in tsel], [k for _, k in tsel], [a for a, _ in fsel], [k for _, k in fsel]]


def cases_masks(ctx):
    B = 3 if ctx.quick else 4
    i = 0
    for T in range(1, B + 1):
        for F in range(1, B + 1):
            for MT in range(3):
                for MF in range(3):
                    if MT == 0 and MF == 0:
                        yield {"T": T, "F": F, "rows": [[[], [], [], []]] * 2, "lens": None, "dtype": "f32", "seed": 1, "none": False, "fn": False}
                        yield {"T": T, "F": F, "rows": [[[], [], [], []]] * 2, "lens": None, "dtype": "f32", "seed": 1, "none": True, "fn": True}
                        continue
                    rows = list(_mask_rows(T, F, MT, MF))
                    K = (len(rows) + 3) // 4
                    for j in range(K):
                        i += 1
                        batch = [rows[(j + q * K) % len(rows)] for q in range(4)]
                        lens = None if i % 3 == 0 else [1 + (i + q) % T for q in range(4)]
                        yield {"T": T, "F": F, "rows": batch, "lens": lens, "dtype": _cyc(DTYPES, i), "seed": i % 9973, "none": i % 4 == 1, "fn": i % 7 == 2}
    if not ctx.quick:
        rng = random.Random(ctx.seed + 8002)
        for k in range(40000):
            T, F, N = rng.randint(1, 40), rng.randint(1, 30), rng.randint(1, 5)
            MT, MF = rng.randint(0, 6), rng.randint(0, 4)
            rows = []
            for n in range(N):
                t0s = [rng.randint(0, T) for _ in range(MT)]
                f0s = [rng.randint(0, F) for _ in range(MF)]
                rows.append([t0s, [rng.choice([0, 1, rng.randint(0, T)]) for _ in range(MT)], f0s, [rng.choice([0, 1, rng.randint(0, F)]) for _ in range(MF)]])
            yield {"T": T, "F": F, "rows": rows, "lens": rng.choice([None, [rng.randint(1, T) for _ in range(N)]]), "dtype": rng.choice(DTYPES),
                   "seed": k, "none": rng.random() < 0.3, "fn": rng.random() < 0.3}


# ---------------------------------------------------------------------------------------------
# C08.call.modes


def check_call(case):
    """case: {T, F, N, lens: [..]|None, cfg, order, seed, dtype, fn: bool}"""
    torch = _torch()
    T, F, cfg, order = case["T"], case["F"], case["cfg"], case.get("order", 1)
    lens = case.get("lens")
    N = len(lens) if lens is not None else case.get("N", 2)
    dtype = _dtype(case.get("dtype"))
    mtw, mfw, mtm, mfm, mtp, ntm, ntp, nfm = cfg
    warp = bool(mtw or mfw)
    feats = _feats(N, T, F, dtype, case["seed"], specials=not warp)
    # non-zero everywhere for the structural check (zero cells are then exactly the masked ones)
    if not warp:
        feats = torch.where(feats == 0, torch.ones_like(feats), feats)
    orig = feats.clone()
    lt = torch.tensor(lens, dtype=torch.long) if lens is not None else None
    sa = _module(cfg, order)
    from pydrobert.torch.functional import spec_augment

    def call(training):
        if case.get("fn"):
            return spec_augment(feats, mtw, mfw, mtm, mfm, mtp, ntm, ntp, nfm, order, lt, training)
        sa.train(training)
        return sa(feats, lt) if lt is not None else sa(feats)

    # evaluation mode: the input comes back unchanged
    torch.manual_seed(case["seed"])
    out = call(False)
    if tuple(out.shape) != tuple(orig.shape) or out.dtype != orig.dtype or bool((_bits(out) != _bits(orig)).any()):
        return "evaluation mode changed the input"
    # training mode
    torch.manual_seed(case["seed"])
    out = call(True)
    if tuple(out.shape) != tuple(orig.shape):
        return "training output shape %s differs from input shape %s" % (tuple(out.shape), tuple(orig.shape))
    if bool((_bits(feats) != _bits(orig)).any()):
        return "the input tensor was modified in place"
    torch.manual_seed(case["seed"])
    params = sa.draw_parameters(orig, lt)
    L = lens if lens is not None else [T] * N
    bad = _draw_violations(params, N, F, L, cfg, torch.finfo(dtype).eps)
    if bad:
        return "parameters drawn under this seed break a limit: %s" % bad[0]
    if warp:
        if not bool(torch.isfinite(out).all()):
            return "non-finite value in the training output"
        for n in range(N):
            lo, hi = min(orig[n].min().item(), 0.0), max(orig[n].max().item(), 0.0)
            tol = 1e-5 * max(1.0, abs(lo), abs(hi))
            if out[n].min().item() < lo - tol or out[n].max().item() > hi + tol:
                return "row %d output range [%r, %r] leaves the input range (with 0) [%r, %r]" % (n, out[n].min().item(), out[n].max().item(), lo, hi)
        return None
    w0, w, v0, v, t0, t, f0, f = params
    rows = []
    for n in range(N):
        rows.append([t0[n].tolist() if t0.numel() else [], t[n].tolist() if t.numel() else [], f0[n].tolist() if f0.numel() else [], f[n].tolist() if f.numel() else []])
    msg = _compare_masked(out, orig, _mask_oracle(N, T, F, rows))
    if msg:
        return "training output is not apply(draw) under the same generator state: " + msg
    # structure, independent of replaying the generator: zero cells = whole frames (inside the valid region, within the
    # caps) + whole coefficients (within the caps); everything else bit-identical (checked above against the input)
    z = out == 0
    for n in range(N):
        zr = [bool(z[n, x].all()) for x in range(T)]
        zc = [bool(z[n, :, y].all()) for y in range(F)]
        for x in range(T):
            for y in range(F):
                if bool(z[n, x, y]) != (zr[x] or zc[y]):
                    return "row %d: zero cell (%d,%d) is not part of a whole masked frame or coefficient" % (n, x, y)
        if all(zc):
            continue  # every coefficient masked: frames cannot be told apart
        if any(zr[L[n]:]):
            return "row %d: a padding frame beyond length %d was masked" % (n, L[n])
        enabled = bool(mtm and mtp and ntm and ntp)
        capT = min(mtm, _prop_cap(L[n], mtp)) * min(ntm, _prop_cap(L[n], ntp)) if enabled else 0
        if sum(zr) > capT:
            return "row %d: %d frames masked, caps allow at most %d" % (n, sum(zr), capT)
        capF = min(mfm, F) * nfm
        if sum(zc) > capF:
            return "row %d: %d coefficients masked, caps allow at most %d" % (n, sum(zc), capF)
    return None


def cases_call(ctx):
    quick = ctx.quick
    rng = random.Random(ctx.seed + 8005)
    pk = rng.choice
    i = 0
    for T in range(1, 9 if quick else 17):
        for F in ([1, 3, 6] if quick else [1, 2, 3, 6, 11]):
            for k in range(140 if quick else 600):
                i += 1
                warp = i % 3 == 0
                cfg = [pk(Q_TW) if warp else 0.0, pk(Q_FW) if warp and i % 2 else 0.0, pk(Q_MTM), pk(Q_MFM), pk(Q_MTP), pk(Q_NTM), pk(Q_NTP), pk(Q_NFM)]
                if i % 4 == 0:  # make the time masks likely to be switched on and visible
                    cfg[2], cfg[4], cfg[5], cfg[6] = pk([1, 2, 5, 100]), pk([0.5, 1.0]), pk([1, 2, 20]), pk([0.3, 1.0])
                lens = None if i % 5 == 0 else [rng.randint(1, T) for q in range(3)]
                warp = bool(cfg[0] or cfg[1])
                yield {"T": T, "F": F, "N": 3, "lens": lens, "cfg": cfg, "order": pk([1, 2, 3]) if warp else 1, "seed": rng.randrange(2 ** 31),
                       "dtype": "f32" if warp else pk(DTYPES), "fn": i % 4 == 3}


# ---------------------------------------------------------------------------------------------
# C08.warp.*


def _enddist(s, f, L):
    """distance (frames) of the warp's destination from the nearer end frame of the valid region (<= 0: on or beyond it)"""
    d = min(max(s, 0.0), L - 1.0) + f
    return min(d, (L - 1.0) - d)


def _order_violation(x, L):
    """x: read positions (frames) of the valid output frames 0..L-1 -> None or what is wrong"""
    for k in range(1, L):
        if x[k] < x[k - 1] - FRAME_TOL:
            return "reads frame %.4f at t=%d after %.4f at t=%d (decreasing)" % (x[k], k, x[k - 1], k - 1)
    if abs(x[0]) > 0.5 + FRAME_TOL:
        return "first valid frame reads position %.4f, more than half a frame from 0" % x[0]
    if abs(x[L - 1] - (L - 1)) > 0.5 + FRAME_TOL:
        return "last valid frame (%d) reads position %.4f, more than half a frame away" % (L - 1, x[L - 1])
    return None


def _fail_msg(fails):
    """fails: [(enddist, text)] -> message carrying the largest end distance among ALL failing rows (used by the class
    predicate of KF-C08-1: a failing row outside the class must never hide behind one inside it)"""
    fails.sort(key=lambda e: -e[0])
    return "%d row(s) fail; max_enddist=%.6g; worst-first: %s" % (len(fails), fails[0][0], " || ".join(t for _, t in fails[:3]))


def check_warp_grid(case):
    """case: {T, order, rows: [[src, flow, L], ...], maxlen: bool}"""
    torch = _torch()
    from pydrobert.torch.functional import warp_1d_grid

    rows, order = case["rows"], case["order"]
    T = case["T"] if case.get("maxlen", True) else max(r[2] for r in rows)
    src = torch.tensor([r[0] for r in rows], dtype=torch.float32)
    flow = torch.tensor([r[1] for r in rows], dtype=torch.float32)
    lens = torch.tensor([r[2] for r in rows], dtype=torch.long)
    g = warp_1d_grid(src, flow, lens, T if case.get("maxlen", True) else None, order)
    if tuple(g.shape) != (len(rows), T):
        return "grid shape %s, expected %s" % (tuple(g.shape), (len(rows), T))
    if not bool(torch.isfinite(g).all()):
        n = int((~torch.isfinite(g)).any(1).nonzero()[0])
        return "non-finite grid value for row %s (order %d)" % (rows[n], order)
    if order != 1:
        return None
    x = (((g.double() + 1.0) * T - 1.0) / 2.0).tolist()  # grid_sample's align_corners=False convention: centre of frame k is (2k+1)/T-1
    fails = []
    for n, (s, f, L) in enumerate(rows):
        m = _order_violation(x[n][:L], L)
        if m:
            fails.append((_enddist(s, f, L), "src=%r flow=%r L=%d T=%d: %s" % (s, f, L, T, m)))
    return _fail_msg(fails) if fails else None


def _lattice(L, q):
    """(src, flow) on the 1/q-frame lattice inside the window the draw permits: |flow| <= min(src, L - src)"""
    out = []
    for k in range(0, q * L + 1):
        s = k / q
        fl = []
        for j in range(-q * L, q * L + 1):
            f = j / q
            if abs(f) <= min(s, L - s):
                fl.append(f)
        out.append((s, fl))
    return out


def cases_warp_grid(ctx):
    quick = ctx.quick
    Tmax, q = (12, 4) if quick else (24, 4)
    i = 0
    for T in range(1, Tmax + 1):
        for L in range(1, T + 1):
            for order in (1, 2, 3):
                for s, fl in _lattice(L, q):
                    i += 1
                    yield {"T": T, "order": order, "rows": [[s, f, L] for f in fl], "maxlen": True}
                # centres/shifts outside the permitted window (warp_1d_grid clamps): still finite, still ordered
                i += 1
                yield {"T": T, "order": order, "rows": [[s, f, L] for s in (-1.0, 0.0, L / 2.0, L - 1.0, L + 1.0) for f in (-L - 1.0, -L / 2.0 - 0.25, L / 2.0 + 0.25, L + 1.0)], "maxlen": True}
            # mixed lengths in one batch, max_length left to the function (= longest row)
            i += 1
            yield {"T": T, "order": 1, "rows": [[l / 2.0, ((-1) ** l) * l / 4.0, l] for l in range(1, L + 1)], "maxlen": False}
    # the degenerate corner: a single (or two) valid frame(s) inside ever longer batches (all three knots within 2*eps)
    for T in range(1, 65 if quick else 2049):
        for order in (1, 2, 3):
            yield {"T": T, "order": order, "rows": [[0.0, 0.0, 1]], "maxlen": True}
            if T >= 2:
                yield {"T": T, "order": order, "rows": [[1.0, -0.5, 2]], "maxlen": True}
    rng = random.Random(ctx.seed + 8003)
    for k in range(3000 if quick else 40000):
        T = rng.randint(1, Tmax if quick else 40)
        rows = []
        for n in range(rng.randint(1, 6)):
            L = rng.randint(1, T)
            s = rng.random() * L
            rows.append([s, (rng.random() * 2 - 1) * min(s, L - s), L])
        yield {"T": T, "order": rng.choice([1, 1, 2, 3]), "rows": rows, "maxlen": True}


def _warp_params(case, N, T, F, lens):
    """warp parameters of a case: explicit rows 'wrows' [[w0, w], ...] (+ 'vrows') or drawn by the real draw_parameters"""
    torch = _torch()
    mtw, mfw = case["cfg"]
    sa = _module([mtw, mfw, 0, 0, 0.0, 0, 0.0, 0], case.get("order", 1))
    e = torch.empty(0)
    if "wrows" in case:
        w0 = torch.tensor([r[0] for r in case["wrows"]], dtype=torch.float32)
        w = torch.tensor([r[1] for r in case["wrows"]], dtype=torch.float32)
        if case.get("vrows"):
            v0 = torch.tensor([r[0] for r in case["vrows"]], dtype=torch.float32)
            v = torch.tensor([r[1] for r in case["vrows"]], dtype=torch.float32)
        else:
            v0 = v = e
        return sa, (w0, w, v0, v, e, e, e, e)
    with _draws(case["rand"]):
        params = sa.draw_parameters(_shape_only_feats(N, T, F, torch.float32), torch.tensor(lens, dtype=torch.long))
    return sa, params


def check_warp_order(case):
    """case: {T, F, lens, cfg: [max_time_warp, max_freq_warp], rand | wrows(/vrows)}; interpolation order 1.
    A ramp feats[n,t,f] = t is bilinear-exact, so the output value at (n,t,.) IS the position the warp reads."""
    torch = _torch()
    T, F, lens = case["T"], case["F"], case["lens"]
    N = len(lens)
    sa, params = _warp_params(case, N, T, F, lens)
    ramp = torch.arange(T, dtype=torch.float32).view(1, T, 1).expand(N, T, F).contiguous()
    out = sa.apply_parameters(ramp, params, torch.tensor(lens, dtype=torch.long))
    if tuple(out.shape) != (N, T, F):
        return "output shape %s differs from input shape %s" % (tuple(out.shape), (N, T, F))
    if not bool(torch.isfinite(out).all()):
        return "non-finite value in the warped ramp"
    w0, w = params[0], params[1]
    fails = []
    lo, hi = out.min(2)[0].tolist(), out.max(2)[0].tolist()
    for n in range(N):
        L = lens[n]
        s, f = (float(w0[n]), float(w[n])) if w0 is not None and w0.numel() else (0.0, 0.0)
        m = None
        if max(h - l for h, l in zip(hi[n][:L], lo[n][:L])) > FRAME_TOL:
            m = "frames are not read uniformly across coefficients"
        m = m or _order_violation(lo[n][:L], L)
        if m:
            fails.append((_enddist(s, f, L) if w0 is not None and w0.numel() else float("inf"), "row %d w_0=%r w=%r L=%d T=%d: %s" % (n, s, f, L, T, m)))
    return _fail_msg(fails) if fails else None


def check_warp_range(case):
    """case: {T, F, lens, order, cfg: [max_time_warp, max_freq_warp], rand | wrows(/vrows), seed}"""
    torch = _torch()
    T, F, lens = case["T"], case["F"], case["lens"]
    N = len(lens)
    sa, params = _warp_params(case, N, T, F, lens)
    feats = _feats(N, T, F, torch.float32, case.get("seed", 0), positive=True)  # range [5, 8]: zero is outside it
    orig = feats.clone()
    out = sa.apply_parameters(feats, params, torch.tensor(lens, dtype=torch.long))
    if tuple(out.shape) != (N, T, F):
        return "output shape %s differs from input shape %s" % (tuple(out.shape), (N, T, F))
    if out.dtype != orig.dtype:
        return "output dtype %s differs from input dtype %s" % (out.dtype, orig.dtype)
    if not bool(torch.isfinite(out).all()):
        return "non-finite value in the warped output (order %d)" % case.get("order", 1)
    for n in range(N):
        lo, hi = orig[n].min().item(), orig[n].max().item()
        tol = 1e-5 * max(1.0, abs(lo), abs(hi))
        a, b = out[n].min().item(), out[n].max().item()
        if a < lo - tol or b > hi + tol:
            return "row %d (L=%d, order %d): output range [%r, %r] leaves the input's range [%r, %r]" % (n, lens[n], case.get("order", 1), a, b, lo, hi)
    return None


def _cases_warp_apply(ctx, orders, salt):
    quick = ctx.quick
    Tmax = 12 if quick else 24
    tws = [0.5, 1.0, 2.5, 80.0] if quick else [0.25, 0.5, 1.0, 2.5, 6.0, 80.0]
    fws = [0.0, 1.0, 80.0]
    Fs = [1, 2, 5] if quick else [1, 2, 3, 5, 9]
    nseeds = (9 if quick else 24) if salt == 1 else (5 if quick else 10)
    i = 0
    for T in range(1, Tmax + 1):
        lens = list(range(1, T + 1))
        for F in Fs:
            for order in orders:
                for tw in tws + [0.0]:
                    for fw in fws:
                        if not tw and not fw:
                            continue
                        rands = PATTERNS + ["seed:%d" % ((ctx.seed * 7919 + salt * 104729 + i * 31 + k) % (2 ** 31)) for k in range(nseeds)]
                        for r in rands:
                            i += 1
                            yield {"T": T, "F": F, "lens": lens, "order": order, "cfg": [tw, fw], "rand": r, "seed": i % 9973}
        # explicit centres/shifts on the half-frame lattice of the permitted window, one length per case
        for L in range(1, T + 1):
            for order in orders:
                for s, fl in _lattice(L, 2):
                    i += 1
                    yield {"T": T, "F": _cyc(Fs, i), "lens": [L] * len(fl), "order": order, "cfg": [float(L), 0.0], "wrows": [[s, f] for f in fl], "seed": i % 9973}
    if not quick:
        rng = random.Random(ctx.seed + 8004 + salt)
        for k in range(20000):
            T, F, N = rng.randint(1, 40), rng.randint(1, 12), rng.randint(1, 5)
            yield {"T": T, "F": F, "lens": [rng.randint(1, T) for _ in range(N)], "order": rng.choice(orders), "cfg": [rng.choice([0.0, rng.random() * 3, rng.random() * T, 80.0]) or 1.0, rng.choice([0.0, 0.0, rng.random() * 3, 80.0])],
                   "rand": "seed:%d" % rng.randrange(2 ** 31), "seed": k}


def cases_warp_order(ctx):
    return _cases_warp_apply(ctx, (1,), 1)


def cases_warp_range(ctx):
    return _cases_warp_apply(ctx, (1, 2, 3), 2)


# ---------------------------------------------------------------------------------------------
# findings on the unchanged tree


def _max_enddist(msg):
    m = re.search(r"max_enddist=(-?[0-9.eE+-]+|inf|-inf)", msg or "")
    return float(m.group(1)) if m else float("inf")


_KF_WHAT = ("linear time warp whose destination frame (clamped w_0, plus w) lands on or within 0.1 frame of the first/last valid frame "
            "does not keep that end fixed: the end frame reads from w_0 instead (up to half the utterance is cut), and the "
            "near-singular 3-knot spline system returns garbage positions (decreasing / outside the valid frames)")
_KF_CLASS = ("interpolation_order == 1 and min(d, L-1-d) < 0.1 where d = clamp(src, 0, L-1) + flow; reachable from draw_parameters for every "
             "configuration with max_time_warp > 0, because w_0 + w ranges over [0, L] while the last valid frame is L-1")

_KF2_WHAT = ("a batch whose time dimension is 31 and that holds a length-1 sequence: the three spline knots (1/T-1-eps computed in double, the frame centre and "
             "centre+eps computed in float32) end up 1 and 2 ulp apart and torch.linalg.solve rejects the system as singular, so the linear time warp raises")
_KF2_CLASS = "interpolation_order == 1 and T == 31 and some lengths[n] == 1 (the only T in 1..2048 where it happens)"

FINDINGS = [
    {"id": "KF-C08-1", "property": "C08", "clause": "C08.warp.grid", "what": "warp_1d_grid: " + _KF_WHAT, "class": _KF_CLASS,
     "witness": {"T": 2, "order": 1, "rows": [[1.0, -1.0, 2]], "maxlen": True}},
    {"id": "KF-C08-2", "property": "C08", "clause": "C08.warp.order", "what": "apply_parameters (same root cause as KF-C08-1): " + _KF_WHAT, "class": _KF_CLASS,
     "witness": {"T": 2, "F": 1, "lens": [2], "order": 1, "cfg": [2.0, 0.0], "wrows": [[1.0, -1.0]], "seed": 0}},
    {"id": "KF-C08-3", "property": "C08", "clause": "C08.warp.grid", "what": "warp_1d_grid raises _LinAlgError: " + _KF2_WHAT, "class": _KF2_CLASS,
     "witness": {"T": 31, "order": 1, "rows": [[0.0, 0.0, 1]], "maxlen": True}},
    {"id": "KF-C08-4", "property": "C08", "clause": "C08.warp.order", "what": "apply_parameters raises _LinAlgError (same root cause as KF-C08-3): " + _KF2_WHAT, "class": _KF2_CLASS,
     "witness": {"T": 31, "F": 1, "lens": [1], "order": 1, "cfg": [1.0, 0.0], "wrows": [[0.5, 0.0]], "seed": 0}},
    {"id": "KF-C08-5", "property": "C08", "clause": "C08.warp.range", "what": "apply_parameters raises _LinAlgError (same root cause as KF-C08-3): " + _KF2_WHAT, "class": _KF2_CLASS,
     "witness": {"T": 31, "F": 1, "lens": [1], "order": 1, "cfg": [1.0, 0.0], "wrows": [[0.5, 0.0]], "seed": 0}},
]


def _ends_class(case, msg):
    return case.get("order", 1) == 1 and "row(s) fail" in msg and _max_enddist(msg) < END_CLASS


def _singular_class(case, msg):
    lens = case["lens"] if "lens" in case else [r[2] for r in case["rows"]]
    T = case["T"] if case.get("maxlen", True) else max(lens)
    return case.get("order", 1) == 1 and T == 31 and 1 in lens and "_LinAlgError" in msg and "singular" in msg


KNOWN_MATCH = {"KF-C08-1": _ends_class, "KF-C08-2": _ends_class, "KF-C08-3": _singular_class, "KF-C08-4": _singular_class, "KF-C08-5": _singular_class}

CHECKERS = {
    "C08.draw.bounds": check_draw,
    "C08.apply.masks": check_masks,
    "C08.call.modes": check_call,
    "C08.warp.grid": check_warp_grid,
    "C08.warp.order": check_warp_order,
    "C08.warp.range": check_warp_range,
}


def run_bounded(ctx):
    ctx.known_match.update(KNOWN_MATCH)
    # import once in the parent so the forked workers inherit the loaded modules instead of importing torch 16 times per clause
    _torch().set_num_threads(1)
    import pydrobert.torch.functional  # noqa: F401
    import pydrobert.torch.modules  # noqa: F401
    only = getattr(ctx, "only", None)

    def want(name):
        return not only or any(name.startswith(p) for p in only)

    q = ctx.quick
    if want("C08.draw.bounds"):
        ctx.bounded("C08.draw.bounds", check_draw, cases_draw(ctx),
                    bound=("lengths: every L in 1..24 in one batch (T=24), plus {1,6,..,21,25,31..33,50,99..101,127..129,1000,4095..4097,65535,65536,2^20-1,2^20} (T=2^20)%s; "
                           "full product of the 4 time-mask limits (%d combos), of (max_time_warp, max_freq_warp, F) and of (max_freq_mask, num_freq_mask, F), "
                           "the other limits picked (seeded) from their grids; lengths=None for T<=%d; draws: 7 adversarial patterns over {0, 1-2^-24, 0.5} + %d generator seeds; "
                           "feats dtype cycles float32/64/16%s") % (
                        "" if q else " plus 8 lengths in 2^20+1..2^24 (T=2^24)", len(Q_MTM) * len(Q_MTP) * len(Q_NTM) * len(Q_NTP) if q else 8 * 12 * 6 * 8, 12 if q else 40, 2 if q else 5,
                        "" if q else "; + 30000 seeded random (configuration, lengths<=2^24, draw) cases"),
                    text="draw_parameters: 0<=t<=min(max_time_mask, floor(L*prop)), #non-empty masks<=min(num, floor(L*num_prop)), 0<=t_0, t_0+t<=L; frequency likewise with F; "
                         "|w|<=W=min(max_warp, L/2), W<=w_0<=L-W, 0<=w_0+w<=L (and the F analogue); a zero limit switches its step off",
                    nontrivial=_draw_nontrivial, chunk=32,
                    functions=["_img.spec_augment_draw_parameters", "_img.SpecAugment.draw_parameters"])
    if want("C08.apply.masks"):
        ctx.bounded("C08.apply.masks", check_masks, cases_masks(ctx),
                    bound="every (T,F) in 1..%d x 1..%d, 0..2 time and 0..2 frequency masks per row, every start in 0..size and width in 0..size (bands may overhang or be empty), "
                          "rows packed 4 per batch with distinct parameters; feats random incl. -0.0/inf/nan, dtype cycles float32/64/16; lengths given or omitted; disabled steps as empty tensors or None%s" % (
                              (3, 3, "") if q else (4, 4, "; + 40000 seeded random cases T<=40, F<=30, up to 6+4 masks")),
                    text="apply_parameters without warp: cell (n,t,f) is 0 iff some [t_0,t_0+t) holds t or some [f_0,f_0+f) holds f, every other cell bit-identical to the input; shape and dtype kept",
                    nontrivial=lambda c: any(any(k > 0 for k in r[1]) or any(k > 0 for k in r[3]) for r in c["rows"]), chunk=128,
                    functions=["_img.spec_augment_apply_parameters", "_img.SpecAugment.apply_parameters"])
    if want("C08.call.modes"):
        ctx.bounded("C08.call.modes", check_call, cases_call(ctx),
                    bound="T in 1..%d, F in %s, N=3, %d (configuration, lengths, generator seed) combinations per (T,F) picked (seeded) from the limit grids; module call and functional form" % (
                        (8, "{1,3,6}", 140) if q else (16, "{1,2,3,6,11}", 600)),
                    text="eval mode returns the input bit-identical; training keeps the shape, leaves the input untouched, equals apply(draw) under the same generator state; zero cells are whole "
                         "frames inside the valid region / whole coefficients within the caps; with warps: finite and within the input's range (with 0)",
                    nontrivial=_draw_nontrivial, chunk=32,
                    functions=["_img.spec_augment", "_img.SpecAugment.forward"])
    if want("C08.warp.grid"):
        ctx.bounded("C08.warp.grid", check_warp_grid, cases_warp_grid(ctx),
                    bound="T in 1..%d, every L in 1..T, orders 1..3, every (src, flow) on the quarter-frame lattice with |flow|<=min(src, L-src) (the window draws come from, incl. its rim), "
                          "20 out-of-window pairs per (T,L), a mixed-length batch with max_length=None; L in {1,2} inside every T<=%d; + %d seeded random rows-batches%s" % ((12, 64, 3000, "") if q else (24, 2048, 40000, " with T<=40")),
                    text="warp_1d_grid: finite for orders 1..3; order 1: read positions of the valid frames non-decreasing (tol 1e-3 frame), first within half a frame of 0, last within half a frame of L-1",
                    nontrivial=lambda c: any(r[1] != 0 for r in c["rows"]), chunk=64,
                    functions=["_img.warp_1d_grid", "_img.polyharmonic_spline"])
    if want("C08.warp.order"):
        ctx.bounded("C08.warp.order", check_warp_order, cases_warp_order(ctx),
                    bound="order 1; T in 1..%d with every L in 1..T in one batch; F in %s; max_time_warp in %s (80 > L/2 always) x max_freq_warp in {0,1,80}; draws: 7 adversarial patterns + %d seeds each; "
                          "plus every (w_0, w) on the half-frame lattice of the permitted window per (T,L)%s" % (
                              (12, "{1,2,5}", "{0,.5,1,2.5,80}", 9, "") if q else (24, "{1,2,3,5,9}", "{0,.25,.5,1,2.5,6,80}", 24, "; + 20000 seeded random cases T<=40")),
                    text="apply_parameters on the ramp feats[n,t,f]=t (bilinear-exact): the valid frames are read in non-decreasing order, beginning/ending within half a frame of the first/last valid frame",
                    chunk=32, functions=["_img.spec_augment_apply_parameters", "_img.warp_1d_grid"])
    if want("C08.warp.range"):
        ctx.bounded("C08.warp.range", check_warp_range, cases_warp_range(ctx),
                    bound="as C08.warp.order (with %d seeds per configuration) but interpolation orders 1..3 and random feats in [5,8]" % (5 if q else 10),
                    text="apply_parameters with time and/or frequency warp of order 1..3: shape and dtype kept, every value finite and inside [min,max] of its batch element's input (tol 1e-5 relative)",
                    chunk=32, functions=["_img.spec_augment_apply_parameters", "_img.warp_1d_grid", "_img.polyharmonic_spline"])
    ctx.replay_known_witnesses()
    ctx.not_applicable.append("C08: 'every random draw' beyond the contract of torch.rand (values in [0, 1-2^-24]) and CUDA generators/devices are not exercised; "
                              "long sequences (T >> 40) for the warp clauses, where the float32 spline solve loses accuracy as T^2/distance-to-end, are outside the bound; warps are exercised on float32 features only (float64/float16 features with a warp switched on raise a "
                              "dtype RuntimeError inside grid_sample; the property's quantifier does not range over dtypes)")
    ctx.assume("torch.rand returns float32 values in [0, 1-2^-24]; each drawn quantity is monotone in its variate, so the adversarial patterns {0, 1-2^-24} bound every draw",
               "a length-proportional cap floor(L*p) is taken over the rationals with relative slack 2^-22 for the library's float32 product (exact for dyadic p)",
               "lengths <= 2^24 (exactly representable in float32)",
               "warp centre/shift windows compared with tolerance 1e-6*(1+L) + 2*eps(feature dtype); frame order/ends with tolerance 1e-3 frame; value range with tolerance 1e-5*max(1,|x|)",
               "CPU tensors only")
