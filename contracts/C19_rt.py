"""C19 (bounded, engine B) - estimators are unbiased where promised; relaxed distributions are consistent.

Run-time contracts on the real classes / functions
    pydrobert.torch.estimators.{DirectEstimator, ImportanceSamplingEstimator, EnumerateEstimator,
        StraightThroughEstimator, RelaxEstimator, IndependentMetropolisHastingsEstimator}.__call__
    pydrobert.torch.distributions.{LogisticBernoulli, GumbelOneHotCategorical,
        SimpleRandomSamplingWithoutReplacement}
    pydrobert.torch.functional.{simple_random_sampling_without_replacement, binomial_coefficient,
        enumerate_vocab_sequences, enumerate_binary_sequences, enumerate_binary_sequences_with_cardinality}
against oracles written from the property text: exact expectations and exact gradients are computed in closed
form with Python floats (never with the library, never with autograd).

How "the average over the whole sample space" is taken.  The proposal's `sample` is replaced by a forced-choice
sampler (an instance attribute; `log_prob` and everything else stay real).  All |space|^M possible draws of the M
Monte Carlo samples are laid out along one extra batch dimension of the proposal, so ONE call of the real estimator
returns the estimate for every possible draw; the oracle weights draw d by prod_m P(b_d^m) (closed form, constant)
and compares  sum_d w_d v_d  and its autograd gradient w.r.t. the distribution's parameters with the exact
expectation and its exact gradient.  For relaxed quantities `torch.rand` / `torch.rand_like` are replaced by stubs
that return the nodes of a quadrature rule on [0,1]^k (again along a batch dimension) and the estimate is integrated
with the rule's weights.

Clauses
    C19.direct.unbiased_grad  DirectEstimator: value and gradient, with/without control variate, M in 1..2(3), plain/log space
    C19.is.unbiased_grad      ImportanceSamplingEstimator: value, gradient w.r.t. the density's parameters, zero gradient
                              w.r.t. the proposal's; self-normalised form where it is exact (density proportional to proposal)
    C19.enum.exact            EnumerateEstimator: the returned value IS the expectation, its gradient the exact gradient
    C19.relax.value_mean      StraightThroughEstimator / RelaxEstimator on LogisticBernoulli and GumbelOneHotCategorical:
                              quadrature mean of the value (and, for RELAX, of the gradient w.r.t. the parameters)
    C19.mh.accept_all         IMH with proposal == target: every proposal accepted, plain post-burn-in average, drawn or supplied start
    C19.lb.threshold_csample  LogisticBernoulli: threshold(csample(b)) == b
    C19.lb.density_factor     LogisticBernoulli: log_prob(z) == tlog_prob(H(z)) + clog_prob(z, H(z)); clog_prob(z, b != H(z)) == -inf;
                              clog_prob is the density of csample, log_prob the density of rsample (change of variables)
    C19.gumbel.threshold_csample, C19.gumbel.density_factor   the same for GumbelOneHotCategorical
    C19.dist.support          samples lie in the support; probabilities over the (thresholded / enumerated) support sum to one
    C19.srswor.cardinality    fixed-cardinality sampling: exactly `given` ones, all inside the first `total` positions; every
                              path of the sequential draws enumerated (forced torch.bernoulli) plus generator seeds
    C19.comb.enumerate        binomial_coefficient == math.comb; enumerate_* return exactly the support, once each
"""
import contextlib
import itertools
import math
import random

F64_TOL = 1e-9  # float64 closed form vs library: |a-b| <= F64_TOL * (1 + |b|)
U32_MAX = 1.0 - 2.0 ** -24  # largest float32 below 1: the top of torch.rand's float32 range
U64_MAX = 1.0 - 2.0 ** -53


def _torch():
    import warnings

    import torch

    warnings.simplefilter("ignore")
    return torch


def _close(a, b, tol=F64_TOL):
    if a != a or b != b:
        return False
    if math.isinf(a) or math.isinf(b):
        return a == b
    return abs(a - b) <= tol * (1.0 + abs(b))


def _fmt(x):
    if isinstance(x, (list, tuple)):
        return "[" + ", ".join(_fmt(y) for y in x) + "]"
    return "%.12g" % x


# ---------------------------------------------------------------------------------------------
# closed forms for products of small discrete variables (pure Python)
#
# A family is a product of `len(sizes)` independent variables; variable i takes values 0..sizes[i]-1 and owns
# a parameter vector theta[i] (length 1 for a Bernoulli variable, V for a V-way categorical one).


def _sigmoid(x):
    if x >= 0:
        return 1.0 / (1.0 + math.exp(-x))
    e = math.exp(x)
    return e / (1.0 + e)


def _marginals(fam, par, theta):
    """-> sizes, probs[i][c], dprobs[i][j][c] = d P_i(c) / d theta[i][j]  (from the definitions of the two parameterisations)"""
    sizes, probs, dprobs = [], [], []
    for th in theta:
        if fam == "bern":
            (x,) = th
            if par == "logits":
                p = _sigmoid(x)
                d = p * (1.0 - p)
            else:
                p, d = x, 1.0
            sizes.append(2)
            probs.append([1.0 - p, p])
            dprobs.append([[-d, d]])
        else:
            V = len(th)
            if par == "logits":
                m = max(th)
                e = [math.exp(x - m) for x in th]
                s = sum(e)
                p = [x / s for x in e]
                dp = [[p[c] * ((1.0 if c == j else 0.0) - p[j]) for c in range(V)] for j in range(V)]
            else:  # probs are normalised by their sum
                s = sum(th)
                p = [x / s for x in th]
                dp = [[((1.0 if c == j else 0.0) - p[c]) / s for c in range(V)] for j in range(V)]
            sizes.append(V)
            probs.append(p)
            dprobs.append(dp)
    return sizes, probs, dprobs


def _space(sizes):
    """all joint outcomes; outcome b has index sum_i b[i]*stride[i], stride[0] = 1"""
    return [tuple(reversed(t)) for t in itertools.product(*[range(s) for s in reversed(sizes)])]


def _index(b, sizes):
    idx, st = 0, 1
    for c, s in zip(b, sizes):
        idx += c * st
        st *= s
    return idx


def _joint(b, probs):
    p = 1.0
    for i, c in enumerate(b):
        p *= probs[i][c]
    return p


def _expect(table, sizes, probs):
    return math.fsum(_joint(b, probs) * table[_index(b, sizes)] for b in _space(sizes) if table[_index(b, sizes)] != 0.0)


def _expect_grad(table, sizes, probs, dprobs):
    """d/d theta[i][j] of sum_b P(b) table[b], table constant"""
    out = []
    for i in range(len(sizes)):
        row = []
        for j in range(len(dprobs[i])):
            terms = []
            for b in _space(sizes):
                t = table[_index(b, sizes)]
                if t == 0.0:
                    continue
                w = dprobs[i][j][b[i]]
                for l, c in enumerate(b):
                    if l != i:
                        w *= probs[l][c]
                terms.append(w * t)
            row.append(math.fsum(terms))
        out.append(row)
    return out


def _tab(values, log):
    """JSON table -> floats. In log space the entries are log f and None stands for log 0; the plain-space table is returned too."""
    if not log:
        return [float(v) for v in values], [float(v) for v in values]
    lg = [(-math.inf if v is None else float(v)) for v in values]
    return lg, [(0.0 if v is None else math.exp(float(v))) for v in values]


# ---------------------------------------------------------------------------------------------
# torch side of the families


def _leaf(fam, theta):
    torch = _torch()
    if fam == "bern":
        t = torch.tensor([th[0] for th in theta], dtype=torch.float64)
    else:
        t = torch.tensor(theta, dtype=torch.float64)  # (k, V)
        if t.size(0) == 1:
            t = t[0]
    return t.requires_grad_(True)


def _build(fam, par, leaf, D):
    """the torch distribution with the draws' batch dimension D in front; event = all variables jointly"""
    torch = _torch()
    td = torch.distributions
    kw = {par: leaf.expand((D,) + tuple(leaf.shape))}
    if fam == "bern":
        return td.Independent(td.Bernoulli(**kw), 1)
    base = (td.OneHotCategorical if fam == "onehot" else td.Categorical)(**kw)
    return base if leaf.dim() == 1 else td.Independent(base, 1)


def _encode(fam, sizes, outcomes):
    """list (len D) of joint outcomes -> sample tensor (D, *event)"""
    torch = _torch()
    if fam == "bern":
        return torch.tensor([[float(c) for c in b] for b in outcomes], dtype=torch.float64)
    if fam == "cat":
        t = torch.tensor([list(b) for b in outcomes], dtype=torch.long)
        return t[:, 0] if len(sizes) == 1 else t
    V = sizes[0]
    t = torch.tensor([[[1.0 if c == v else 0.0 for v in range(V)] for c in b] for b in outcomes], dtype=torch.float64)
    return t[:, 0] if len(sizes) == 1 else t


def _indexer(fam, sizes):
    """sample tensor (..., *event) -> long joint index (...)"""
    torch = _torch()
    k = len(sizes)
    strides, st = [], 1
    for s in sizes:
        strides.append(st)
        st *= s
    strides = torch.tensor(strides, dtype=torch.float64)

    def idx(b):
        b = b.detach().to(torch.float64)
        if fam == "onehot":
            b = (b * torch.arange(sizes[0], dtype=torch.float64)).sum(-1)
        if fam == "bern" or k > 1:
            b = (b * strides).sum(-1)
        return b.round().long()

    return idx


def _draw_layout(sizes, probs, M):
    """all |space|^M draws: per-m list of outcomes (len D each) and the constant weights prod_m P(b^m)"""
    space = _space(sizes)
    draws = list(itertools.product(range(len(space)), repeat=M))
    per_m = [[space[d[m]] for d in draws] for m in range(M)]
    w = [math.prod(_joint(space[i], probs) for i in d) for d in draws]
    return per_m, w


def _force_sampler(dist, fam, sizes, per_m):
    """replace dist.sample (instance attribute) by a sampler that returns the enumerated draws, whatever is asked for"""
    torch = _torch()
    forced = torch.stack([_encode(fam, sizes, o) for o in per_m])  # (M, D, *event)

    def sample(sample_shape=torch.Size()):
        shape = tuple(sample_shape)
        if shape != (forced.size(0),):
            raise AssertionError("estimator asked for sample_shape %s, driver enumerates %d Monte Carlo samples" % (shape, forced.size(0)))
        return forced.clone()

    dist.sample = sample
    return forced


def _per_draw(v, D):
    """one estimate per enumerated draw. (The property speaks of the value, not of its shape: the log-space DirectEstimator returns
    (1,) + batch_shape where its documentation says batch_shape; singleton dimensions are therefore dropped here, see the driver's report.)"""
    if v.numel() != D:
        return "estimate has shape %s, expected one value per element of the proposal's batch shape (%d,)" % (tuple(v.shape), D)
    return v.reshape(D)


def _grads(total, leaves):
    torch = _torch()
    gs = torch.autograd.grad(total, leaves, allow_unused=True)
    return [None if g is None else g.detach() for g in gs]


def _cmp_grad(got, want, sizes, what, tol=F64_TOL):
    """got: tensor shaped like the leaf (or None = zero); want: [i][j]"""
    flat_w = [x for row in want for x in row]
    flat_g = [0.0] * len(flat_w) if got is None else [float(x) for x in got.reshape(-1).tolist()]
    if len(flat_g) != len(flat_w):
        return "%s: gradient has %d entries, expected %d" % (what, len(flat_g), len(flat_w))
    for a, b in zip(flat_g, flat_w):
        if not _close(a, b, tol):
            return "%s: averaged gradient %s, exact gradient %s" % (what, _fmt(flat_g), _fmt(flat_w))
    return None


# ---------------------------------------------------------------------------------------------
# C19.direct.unbiased_grad


def check_direct(case):
    """case: {fam: bern|onehot|cat, par: logits|probs, theta: [[..]..] one vector per variable, M, f: table over the joint space,
    log: bool (f and cv are log-values; None = log 0), cv: none|tab|const, c: table (cv=tab) or [value] (cv=const), kappa: f depends on
    the parameters through + kappa*sum(theta) (0 = not)}"""
    torch = _torch()
    import pydrobert.torch.estimators as E

    fam, par, theta, M, log, kappa = case["fam"], case["par"], case["theta"], case["M"], case["log"], case.get("kappa", 0.0)
    sizes, probs, dprobs = _marginals(fam, par, theta)
    f_raw, f_lin = _tab(case["f"], log)
    per_m, w = _draw_layout(sizes, probs, M)
    D = len(w)
    leaf = _leaf(fam, theta)
    dist = _build(fam, par, leaf, D)
    _force_sampler(dist, fam, sizes, per_m)
    idx = _indexer(fam, sizes)
    ftab = torch.tensor(f_raw, dtype=torch.float64)

    def func(b):
        v = ftab[idx(b)]
        return v + kappa * leaf.sum() if kappa else v

    cv = cv_mean = None
    if case["cv"] == "tab":
        c_raw, c_lin = _tab(case["c"], log)
        ctab = torch.tensor(c_raw, dtype=torch.float64)

        def cv(b):
            v = ctab[idx(b)]
            return v + kappa * leaf.sum() if kappa else v

        # the control variate's mean as a function of the parameters: mu(theta) = sum_b P_theta(b) c(b)
        space = _space(sizes)
        lp = dist.log_prob(_encode(fam, sizes, space).unsqueeze(1).expand((len(space), D) + tuple(_encode(fam, sizes, space).shape[1:])))
        cl = torch.tensor([c_lin[_index(b, sizes)] for b in space], dtype=torch.float64).unsqueeze(1)
        mu = (lp.exp() * cl).sum(0)
        if log:
            cv_mean = mu.log() + (kappa * leaf.sum() if kappa else 0.0)
        else:
            cv_mean = mu + (kappa * leaf.sum() if kappa else 0.0)
    elif case["cv"] == "const":
        cval = float(case["c"][0])

        def cv(b):
            return torch.full(b.shape[:2], cval, dtype=torch.float64)

        cv_mean = torch.full((D,), cval, dtype=torch.float64)
    est = E.DirectEstimator(dist, func, M, cv, cv_mean, log)
    v = est()
    v = _per_draw(v, D)
    if isinstance(v, str):
        return v
    wt = torch.tensor(w, dtype=torch.float64)
    total = (wt * (v.exp() if log else v)).sum()
    scale = math.exp(kappa * sum(sum(t) for t in theta)) if (kappa and log) else 1.0
    shift = 0.0 if (log or not kappa) else kappa * sum(sum(t) for t in theta)
    exact = scale * _expect(f_lin, sizes, probs) + shift
    if not _close(float(total), exact):
        return "value averaged over all %d draws is %s, exact expectation %s" % (D, _fmt(float(total)), _fmt(exact))
    g = _expect_grad(f_lin, sizes, probs, dprobs)
    if kappa:
        g = [[(scale * x + kappa * exact) if log else (x + kappa) for x in row] for row in g]
    (got,) = _grads(total, [leaf])
    return _cmp_grad(got, g, sizes, "gradient w.r.t. the proposal's %s" % par)


# ---------------------------------------------------------------------------------------------
# case generation helpers

G1 = [-3.0, -1.0, 0.0, 0.5, 2.0]
G3 = [-1.5, 0.0, 0.8]
CATV = {2: [[0.0, 0.0], [1.2, -0.4], [-2.0, 0.5]], 3: [[0.0, 0.0, 0.0], [1.0, -1.0, 0.3], [-0.7, 2.0, 0.1]]}


def _to_par(fam, par, th):
    """grid values are logits; convert when the case uses the probs parameterisation"""
    if par == "logits":
        return [list(t) for t in th]
    if fam == "bern":
        return [[_sigmoid(t[0])] for t in th]
    out = []
    for t in th:
        e = [math.exp(x) for x in t]  # deliberately NOT normalised: the library divides probs by their sum
        out.append(e)
    return out


def _thetas(fam, nvar, V, quick, rng=None):
    if fam == "bern":
        g = G1 if nvar == 1 else (G3 if quick or nvar == 3 else G1)
        if nvar == 3 and not quick:
            g = [-1.5, -0.3, 0.4, 1.1]
        for combo in itertools.product(g, repeat=nvar):
            # give the variables different values: shift the i-th by 0.1*i
            yield [[x + 0.1 * i] for i, x in enumerate(combo)]
    else:
        for combo in itertools.product(CATV[V], repeat=nvar):
            yield [[x + 0.05 * i for x in v] for i, v in enumerate(combo)]


def _gen_table(S, k, log):
    """the k-th generic table on a space of S points: fixed irrational-looking values (deterministic)"""
    vals = [math.sin(1.0 + 2.3 * k + 1.7 * j) * 1.5 + 0.4 * math.cos(0.3 + 5.1 * j * (k + 1)) for j in range(S)]
    return vals


def _tables(S, log, n_generic=2):
    """indicator of each point (a basis of all functions on the space) + generic tables"""
    for j in range(S):
        if log:
            yield [(0.0 if i == j else None) for i in range(S)]
        else:
            yield [(1.0 if i == j else 0.0) for i in range(S)]
    for k in range(n_generic):
        yield _gen_table(S, k, log)


def _families(quick):
    """(fam, nvar, V)"""
    out = [("bern", 1, 2), ("bern", 2, 2), ("bern", 3, 2), ("onehot", 1, 2), ("onehot", 1, 3), ("onehot", 2, 2), ("onehot", 2, 3), ("cat", 1, 2), ("cat", 1, 3), ("cat", 2, 2)]
    if not quick:
        out += [("cat", 2, 3), ("onehot", 3, 2), ("onehot", 1, 4)]
        CATV.setdefault(4, [[0.0, 0.0, 0.0, 0.0], [0.5, -1.0, 0.3, 1.1]])
    return out


def _cv_for(f, S, log, k):
    """a control-variate table that differs from f. In log space f - c + mu must stay positive: c = r*f with r in (0.2, 0.9)"""
    if log:
        return [(None if f[j] is None else f[j] + math.log(0.2 + 0.7 * abs(math.sin(0.9 + 1.3 * j + k)))) for j in range(S)]
    return [math.cos(0.7 + 2.9 * j + k) * 2.0 - 0.3 * j for j in range(S)]


def cases_direct(ctx):
    quick = ctx.quick
    for fam, nvar, V in _families(quick):
        S = V ** nvar
        Ms = [1, 2] if (quick or S > 4) else [1, 2, 3]
        for theta0 in _thetas(fam, nvar, V, quick):
            for par in ("logits", "probs"):
                theta = _to_par(fam, par, theta0)
                for log in (False, True):
                    for ti, f in enumerate(_tables(S, log)):
                        for M in Ms:
                            for kappa in (0.0, 0.3):
                                base = {"fam": fam, "par": par, "theta": theta, "M": M, "f": f, "log": log, "kappa": kappa}
                                yield dict(base, cv="none")
                                yield dict(base, cv="tab", c=_cv_for(f, S, log, ti))
                                if kappa == 0.0:
                                    yield dict(base, cv="const", c=[-0.4 if log else 1.7])
    if not quick:
        rng = random.Random(ctx.seed * 7919 + 19)
        for _ in range(20000):
            yield _random_discrete_case(rng, "direct")


def _random_discrete_case(rng, kind):
    fam, nvar, V = rng.choice([("bern", 1, 2), ("bern", 2, 2), ("bern", 3, 2), ("onehot", 1, 3), ("onehot", 2, 3), ("onehot", 1, 4), ("cat", 1, 3), ("cat", 2, 2), ("cat", 1, 5)])
    S = V ** nvar
    par = rng.choice(["logits", "probs"])
    th0 = [[rng.uniform(-4, 4)] if fam == "bern" else [rng.uniform(-3, 3) for _ in range(V)] for _ in range(nvar)]
    theta = _to_par(fam, par, th0)
    log = rng.random() < 0.4
    M = rng.choice([1, 2] if S > 4 else [1, 2, 3])
    f = [rng.uniform(-2, 2) for _ in range(S)]
    if log and rng.random() < 0.3:
        f[rng.randrange(S)] = None
    case = {"fam": fam, "par": par, "theta": theta, "M": M, "f": f, "log": log, "kappa": rng.choice([0.0, 0.0, rng.uniform(-0.5, 0.5)])}
    if kind == "direct":
        case["cv"] = rng.choice(["none", "tab", "const"])
        if case["cv"] == "tab":
            case["c"] = _cv_for(f, S, log, rng.randrange(100))
        elif case["cv"] == "const":
            case["c"] = [rng.uniform(-1, 1)]
            case["kappa"] = 0.0
    else:
        q0 = [[rng.uniform(-2, 2)] if fam == "bern" else [rng.uniform(-2, 2) for _ in range(V)] for _ in range(nvar)]
        case["phi"] = _to_par(fam, par, q0)
        case["sn"] = False
    return case




# ---------------------------------------------------------------------------------------------
# C19.is.unbiased_grad


class _Shifted:
    """an unnormalised density proportional to a distribution: log_prob(x) = dist.log_prob(x) - shift"""

    def __init__(self, dist, shift):
        self.dist, self.shift = dist, shift

    def log_prob(self, value):
        return self.dist.log_prob(value) - self.shift


def check_is(case):
    """case: as check_direct without cv, plus phi: the proposal's parameters (theta are the density's), sn: self-normalised
    (then the density is the proposal shifted by `shift` nats, the one situation in which the self-normalised form is exact)"""
    torch = _torch()
    import pydrobert.torch.estimators as E

    fam, par, theta, phi, M, log, kappa = case["fam"], case["par"], case["theta"], case["phi"], case["M"], case["log"], case.get("kappa", 0.0)
    sn = bool(case.get("sn"))
    sizes, pq, _ = _marginals(fam, par, phi)
    _, pp, dpp = _marginals(fam, par, theta)
    f_raw, f_lin = _tab(case["f"], log)
    per_m, w = _draw_layout(sizes, pq, M)  # draws come from the proposal Q
    D = len(w)
    leaf_q, leaf_p = _leaf(fam, phi), _leaf(fam, theta)
    prop = _build(fam, par, leaf_q, D)
    _force_sampler(prop, fam, sizes, per_m)
    dens = _Shifted(prop, float(case.get("shift", 1.0))) if sn else _build(fam, par, leaf_p, D)
    idx = _indexer(fam, sizes)
    ftab = torch.tensor(f_raw, dtype=torch.float64)
    kleaf = leaf_q if sn else leaf_p

    def func(b):
        v = ftab[idx(b)]
        return v + kappa * kleaf.sum() if kappa else v

    est = E.ImportanceSamplingEstimator(prop, func, M, dens, sn, log)
    v = _per_draw(est(), D)
    if isinstance(v, str):
        return v
    total = (torch.tensor(w, dtype=torch.float64) * (v.exp() if log else v)).sum()
    ktheta = phi if sn else theta
    scale = math.exp(kappa * sum(sum(t) for t in ktheta)) if (kappa and log) else 1.0
    shift = 0.0 if (log or not kappa) else kappa * sum(sum(t) for t in ktheta)
    exact = scale * _expect(f_lin, sizes, pq if sn else pp) + shift
    if not _close(float(total), exact):
        return "value averaged over all %d proposal draws is %s, exact expectation under the density %s" % (D, _fmt(float(total)), _fmt(exact))
    if sn:
        return None
    g = _expect_grad(f_lin, sizes, pp, dpp)
    if kappa:
        g = [[(scale * x + kappa * exact) if log else (x + kappa) for x in row] for row in g]
    gp, gq = _grads(total, [leaf_p, leaf_q])
    msg = _cmp_grad(gp, g, sizes, "gradient w.r.t. the density's %s" % par)
    if msg:
        return msg
    return _cmp_grad(gq, [[0.0] * len(r) for r in g], sizes, "gradient w.r.t. the proposal's %s (must be blocked)" % par)


def _phis(fam, nvar, V, quick):
    """proposal parameters (logit scale): a flat one and a skewed one (every outcome keeps positive mass: Q dominates P)"""
    if fam == "bern":
        out = [[[0.0]] * nvar, [[0.9 - 0.7 * i] for i in range(nvar)]]
    else:
        out = [[[0.0] * V] * nvar, [[0.6 * ((j + i) % V) - 0.5 for j in range(V)] for i in range(nvar)]]
    return out if not quick or nvar < 3 else out[1:]


def cases_is(ctx):
    quick = ctx.quick
    for fam, nvar, V in _families(quick):
        S = V ** nvar
        Ms = [1, 2] if (quick or S > 4) else [1, 2, 3]
        for theta0 in _thetas(fam, nvar, V, quick):
            for phi0 in _phis(fam, nvar, V, quick) + [theta0]:
                for par in ("logits", "probs"):
                    theta, phi = _to_par(fam, par, theta0), _to_par(fam, par, phi0)
                    for log in (False, True):
                        for f in _tables(S, log):
                            for M in Ms:
                                for kappa in (0.0, 0.3):
                                    yield {"fam": fam, "par": par, "theta": theta, "phi": phi, "M": M, "f": f, "log": log, "kappa": kappa, "sn": False}
        # self-normalised, density = proposal shifted (unnormalised multiple of the proposal)
        for phi0 in _phis(fam, nvar, V, False):
            for par in ("logits", "probs"):
                phi = _to_par(fam, par, phi0)
                for log in (False, True):
                    for f in _tables(S, log, 1):
                        for M in Ms:
                            yield {"fam": fam, "par": par, "theta": phi, "phi": phi, "M": M, "f": f, "log": log, "kappa": 0.0, "sn": True, "shift": 1.0}
    if not quick:
        rng = random.Random(ctx.seed * 7919 + 23)
        for _ in range(20000):
            yield _random_discrete_case(rng, "is")


# ---------------------------------------------------------------------------------------------
# C19.enum.exact


def _comb_vectors(total, given, out):
    return [tuple(1 if t in pos else 0 for t in range(out)) for pos in itertools.combinations(range(total), given)]


def check_enum(case):
    """case: {fam: bern|onehot|cat, par, theta: one parameter vector per BATCH element (independent problems), f: one table per batch
    element, log, kappa}  or  {fam: srswor, given, total, out (None = total), batch: 0 (scalar counts) | n (counts repeated n times), log}"""
    torch = _torch()
    import pydrobert.torch.distributions as PD
    import pydrobert.torch.estimators as E

    fam, log = case["fam"], case["log"]
    if fam == "srswor":
        given, total, out, nb = case["given"], case["total"], case["out"], case.get("batch", 0)
        g = torch.tensor(given) if not nb else torch.full((nb,), given)
        t = torch.tensor(total) if not nb else torch.full((nb,), total)
        dist = PD.SimpleRandomSamplingWithoutReplacement(g, t, out)
        T = total if out is None else out
        pw = torch.tensor([2.0 ** i for i in range(T)], dtype=torch.float64)

        def val(code):
            x = math.sin(1.0 + 1.3 * code) * 1.2
            return x

        def func(b):
            code = (b.to(torch.float64) * pw).sum(-1)
            return torch.sin(1.0 + 1.3 * code) * 1.2

        v = E.EnumerateEstimator(dist, func, log)()
        vecs = _comb_vectors(total, given, T)
        vals = [val(sum(c * 2 ** i for i, c in enumerate(b))) for b in vecs]
        exact = math.fsum(math.exp(x) if log else x for x in vals) / len(vecs)
        want_shape = () if not nb else (nb,)
        if tuple(v.shape) != want_shape:
            return "estimate has shape %s, expected the batch shape %s" % (tuple(v.shape), want_shape)
        for x in v.reshape(-1).tolist():
            x = math.exp(x) if log else x
            if not _close(x, exact, 1e-5):  # float32 log-partition
                return "returned %s, exact expectation over the %d vectors with %d ones among the first %d positions is %s" % (_fmt(x), len(vecs), given, total, _fmt(exact))
        return None
    par, theta, kappa = case["par"], case["theta"], case.get("kappa", 0.0)
    nb = len(theta)
    leaf = _leaf(fam, theta)  # bern: (nb,), others (nb, V) or (V,) when nb == 1
    if fam != "bern" and nb == 1:
        leaf = leaf.detach().unsqueeze(0).requires_grad_(True)
    td = torch.distributions
    dist = {"bern": td.Bernoulli, "onehot": td.OneHotCategorical, "cat": td.Categorical}[fam](**{par: leaf})
    raws, lins = zip(*[_tab(f, log) for f in case["f"]])
    V = len(raws[0])
    ftab = torch.tensor([[(-math.inf if x is None else x) for x in r] for r in raws], dtype=torch.float64)  # (nb, V)
    ar = torch.arange(nb)

    def func(b):
        c = b.detach()
        if fam == "onehot":
            c = (c * torch.arange(V, dtype=c.dtype)).sum(-1)
        c = c.round().long()  # (S, nb)
        v = ftab[ar.expand_as(c), c]
        return v + kappa * leaf.sum() if kappa else v

    v = E.EnumerateEstimator(dist, func, log)()
    if tuple(v.shape) != (nb,):
        return "estimate has shape %s, expected the batch shape (%d,)" % (tuple(v.shape), nb)
    ksum = sum(sum(t) for t in theta)
    scale = math.exp(kappa * ksum) if (kappa and log) else 1.0
    shift = 0.0 if (log or not kappa) else kappa * ksum
    a = [1.0 + 0.37 * i for i in range(nb)]
    exacts, grads = [], []
    for i in range(nb):
        sizes, probs, dprobs = _marginals(fam, par, [theta[i]])
        exacts.append(scale * _expect(lins[i], sizes, probs) + shift)
        grads.append([scale * x for x in _expect_grad(lins[i], sizes, probs, dprobs)[0]])
    vv = v.exp() if log else v
    for i in range(nb):
        if not _close(float(vv[i]), exacts[i]):
            return "batch element %d: returned %s, exact expectation %s" % (i, _fmt(float(vv[i])), _fmt(exacts[i]))
    total = (torch.tensor(a, dtype=torch.float64) * vv).sum()
    want = []
    for i in range(nb):
        extra = 0.0
        if kappa:
            extra = kappa * (math.fsum(a[l] * exacts[l] for l in range(nb)) if log else math.fsum(a))
        want.append([a[i] * x + extra for x in grads[i]])
    (got,) = _grads(total, [leaf])
    return _cmp_grad(got, want, None, "gradient of sum_i a_i v_i w.r.t. the %s" % par)


def cases_enum(ctx):
    quick = ctx.quick
    for fam, V in (("bern", 2), ("onehot", 2), ("onehot", 3), ("cat", 2), ("cat", 3), ("cat", 4), ("onehot", 4)):
        CATV.setdefault(4, [[0.0, 0.0, 0.0, 0.0], [0.5, -1.0, 0.3, 1.1]])
        for nb in (1, 2, 3):
            if fam == "bern":
                grid = G1 if nb < 3 or not quick else G3
                thetas = [[[x + 0.1 * i] for i, x in enumerate(c)] for c in itertools.product(grid, repeat=nb)]
            else:
                thetas = [[[x + 0.05 * i for x in v] for i, v in enumerate(c)] for c in itertools.product(CATV[V], repeat=nb)]
            for theta0 in thetas:
                for par in ("logits", "probs"):
                    theta = _to_par(fam, par, theta0)
                    for log in (False, True):
                        tabs = list(_tables(V, log))
                        for k in range(len(tabs)):
                            f = [tabs[(k + i) % len(tabs)] for i in range(nb)]
                            for kappa in (0.0, 0.3):
                                yield {"fam": fam, "par": par, "theta": theta, "f": f, "log": log, "kappa": kappa}
    tmax = 5 if quick else 8
    for total in range(1, tmax + 1):  # vectors of length 0: see C19.dist.support / C19.srswor.cardinality (KF-C19-4, KF-C19-5), recorded at their sites
        for given in range(0, total + 1):
            for out in (None, total, total + 1, total + 3):
                for nb in (0, 2):
                    for log in (False, True):
                        yield {"fam": "srswor", "given": given, "total": total, "out": out, "batch": nb, "log": log}
    if not quick:
        rng = random.Random(ctx.seed * 7919 + 29)
        for _ in range(5000):
            fam = rng.choice(["bern", "onehot", "cat"])
            V = 2 if fam == "bern" else rng.choice([2, 3, 4, 5])
            nb = rng.choice([1, 2, 3, 4])
            par = rng.choice(["logits", "probs"])
            th0 = [[rng.uniform(-4, 4)] if fam == "bern" else [rng.uniform(-3, 3) for _ in range(V)] for _ in range(nb)]
            log = rng.random() < 0.4
            yield {"fam": fam, "par": par, "theta": _to_par(fam, par, th0), "f": [[rng.uniform(-2, 2) for _ in range(V)] for _ in range(nb)], "log": log,
                   "kappa": rng.choice([0.0, rng.uniform(-0.5, 0.5)])}


# ---------------------------------------------------------------------------------------------
# forced noise for the relaxed distributions and quadrature rules on [0, 1]


@contextlib.contextmanager
def _noise(rands=(), rand_likes=(), bernoulli=None):
    """torch.rand / torch.rand_like return the given tensors in order (shape-checked); torch.bernoulli optionally replaced.
    Restored on exit. Workers are single-threaded processes, so the patch is not visible to any other case."""
    torch = _torch()
    saved = (torch.rand, torch.rand_like, torch.bernoulli)
    it_r, it_l = iter(rands), iter(rand_likes)
    used = {"rand": 0, "rand_like": 0}

    def _size(size):
        if len(size) == 1 and isinstance(size[0], (tuple, list, torch.Size)):
            return tuple(size[0])
        return tuple(size)

    def rand(*size, **kw):
        try:
            t = next(it_r)
        except StopIteration:
            raise AssertionError("driver: more torch.rand calls than forced tensors")
        if tuple(t.shape) != _size(size):
            raise AssertionError("driver: torch.rand asked for shape %s, forced tensor has %s" % (_size(size), tuple(t.shape)))
        used["rand"] += 1
        dt = kw.get("dtype")
        return t.clone().to(dt) if dt is not None else t.clone()

    def rand_like(x, **kw):
        try:
            t = next(it_l)
        except StopIteration:
            raise AssertionError("driver: more torch.rand_like calls than forced tensors")
        if tuple(t.shape) != tuple(x.shape):
            raise AssertionError("driver: torch.rand_like asked for shape %s, forced tensor has %s" % (tuple(x.shape), tuple(t.shape)))
        used["rand_like"] += 1
        return t.clone().to(x.dtype) if not t.requires_grad else t

    torch.rand, torch.rand_like = rand, rand_like
    if bernoulli is not None:
        torch.bernoulli = bernoulli
    try:
        yield used
    finally:
        torch.rand, torch.rand_like, torch.bernoulli = saved


def _gl(a, b, G, smooth=False):
    """Gauss-Legendre nodes/weights on [a, b]; smooth=True composes with the quintic smoothstep t -> t^3(10-15t+6t^2), which damps
    end-point singularities (still a quadrature rule for the uniform measure: weights sum to b-a)"""
    from numpy.polynomial.legendre import leggauss

    if smooth and G < 3:
        raise AssertionError("driver: the smoothed rule needs G >= 3 to integrate constants exactly")
    x, w = leggauss(G)
    out = []
    for xi, wi in zip(x.tolist(), w.tolist()):
        t, wt = (xi + 1.0) / 2.0, wi / 2.0
        if smooth:
            t, wt = t ** 3 * (10.0 - 15.0 * t + 6.0 * t * t), wt * 30.0 * t * t * (1.0 - t) ** 2
        out.append((a + (b - a) * t, (b - a) * wt))
    return out


def _product_rule(rules):
    """rules: list over dimensions of [(node, weight)] -> (nodes [D][dim], weights [D])"""
    nodes, weights = [], []
    for combo in itertools.product(*rules):
        nodes.append([c[0] for c in combo])
        weights.append(math.prod(c[1] for c in combo))
    return nodes, weights


# ---------------------------------------------------------------------------------------------
# C19.relax.value_mean


def _multilinear(tab, n):
    """the multilinear extension of a table on {0,1}^n to [0,1]^n (equals the table on binary points): lets REBAR's control
    variate evaluate f on relaxed samples. x: (..., n) -> (...)"""
    torch = _torch()
    space = _space([2] * n)

    def f(x):
        out = 0.0
        for b in space:
            t = tab[_index(b, [2] * n)]
            if t == 0.0:
                continue
            w = 1.0
            for i, c in enumerate(b):
                w = w * (x[..., i] if c else (1.0 - x[..., i]))
            out = out + t * w
        if isinstance(out, float):
            out = torch.zeros(x.shape[:-1], dtype=x.dtype) + out
        return out

    return f


def _make_cv(spec, func, kind):
    torch = _torch()
    if spec["kind"] == "rebar":
        import pydrobert.torch.modules as PM

        cls = PM.LogisticBernoulliRebarControlVariate if kind == "lb" else PM.GumbelOneHotCategoricalRebarControlVariate
        return cls(func, float(spec["temp"]), float(spec["eta"])).double()
    a, b, c = float(spec["a"]), float(spec["b"]), float(spec["c"])
    if kind == "lb":
        return lambda z: a * torch.sigmoid(z) + b * torch.sigmoid(2.0 * z + 0.3) + c
    return lambda z: a * torch.sigmoid(z[..., 0] - 0.3 * z[..., 1]) + b * torch.tanh(z[..., 1]) + c


def check_relax(case):
    """case (dist=lb): {est: st|relax, n, par, theta: [n values], M, f: n tables (one per output coordinate) over the JOINT space {0,1}^n,
         log, cv: {kind: rebar, temp, eta} | {kind: sig, a, b, c}, rule: {kind: gl, Gu, Gv} | {kind: mid, K}, tol, grad: bool}
       case (dist=gumbel): {est, par, theta: [V=2 values], f: [t0, t1], log, cv, rule: {Go, Gi, Gv}, tol, grad}
    Value (and gradient when grad) of the real estimator integrated over the uniform noise with the rule must equal E_P[f] (and its
    exact gradient) within tol."""
    torch = _torch()
    import pydrobert.torch.distributions as PD
    import pydrobert.torch.estimators as E

    est, par, log, tol = case["est"], case["par"], case["log"], float(case["tol"])
    if case["dist"] == "lb":
        n, M, theta = case["n"], case["M"], case["theta"]
        _, probs, dprobs = _marginals("bern", par, [[t] for t in theta])
        sizes = [2] * n
        rule = case["rule"]
        urules, vrules = [], []
        for m in range(M):
            for i in range(n):
                p1 = probs[i][1]
                if rule["kind"] == "mid":
                    K = rule["K"]
                    urules.append([((j + 0.5) / K, 1.0 / K) for j in range(K)])
                else:  # b_i = 1 iff u >= 1 - p_i (the property: P(H(z) = 1) = p_i): integrate each side of the jump separately
                    urules.append(_gl(0.0, 1.0 - p1, rule["Gu"]) + _gl(1.0 - p1, 1.0, rule["Gu"]))
                if est == "relax":
                    vrules.append(_gl(0.0, 1.0, rule["Gv"]))
        nodes, W = _product_rule(urules + vrules)
        D = len(W)
        A = torch.tensor(nodes, dtype=torch.float64)
        U = A[:, : M * n].reshape(D, M, n).transpose(0, 1).contiguous()
        leaf = torch.tensor(theta, dtype=torch.float64, requires_grad=True)
        dist = PD.LogisticBernoulli(**{par: leaf.expand(D, n)})
        raws, lins = zip(*[_tab(f, log) for f in case["f"]])
        exts = [_multilinear(r, n) for r in raws]

        def func(x):
            return torch.stack([e(x) for e in exts], -1)

        if est == "st":
            with _noise([U]) as used:
                v = E.StraightThroughEstimator(dist, func, M, log)()
        else:
            Vn = A[:, M * n:].reshape(D, M, n).transpose(0, 1).contiguous()
            cv = _make_cv(case["cv"], func, "lb")
            with _noise([U], [Vn]) as used:
                v = E.RelaxEstimator(dist, func, M, cv, is_log=log)()
            if used["rand_like"] != 1:
                return "driver: csample did not draw its noise through torch.rand_like"
        if used["rand"] != 1:
            return "driver: rsample did not draw its noise through torch.rand"
        if tuple(v.shape) != (D, n):
            return "estimate has shape %s, expected the batch shape %s" % (tuple(v.shape), (D, n))
        vv = v.exp() if log else v
        tot = (torch.tensor(W, dtype=torch.float64).unsqueeze(-1) * vv).sum(0)  # (n,)
        exact = [_expect(lins[i], sizes, probs) for i in range(n)]
        for i in range(n):
            if not _close(float(tot[i]), exact[i], tol):
                return "coordinate %d: value integrated over the noise (%d nodes) is %s, exact expectation %s (tol %g)" % (i, D, _fmt(float(tot[i])), _fmt(exact[i]), tol)
        if case.get("grad"):
            a = [1.0 + 0.37 * i for i in range(n)]
            (got,) = _grads((torch.tensor(a, dtype=torch.float64) * tot).sum(), [leaf])
            # tables are elementwise here: coordinate i depends on b_i only
            want = []
            for i in range(n):
                t2 = [lins[i][_index(tuple(c if l == i else 0 for l in range(n)), sizes)] for c in (0, 1)]
                want.append([a[i] * (dprobs[i][0][0] * t2[0] + dprobs[i][0][1] * t2[1])])
            return _cmp_grad(got, want, None, "gradient w.r.t. the %s integrated over the noise" % par, tol)
        return None
    # ---- GumbelOneHotCategorical, V = 2, one variable, one Monte Carlo sample
    theta = case["theta"]
    _, probs, dprobs = _marginals("onehot", par, [theta])
    p0, p1 = probs[0]
    rule = case["rule"]
    Go, Gi, Gv = rule["Go"], rule["Gi"], rule["Gv"]
    # argmax_j (log p_j - log(-log u_j)) = 0  iff  u_1 < u_0^(p_1/p_0)   (E_j = -log(u_j)/p_j is exponential with rate p_j; the smaller wins)
    nodes, W = [], []
    if p1 >= p0:
        for u0, w0 in _gl(0.0, 1.0, Go, True):
            bd = u0 ** (p1 / p0)
            for u1, w1 in _gl(0.0, bd, Gi, True) + _gl(bd, 1.0, Gi, True):
                nodes.append((u0, u1))
                W.append(w0 * w1)
    else:
        for u1, w1 in _gl(0.0, 1.0, Go, True):
            bd = u1 ** (p0 / p1)
            for u0, w0 in _gl(0.0, bd, Gi, True) + _gl(bd, 1.0, Gi, True):
                nodes.append((u0, u1))
                W.append(w0 * w1)
    if est == "relax":
        vr = _gl(0.0, 1.0, Gv, True)
        nodes, W = zip(*[((u0, u1, a[0], b[0]), w * a[1] * b[1]) for (u0, u1), w in zip(nodes, W) for a in vr for b in vr])
    D = len(W)
    A = torch.tensor(nodes, dtype=torch.float64)
    U = A[:, :2].reshape(1, D, 2)
    leaf = torch.tensor(theta, dtype=torch.float64, requires_grad=True)
    dist = PD.GumbelOneHotCategorical(**{par: leaf.expand(D, 2)})
    raw, lin = _tab(case["f"], log)
    ftab = torch.tensor(raw, dtype=torch.float64)

    def func(x):  # linear on the simplex, equals the table on one-hot points
        return (x * ftab).sum(-1)

    if est == "st":
        with _noise([U]):
            v = E.StraightThroughEstimator(dist, func, 1, log)()
    else:
        cv = _make_cv(case["cv"], func, "gumbel")
        with _noise([U], [A[:, 2:].reshape(1, D, 2)]):
            v = E.RelaxEstimator(dist, func, 1, cv, is_log=log)()
    v = _per_draw(v, D)
    if isinstance(v, str):
        return v
    tot = (torch.tensor(W, dtype=torch.float64) * (v.exp() if log else v)).sum()
    exact = _expect(lin, [2], probs)
    if not _close(float(tot), exact, tol):
        return "value integrated over the noise (%d nodes) is %s, exact expectation %s (tol %g)" % (D, _fmt(float(tot)), _fmt(exact), tol)
    if case.get("grad"):
        (got,) = _grads(tot, [leaf])
        return _cmp_grad(got, _expect_grad(lin, [2], probs, dprobs), None, "gradient w.r.t. the %s integrated over the noise" % par, tol)
    return None


CVS = [{"kind": "rebar", "temp": 0.5, "eta": 0.8}, {"kind": "sig", "a": 0.7, "b": -0.4, "c": 0.1}]
CVS_LOG = [{"kind": "rebar", "temp": 0.5, "eta": 0.2}, {"kind": "sig", "a": 0.7, "b": -0.4, "c": -3.0}]


def _lb_tables(n, log, joint):
    """n tables (one per coordinate). joint: each over the joint space (value only); else elementwise (gradient too)"""
    S = 2 ** n
    out = []
    for k in range(3):
        tabs = []
        for i in range(n):
            if joint:
                t = [0.9 * math.sin(1.0 + 2.3 * (k + i) + 1.7 * j) + 0.3 for j in range(S)]
            else:
                e = [0.4 * math.cos(1.0 + k + 2.0 * i), 0.8 * math.sin(2.0 + 1.3 * k + i) + 0.2]
                t = [e[(j >> i) & 1] for j in range(S)]
            tabs.append([min(max(x, -0.5), 1.0) for x in t] if log else t)
        out.append(tabs)
    return out


def cases_relax(ctx):
    quick = ctx.quick
    # --- straight-through on LogisticBernoulli: exact rules (piecewise GL; fixed 8-point midpoint grid with probabilities j/8)
    for n in (1, 2, 3):
        for M in (1, 2):
            grid = G1 if n == 1 else G3
            for combo in itertools.product(grid, repeat=n):
                th0 = [x + 0.1 * i for i, x in enumerate(combo)]
                for par in ("logits", "probs"):
                    theta = [t if par == "logits" else _sigmoid(t) for t in th0]
                    for log in (False, True):
                        for tabs in _lb_tables(n, log, True):
                            yield {"dist": "lb", "est": "st", "n": n, "par": par, "theta": theta, "M": M, "f": tabs, "log": log, "rule": {"kind": "gl", "Gu": 2}, "tol": 1e-9}
            if n * M <= 4:
                for combo in itertools.product([1, 3, 4, 7] if n == 1 else [1, 4, 6], repeat=n):
                    for log in (False, True):
                        for tabs in _lb_tables(n, log, True)[:2]:
                            yield {"dist": "lb", "est": "st", "n": n, "par": "probs", "theta": [j / 8.0 for j in combo], "M": M, "f": tabs, "log": log, "rule": {"kind": "mid", "K": 8}, "tol": 1e-9}
    # --- RELAX on LogisticBernoulli: value and gradient
    plans = [(1, 1, [-3.0, -2.0, -1.0, 0.0, 0.7, 2.0, 3.0], 16, 24, 2e-5), (1, 2, [-1.5, 0.0, 0.8], 8, 12, 2e-4), (2, 1, [-1.5, 0.0, 0.8], 8, 12, 2e-4)]
    if not quick:
        plans += [(1, 3, [-1.0, 0.5], 4, 6, 1e-2), (3, 1, [-1.0, 0.5], 4, 6, 1e-2), (2, 1, [-2.0, 1.5], 12, 16, 2e-4), (1, 2, [-2.0, 1.5], 12, 16, 2e-4)]
    for n, M, grid, Gu, Gv, tol in plans:
        for combo in itertools.product(grid, repeat=n):
            th0 = [x + 0.1 * i for i, x in enumerate(combo)]
            for par in ("logits", "probs"):
                theta = [t if par == "logits" else _sigmoid(t) for t in th0]
                for log in (False, True):
                    for cv in (CVS_LOG if log else CVS):
                        for joint in (False, True):
                            for tabs in _lb_tables(n, log, joint)[: (3 if n * M == 1 else 1)]:
                                yield {"dist": "lb", "est": "relax", "n": n, "par": par, "theta": theta, "M": M, "f": tabs, "log": log, "cv": cv,
                                       "rule": {"kind": "gl", "Gu": Gu, "Gv": Gv}, "tol": tol, "grad": not joint}
    # --- Gumbel, two categories
    Go, Gi, Gv = (12, 8, 8) if quick else (16, 10, 12)
    for th0 in [[0.0, 0.0], [0.0, math.log(2.0)], [1.2, -0.4], [-2.0, 0.5], [0.3, 0.9]] + ([] if quick else [[-1.0, -1.5], [2.0, 0.0]]):
        for par in ("logits", "probs"):
            theta = th0 if par == "logits" else [math.exp(x) for x in th0]
            for log in (False, True):
                for k in range(2):
                    f = [0.3 + 0.2 * k, 0.9 - 1.1 * k] if not log else [0.3 - 0.5 * k, 0.9]
                    yield {"dist": "gumbel", "est": "st", "par": par, "theta": theta, "f": f, "log": log, "rule": {"Go": 2 * Go, "Gi": 4, "Gv": 0}, "tol": 1e-5}
                    for cv in (CVS_LOG if log else CVS):
                        yield {"dist": "gumbel", "est": "relax", "par": par, "theta": theta, "f": f, "log": log, "cv": cv, "rule": {"Go": Go, "Gi": Gi, "Gv": Gv}, "tol": 2e-3, "grad": True}


# ---------------------------------------------------------------------------------------------
# C19.mh.accept_all


def check_mh(case):
    """case: {fam, par, theta, N (mc_samples), burn, init: drawn|given|given1 (given1: with the leading singleton dimension),
    same: object (density IS the proposal) | equal (separately built, same parameters) | unnorm (proposal shifted by 0.7 nats),
    u: H|L|A|seed:<k> (uniform draws: all 1-2^-24 / all 0 / alternating / real generator), log, f: table}.
    Every chain over the sample space of length N (+1 when the start is drawn) is laid out along the batch dimension."""
    torch = _torch()
    import pydrobert.torch.estimators as E

    fam, par, theta, N, burn, init, log = case["fam"], case["par"], case["theta"], case["N"], case["burn"], case["init"], case["log"]
    sizes, probs, _ = _marginals(fam, par, theta)
    space = _space(sizes)
    L = N + 1  # position 0 is the start (drawn or supplied)
    chains = list(itertools.product(range(len(space)), repeat=L))
    D = len(chains)
    steps = [_encode(fam, sizes, [space[c[k]] for c in chains]) for k in range(L)]  # each (D, *event)
    leaf = _leaf(fam, theta)
    prop = _build(fam, par, leaf.detach(), D)
    calls = {"n": 0}
    first = 0 if init == "drawn" else 1

    def sample(sample_shape=torch.Size()):
        if tuple(sample_shape) != (1,):
            raise AssertionError("driver: chain step asked for sample_shape %s" % (tuple(sample_shape),))
        k = first + calls["n"]
        calls["n"] += 1
        if k >= L:
            raise AssertionError("more proposals drawn than mc_samples%s" % (" + 1" if init == "drawn" else ""))
        return steps[k].unsqueeze(0).clone()

    prop.sample = sample
    if case["same"] == "object":
        dens = prop
    elif case["same"] == "equal":
        dens = _build(fam, par, _leaf(fam, theta).detach(), D)
    else:
        dens = _Shifted(prop, 0.7)
    raw, lin = _tab(case["f"], log)
    ftab = torch.tensor(raw, dtype=torch.float64)
    idx = _indexer(fam, sizes)
    kw = {}
    if init == "given":
        kw["initial_sample"] = steps[0].clone()
    elif init == "given1":
        kw["initial_sample"] = steps[0].unsqueeze(0).clone()
    est = E.IndependentMetropolisHastingsEstimator(prop, lambda b: ftab[idx(b)], N, dens, burn, is_log=log, **kw)
    u = case["u"]
    if u.startswith("seed:"):
        torch.manual_seed(int(u[5:]))
        v = est()
    else:
        if u == "A":
            ut = torch.zeros(N * D, dtype=torch.float32)
            ut[::2] = U32_MAX
            ut = ut.reshape(N, D)
        else:
            ut = torch.full((N, D), U32_MAX if u == "H" else 0.0, dtype=torch.float32)
        with _noise([ut]):
            v = est()
    if calls["n"] != L - first:
        return "%d proposals drawn, expected %d" % (calls["n"], L - first)
    v = _per_draw(v, D)
    if isinstance(v, str):
        return v
    got = (v.exp() if log else v).tolist()
    for d, c in enumerate(chains):
        kept = [lin[_index(space[c[k]], sizes)] for k in range(1 + burn, L)]  # every proposal accepted: chain state n is proposal n
        want = math.fsum(kept) / len(kept)
        if not _close(got[d], want):
            return "chain start=%s proposals=%s: returned %s, plain average of f over proposals %d..%d is %s" % (
                space[c[0]], [space[j] for j in c[1:]], _fmt(got[d]), burn + 1, N, _fmt(want))
    return None


def cases_mh(ctx):
    quick = ctx.quick
    fams = [("bern", 1, 2), ("bern", 2, 2), ("onehot", 1, 3), ("cat", 1, 3)] + ([] if quick else [("bern", 3, 2), ("onehot", 2, 2), ("cat", 1, 4)])
    for fam, nvar, V in fams:
        S = V ** nvar
        CATV.setdefault(4, [[0.0, 0.0, 0.0, 0.0], [0.5, -1.0, 0.3, 1.1]])
        th0s = list(_thetas(fam, nvar, V, True))
        th0s = th0s[:: max(1, len(th0s) // 3)][:3]
        for N in range(1, (3 if S <= 3 or not quick else 2) + 1 + (0 if quick else 1)):
            if S ** (N + 1) > 5000:
                continue
            for burn in range(N):
                for th0 in th0s:
                    for par in ("logits", "probs"):
                        theta = _to_par(fam, par, th0)
                        for init in ("drawn", "given", "given1"):
                            for same in ("object", "equal", "unnorm"):
                                for u in ("H", "L", "A", "seed:%d" % ctx.seed, "seed:%d" % (ctx.seed + 1)) + (() if quick else tuple("seed:%d" % (ctx.seed + k) for k in range(2, 8))):
                                    for log in (False, True):
                                        yield {"fam": fam, "par": par, "theta": theta, "N": N, "burn": burn, "init": init, "same": same, "u": u, "log": log,
                                               "f": _gen_table(S, N + burn, log)}


# ---------------------------------------------------------------------------------------------
# C19.lb.* / C19.gumbel.*: relaxed distributions


def _noise_values(K, dtype):
    """values a uniform generator on [0, 1) can return (0, tiny, the largest below 1) and a midpoint grid"""
    top = [U32_MAX, 1.0 - 2.0 ** -20, 1.0 - 2.0 ** -12] + ([U64_MAX, 1.0 - 2.0 ** -40] if dtype == "float64" else [])
    low = [0.0, 2.0 ** -149 if dtype == "float32" else 5e-324, 2.0 ** -126, 2.0 ** -60] + [2.0 ** -k for k in range(10, 25)]
    return sorted(set(low + top + [(j + 0.5) / K for j in range(K)] + [0.5]))


def _dt(name):
    torch = _torch()
    return {"float32": torch.float32, "float64": torch.float64}[name]


def check_lb_threshold(case):
    """case: {par, theta: [values], dtype, K}: for every parameter, every noise value and both b: threshold(csample(b)) == b, csample finite"""
    torch = _torch()
    import pydrobert.torch.distributions as PD

    dt = _dt(case["dtype"])
    vals = _noise_values(case["K"], case["dtype"])
    P, Kn = len(case["theta"]), len(vals)
    param = torch.tensor(case["theta"], dtype=dt).unsqueeze(-1).expand(P, Kn)
    dist = PD.LogisticBernoulli(**{case["par"]: param})
    noise = torch.tensor(vals, dtype=torch.float64).to(dt).unsqueeze(0).expand(P, Kn)
    for bval in (0.0, 1.0):
        b = torch.full((P, Kn), bval, dtype=dt)
        with _noise([], [noise]):
            z = dist.csample(b)
        if not torch.isfinite(z).all():
            i, j = [int(x) for x in (~torch.isfinite(z)).nonzero()[0]]
            return "csample(b=%d) with %s=%r, noise=%r is %r (not in the support)" % (bval, case["par"], case["theta"][i], vals[j], float(z[i, j]))
        back = dist.threshold(z)
        bad = (back != b).nonzero()
        if len(bad):
            i, j = [int(x) for x in bad[0]]
            return "threshold(csample(b=%d)) = %d with %s=%r, noise=%r (%s), zcond=%r" % (bval, int(back[i, j]), case["par"], case["theta"][i], vals[j], case["dtype"], float(z[i, j]))
    return None


def _kf3_class(k, noise):
    """KF-C19-3: a non-conditioning coordinate's noise is one of the largest values below 1 while the conditioning coordinate's is small"""
    return max(x for j, x in enumerate(noise) if j != k) >= 1.0 - 2.0 ** -20 and noise[k] <= 2.0 ** -9


def check_gumbel_threshold(case):
    """case: {par, theta: [V values], dtype, K}: every noise vector on the grid^V, every one-hot b"""
    torch = _torch()
    import pydrobert.torch.distributions as PD

    dt = _dt(case["dtype"])
    V = len(case["theta"])
    vals = _noise_values(case["K"], case["dtype"])
    grid = torch.tensor(list(itertools.product(vals, repeat=V)), dtype=torch.float64).to(dt)  # (G, V)
    G = grid.size(0)
    dist = PD.GumbelOneHotCategorical(**{case["par"]: torch.tensor(case["theta"], dtype=dt).expand(G, V)})
    for k in range(V):
        b = torch.zeros(G, V, dtype=dt)
        b[:, k] = 1.0
        with _noise([], [grid]):
            z = dist.csample(b)
        if not torch.isfinite(z).all():
            i = int((~torch.isfinite(z)).any(-1).nonzero()[0])
            return "csample(b=e_%d) with %s=%r, noise=%r is %r (not in the support)" % (k, case["par"], case["theta"], grid[i].tolist(), z[i].tolist())
        back = dist.threshold(z)
        bad = [int(i) for i in (back != b).any(-1).nonzero().flatten()]
        if bad:
            # all failures are failures; one outside the class of KF-C19-3 (if any) is the one reported
            bad.sort(key=lambda i: _kf3_class(k, grid[i].tolist()))
            i = bad[0]
            return "threshold(csample(b=e_%d)) = %r with %s=%r, noise=%r (%s), zcond=%r" % (k, back[i].tolist(), case["par"], case["theta"], grid[i].tolist(), case["dtype"], z[i].tolist())
    return None


def _tclose(a, b, tol):
    torch = _torch()
    both_inf = torch.isinf(a) & torch.isinf(b) & (a == b)
    return both_inf | ((a - b).abs() <= tol * (1.0 + b.abs()))


def check_lb_density(case):
    """case: {par, theta: [values], K}. For z on a grid and z = rsample(u), zc = csample(b; v) on midpoint grids of the noise (float64):
       log_prob(z) == tlog_prob(H(z)) + clog_prob(z, H(z));  clog_prob(z, 1-H(z)) == -inf;
       log_prob(rsample(u)) == -log|dz/du|  and  clog_prob(csample(b; v), b) == -log|dzc/dv|  (densities of the samplers)"""
    torch = _torch()
    import pydrobert.torch.distributions as PD

    K, par = case["K"], case["par"]
    P = len(case["theta"])
    zs = [-30.0, -8.0, -2.5, -1.0, -0.3, -1e-9, 0.0, 1e-9, 0.2, 1.0, 3.0, 9.0, 30.0]
    mids = [(j + 0.5) / K for j in range(K)] + [1e-6, 1.0 - 1e-6]
    tol = 1e-7
    f32 = case.get("dtype") == "float32"

    def mk(n):
        return PD.LogisticBernoulli(**{par: torch.tensor(case["theta"], dtype=torch.float64).unsqueeze(-1).expand(P, n)})

    if f32:
        # single precision (the library's default): the factorisation on the z grid only, to single-precision accuracy; the
        # parameter-space construction (logits= / probs=) must not cost more than rounding
        d = PD.LogisticBernoulli(**{par: torch.tensor(case["theta"], dtype=torch.float32).unsqueeze(-1).expand(P, len(zs))})
        zz = torch.tensor(zs, dtype=torch.float32).unsqueeze(0).expand(P, len(zs))
        h = d.threshold(zz)
        lhs, rhs = d.log_prob(zz), d.tlog_prob(h) + d.clog_prob(zz, h)
        ok = _tclose(lhs.double(), rhs.double(), 2e-5)
        if not ok.all():
            i, j = where(~ok)
            return "float32 %s=%r, z=%r: log_prob = %s, tlog_prob(H(z)) + clog_prob(z, H(z)) = %s" % (par, case["theta"][i], float(zz[i, j]), _fmt(float(lhs[i, j])), _fmt(float(rhs[i, j])))
        return None

    def where(mask):
        i, j = [int(x) for x in mask.nonzero()[0]]
        return i, j

    d = mk(len(zs))
    z = torch.tensor(zs, dtype=torch.float64).unsqueeze(0).expand(P, len(zs))
    for zz, name in ((z, "grid z"), (None, "z = rsample(u)")):
        if zz is None:
            d = mk(len(mids))
            u = torch.tensor(mids, dtype=torch.float64).unsqueeze(0).expand(P, len(mids)).clone().requires_grad_(True)
            with _noise([u]):
                zz = d.rsample()
            (dz,) = torch.autograd.grad(zz.sum(), u)
            lhs, rhs = d.log_prob(zz).detach(), -dz.abs().log()
            if not _tclose(lhs, rhs, tol).all():
                i, j = where(~_tclose(lhs, rhs, tol))
                return "%s=%r, u=%r: log_prob(rsample) = %s but the sampler's density -log|dz/du| = %s" % (par, case["theta"][i], mids[j], _fmt(float(lhs[i, j])), _fmt(float(rhs[i, j])))
            zz = zz.detach()
        h = d.threshold(zz)
        lhs = d.log_prob(zz)
        rhs = d.tlog_prob(h) + d.clog_prob(zz, h)
        if not _tclose(lhs, rhs, tol).all():
            i, j = where(~_tclose(lhs, rhs, tol))
            return "%s=%r, %s=%r: log_prob = %s, tlog_prob(H(z)) + clog_prob(z, H(z)) = %s" % (par, case["theta"][i], name, float(zz[i, j]), _fmt(float(lhs[i, j])), _fmt(float(rhs[i, j])))
        off = d.clog_prob(zz, 1.0 - h)
        if not (off == -math.inf).all():
            i, j = where(off != -math.inf)
            return "%s=%r, z=%r: clog_prob(z, b) = %s for b != threshold(z), must be -inf" % (par, case["theta"][i], float(zz[i, j]), _fmt(float(off[i, j])))
    d = mk(len(mids))
    for bval in (0.0, 1.0):
        b = torch.full((P, len(mids)), bval, dtype=torch.float64)
        v = torch.tensor(mids, dtype=torch.float64).unsqueeze(0).expand(P, len(mids)).clone().requires_grad_(True)
        with _noise([], [v]):
            zc = d.csample(b)
        (dz,) = torch.autograd.grad(zc.sum(), v)
        lhs, rhs = d.clog_prob(zc.detach(), b), -dz.abs().log()
        if not _tclose(lhs, rhs, tol).all():
            i, j = where(~_tclose(lhs, rhs, tol))
            return "%s=%r, b=%d, v=%r: clog_prob(csample(b), b) = %s but the conditional sampler's density -log|dz/dv| = %s" % (
                par, case["theta"][i], bval, mids[j], _fmt(float(lhs[i, j])), _fmt(float(rhs[i, j])))
    return None


def check_gumbel_density(case):
    """case: {par, theta: [V values], K}: as check_lb_density with the V x V Jacobian determinant of the conditional sampler"""
    torch = _torch()
    import pydrobert.torch.distributions as PD

    K, par, V = case["K"], case["par"], len(case["theta"])
    mids = [(j + 0.5) / K for j in range(K)] + [1e-4, 1.0 - 1e-4]
    grid = torch.tensor(list(itertools.product(mids, repeat=V)), dtype=torch.float64)
    G = grid.size(0)
    d = PD.GumbelOneHotCategorical(**{par: torch.tensor(case["theta"], dtype=torch.float64).expand(G, V)})
    tol = 1e-7

    def jac_logdet(out, inp):
        rows = [torch.autograd.grad(out[:, j].sum(), inp, retain_graph=True)[0] for j in range(V)]  # row j: d out_j / d inp
        J = torch.stack(rows, 1)  # (G, V, V)
        return torch.linalg.det(J).abs().log()

    u = grid.clone().requires_grad_(True)
    with _noise([u]):
        z = d.rsample()
    lhs, rhs = d.log_prob(z).detach(), -jac_logdet(z, u)
    if not _tclose(lhs, rhs, tol).all():
        i = int((~_tclose(lhs, rhs, tol)).nonzero()[0])
        return "%s=%r, u=%r: log_prob(rsample) = %s but the sampler's density -log|det dz/du| = %s" % (par, case["theta"], grid[i].tolist(), _fmt(float(lhs[i])), _fmt(float(rhs[i])))
    z = z.detach()
    zgrid = torch.tensor(list(itertools.product([-6.0, -1.0, -0.2, 0.0, 0.7, 2.5, 8.0], repeat=V)), dtype=torch.float64)
    zgrid = zgrid[[i for i in range(zgrid.size(0)) if (zgrid[i] == zgrid[i].max()).sum() == 1]]  # ties have no defined threshold in the property
    for zz, dd in ((z, d), (zgrid, PD.GumbelOneHotCategorical(**{par: torch.tensor(case["theta"], dtype=torch.float64).expand(zgrid.size(0), V)}))):
        h = dd.threshold(zz)
        want = torch.nn.functional.one_hot(zz.argmax(-1), V).to(zz)
        if not (h == want).all():
            return "threshold does not return the one-hot arg-max"
        lhs = dd.log_prob(zz)
        rhs = dd.tlog_prob(h) + dd.clog_prob(zz, h)
        if not _tclose(lhs, rhs, tol).all():
            i = int((~_tclose(lhs, rhs, tol)).nonzero()[0])
            return "%s=%r, z=%r: log_prob = %s, tlog_prob(H(z)) + clog_prob(z, H(z)) = %s" % (par, case["theta"], zz[i].tolist(), _fmt(float(lhs[i])), _fmt(float(rhs[i])))
        for s in range(1, V):
            off = dd.clog_prob(zz, h.roll(s, -1))
            if not (off == -math.inf).all():
                i = int((off != -math.inf).nonzero()[0])
                return "%s=%r, z=%r: clog_prob(z, b) = %s for b != threshold(z), must be -inf" % (par, case["theta"], zz[i].tolist(), _fmt(float(off[i])))
    for k in range(V):
        b = torch.zeros(G, V, dtype=torch.float64)
        b[:, k] = 1.0
        v = grid.clone().requires_grad_(True)
        with _noise([], [v]):
            zc = d.csample(b)
        lhs, rhs = d.clog_prob(zc.detach(), b), -jac_logdet(zc, v)
        if not _tclose(lhs, rhs, tol).all():
            i = int((~_tclose(lhs, rhs, tol)).nonzero()[0])
            return "%s=%r, b=e_%d, v=%r: clog_prob(csample(b), b) = %s but the conditional sampler's density -log|det dz/dv| = %s" % (
                par, case["theta"], k, grid[i].tolist(), _fmt(float(lhs[i])), _fmt(float(rhs[i])))
    return None


LB_LOGITS = [-30.0, -12.0, -6.0, -3.0, -1.5, -0.5, -1e-3, 0.0, 1e-3, 0.4, 1.0, 2.0, 4.0, 8.0, 15.0, 30.0]
LB_PROBS = [0.0, 1e-30, 1e-12, 1e-7, 1e-3, 0.05, 0.125, 0.3, 0.5, 0.625, 0.9, 0.999, 1.0 - 1e-7, 1.0 - 1e-12, 1.0]


def cases_lb_threshold(ctx):
    K = 64 if ctx.quick else 512
    for dtype in ("float32", "float64"):
        for par, vals in (("logits", LB_LOGITS + [-80.0, 80.0, -200.0, 200.0]), ("probs", LB_PROBS)):
            for x in vals:
                yield {"par": par, "theta": [x], "dtype": dtype, "K": K}
            if not ctx.quick:
                rng = random.Random(ctx.seed + 31)
                for _ in range(300):
                    yield {"par": par, "theta": [rng.uniform(-20, 20) if par == "logits" else rng.random() for _ in range(8)], "dtype": dtype, "K": K}


GUMBEL_LOGITS = {2: [[0.0, 0.0], [1.2, -0.4], [-2.0, 0.5], [-12.0, 0.0], [0.0, -30.0], [3.0, 3.0]],
                 3: [[0.0, 0.0, 0.0], [1.0, -1.0, 0.3], [-0.7, 2.0, 0.1], [-15.0, 0.0, -3.0]],
                 4: [[0.0, 0.0, 0.0, 0.0], [0.5, -1.0, 0.3, 1.1]]}


def cases_gumbel_threshold(ctx):
    for dtype in ("float32", "float64"):
        for V, K in ((2, 24 if ctx.quick else 64), (3, 6 if ctx.quick else 16), (4, 1 if ctx.quick else 4)):
            for th in GUMBEL_LOGITS[V]:
                for par in ("logits", "probs"):
                    yield {"par": par, "theta": th if par == "logits" else [math.exp(x) for x in th], "dtype": dtype, "K": K}
            if not ctx.quick:
                rng = random.Random(ctx.seed + 37 + V)
                for _ in range(60):
                    yield {"par": "logits", "theta": [rng.uniform(-8, 8) for _ in range(V)], "dtype": dtype, "K": K}


def cases_lb_density(ctx):
    K = 32 if ctx.quick else 256
    for par, vals in (("logits", [x for x in LB_LOGITS if abs(x) <= 15.0]), ("probs", [p for p in LB_PROBS if 1e-7 <= p <= 1.0 - 1e-7])):
        for x in vals:
            yield {"par": par, "theta": [x], "K": K}
            yield {"par": par, "theta": [x], "K": K, "dtype": "float32"}
    if not ctx.quick:
        rng = random.Random(ctx.seed + 41)
        for _ in range(400):
            yield {"par": "logits", "theta": [rng.uniform(-10, 10) for _ in range(4)], "K": K}


def cases_gumbel_density(ctx):
    for V, K in ((2, 12 if ctx.quick else 32), (3, 5 if ctx.quick else 10)):
        for th in GUMBEL_LOGITS[V]:
            if min(th) < -13.0:
                continue
            for par in ("logits", "probs"):
                yield {"par": par, "theta": th if par == "logits" else [math.exp(x) for x in th], "K": K}
        if not ctx.quick:
            rng = random.Random(ctx.seed + 43 + V)
            for _ in range(100):
                yield {"par": "logits", "theta": [rng.uniform(-4, 4) for _ in range(V)], "K": K}


# ---------------------------------------------------------------------------------------------
# C19.dist.support, C19.srswor.cardinality, C19.comb.enumerate


def _card_ok(vec, total, given):
    return all(x in (0.0, 1.0) for x in vec) and sum(vec) == given and all(x == 0.0 for x in vec[total:])


def check_srswor(case):
    """case: {mode: paths, total, given, out (None = total)}: every path of the sequential Bernoulli draws (torch.bernoulli forced: it may
         return either value unless p is 0 or 1), each leaf a valid vector, leaves distinct and = all C(total, given) vectors, each path's
         probability == exp(log_prob) of the distribution;
       {mode: seed, totals: nested list, givens: nested list (broadcast), out, seed, via: fn|dist, shape}: real generator"""
    torch = _torch()
    import pydrobert.torch.distributions as PD
    import pydrobert.torch.functional as PF

    if case["mode"] == "paths":
        total, given, out = case["total"], case["given"], case["out"]
        T = total if out is None else out
        leaves = {}
        stack = [[]]
        runs = 0
        while stack:
            prefix = stack.pop()
            state = {"i": 0, "p": 1.0, "trail": list(prefix)}

            def bern(p, state=state):
                pv = float(p)
                if not (0.0 <= pv <= 1.0):
                    raise AssertionError("torch.bernoulli called with p=%r outside [0, 1]" % pv)
                if pv == 0.0 or pv == 1.0:
                    return torch.full_like(p, pv)
                i = state["i"]
                state["i"] += 1
                if i < len(state["trail"]):
                    bit = state["trail"][i]
                else:
                    bit = 0
                    state["trail"].append(0)
                    stack.append(state["trail"][:i] + [1])
                state["p"] *= pv if bit else 1.0 - pv
                return torch.full_like(p, float(bit))

            with _noise(bernoulli=bern):
                b = PF.simple_random_sampling_without_replacement(torch.tensor(total), torch.tensor(given), out)
            runs += 1
            if runs > 5000:
                return "driver: path enumeration does not terminate"
            if tuple(b.shape) != (T,):
                return "sample has shape %s, expected (%d,)" % (tuple(b.shape), T)
            vec = tuple(b.tolist())
            if not _card_ok(vec, total, given):
                return "path %s yields %s: not exactly %d ones inside the first %d positions" % (state["trail"], vec, given, total)
            leaves[vec] = leaves.get(vec, 0.0) + state["p"]
        want = set(tuple(float(x) for x in v) for v in _comb_vectors(total, given, T))
        if set(leaves) != want:
            return "reachable samples %s differ from the %d vectors with %d ones among the first %d positions" % (sorted(leaves), len(want), given, total)
        if not _close(math.fsum(leaves.values()), 1.0):
            return "path probabilities sum to %s" % _fmt(math.fsum(leaves.values()))
        dist = PD.SimpleRandomSamplingWithoutReplacement(given, total, out)
        for vec, p in leaves.items():
            lp = float(dist.log_prob(torch.tensor(vec)))
            if not _close(math.exp(lp), p, 1e-5):
                return "sample %s is drawn with probability %s but exp(log_prob) = %s" % (vec, _fmt(p), _fmt(math.exp(lp)))
        return None
    totals, givens = torch.tensor(case["totals"]), torch.tensor(case["givens"])
    out, shape = case["out"], tuple(case.get("shape", ()))
    torch.manual_seed(case["seed"])
    if case["via"] == "fn":
        b = PF.simple_random_sampling_without_replacement(totals, givens, out)
        dist = None
    else:
        dist = PD.SimpleRandomSamplingWithoutReplacement(givens, totals, out)
        b = dist.sample(shape)
    tt, gg = torch.broadcast_tensors(totals, givens)
    T = int(totals.max()) if out is None else out
    want_shape = shape + tuple(tt.shape) + (T,)
    if tuple(b.shape) != want_shape:
        return "sample has shape %s, expected %s" % (tuple(b.shape), want_shape)
    bb = b.reshape((math.prod(shape),) + tuple(tt.shape) + (T,))  # explicit: -1 is ambiguous for vectors of length 0
    for s in range(bb.size(0)):
        for pos in itertools.product(*[range(n) for n in tt.shape]):
            vec = bb[(s,) + pos].tolist()
            t, g = int(tt[pos]), int(gg[pos])
            if not _card_ok(vec, t, g):
                return "element %s (total=%d, given=%d): sample %s does not have exactly %d ones inside the first %d positions" % (pos, t, g, vec, g, t)
    if dist is not None and not bool(dist.support.check(b).all()):
        return "the distribution's own support constraint rejects its sample"
    return None


def cases_srswor(ctx):
    quick = ctx.quick
    tmax = 7 if quick else 10
    for total in range(0, tmax + 1):
        for given in range(0, total + 1):
            for out in (None, total, total + 2):
                yield {"mode": "paths", "total": total, "given": given, "out": out}
    rng = random.Random(ctx.seed + 47)
    nseed = 8 if quick else 40
    for total in range(0, 9 if quick else 14):
        for given in range(0, total + 1):
            for seed in range(ctx.seed, ctx.seed + nseed):
                for via in ("fn", "dist"):
                    yield {"mode": "seed", "totals": total, "givens": given, "out": rng.choice([None, total, total + 1, total + 4]), "seed": seed, "via": via,
                           "shape": [] if via == "fn" else rng.choice([[], [3], [2, 2]])}
    for _ in range(1500 if quick else 20000):  # ragged batches, broadcasting
        B = rng.choice([1, 2, 3, 5])
        tmx = rng.choice([3, 6, 12] if quick else [3, 6, 12, 30])
        tots = [rng.randint(0, tmx) for _ in range(B)]
        if rng.random() < 0.5:
            giv = [rng.randint(0, t) for t in tots]
        else:  # a column of totals against a row of givens
            giv = [[rng.randint(0, min(tots))] for _ in range(rng.choice([1, 2]))]
        via = rng.choice(["fn", "dist"])
        yield {"mode": "seed", "totals": tots, "givens": giv, "out": rng.choice([None, max(tots), max(tots) + 3]), "seed": rng.randrange(2 ** 31), "via": via,
               "shape": [] if via == "fn" else rng.choice([[], [2]])}


def check_dist(case):
    """case: {dist: srswor, total, given, out, batch}: enumerate_support distinct, inside the support, exactly the C(total,given) vectors, probabilities sum to 1
       {dist: lb|gumbel, par, theta, dtype, u: extreme|seed:<k>}: rsample/sample finite (support = reals), threshold inside the thresholded
       support, tlog_prob over the thresholded support sums to one"""
    torch = _torch()
    import pydrobert.torch.distributions as PD

    if case["dist"] == "srswor":
        total, given, out, nb = case["total"], case["given"], case["out"], case.get("batch", 0)
        g = torch.tensor(given) if not nb else torch.full((nb,), given)
        t = torch.tensor(total) if not nb else torch.full((nb,), total)
        if case.get("float"):  # integer-valued FLOAT counts: what arg_constraints (nonnegative_integer) admit and tests/ sample with
            g, t = g.float(), t.float()
        dist = PD.SimpleRandomSamplingWithoutReplacement(g, t, out)
        T = total if out is None else out
        if not dist.has_enumerate_support:
            return "has_enumerate_support is False for equal counts"
        sup = dist.enumerate_support()
        bshape = () if not nb else (nb,)
        n = math.comb(total, given)
        if tuple(sup.shape) != (n,) + bshape + (T,):
            return "enumerate_support has shape %s, expected %s" % (tuple(sup.shape), (n,) + bshape + (T,))
        if not bool(dist.support.check(sup).all()):
            return "an enumerated element is outside the distribution's support"
        lp = dist.log_prob(sup)
        if tuple(lp.shape) != (n,) + bshape:
            return "log_prob of the support has shape %s" % (tuple(lp.shape),)
        for col in range(max(nb, 1)):
            rows = [tuple(sup[(i,) + ((col,) if nb else ())].tolist()) for i in range(n)]
            if len(set(rows)) != n or set(rows) != set(tuple(float(x) for x in v) for v in _comb_vectors(total, given, T)):
                return "enumerated support %s is not the set of vectors with %d ones among the first %d positions (each once)" % (rows, given, total)
            tot = float(lp[(slice(None),) + ((col,) if nb else ())].to(torch.float64).exp().sum())
            if not _close(tot, 1.0, 1e-5):
                return "probabilities over the enumerated support sum to %s" % _fmt(tot)
        return None
    dt = _dt(case["dtype"])
    par, theta = case["par"], case["theta"]
    lb = case["dist"] == "lb"
    ext = [0.0, 2.0 ** -149 if case["dtype"] == "float32" else 5e-324, 2.0 ** -24, 0.25, 0.5, U32_MAX if case["dtype"] == "float32" else U64_MAX]
    if lb:
        param = torch.tensor(theta, dtype=dt)
        dist = PD.LogisticBernoulli(**{par: param})
        ushape = (len(ext), len(theta))
        forced = torch.tensor(ext, dtype=torch.float64).to(dt).unsqueeze(-1).expand(ushape)
    else:
        V = len(theta)
        param = torch.tensor(theta, dtype=dt)
        dist = PD.GumbelOneHotCategorical(**{par: param})
        combos = list(itertools.product(ext, repeat=V))
        ushape = (len(combos), V)
        forced = torch.tensor(combos, dtype=torch.float64).to(dt)
    if case["u"] == "extreme":
        with _noise([forced, forced]):
            zs = [dist.rsample([ushape[0]]), dist.sample([ushape[0]])]
    else:
        torch.manual_seed(int(case["u"][5:]))
        zs = [dist.rsample([64]), dist.sample([64])]
    for z, nm in zip(zs, ("rsample", "sample")):
        if z.dtype != dt or tuple(z.shape[1:]) != tuple(param.shape):
            return "%s has dtype/shape %s %s" % (nm, z.dtype, tuple(z.shape))
        if not torch.isfinite(z).all() or not bool(dist.support.check(z).all()):
            i = int((~torch.isfinite(z)).reshape(z.size(0), -1).any(-1).nonzero()[0])
            return "%s returns %r (outside the support) for %s=%r, noise %r" % (nm, z[i].tolist(), par, theta, forced[i].tolist() if case["u"] == "extreme" else case["u"])
        b = dist.threshold(z)
        if not bool(dist.thresholded_support.check(b).all()):
            return "threshold(%s) is outside the thresholded support" % nm
        lpb = dist.tlog_prob(b)
        if not torch.isfinite(lpb).all() and not lb:
            pass  # a category of probability zero may carry -inf
    if lb:
        tot = dist.tlog_prob(torch.zeros_like(param)).to(torch.float64).exp() + dist.tlog_prob(torch.ones_like(param)).to(torch.float64).exp()
    else:
        tot = sum(dist.tlog_prob(torch.nn.functional.one_hot(torch.tensor(k), V).to(dt)).to(torch.float64).exp() for k in range(V))
    tol = 1e-5 if case["dtype"] == "float32" else 1e-9
    if not bool(((tot - 1.0).abs() <= tol).all()):
        return "thresholded probabilities sum to %r for %s=%r" % (tot.tolist(), par, theta)
    return None


def cases_dist(ctx):
    quick = ctx.quick
    for total in range(0, (7 if quick else 11) + 1):
        for given in range(0, total + 1):
            for out in (None, total, total + 2):
                for nb in (0, 3):
                    yield {"dist": "srswor", "total": total, "given": given, "out": out, "batch": nb}
                    if out is None and total >= 1:
                        yield {"dist": "srswor", "total": total, "given": given, "out": out, "batch": nb, "float": True}
    us = ["extreme"] + ["seed:%d" % (ctx.seed + k) for k in range(4 if quick else 40)]
    for dtype in ("float32", "float64"):
        for u in us:
            for par, vals in (("logits", LB_LOGITS + [-80.0, 80.0]), ("probs", LB_PROBS)):
                for i in range(0, len(vals), 4):
                    yield {"dist": "lb", "par": par, "theta": vals[i:i + 4], "dtype": dtype, "u": u}
            for V in (2, 3, 4):
                for th in GUMBEL_LOGITS[V]:
                    for par in ("logits", "probs"):
                        yield {"dist": "gumbel", "par": par, "theta": th if par == "logits" else [math.exp(x) for x in th], "dtype": dtype, "u": u}


def check_comb(case):
    """case: {fn: binom, lengths, counts} | {fn: vocab, length, vocab} | {fn: card, length, count} | {fn: cardt, lengths, counts}"""
    torch = _torch()
    import pydrobert.torch.functional as PF

    fn = case["fn"]
    if fn == "binom":
        ln, ct = torch.tensor(case["lengths"]), torch.tensor(case["counts"])
        got = PF.binomial_coefficient(ln, ct)
        L, Cn = torch.broadcast_tensors(ln, ct)
        if got.shape != L.shape or got.dtype != torch.long:
            return "result has shape/dtype %s %s" % (tuple(got.shape), got.dtype)
        for g, l, c in zip(got.reshape(-1).tolist(), L.reshape(-1).tolist(), Cn.reshape(-1).tolist()):
            if g != math.comb(l, c):
                return "binomial_coefficient(%d, %d) = %d, expected %d" % (l, c, g, math.comb(l, c))
        return None
    if fn == "vocab":
        L, V = case["length"], case["vocab"]
        sup = PF.enumerate_vocab_sequences(L, V) if V != 2 or case.get("generic") else PF.enumerate_binary_sequences(L)
        if tuple(sup.shape) != (V ** L, L):
            return "support has shape %s, expected %s" % (tuple(sup.shape), (V ** L, L))
        rows = [tuple(r) for r in sup.tolist()]
        if set(rows) != set(itertools.product(range(V), repeat=L)) or len(set(rows)) != len(rows):
            return "rows are not all sequences over %d symbols of length %d, each once" % (V, L)
        for x in range(L + 1):  # documented order: the first V^(L-x) rows restricted to the first L-x columns are all shorter sequences
            sub = [tuple(r[: L - x]) for r in rows[: V ** (L - x)]]
            if set(sub) != set(itertools.product(range(V), repeat=L - x)):
                return "rows[:%d, :%d] are not all sequences of length %d" % (V ** (L - x), L - x, L - x)
        return None
    if fn == "card":
        L, Cn = case["length"], case["count"]
        sup = PF.enumerate_binary_sequences_with_cardinality(L, Cn)
        rows = [tuple(r) for r in sup.tolist()]
        want = set(_comb_vectors(L, Cn, L))
        if tuple(sup.shape) != (len(want), L) or set(rows) != want or len(set(rows)) != len(rows):
            return "support %s is not the %d binary sequences of length %d with %d ones, each once" % (rows, len(want), L, Cn)
        return None
    ln, ct = torch.tensor(case["lengths"]), torch.tensor(case["counts"])
    sup, binom = PF.enumerate_binary_sequences_with_cardinality(ln, ct)
    Lb, Cb = torch.broadcast_tensors(ln, ct)
    nmax = max(math.comb(l, c) for l, c in zip(Lb.reshape(-1).tolist(), Cb.reshape(-1).tolist()))
    if tuple(binom.shape) != tuple(Lb.shape) or tuple(sup.shape) != tuple(Lb.shape) + (nmax, int(ln.max())):
        return "shapes %s / %s, expected %s / %s" % (tuple(sup.shape), tuple(binom.shape), tuple(Lb.shape) + (nmax, int(ln.max())), tuple(Lb.shape))
    for pos in itertools.product(*[range(n) for n in Lb.shape]):
        l, c = int(Lb[pos]), int(Cb[pos])
        if int(binom[pos]) != math.comb(l, c):
            return "binom%s = %d, expected C(%d,%d) = %d" % (list(pos), int(binom[pos]), l, c, math.comb(l, c))
        rows = [tuple(r[:l]) for r in sup[pos][: math.comb(l, c)].tolist()]
        want = set(_comb_vectors(l, c, l))
        if set(rows) != want or len(set(rows)) != len(rows):
            return "support%s[:%d, :%d] = %s is not the set of binary sequences of length %d with %d ones, each once" % (list(pos), math.comb(l, c), l, rows, l, c)
    return None


def cases_comb(ctx):
    quick = ctx.quick
    lmax = 30 if quick else 66
    for l in range(0, lmax + 1):
        # one call per length: all counts 0..l+2 at once (count > length must give 0); max length decides the branch (<= 20 factorials, > 20 recursion)
        yield {"fn": "binom", "lengths": l, "counts": list(range(0, l + 3))}
        yield {"fn": "binom", "lengths": [[l], [max(l - 3, 0)], [0]], "counts": list(range(0, l + 2, max(1, l // 6)))}
    for V in (1, 2, 3, 4):
        for L in range(0, {1: 6, 2: 8 if quick else 12, 3: 5 if quick else 7, 4: 4 if quick else 5}[V] + 1):
            yield {"fn": "vocab", "length": L, "vocab": V}
            if V == 2:
                yield {"fn": "vocab", "length": L, "vocab": V, "generic": True}
    for L in range(0, (9 if quick else 13) + 1):
        for Cn in range(0, L + 2):
            yield {"fn": "card", "length": L, "count": Cn}
    rng = random.Random(ctx.seed + 53)
    for L in range(0, (6 if quick else 9) + 1):
        for Cn in range(0, L + 1):
            yield {"fn": "cardt", "lengths": [L], "counts": [Cn]}
    for _ in range(300 if quick else 3000):
        B = rng.choice([1, 2, 3, 4])
        ls = [rng.randint(0, 6 if quick else 9) for _ in range(B)]
        yield {"fn": "cardt", "lengths": ls, "counts": [rng.randint(0, l + (1 if rng.random() < 0.1 else 0)) for l in ls]}


# ---------------------------------------------------------------------------------------------
# registry


CHECKERS = {"C19.direct.unbiased_grad": check_direct, "C19.is.unbiased_grad": check_is, "C19.enum.exact": check_enum, "C19.relax.value_mean": check_relax,
            "C19.mh.accept_all": check_mh, "C19.lb.threshold_csample": check_lb_threshold, "C19.gumbel.threshold_csample": check_gumbel_threshold,
            "C19.lb.density_factor": check_lb_density, "C19.gumbel.density_factor": check_gumbel_density, "C19.dist.support": check_dist,
            "C19.srswor.cardinality": check_srswor, "C19.comb.enumerate": check_comb}

FINDINGS = [
    {"id": "KF-C19-1", "property": "C19", "clause": "C19.direct.unbiased_grad",
     "what": "DirectEstimator(is_log=True) with a control variate is biased when f(b)=0 (log f = -inf) for every Monte Carlo sample of a draw: fb_lmax is then "
             "finfo.min/2, exp(clamp(cv_mean - fb_lmax)) saturates at exp(EPS_INF) and the returned exp(v) is 0 instead of mu_c - c(b)",
     "class": "is_log and a control variate whose value differs from cv_mean on some b and f has an exact zero (log-value -inf): the averaged VALUE differs from the expectation",
     "witness": {"fam": "bern", "par": "probs", "theta": [[0.5]], "M": 1, "f": [None, 0.0], "log": True, "kappa": 0.0, "cv": "tab", "c": [None, -1.4235315371231945]}},
    {"id": "KF-C19-2", "property": "C19", "clause": "C19.is.unbiased_grad",
     "what": "ImportanceSamplingEstimator(is_log=True): the gradient is NaN when log f = -inf for every Monte Carlo sample of a draw ((fb + llr).logsumexp(0) over all -inf)",
     "class": "is_log and f has an exact zero (log-value -inf): the averaged gradient w.r.t. the density's parameters is NaN (the value is right)",
     "witness": {"fam": "bern", "par": "logits", "theta": [[-3.0]], "phi": [[0.0]], "M": 1, "f": [0.0, None], "log": True, "kappa": 0.0, "sn": False}},
    {"id": "KF-C19-3", "property": "C19", "clause": "C19.gumbel.threshold_csample",
     "what": "GumbelOneHotCategorical.csample: 'zcond_match_k - finfo.eps' is absorbed by rounding once |zcond_match_k| >= 2, so a non-conditioning coordinate whose noise is "
             "within ~2^-20 of 1 ties with the conditioning coordinate and threshold(csample(b)) returns the first tied index instead of b",
     "class": "noise of a non-conditioning coordinate >= 1 - 2^-20 and noise of the conditioning coordinate <= 2^-9 (float32 and float64)",
     "witness": {"par": "logits", "theta": [0.0, 0.0], "dtype": "float32", "K": 1}},
    {"id": "KF-C19-4", "property": "C19", "clause": "C19.srswor.cardinality",
     "what": "simple_random_sampling_without_replacement (and SimpleRandomSamplingWithoutReplacement.sample) raise RuntimeError for vectors of length 0 "
             "(every total_count 0 and out_size None or 0): b.view(out_size, -1) on an empty tensor",
     "class": "max(total_count) == 0 and out_size in (None, 0)",
     "witness": {"mode": "paths", "total": 0, "given": 0, "out": None}},
    {"id": "KF-C19-5", "property": "C19", "clause": "C19.dist.support",
     "what": "SimpleRandomSamplingWithoutReplacement.enumerate_support raises RuntimeError for vectors of length 0 (total_count 0 and out_size None or 0): "
             "support.view((-1, ..., 0)) on an empty tensor",
     "class": "distribution srswor, total_count == 0 and out_size in (None, 0)",
     "witness": {"dist": "srswor", "total": 0, "given": 0, "out": None, "batch": 0}},
]


def _kf3(case, msg):
    import re

    m = re.search(r"threshold\(csample\(b=e_(\d+)\)\).*noise=\[([^\]]*)\]", msg)
    return bool(m) and _kf3_class(int(m.group(1)), [float(x) for x in m.group(2).split(",")])


def _kf4(case, msg):
    if "cannot reshape tensor of 0 elements" not in msg:
        return False
    if case["mode"] == "paths":
        return case["total"] == 0 and case["out"] in (None, 0)
    tot = case["totals"]
    flat = [tot] if isinstance(tot, int) else list(tot)
    return max(flat) == 0 and case["out"] in (None, 0)


KNOWN_MATCH = {
    "KF-C19-1": lambda case, msg: bool(case.get("log")) and case.get("cv") == "tab" and None in case["f"] and msg.startswith("value averaged"),
    "KF-C19-2": lambda case, msg: bool(case.get("log")) and not case.get("sn") and None in case["f"] and msg.startswith("gradient w.r.t. the density") and "nan" in msg,
    "KF-C19-3": _kf3,
    "KF-C19-4": _kf4,
    "KF-C19-5": lambda case, msg: case.get("dist") == "srswor" and case["total"] == 0 and case["out"] in (None, 0) and "cannot reshape tensor of 0 elements" in msg,
}


def _nt_discrete(case):
    """non-trivial: the draw space has more than one point per sample and the function is not constant"""
    vals = set(case["f"]) if not isinstance(case["f"][0], list) else set(tuple(t) for t in case["f"])
    return len(vals) > 1


def run_bounded(ctx):
    ctx.known_match.update(KNOWN_MATCH)
    torch = _torch()
    torch.set_num_threads(1)
    # import once in the parent so the forked workers inherit the loaded modules
    import pydrobert.torch  # noqa: F401
    import pydrobert.torch.distributions  # noqa: F401
    import pydrobert.torch.estimators  # noqa: F401
    import pydrobert.torch.functional  # noqa: F401
    import pydrobert.torch.modules  # noqa: F401

    only = getattr(ctx, "only", None)

    def want(name):
        return not only or any(name.startswith(p) for p in only)

    q = ctx.quick
    fams = ("1-3 Bernoulli variables (Independent(Bernoulli)), 1-2 one-hot categorical variables with 2-3 categories (OneHotCategorical / Independent), 1-2 integer categorical variables%s; "
            "logits AND probs parameterisation (categorical probs unnormalised); parameters on the grid {-3,-1,0,.5,2} (1 variable) / {-1.5,0,.8}^n%s shifted by .1 per variable, 3 logit vectors per "
            "categorical variable; M in %s Monte Carlo samples, ALL |space|^M draws; functions: the indicator of every point of the space (a basis) + 2 generic tables, plain and log space "
            "(log 0 = -inf included); f also depending on the parameters (+0.3*sum theta)") % (
                "" if q else ", 3 binary one-hot variables, 4 categories", "" if q else " ({-1.5,-.3,.4,1.1}^3 for 3 variables, 5^2 for 2)", "{1,2}" if q else "{1,2,3} (spaces <= 4 points; else {1,2})")
    rnd = "" if q else "; + 20000 seeded random cases (parameters in [-4,4], random tables, up to 5 categories)"
    if want("C19.direct.unbiased_grad"):
        ctx.bounded("C19.direct.unbiased_grad", check_direct, cases_direct(ctx),
                    bound=fams + "; control variate: none / a table different from f with cv_mean = E_theta[c] given as a differentiable function of the parameters / a constant with a constant mean" + rnd,
                    text="DirectEstimator: sum over all draws of P(draw) * returned value == E_P[f] and its autograd gradient w.r.t. the proposal's parameters == the closed-form gradient (tol 1e-9 relative, float64); "
                         "log space: the same for exp(value)",
                    nontrivial=_nt_discrete, chunk=64, functions=["_mc.DirectEstimator.__call__"])
    if want("C19.is.unbiased_grad"):
        ctx.bounded("C19.is.unbiased_grad", check_is, cases_is(ctx),
                    bound=fams + "; proposal Q: flat, skewed, and equal to the density; self-normalised form with density = Q shifted by 1 nat (value only)" + rnd,
                    text="ImportanceSamplingEstimator: sum over all draws from Q of Q(draw) * returned value == E_P[f]; gradient w.r.t. the density's parameters == closed form; gradient w.r.t. the proposal's parameters == 0",
                    nontrivial=_nt_discrete, chunk=64, functions=["_mc.ImportanceSamplingEstimator.__call__"])
    if want("C19.enum.exact"):
        ctx.bounded("C19.enum.exact", check_enum, cases_enum(ctx),
                    bound="Bernoulli / OneHotCategorical / Categorical (2-4 categories) with batch shape 1..3 (independent problems, different tables per element), both parameterisations, grids as above, plain/log, "
                          "f depending on the parameters; SimpleRandomSamplingWithoutReplacement total 1..%d, every given, out_size in {None,total,total+1,total+3}, scalar and batched counts%s" % (
                              5 if q else 8, "" if q else "; + 5000 seeded random cases (up to 5 categories, batch 4)"),
                    text="EnumerateEstimator: the returned value equals sum_b P(b) f(b) per batch element and the gradient of a weighted sum of the elements equals the closed form",
                    chunk=64, functions=["_enumerate_estimator.EnumerateEstimator.__call__", "_combinatorics.SimpleRandomSamplingWithoutReplacement.enumerate_support"])
    if want("C19.relax.value_mean"):
        ctx.bounded("C19.relax.value_mean", check_relax, cases_relax(ctx),
                    bound="LogisticBernoulli: StraightThroughEstimator n in 1..3 variables x M in 1..2, functions of the JOINT sample, piecewise Gauss-Legendre in the noise (2 nodes each side of the jump at u=1-p: exact) and "
                          "the fixed 8-point midpoint grid with p in {1,3,4,6,7}/8 (exact), tol 1e-9; RelaxEstimator (n,M) in {(1,1): 16+16 x 24 nodes, tol 2e-5; (1,2),(2,1): (8+8 x 12)^2 nodes, tol 2e-4%s}, "
                          "control variates: the library's REBAR module (temp .5) and a*sigmoid(z)+b*sigmoid(2z+.3)+c, plain and log space, value AND gradient (elementwise functions) / value (joint functions); "
                          "GumbelOneHotCategorical with 2 categories, M=1, %d parameter vectors x 2 parameterisations: iterated smoothed Gauss-Legendre rule split at the arg-max boundary u_1 = u_0^(p_1/p_0), "
                          "%s nodes, tol 1e-5 (straight-through) / 2e-3 (RELAX value and gradient)" % (
                              "" if q else "; (1,3),(3,1): (4+4 x 6)^3 nodes, tol 1e-2; wider parameters with (12+12 x 16)^2 nodes, tol 2e-4", 5 if q else 7, "12x16x8x8" if q else "16x20x12x12"),
                    text="torch.rand / torch.rand_like forced to quadrature nodes laid out along the batch dimension: the quadrature mean of the returned value equals E_P[f(b)] (and for RELAX its gradient the exact gradient)",
                    chunk=2, functions=["_mc.StraightThroughEstimator.__call__", "_mc.RelaxEstimator.__call__", "_mc.LogisticBernoulliRebarControlVariate.forward", "_mc.GumbelOneHotCategoricalRebarControlVariate.forward",
                                        "_straight_through.LogisticBernoulli.rsample", "_straight_through.LogisticBernoulli.csample", "_straight_through.GumbelOneHotCategorical.rsample",
                                        "_straight_through.GumbelOneHotCategorical.csample"])
    if want("C19.mh.accept_all"):
        ctx.bounded("C19.mh.accept_all", check_mh, cases_mh(ctx),
                    bound="proposal = target over %s; mc_samples N in 1..%d, every burn_in < N, EVERY chain (start + N proposals) over the sample space in one batch; start drawn / supplied with and without the leading "
                          "singleton dimension; target = the proposal object / an equal distribution / the proposal shifted by 0.7 nats (unnormalised); uniform draws all 1-2^-24, all 0, alternating, and %d generator seeds; "
                          "plain and log space" % ("{1,2 Bernoulli, 3-way one-hot, 3-way categorical}" if q else "{1-3 Bernoulli, 3-way and 2x2 one-hot, 3/4-way categorical}", 3 if q else 4, 2 if q else 8),
                    text="IndependentMetropolisHastingsEstimator with a forced proposal sequence: exactly N (+1) proposals are drawn and the result is the plain average of f over proposals burn_in+1..N, i.e. every proposal was accepted "
                         "(also the regression oracle for the initial_sample AttributeError fixed in af41fec)",
                    chunk=32, functions=["_mc.IndependentMetropolisHastingsEstimator.__init__", "_mc.IndependentMetropolisHastingsEstimator.__call__", "_mc.IndependentMetropolisHastingsEstimator.find_initial_sample"])
    K = 64 if q else 512
    if want("C19.lb.threshold_csample"):
        ctx.bounded("C19.lb.threshold_csample", check_lb_threshold, cases_lb_threshold(ctx),
                    bound="float32 and float64; logits in {0,+-1e-3,+-.5..,+-30,+-80,+-200} (20 values), probs in {0,1e-30,1e-12,1e-7,..,1-1e-7,1-1e-12,1} (15 values)%s; noise: %d-point midpoint grid + {0, smallest subnormal, 2^-126, 2^-60, 2^-10..2^-24, "
                          "1-2^-12, 1-2^-20, 1-2^-24 (, 1-2^-40, 1-2^-53)}; both b" % ("" if q else " + 300 random parameter vectors", K),
                    text="LogisticBernoulli: threshold(csample(b)) == b and csample finite, for every parameter x noise value x b",
                    chunk=4, functions=["_straight_through.LogisticBernoulli.csample", "_straight_through.LogisticBernoulli.threshold"])
    if want("C19.gumbel.threshold_csample"):
        ctx.bounded("C19.gumbel.threshold_csample", check_gumbel_threshold, cases_gumbel_threshold(ctx),
                    bound="float32 and float64; V=2 (6 logit vectors), V=3 (4), V=4 (2), logits and probs%s; noise: every vector over (midpoint grid of %s points + the special values above)^V; every one-hot b" % (
                        "" if q else " + 60 random logit vectors per V", "24/6/1" if q else "64/16/4"),
                    text="GumbelOneHotCategorical: threshold(csample(b)) == b and csample finite",
                    chunk=1, functions=["_straight_through.GumbelOneHotCategorical.csample", "_straight_through.GumbelOneHotCategorical.threshold"])
    if want("C19.lb.density_factor"):
        ctx.bounded("C19.lb.density_factor", check_lb_density, cases_lb_density(ctx),
                    bound="float64; logits |x|<=15 (14 values), probs in [1e-7, 1-1e-7] (11 values)%s; z on {0,+-1e-9,+-.2..,+-30} and z = rsample(u), zc = csample(b; v) for u, v on the %d-point midpoint grid + {1e-6, 1-1e-6}" % (
                        "" if q else " + 400 random vectors", 32 if q else 256),
                    text="log_prob(z) == tlog_prob(H(z)) + clog_prob(z, H(z)); clog_prob(z, 1-H(z)) == -inf; log_prob(rsample(u)) == -log|dz/du| and clog_prob(csample(b;v), b) == -log|dzc/dv| (the densities ARE the samplers' densities), tol 1e-7",
                    chunk=4, functions=["_straight_through.LogisticBernoulli.log_prob", "_straight_through.LogisticBernoulli.tlog_prob", "_straight_through.LogisticBernoulli.clog_prob"])
    if want("C19.gumbel.density_factor"):
        ctx.bounded("C19.gumbel.density_factor", check_gumbel_density, cases_gumbel_density(ctx),
                    bound="float64; V=2 (5 logit vectors) and V=3 (3), both parameterisations%s; noise on the (%s-point midpoint grid + {1e-4, 1-1e-4})^V; z also on {-6,-1,-.2,0,.7,2.5,8}^V without ties" % (
                        "" if q else " + 100 random vectors per V", "12/5" if q else "32/10"),
                    text="the same four identities with V x V Jacobian determinants; threshold == one-hot arg-max",
                    chunk=1, functions=["_straight_through.GumbelOneHotCategorical.log_prob", "_straight_through.GumbelOneHotCategorical.tlog_prob", "_straight_through.GumbelOneHotCategorical.clog_prob"])
    if want("C19.dist.support"):
        ctx.bounded("C19.dist.support", check_dist, cases_dist(ctx),
                    bound="SimpleRandomSamplingWithoutReplacement: total 0..%d, every given, out_size in {None,total,total+2}, scalar and batched; LogisticBernoulli (35 parameter values) and GumbelOneHotCategorical "
                          "(V in 2..4, 12 vectors, 2 parameterisations), float32/float64, noise: all combinations of {0, smallest subnormal, 2^-24, .25, .5, largest below 1} and %d generator seeds x 64 samples" % (7 if q else 11, 4 if q else 40),
                    text="enumerate_support: distinct, inside the support, exactly the C(total,given) vectors, exp(log_prob) sums to 1; relaxed samples finite (support = reals), thresholded samples inside the thresholded support, "
                         "thresholded probabilities sum to 1",
                    chunk=16, functions=["_combinatorics.SimpleRandomSamplingWithoutReplacement.enumerate_support", "_combinatorics.SimpleRandomSamplingWithoutReplacement.log_prob", "_combinatorics.BinaryCardinalityConstraint.check",
                                         "_straight_through.LogisticBernoulli.rsample", "_straight_through.GumbelOneHotCategorical.rsample"])
    if want("C19.srswor.cardinality"):
        ctx.bounded("C19.srswor.cardinality", check_srswor, cases_srswor(ctx),
                    bound="forced torch.bernoulli (either value unless p is 0 or 1): EVERY path for total 0..%d, every given, out_size in {None,total,total+2}; real generator: total 0..%d, every given, %d seeds, function and "
                          "distribution.sample with sample shapes (), (3,), (2,2); + %d seeded ragged/broadcast batches (totals <= %d)" % (7 if q else 10, 8 if q else 13, 8 if q else 40, 1500 if q else 20000, 12 if q else 30),
                    text="every reachable sample has exactly `given` ones, all inside the first `total` positions, shape (*, out_size); the reachable set is all C(total,given) vectors; each path's probability equals exp(log_prob)",
                    nontrivial=lambda c: (c["mode"] == "paths" and 0 < c["given"] < c["total"]) or c["mode"] == "seed", chunk=32,
                    functions=["_combinatorics.simple_random_sampling_without_replacement", "_combinatorics.SimpleRandomSamplingWithoutReplacement.sample", "_combinatorics.SimpleRandomSamplingWithoutReplacement.log_prob"])
    if want("C19.comb.enumerate"):
        ctx.bounded("C19.comb.enumerate", check_comb, cases_comb(ctx),
                    bound="binomial_coefficient: every length 0..%d with every count 0..length+2 (both branches: max length <= 20 and > 20), broadcast shapes; enumerate_vocab_sequences V in 1..4, lengths 0..6/%d/%d/%d; "
                          "enumerate_binary_sequences; enumerate_binary_sequences_with_cardinality int form length 0..%d x count 0..length+1, tensor form every (length<=%d, count) + %d random ragged batches" % (
                              30 if q else 66, 8 if q else 12, 5 if q else 7, 4 if q else 5, 9 if q else 13, 6 if q else 9, 300 if q else 3000),
                    text="binomial_coefficient == math.comb (0 when count > length); the enumerations return every sequence of the support exactly once, in the documented prefix order; tensor form: binom and the valid block per element",
                    chunk=8, functions=["_combinatorics.binomial_coefficient", "_combinatorics.enumerate_vocab_sequences", "_combinatorics.enumerate_binary_sequences", "_combinatorics.enumerate_binary_sequences_with_cardinality"])
    ctx.replay_known_witnesses()
    ctx.not_applicable.append(
        "C19: sample spaces beyond 9 points / 3 Monte Carlo samples and parameters off the stated grids (+ seeded random cases in the thorough tier) are not enumerated; quadrature means of the relaxation-based "
        "estimators for GumbelOneHotCategorical with more than 2 categories or M > 1 (no product rule is exact across the arg-max regions; the pointwise identities of C19.gumbel.* cover V <= 4); "
        "the variance-minimising branch of RelaxEstimator (proposal_params/cv_params: it only attaches gradients to control-variate parameters, which the property does not speak about); "
        "ReparameterizationEstimator (continuous proposals, not in the property); SequentialLanguageModelDistribution (its support/normalisation clauses live in C07); CUDA devices; "
        "the shape of the returned estimate (the log-space DirectEstimator returns (1,)+batch_shape, its documentation says batch_shape: reported, not part of the property)")
    ctx.assume("the control variate's mean cv_mean is E_theta[c(b)] supplied as a differentiable function of the proposal's parameters (or c is constant): with a detached mean of a b-dependent control variate the gradient "
               "lacks the term grad E[c] and no unbiasedness is promised",
               "log space: the unbiased quantity is exp(returned value) (documented: the log of the estimate is biased); control variates in log space are chosen with f - c + mu > 0",
               "importance sampling: the proposal gives positive probability to every point of the space (dominates the density)",
               "float64 parameters, closed forms in Python floats, tolerance 1e-9*(1+|x|); quadrature tolerances as stated per rule (measured error of the rule on the unchanged tree: >= 5x smaller for LogisticBernoulli, >= 2x smaller for the Gumbel rule)",
               "torch.rand/torch.rand_like return values in [0, 1-2^-24] (float32) / [0, 1-2^-53] (float64); torch.bernoulli(p) returns 0 or 1, 1 if p = 1, 0 if p = 0",
               "parameters strictly inside their domain for the estimator clauses (probabilities 0/1 only in the support and threshold clauses)", "CPU tensors only")
