"""C19 (bounded, engine B) - estimators are unbiased where promised; relaxed distributions are consistent.

Run-time contracts on the real classes / functions
    pydrobert.torch.estimators.{DirectEstimator, ImportanceSamplingEstimator, EnumerateEstimator,
        StraightThroughEstimator, RelaxEstimator, IndependentMetropolisHastingsEstimator}.__call__
    pydrobert.torch.distributions.{LogisticBernoulli, GumbelOneHotCategorical,
        SimpleRandomSamplingWithoutReplacement}
    pydrobert.torch.functional.{simple_random_sampling_without_replacement, binomial_coefficient,
        enumerate_vocab_sequences, enumerate_binary_sequences, enumerate_binary_sequences_with_cardinality}
against oracles written from the property text: exact expectations and exact gradients are computed in closed
form with Python floats (never with the library, never with autograd).

How "the average over the whole sample space" is taken.  The proposal's `sample` is replaced by a forced-choice
sampler (an instance attribute; `log_prob` and everything else stay real).  All |space|^M possible draws of the M
Monte Carlo samples are laid out along one extra batch dimension of the proposal, so ONE call of the real estimator
returns the estimate for every possible draw; the oracle weights draw d by prod_m P(b_d^m) (closed form, constant)
and compares  sum_d w_d v_d  and its autograd gradient w.r.t. the distribution's parameters with the exact
expectation and its exact gradient.  For relaxed quantities `torch.rand` / `torch.rand_like` are replaced by stubs
that return the nodes of a quadrature rule on [0,1]^k (again along a batch dimension) and the estimate is integrated
with the rule's weights.

Clauses
    C19.direct.unbiased_grad  DirectEstimator: value and gradient, with/without control variate, M in 1..2(3), plain/log space
    C19.is.unbiased_grad      ImportanceSamplingEstimator: value, gradient w.r.t. the density's parameters, zero gradient
                              w.r.t. the proposal's; self-normalised form where it is exact (density proportional to proposal)
    C19.enum.exact            EnumerateEstimator: the returned value IS the expectation, its gradient the exact gradient
    C19.relax.value_mean      StraightThroughEstimator / RelaxEstimator on LogisticBernoulli and GumbelOneHotCategorical:
                              quadrature mean of the value (and, for RELAX on LogisticBernoulli, of the gradient)
    C19.mh.accept_all         IMH with proposal == target: every proposal accepted, plain post-burn-in average, drawn or supplied start
    C19.lb.threshold_csample  LogisticBernoulli: threshold(csample(b)) == b
    C19.lb.density_factor     LogisticBernoulli: log_prob(z) == tlog_prob(H(z)) + clog_prob(z, H(z)); clog_prob(z, b != H(z)) == -inf;
                              clog_prob is the density of csample, log_prob the density of rsample (change of variables)
    C19.gumbel.threshold_csample, C19.gumbel.density_factor   the same for GumbelOneHotCategorical
    C19.dist.support          samples lie in the support; probabilities over the (thresholded / enumerated) support sum to one
    C19.srswor.cardinality    fixed-cardinality sampling: exactly `given` ones, all inside the first `total` positions; every
                              path of the sequential draws enumerated (forced torch.bernoulli) plus generator seeds
    C19.comb.enumerate        binomial_coefficient == math.comb; enumerate_* return exactly the support, once each
"""
import contextlib
import itertools
import math
import random

F64_TOL = 1e-9  # float64 closed form vs library: |a-b| <= F64_TOL * (1 + |b|)
U32_MAX = 1.0 - 2.0 ** -24  # largest float32 below 1: the top of torch.rand's float32 range
U64_MAX = 1.0 - 2.0 ** -53


def _torch():
    import warnings

    import torch

    warnings.simplefilter("ignore")
    return torch


def _close(a, b, tol=F64_TOL):
    if a != a or b != b:
        return False
    if math.isinf(a) or math.isinf(b):
        return a == b
    return abs(a - b) <= tol * (1.0 + abs(b))


def _fmt(x):
    if isinstance(x, (list, tuple)):
        return "[" + ", ".join(_fmt(y) for y in x) + "]"
    return "%.12g" % x


# ---------------------------------------------------------------------------------------------
# closed forms for products of small discrete variables (pure Python)
#
# A family is a product of `len(sizes)` independent variables; variable i takes values 0..sizes[i]-1 and owns
# a parameter vector theta[i] (length 1 for a Bernoulli variable, V for a V-way categorical one).


def _sigmoid(x):
    if x >= 0:
        return 1.0 / (1.0 + math.exp(-x))
    e = math.exp(x)
    return e / (1.0 + e)


def _marginals(fam, par, theta):
    """-> sizes, probs[i][c], dprobs[i][j][c] = d P_i(c) / d theta[i][j]  (from the definitions of the two parameterisations)"""
    sizes, probs, dprobs = [], [], []
    for th in theta:
        if fam == "bern":
            (x,) = th
            if par == "logits":
                p = _sigmoid(x)
                d = p * (1.0 - p)
            else:
                p, d = x, 1.0
            sizes.append(2)
            probs.append([1.0 - p, p])
            dprobs.append([[-d, d]])
        else:
            V = len(th)
            if par == "logits":
                m = max(th)
                e = [math.exp(x - m) for x in th]
                s = sum(e)
                p = [x / s for x in e]
                dp = [[p[c] * ((1.0 if c == j else 0.0) - p[j]) for c in range(V)] for j in range(V)]
            else:  # probs are normalised by their sum
                s = sum(th)
                p = [x / s for x in th]
                dp = [[((1.0 if c == j else 0.0) - p[c]) / s for c in range(V)] for j in range(V)]
            sizes.append(V)
            probs.append(p)
            dprobs.append(dp)
    return sizes, probs, dprobs


def _space(sizes):
    """all joint outcomes; outcome b has index sum_i b[i]*stride[i], stride[0] = 1"""
    return [tuple(reversed(t)) for t in itertools.product(*[range(s) for s in reversed(sizes)])]


def _index(b, sizes):
    idx, st = 0, 1
    for c, s in zip(b, sizes):
        idx += c * st
        st *= s
    return idx


def _joint(b, probs):
    p = 1.0
    for i, c in enumerate(b):
        p *= probs[i][c]
    return p


def _expect(table, sizes, probs):
    return math.fsum(_joint(b, probs) * table[_index(b, sizes)] for b in _space(sizes) if table[_index(b, sizes)] != 0.0)


def _expect_grad(table, sizes, probs, dprobs):
    """d/d theta[i][j] of sum_b P(b) table[b], table constant"""
    out = []
    for i in range(len(sizes)):
        row = []
        for j in range(len(dprobs[i])):
            terms = []
            for b in _space(sizes):
                t = table[_index(b, sizes)]
                if t == 0.0:
                    continue
                w = dprobs[i][j][b[i]]
                for l, c in enumerate(b):
                    if l != i:
                        w *= probs[l][c]
                terms.append(w * t)
            row.append(math.fsum(terms))
        out.append(row)
    return out


def _tab(values, log):
    """JSON table -> floats. In log space the entries are log f and None stands for log 0; the plain-space table is returned too."""
    if not log:
        return [float(v) for v in values], [float(v) for v in values]
    lg = [(-math.inf if v is None else float(v)) for v in values]
    return lg, [(0.0 if v is None else math.exp(float(v))) for v in values]


# ---------------------------------------------------------------------------------------------
# torch side of the families


def _leaf(fam, theta):
    torch = _torch()
    if fam == "bern":
        t = torch.tensor([th[0] for th in theta], dtype=torch.float64)
    else:
        t = torch.tensor(theta, dtype=torch.float64)  # (k, V)
        if t.size(0) == 1:
            t = t[0]
    return t.requires_grad_(True)


def _build(fam, par, leaf, D):
    """the torch distribution with the draws' batch dimension D in front; event = all variables jointly"""
    torch = _torch()
    td = torch.distributions
    kw = {par: leaf.expand((D,) + tuple(leaf.shape))}
    if fam == "bern":
        return td.Independent(td.Bernoulli(**kw), 1)
    base = (td.OneHotCategorical if fam == "onehot" else td.Categorical)(**kw)
    return base if leaf.dim() == 1 else td.Independent(base, 1)


def _encode(fam, sizes, outcomes):
    """list (len D) of joint outcomes -> sample tensor (D, *event)"""
    torch = _torch()
    if fam == "bern":
        return torch.tensor([[float(c) for c in b] for b in outcomes], dtype=torch.float64)
    if fam == "cat":
        t = torch.tensor([list(b) for b in outcomes], dtype=torch.long)
        return t[:, 0] if len(sizes) == 1 else t
    V = sizes[0]
    t = torch.tensor([[[1.0 if c == v else 0.0 for v in range(V)] for c in b] for b in outcomes], dtype=torch.float64)
    return t[:, 0] if len(sizes) == 1 else t


def _indexer(fam, sizes):
    """sample tensor (..., *event) -> long joint index (...)"""
    torch = _torch()
    k = len(sizes)
    strides, st = [], 1
    for s in sizes:
        strides.append(st)
        st *= s
    strides = torch.tensor(strides, dtype=torch.float64)

    def idx(b):
        b = b.detach().to(torch.float64)
        if fam == "onehot":
            b = (b * torch.arange(sizes[0], dtype=torch.float64)).sum(-1)
        if fam == "bern" or k > 1:
            b = (b * strides).sum(-1)
        return b.round().long()

    return idx


def _draw_layout(sizes, probs, M):
    """all |space|^M draws: per-m list of outcomes (len D each) and the constant weights prod_m P(b^m)"""
    space = _space(sizes)
    draws = list(itertools.product(range(len(space)), repeat=M))
    per_m = [[space[d[m]] for d in draws] for m in range(M)]
    w = [math.prod(_joint(space[i], probs) for i in d) for d in draws]
    return per_m, w


def _force_sampler(dist, fam, sizes, per_m):
    """replace dist.sample (instance attribute) by a sampler that returns the enumerated draws, whatever is asked for"""
    torch = _torch()
    forced = torch.stack([_encode(fam, sizes, o) for o in per_m])  # (M, D, *event)

    def sample(sample_shape=torch.Size()):
        shape = tuple(sample_shape)
        if shape != (forced.size(0),):
            raise AssertionError("estimator asked for sample_shape %s, driver enumerates %d Monte Carlo samples" % (shape, forced.size(0)))
        return forced.clone()

    dist.sample = sample
    return forced


def _per_draw(v, D):
    """one estimate per enumerated draw. (The property speaks of the value, not of its shape: the log-space DirectEstimator returns
    (1,) + batch_shape where its documentation says batch_shape; singleton dimensions are therefore dropped here, see the driver's report.)"""
    if v.numel() != D:
        return "estimate has shape %s, expected one value per element of the proposal's batch shape (%d,)" % (tuple(v.shape), D)
    return v.reshape(D)


def _grads(total, leaves):
    torch = _torch()
    gs = torch.autograd.grad(total, leaves, allow_unused=True)
    return [None if g is None else g.detach() for g in gs]


def _cmp_grad(got, want, sizes, what, tol=F64_TOL):
    """got: tensor shaped like the leaf (or None = zero); want: [i][j]"""
    flat_w = [x for row in want for x in row]
    flat_g = [0.0] * len(flat_w) if got is None else [float(x) for x in got.reshape(-1).tolist()]
    if len(flat_g) != len(flat_w):
        return "%s: gradient has %d entries, expected %d" % (what, len(flat_g), len(flat_w))
    for a, b in zip(flat_g, flat_w):
        if not _close(a, b, tol):
            return "%s: averaged gradient %s, exact gradient %s" % (what, _fmt(flat_g), _fmt(flat_w))
    return None


# ---------------------------------------------------------------------------------------------
# C19.direct.unbiased_grad


def check_direct(case):
    """case: {fam: bern|onehot|cat, par: logits|probs, theta: [[..]..] one vector per variable, M, f: table over the joint space,
    log: bool (f and cv are log-values; None = log 0), cv: none|tab|const, c: table (cv=tab) or [value] (cv=const), kappa: f depends on
    the parameters through + kappa*sum(theta) (0 = not)}"""
    torch = _torch()
    import pydrobert.torch.estimators as E

    fam, par, theta, M, log, kappa = case["fam"], case["par"], case["theta"], case["M"], case["log"], case.get("kappa", 0.0)
    sizes, probs, dprobs = _marginals(fam, par, theta)
    f_raw, f_lin = _tab(case["f"], log)
    per_m, w = _draw_layout(sizes, probs, M)
    D = len(w)
    leaf = _leaf(fam, theta)
    dist = _build(fam, par, leaf, D)
    _force_sampler(dist, fam, sizes, per_m)
    idx = _indexer(fam, sizes)
    ftab = torch.tensor(f_raw, dtype=torch.float64)

    def func(b):
        v = ftab[idx(b)]
        return v + kappa * leaf.sum() if kappa else v

    cv = cv_mean = None
    if case["cv"] == "tab":
        c_raw, c_lin = _tab(case["c"], log)
        ctab = torch.tensor(c_raw, dtype=torch.float64)

        def cv(b):
            v = ctab[idx(b)]
            return v + kappa * leaf.sum() if kappa else v

        # the control variate's mean as a function of the parameters: mu(theta) = sum_b P_theta(b) c(b)
        space = _space(sizes)
        lp = dist.log_prob(_encode(fam, sizes, space).unsqueeze(1).expand((len(space), D) + tuple(_encode(fam, sizes, space).shape[1:])))
        cl = torch.tensor([c_lin[_index(b, sizes)] for b in space], dtype=torch.float64).unsqueeze(1)
        mu = (lp.exp() * cl).sum(0)
        if log:
            cv_mean = mu.log() + (kappa * leaf.sum() if kappa else 0.0)
        else:
            cv_mean = mu + (kappa * leaf.sum() if kappa else 0.0)
    elif case["cv"] == "const":
        cval = float(case["c"][0])

        def cv(b):
            return torch.full(b.shape[:2], cval, dtype=torch.float64)

        cv_mean = torch.full((D,), cval, dtype=torch.float64)
    est = E.DirectEstimator(dist, func, M, cv, cv_mean, log)
    v = est()
    v = _per_draw(v, D)
    if isinstance(v, str):
        return v
    wt = torch.tensor(w, dtype=torch.float64)
    total = (wt * (v.exp() if log else v)).sum()
    scale = math.exp(kappa * sum(sum(t) for t in theta)) if (kappa and log) else 1.0
    shift = 0.0 if (log or not kappa) else kappa * sum(sum(t) for t in theta)
    exact = scale * _expect(f_lin, sizes, probs) + shift
    if not _close(float(total), exact):
        return "value averaged over all %d draws is %s, exact expectation %s" % (D, _fmt(float(total)), _fmt(exact))
    g = _expect_grad(f_lin, sizes, probs, dprobs)
    if kappa:
        g = [[(scale * x + kappa * exact) if log else (x + kappa) for x in row] for row in g]
    (got,) = _grads(total, [leaf])
    return _cmp_grad(got, g, sizes, "gradient w.r.t. the proposal's %s" % par)


# ---------------------------------------------------------------------------------------------
# case generation helpers

G1 = [-3.0, -1.0, 0.0, 0.5, 2.0]
G3 = [-1.5, 0.0, 0.8]
CATV = {2: [[0.0, 0.0], [1.2, -0.4], [-2.0, 0.5]], 3: [[0.0, 0.0, 0.0], [1.0, -1.0, 0.3], [-0.7, 2.0, 0.1]]}


def _to_par(fam, par, th):
    """grid values are logits; convert when the case uses the probs parameterisation"""
    if par == "logits":
        return [list(t) for t in th]
    if fam == "bern":
        return [[_sigmoid(t[0])] for t in th]
    out = []
    for t in th:
        e = [math.exp(x) for x in t]  # deliberately NOT normalised: the library divides probs by their sum
        out.append(e)
    return out


def _thetas(fam, nvar, V, quick, rng=None):
    if fam == "bern":
        g = G1 if nvar == 1 else (G3 if quick or nvar == 3 else G1)
        if nvar == 3 and not quick:
            g = [-1.5, -0.3, 0.4, 1.1]
        for combo in itertools.product(g, repeat=nvar):
            # give the variables different values: shift the i-th by 0.1*i
            yield [[x + 0.1 * i] for i, x in enumerate(combo)]
    else:
        for combo in itertools.product(CATV[V], repeat=nvar):
            yield [[x + 0.05 * i for x in v] for i, v in enumerate(combo)]


def _gen_table(S, k, log):
    """the k-th generic table on a space of S points: fixed irrational-looking values (deterministic)"""
    vals = [math.sin(1.0 + 2.3 * k + 1.7 * j) * 1.5 + 0.4 * math.cos(0.3 + 5.1 * j * (k + 1)) for j in range(S)]
    return vals


def _tables(S, log, n_generic=2):
    """indicator of each point (a basis of all functions on the space) + generic tables"""
    for j in range(S):
        if log:
            yield [(0.0 if i == j else None) for i in range(S)]
        else:
            yield [(1.0 if i == j else 0.0) for i in range(S)]
    for k in range(n_generic):
        yield _gen_table(S, k, log)


def _families(quick):
    """(fam, nvar, V)"""
    out = [("bern", 1, 2), ("bern", 2, 2), ("bern", 3, 2), ("onehot", 1, 2), ("onehot", 1, 3), ("onehot", 2, 2), ("onehot", 2, 3), ("cat", 1, 2), ("cat", 1, 3), ("cat", 2, 2)]
    if not quick:
        out += [("cat", 2, 3), ("onehot", 3, 2), ("onehot", 1, 4)]
        CATV.setdefault(4, [[0.0, 0.0, 0.0, 0.0], [0.5, -1.0, 0.3, 1.1]])
    return out


def _cv_for(f, S, log, k):
    """a control-variate table that differs from f. In log space f - c + mu must stay positive: c = r*f with r in (0.2, 0.9)"""
    if log:
        return [(None if f[j] is None else f[j] + math.log(0.2 + 0.7 * abs(math.sin(0.9 + 1.3 * j + k)))) for j in range(S)]
    return [math.cos(0.7 + 2.9 * j + k) * 2.0 - 0.3 * j for j in range(S)]


def cases_direct(ctx):
    quick = ctx.quick
    for fam, nvar, V in _families(quick):
        S = V ** nvar
        Ms = [1, 2] if (quick or S > 4) else [1, 2, 3]
        for theta0 in _thetas(fam, nvar, V, quick):
            for par in ("logits", "probs"):
                theta = _to_par(fam, par, theta0)
                for log in (False, True):
                    for ti, f in enumerate(_tables(S, log)):
                        for M in Ms:
                            for kappa in (0.0, 0.3):
                                base = {"fam": fam, "par": par, "theta": theta, "M": M, "f": f, "log": log, "kappa": kappa}
                                yield dict(base, cv="none")
                                yield dict(base, cv="tab", c=_cv_for(f, S, log, ti))
                                if kappa == 0.0:
                                    yield dict(base, cv="const", c=[-0.4 if log else 1.7])
    if not quick:
        rng = random.Random(ctx.seed * 7919 + 19)
        for _ in range(20000):
            yield _random_discrete_case(rng, "direct")


def _random_discrete_case(rng, kind):
    fam, nvar, V = rng.choice([("bern", 1, 2), ("bern", 2, 2), ("bern", 3, 2), ("onehot", 1, 3), ("onehot", 2, 3), ("onehot", 1, 4), ("cat", 1, 3), ("cat", 2, 2), ("cat", 1, 5)])
    S = V ** nvar
    par = rng.choice(["logits", "probs"])
    th0 = [[rng.uniform(-4, 4)] if fam == "bern" else [rng.uniform(-3, 3) for _ in range(V)] for _ in range(nvar)]
    theta = _to_par(fam, par, th0)
    log = rng.random() < 0.4
    M = rng.choice([1, 2] if S > 4 else [1, 2, 3])
    f = [rng.uniform(-2, 2) for _ in range(S)]
    if log and rng.random() < 0.3:
        f[rng.randrange(S)] = None
    case = {"fam": fam, "par": par, "theta": theta, "M": M, "f": f, "log": log, "kappa": rng.choice([0.0, 0.0, rng.uniform(-0.5, 0.5)])}
    if kind == "direct":
        case["cv"] = rng.choice(["none", "tab", "const"])
        if case["cv"] == "tab":
            case["c"] = _cv_for(f, S, log, rng.randrange(100))
        elif case["cv"] == "const":
            case["c"] = [rng.uniform(-1, 1)]
            case["kappa"] = 0.0
    else:
        q0 = [[rng.uniform(-2, 2)] if fam == "bern" else [rng.uniform(-2, 2) for _ in range(V)] for _ in range(nvar)]
        case["phi"] = _to_par(fam, par, q0)
        case["sn"] = False
    return case




# ---------------------------------------------------------------------------------------------
# C19.is.unbiased_grad


class _Shifted:
    """an unnormalised density proportional to a distribution: log_prob(x) = dist.log_prob(x) - shift"""

    def __init__(self, dist, shift):
        self.dist, self.shift = dist, shift

    def log_prob(self, value):
        return self.dist.log_prob(value) - self.shift


def check_is(case):
    """case: as check_direct without cv, plus phi: the proposal's parameters (theta are the density's), sn: self-normalised
    (then the density is the proposal shifted by `shift` nats, the one situation in which the self-normalised form is exact)"""
    torch = _torch()
    import pydrobert.torch.estimators as E

    fam, par, theta, phi, M, log, kappa = case["fam"], case["par"], case["theta"], case["phi"], case["M"], case["log"], case.get("kappa", 0.0)
    sn = bool(case.get("sn"))
    sizes, pq, _ = _marginals(fam, par, phi)
    _, pp, dpp = _marginals(fam, par, theta)
    f_raw, f_lin = _tab(case["f"], log)
    per_m, w = _draw_layout(sizes, pq, M)  # draws come from the proposal Q
    D = len(w)
    leaf_q, leaf_p = _leaf(fam, phi), _leaf(fam, theta)
    prop = _build(fam, par, leaf_q, D)
    _force_sampler(prop, fam, sizes, per_m)
    dens = _Shifted(prop, float(case.get("shift", 1.0))) if sn else _build(fam, par, leaf_p, D)
    idx = _indexer(fam, sizes)
    ftab = torch.tensor(f_raw, dtype=torch.float64)
    kleaf = leaf_q if sn else leaf_p

    def func(b):
        v = ftab[idx(b)]
        return v + kappa * kleaf.sum() if kappa else v

    est = E.ImportanceSamplingEstimator(prop, func, M, dens, sn, log)
    v = _per_draw(est(), D)
    if isinstance(v, str):
        return v
    total = (torch.tensor(w, dtype=torch.float64) * (v.exp() if log else v)).sum()
    ktheta = phi if sn else theta
    scale = math.exp(kappa * sum(sum(t) for t in ktheta)) if (kappa and log) else 1.0
    shift = 0.0 if (log or not kappa) else kappa * sum(sum(t) for t in ktheta)
    exact = scale * _expect(f_lin, sizes, pq if sn else pp) + shift
    if not _close(float(total), exact):
        return "value averaged over all %d proposal draws is %s, exact expectation under the density %s" % (D, _fmt(float(total)), _fmt(exact))
    if sn:
        return None
    g = _expect_grad(f_lin, sizes, pp, dpp)
    if kappa:
        g = [[(scale * x + kappa * exact) if log else (x + kappa) for x in row] for row in g]
    gp, gq = _grads(total, [leaf_p, leaf_q])
    msg = _cmp_grad(gp, g, sizes, "gradient w.r.t. the density's %s" % par)
    if msg:
        return msg
    return _cmp_grad(gq, [[0.0] * len(r) for r in g], sizes, "gradient w.r.t. the proposal's %s (must be blocked)" % par)


def _phis(fam, nvar, V, quick):
    """proposal parameters (logit scale): a flat one and a skewed one (every outcome keeps positive mass: Q dominates P)"""
    if fam == "bern":
        out = [[[0.0]] * nvar, [[0.9 - 0.7 * i] for i in range(nvar)]]
    else:
        out = [[[0.0] * V] * nvar, [[0.6 * ((j + i) % V) - 0.5 for j in range(V)] for i in range(nvar)]]
    return out if not quick or nvar < 3 else out[1:]


def cases_is(ctx):
    quick = ctx.quick
    for fam, nvar, V in _families(quick):
        S = V ** nvar
        Ms = [1, 2] if (quick or S > 4) else [1, 2, 3]
        for theta0 in _thetas(fam, nvar, V, quick):
            for phi0 in _phis(fam, nvar, V, quick) + [theta0]:
                for par in ("logits", "probs"):
                    theta, phi = _to_par(fam, par, theta0), _to_par(fam, par, phi0)
                    for log in (False, True):
                        for f in _tables(S, log):
                            for M in Ms:
                                for kappa in (0.0, 0.3):
                                    yield {"fam": fam, "par": par, "theta": theta, "phi": phi, "M": M, "f": f, "log": log, "kappa": kappa, "sn": False}
        # self-normalised, density = proposal shifted (unnormalised multiple of the proposal)
        for phi0 in _phis(fam, nvar, V, False):
            for par in ("logits", "probs"):
                phi = _to_par(fam, par, phi0)
                for log in (False, True):
                    for f in _tables(S, log, 1):
                        for M in Ms:
                            yield {"fam": fam, "par": par, "theta": phi, "phi": phi, "M": M, "f": f, "log": log, "kappa": 0.0, "sn": True, "shift": 1.0}
    if not quick:
        rng = random.Random(ctx.seed * 7919 + 23)
        for _ in range(20000):
            yield _random_discrete_case(rng, "is")


# ---------------------------------------------------------------------------------------------
# C19.enum.exact


def _comb_vectors(total, given, out):
    return [tuple(1 if t in pos else 0 for t in range(out)) for pos in itertools.combinations(range(total), given)]


def check_enum(case):
    """case: {fam: bern|onehot|cat, par, theta: one parameter vector per BATCH element (independent problems), f: one table per batch
    element, log, kappa}  or  {fam: srswor, given, total, out (None = total), batch: 0 (scalar counts) | n (counts repeated n times), log}"""
    torch = _torch()
    import pydrobert.torch.distributions as PD
    import pydrobert.torch.estimators as E

    fam, log = case["fam"], case["log"]
    if fam == "srswor":
        given, total, out, nb = case["given"], case["total"], case["out"], case.get("batch", 0)
        g = torch.tensor(given) if not nb else torch.full((nb,), given)
        t = torch.tensor(total) if not nb else torch.full((nb,), total)
        dist = PD.SimpleRandomSamplingWithoutReplacement(g, t, out)
        T = total if out is None else out
        pw = torch.tensor([2.0 ** i for i in range(T)], dtype=torch.float64)

        def val(code):
            x = math.sin(1.0 + 1.3 * code) * 1.2
            return x

        def func(b):
            code = (b.to(torch.float64) * pw).sum(-1)
            return torch.sin(1.0 + 1.3 * code) * 1.2

        v = E.EnumerateEstimator(dist, func, log)()
        vecs = _comb_vectors(total, given, T)
        vals = [val(sum(c * 2 ** i for i, c in enumerate(b))) for b in vecs]
        exact = math.fsum(math.exp(x) if log else x for x in vals) / len(vecs)
        want_shape = () if not nb else (nb,)
        if tuple(v.shape) != want_shape:
            return "estimate has shape %s, expected the batch shape %s" % (tuple(v.shape), want_shape)
        for x in v.reshape(-1).tolist():
            x = math.exp(x) if log else x
            if not _close(x, exact, 1e-5):  # float32 log-partition
                return "returned %s, exact expectation over the %d vectors with %d ones among the first %d positions is %s" % (_fmt(x), len(vecs), given, total, _fmt(exact))
        return None
    par, theta, kappa = case["par"], case["theta"], case.get("kappa", 0.0)
    nb = len(theta)
    leaf = _leaf(fam, theta)  # bern: (nb,), others (nb, V) or (V,) when nb == 1
    if fam != "bern" and nb == 1:
        leaf = leaf.detach().unsqueeze(0).requires_grad_(True)
    td = torch.distributions
    dist = {"bern": td.Bernoulli, "onehot": td.OneHotCategorical, "cat": td.Categorical}[fam](**{par: leaf})
    raws, lins = zip(*[_tab(f, log) for f in case["f"]])
    V = len(raws[0])
    ftab = torch.tensor([[(-math.inf if x is None else x) for x in r] for r in raws], dtype=torch.float64)  # (nb, V)
    ar = torch.arange(nb)

    def func(b):
        c = b.detach()
        if fam == "onehot":
            c = (c * torch.arange(V, dtype=c.dtype)).sum(-1)
        c = c.round().long()  # (S, nb)
        v = ftab[ar.expand_as(c), c]
        return v + kappa * leaf.sum() if kappa else v

    v = E.EnumerateEstimator(dist, func, log)()
    if tuple(v.shape) != (nb,):
        return "estimate has shape %s, expected the batch shape (%d,)" % (tuple(v.shape), nb)
    ksum = sum(sum(t) for t in theta)
    scale = math.exp(kappa * ksum) if (kappa and log) else 1.0
    shift = 0.0 if (log or not kappa) else kappa * ksum
    a = [1.0 + 0.37 * i for i in range(nb)]
    exacts, grads = [], []
    for i in range(nb):
        sizes, probs, dprobs = _marginals(fam, par, [theta[i]])
        exacts.append(scale * _expect(lins[i], sizes, probs) + shift)
        grads.append([scale * x for x in _expect_grad(lins[i], sizes, probs, dprobs)[0]])
    vv = v.exp() if log else v
    for i in range(nb):
        if not _close(float(vv[i]), exacts[i]):
            return "batch element %d: returned %s, exact expectation %s" % (i, _fmt(float(vv[i])), _fmt(exacts[i]))
    total = (torch.tensor(a, dtype=torch.float64) * vv).sum()
    want = []
    for i in range(nb):
        extra = 0.0
        if kappa:
            extra = kappa * (math.fsum(a[l] * exacts[l] for l in range(nb)) if log else math.fsum(a))
        want.append([a[i] * x + extra for x in grads[i]])
    (got,) = _grads(total, [leaf])
    return _cmp_grad(got, want, None, "gradient of sum_i a_i v_i w.r.t. the %s" % par)


def cases_enum(ctx):
    quick = ctx.quick
    for fam, V in (("bern", 2), ("onehot", 2), ("onehot", 3), ("cat", 2), ("cat", 3), ("cat", 4), ("onehot", 4)):
        CATV.setdefault(4, [[0.0, 0.0, 0.0, 0.0], [0.5, -1.0, 0.3, 1.1]])
        for nb in (1, 2, 3):
            if fam == "bern":
                grid = G1 if nb < 3 or not quick else G3
                thetas = [[[x + 0.1 * i] for i, x in enumerate(c)] for c in itertools.product(grid, repeat=nb)]
            else:
                thetas = [[[x + 0.05 * i for x in v] for i, v in enumerate(c)] for c in itertools.product(CATV[V], repeat=nb)]
            for theta0 in thetas:
                for par in ("logits", "probs"):
                    theta = _to_par(fam, par, theta0)
                    for log in (False, True):
                        tabs = list(_tables(V, log))
                        for k in range(len(tabs)):
                            f = [tabs[(k + i) % len(tabs)] for i in range(nb)]
                            for kappa in (0.0, 0.3):
                                yield {"fam": fam, "par": par, "theta": theta, "f": f, "log": log, "kappa": kappa}
    tmax = 5 if quick else 8
    for total in range(0, tmax + 1):
        for given in range(0, total + 1):
            for out in (None, total, total + 1, total + 3):
                for nb in (0, 2):
                    for log in (False, True):
                        yield {"fam": "srswor", "given": given, "total": total, "out": out, "batch": nb, "log": log}
    if not quick:
        rng = random.Random(ctx.seed * 7919 + 29)
        for _ in range(5000):
            fam = rng.choice(["bern", "onehot", "cat"])
            V = 2 if fam == "bern" else rng.choice([2, 3, 4, 5])
            nb = rng.choice([1, 2, 3, 4])
            par = rng.choice(["logits", "probs"])
            th0 = [[rng.uniform(-4, 4)] if fam == "bern" else [rng.uniform(-3, 3) for _ in range(V)] for _ in range(nb)]
            log = rng.random() < 0.4
            yield {"fam": fam, "par": par, "theta": _to_par(fam, par, th0), "f": [[rng.uniform(-2, 2) for _ in range(V)] for _ in range(nb)], "log": log,
                   "kappa": rng.choice([0.0, rng.uniform(-0.5, 0.5)])}


# ---------------------------------------------------------------------------------------------
# forced noise for the relaxed distributions and quadrature rules on [0, 1]


@contextlib.contextmanager
def _noise(rands=(), rand_likes=(), bernoulli=None):
    """torch.rand / torch.rand_like return the given tensors in order (shape-checked); torch.bernoulli optionally replaced.
    Restored on exit. Workers are single-threaded processes, so the patch is not visible to any other case."""
    torch = _torch()
    saved = (torch.rand, torch.rand_like, torch.bernoulli)
    it_r, it_l = iter(rands), iter(rand_likes)
    used = {"rand": 0, "rand_like": 0}

    def _size(size):
        if len(size) == 1 and isinstance(size[0], (tuple, list, torch.Size)):
            return tuple(size[0])
        return tuple(size)

    def rand(*size, **kw):
        try:
            t = next(it_r)
        except StopIteration:
            raise AssertionError("driver: more torch.rand calls than forced tensors")
        if tuple(t.shape) != _size(size):
            raise AssertionError("driver: torch.rand asked for shape %s, forced tensor has %s" % (_size(size), tuple(t.shape)))
        used["rand"] += 1
        dt = kw.get("dtype")
        return t.clone().to(dt) if dt is not None else t.clone()

    def rand_like(x, **kw):
        try:
            t = next(it_l)
        except StopIteration:
            raise AssertionError("driver: more torch.rand_like calls than forced tensors")
        if tuple(t.shape) != tuple(x.shape):
            raise AssertionError("driver: torch.rand_like asked for shape %s, forced tensor has %s" % (tuple(x.shape), tuple(t.shape)))
        used["rand_like"] += 1
        return t.clone().to(x.dtype) if not t.requires_grad else t

    torch.rand, torch.rand_like = rand, rand_like
    if bernoulli is not None:
        torch.bernoulli = bernoulli
    try:
        yield used
    finally:
        torch.rand, torch.rand_like, torch.bernoulli = saved


def _gl(a, b, G, smooth=False):
    """Gauss-Legendre nodes/weights on [a, b]; smooth=True composes with the quintic smoothstep t -> t^3(10-15t+6t^2), which damps
    end-point singularities (still a quadrature rule for the uniform measure: weights sum to b-a)"""
    from numpy.polynomial.legendre import leggauss

    x, w = leggauss(G)
    out = []
    for xi, wi in zip(x.tolist(), w.tolist()):
        t, wt = (xi + 1.0) / 2.0, wi / 2.0
        if smooth:
            t, wt = t ** 3 * (10.0 - 15.0 * t + 6.0 * t * t), wt * 30.0 * t * t * (1.0 - t) ** 2
        out.append((a + (b - a) * t, (b - a) * wt))
    return out


def _product_rule(rules):
    """rules: list over dimensions of [(node, weight)] -> (nodes [D][dim], weights [D])"""
    nodes, weights = [], []
    for combo in itertools.product(*rules):
        nodes.append([c[0] for c in combo])
        weights.append(math.prod(c[1] for c in combo))
    return nodes, weights


# ---------------------------------------------------------------------------------------------
# C19.relax.value_mean


def _multilinear(tab, n):
    """the multilinear extension of a table on {0,1}^n to [0,1]^n (equals the table on binary points): lets REBAR's control
    variate evaluate f on relaxed samples. x: (..., n) -> (...)"""
    torch = _torch()
    space = _space([2] * n)

    def f(x):
        out = 0.0
        for b in space:
            t = tab[_index(b, [2] * n)]
            if t == 0.0:
                continue
            w = 1.0
            for i, c in enumerate(b):
                w = w * (x[..., i] if c else (1.0 - x[..., i]))
            out = out + t * w
        if isinstance(out, float):
            out = torch.zeros(x.shape[:-1], dtype=x.dtype) + out
        return out

    return f


def _make_cv(spec, func, kind):
    torch = _torch()
    if spec["kind"] == "rebar":
        import pydrobert.torch.modules as PM

        cls = PM.LogisticBernoulliRebarControlVariate if kind == "lb" else PM.GumbelOneHotCategoricalRebarControlVariate
        return cls(func, float(spec["temp"]), float(spec["eta"])).double()
    a, b, c = float(spec["a"]), float(spec["b"]), float(spec["c"])
    if kind == "lb":
        return lambda z: a * torch.sigmoid(z) + b * torch.sigmoid(2.0 * z + 0.3) + c
    return lambda z: a * torch.sigmoid(z[..., 0] - 0.3 * z[..., 1]) + b * torch.tanh(z[..., 1]) + c


def check_relax(case):
    """case (dist=lb): {est: st|relax, n, par, theta: [n values], M, f: n tables (one per output coordinate) over the JOINT space {0,1}^n,
         log, cv: {kind: rebar, temp, eta} | {kind: sig, a, b, c}, rule: {kind: gl, Gu, Gv} | {kind: mid, K}, tol, grad: bool}
       case (dist=gumbel): {est, par, theta: [V=2 values], f: [t0, t1], log, cv, rule: {Go, Gi, Gv}, tol, grad}
    Value (and gradient when grad) of the real estimator integrated over the uniform noise with the rule must equal E_P[f] (and its
    exact gradient) within tol."""
    torch = _torch()
    import pydrobert.torch.distributions as PD
    import pydrobert.torch.estimators as E

    est, par, log, tol = case["est"], case["par"], case["log"], float(case["tol"])
    if case["dist"] == "lb":
        n, M, theta = case["n"], case["M"], case["theta"]
        _, probs, dprobs = _marginals("bern", par, [[t] for t in theta])
        sizes = [2] * n
        rule = case["rule"]
        urules, vrules = [], []
        for m in range(M):
            for i in range(n):
                p1 = probs[i][1]
                if rule["kind"] == "mid":
                    K = rule["K"]
                    urules.append([((j + 0.5) / K, 1.0 / K) for j in range(K)])
                else:  # b_i = 1 iff u >= 1 - p_i (the property: P(H(z) = 1) = p_i): integrate each side of the jump separately
                    urules.append(_gl(0.0, 1.0 - p1, rule["Gu"]) + _gl(1.0 - p1, 1.0, rule["Gu"]))
                if est == "relax":
                    vrules.append(_gl(0.0, 1.0, rule["Gv"]))
        nodes, W = _product_rule(urules + vrules)
        D = len(W)
        A = torch.tensor(nodes, dtype=torch.float64)
        U = A[:, : M * n].reshape(D, M, n).transpose(0, 1).contiguous()
        leaf = torch.tensor(theta, dtype=torch.float64, requires_grad=True)
        dist = PD.LogisticBernoulli(**{par: leaf.expand(D, n)})
        raws, lins = zip(*[_tab(f, log) for f in case["f"]])
        exts = [_multilinear(r, n) for r in raws]

        def func(x):
            return torch.stack([e(x) for e in exts], -1)

        if est == "st":
            with _noise([U]) as used:
                v = E.StraightThroughEstimator(dist, func, M, log)()
        else:
            Vn = A[:, M * n:].reshape(D, M, n).transpose(0, 1).contiguous()
            cv = _make_cv(case["cv"], func, "lb")
            with _noise([U], [Vn]) as used:
                v = E.RelaxEstimator(dist, func, M, cv, is_log=log)()
            if used["rand_like"] != 1:
                return "driver: csample did not draw its noise through torch.rand_like"
        if used["rand"] != 1:
            return "driver: rsample did not draw its noise through torch.rand"
        if tuple(v.shape) != (D, n):
            return "estimate has shape %s, expected the batch shape %s" % (tuple(v.shape), (D, n))
        vv = v.exp() if log else v
        tot = (torch.tensor(W, dtype=torch.float64).unsqueeze(-1) * vv).sum(0)  # (n,)
        exact = [_expect(lins[i], sizes, probs) for i in range(n)]
        for i in range(n):
            if not _close(float(tot[i]), exact[i], tol):
                return "coordinate %d: value integrated over the noise (%d nodes) is %s, exact expectation %s (tol %g)" % (i, D, _fmt(float(tot[i])), _fmt(exact[i]), tol)
        if case.get("grad"):
            a = [1.0 + 0.37 * i for i in range(n)]
            (got,) = _grads((torch.tensor(a, dtype=torch.float64) * tot).sum(), [leaf])
            # tables are elementwise here: coordinate i depends on b_i only
            want = []
            for i in range(n):
                t2 = [lins[i][_index(tuple(c if l == i else 0 for l in range(n)), sizes)] for c in (0, 1)]
                want.append([a[i] * (dprobs[i][0][0] * t2[0] + dprobs[i][0][1] * t2[1])])
            return _cmp_grad(got, want, None, "gradient w.r.t. the %s integrated over the noise" % par, tol)
        return None
    # ---- GumbelOneHotCategorical, V = 2, one variable, one Monte Carlo sample
    theta = case["theta"]
    _, probs, dprobs = _marginals("onehot", par, [theta])
    p0, p1 = probs[0]
    rule = case["rule"]
    Go, Gi, Gv = rule["Go"], rule["Gi"], rule["Gv"]
    # argmax_j (log p_j - log(-log u_j)) = 0  iff  u_1 < u_0^(p_1/p_0)   (E_j = -log(u_j)/p_j is exponential with rate p_j; the smaller wins)
    nodes, W = [], []
    if p1 >= p0:
        for u0, w0 in _gl(0.0, 1.0, Go, True):
            bd = u0 ** (p1 / p0)
            for u1, w1 in _gl(0.0, bd, Gi, True) + _gl(bd, 1.0, Gi, True):
                nodes.append((u0, u1))
                W.append(w0 * w1)
    else:
        for u1, w1 in _gl(0.0, 1.0, Go, True):
            bd = u1 ** (p0 / p1)
            for u0, w0 in _gl(0.0, bd, Gi, True) + _gl(bd, 1.0, Gi, True):
                nodes.append((u0, u1))
                W.append(w0 * w1)
    if est == "relax":
        vr = _gl(0.0, 1.0, Gv, True)
        nodes, W = zip(*[((u0, u1, a[0], b[0]), w * a[1] * b[1]) for (u0, u1), w in zip(nodes, W) for a in vr for b in vr])
    D = len(W)
    A = torch.tensor(nodes, dtype=torch.float64)
    U = A[:, :2].reshape(1, D, 2)
    leaf = torch.tensor(theta, dtype=torch.float64, requires_grad=True)
    dist = PD.GumbelOneHotCategorical(**{par: leaf.expand(D, 2)})
    raw, lin = _tab(case["f"], log)
    ftab = torch.tensor(raw, dtype=torch.float64)

    def func(x):  # linear on the simplex, equals the table on one-hot points
        return (x * ftab).sum(-1)

    if est == "st":
        with _noise([U]):
            v = E.StraightThroughEstimator(dist, func, 1, log)()
    else:
        cv = _make_cv(case["cv"], func, "gumbel")
        with _noise([U], [A[:, 2:].reshape(1, D, 2)]):
            v = E.RelaxEstimator(dist, func, 1, cv, is_log=log)()
    v = _per_draw(v, D)
    if isinstance(v, str):
        return v
    tot = (torch.tensor(W, dtype=torch.float64) * (v.exp() if log else v)).sum()
    exact = _expect(lin, [2], probs)
    if not _close(float(tot), exact, tol):
        return "value integrated over the noise (%d nodes) is %s, exact expectation %s (tol %g)" % (D, _fmt(float(tot)), _fmt(exact), tol)
    if case.get("grad"):
        (got,) = _grads(tot, [leaf])
        return _cmp_grad(got, _expect_grad(lin, [2], probs, dprobs), None, "gradient w.r.t. the %s integrated over the noise" % par, tol)
    return None


CVS = [{"kind": "rebar", "temp": 0.5, "eta": 0.8}, {"kind": "sig", "a": 0.7, "b": -0.4, "c": 0.1}]
CVS_LOG = [{"kind": "rebar", "temp": 0.5, "eta": 0.2}, {"kind": "sig", "a": 0.7, "b": -0.4, "c": -3.0}]


def _lb_tables(n, log, joint):
    """n tables (one per coordinate). joint: each over the joint space (value only); else elementwise (gradient too)"""
    S = 2 ** n
    out = []
    for k in range(3):
        tabs = []
        for i in range(n):
            if joint:
                t = [0.9 * math.sin(1.0 + 2.3 * (k + i) + 1.7 * j) + 0.3 for j in range(S)]
            else:
                e = [0.4 * math.cos(1.0 + k + 2.0 * i), 0.8 * math.sin(2.0 + 1.3 * k + i) + 0.2]
                t = [e[(j >> i) & 1] for j in range(S)]
            tabs.append([min(max(x, -0.5), 1.0) for x in t] if log else t)
        out.append(tabs)
    return out


def cases_relax(ctx):
    quick = ctx.quick
    # --- straight-through on LogisticBernoulli: exact rules (piecewise GL; fixed 8-point midpoint grid with probabilities j/8)
    for n in (1, 2, 3):
        for M in (1, 2):
            grid = G1 if n == 1 else G3
            for combo in itertools.product(grid, repeat=n):
                th0 = [x + 0.1 * i for i, x in enumerate(combo)]
                for par in ("logits", "probs"):
                    theta = [t if par == "logits" else _sigmoid(t) for t in th0]
                    for log in (False, True):
                        for tabs in _lb_tables(n, log, True):
                            yield {"dist": "lb", "est": "st", "n": n, "par": par, "theta": theta, "M": M, "f": tabs, "log": log, "rule": {"kind": "gl", "Gu": 2}, "tol": 1e-9}
            if n * M <= 4:
                for combo in itertools.product([1, 3, 4, 7] if n == 1 else [1, 4, 6], repeat=n):
                    for log in (False, True):
                        for tabs in _lb_tables(n, log, True)[:2]:
                            yield {"dist": "lb", "est": "st", "n": n, "par": "probs", "theta": [j / 8.0 for j in combo], "M": M, "f": tabs, "log": log, "rule": {"kind": "mid", "K": 8}, "tol": 1e-9}
    # --- RELAX on LogisticBernoulli: value and gradient
    plans = [(1, 1, [-3.0, -2.0, -1.0, 0.0, 0.7, 2.0, 3.0], 16, 24, 1e-6), (1, 2, [-1.5, 0.0, 0.8], 8, 12, 1e-3), (2, 1, [-1.5, 0.0, 0.8], 8, 12, 1e-3)]
    if not quick:
        plans += [(1, 3, [-1.0, 0.5], 6, 8, 1e-2), (3, 1, [-1.0, 0.5], 6, 8, 1e-2), (2, 1, [-2.0, 1.5], 12, 16, 2e-4), (1, 2, [-2.0, 1.5], 12, 16, 2e-4)]
    for n, M, grid, Gu, Gv, tol in plans:
        for combo in itertools.product(grid, repeat=n):
            th0 = [x + 0.1 * i for i, x in enumerate(combo)]
            for par in ("logits", "probs"):
                theta = [t if par == "logits" else _sigmoid(t) for t in th0]
                for log in (False, True):
                    for cv in (CVS_LOG if log else CVS):
                        for joint in (False, True):
                            for tabs in _lb_tables(n, log, joint)[: (3 if n * M == 1 else 1)]:
                                yield {"dist": "lb", "est": "relax", "n": n, "par": par, "theta": theta, "M": M, "f": tabs, "log": log, "cv": cv,
                                       "rule": {"kind": "gl", "Gu": Gu, "Gv": Gv}, "tol": tol, "grad": not joint}
    # --- Gumbel, two categories
    Go, Gi, Gv = (12, 8, 8) if quick else (16, 10, 12)
    for th0 in [[0.0, 0.0], [0.0, math.log(2.0)], [1.2, -0.4], [-2.0, 0.5], [0.3, 0.9]] + ([] if quick else [[-1.0, -1.5], [2.0, 0.0]]):
        for par in ("logits", "probs"):
            theta = th0 if par == "logits" else [math.exp(x) for x in th0]
            for log in (False, True):
                for k in range(2):
                    f = [0.3 + 0.2 * k, 0.9 - 1.1 * k] if not log else [0.3 - 0.5 * k, 0.9]
                    yield {"dist": "gumbel", "est": "st", "par": par, "theta": theta, "f": f, "log": log, "rule": {"Go": 2 * Go, "Gi": 2, "Gv": 0}, "tol": 1e-5}
                    for cv in (CVS_LOG if log else CVS):
                        yield {"dist": "gumbel", "est": "relax", "par": par, "theta": theta, "f": f, "log": log, "cv": cv, "rule": {"Go": Go, "Gi": Gi, "Gv": Gv}, "tol": 2e-3, "grad": True}


CHECKERS = {"C19.direct.unbiased_grad": check_direct, "C19.is.unbiased_grad": check_is, "C19.enum.exact": check_enum, "C19.relax.value_mean": check_relax}
FINDINGS = []
KNOWN_MATCH = {}


def run_bounded(ctx):
    ctx.known_match.update(KNOWN_MATCH)
    torch = _torch()
    torch.set_num_threads(1)
    import pydrobert.torch  # noqa: F401
    import pydrobert.torch.distributions  # noqa: F401
    import pydrobert.torch.estimators  # noqa: F401
    import pydrobert.torch.functional  # noqa: F401
    import pydrobert.torch.modules  # noqa: F401

    only = getattr(ctx, "only", None)

    def want(name):
        return not only or any(name.startswith(p) for p in only)

    q = ctx.quick
    if want("C19.direct.unbiased_grad"):
        ctx.bounded("C19.direct.unbiased_grad", check_direct, cases_direct(ctx),
                    bound="x", text="y", chunk=64, functions=["_mc.DirectEstimator.__call__"])
    if want("C19.is.unbiased_grad"):
        ctx.bounded("C19.is.unbiased_grad", check_is, cases_is(ctx),
                    bound="x", text="y", chunk=64, functions=["_mc.ImportanceSamplingEstimator.__call__"])
    if want("C19.enum.exact"):
        ctx.bounded("C19.enum.exact", check_enum, cases_enum(ctx),
                    bound="x", text="y", chunk=64, functions=["_enumerate_estimator.EnumerateEstimator.__call__"])
    if want("C19.relax.value_mean"):
        ctx.bounded("C19.relax.value_mean", check_relax, cases_relax(ctx),
                    bound="x", text="y", chunk=4, functions=["_mc.RelaxEstimator.__call__"])
    ctx.replay_known_witnesses()
