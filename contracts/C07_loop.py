"""C07.P.walk_loop - the loop of RandomWalk.forward, for SYMBOLIC batch size, vocabulary and step limit, with the end-of-sequence
symbol set or unset, ANY language model, `random_walk_advance` under its contract (C07.P.walk_step: the drawn label has a finite
step score, is written at the element's length, the score grows by that step score) and log_softmax uninterpreted.

Ghost record per step t: drawn(t, n), step_score(t, n, v) = the normalised score the model gave label v at step t for element n.
Defined from it by recursion on t (eos set; with eos unset `ended` is constantly false):
    ended(t+1, n) = ended(t, n) or drawn(t, n) = eos       len(t+1, n) = len(t, n) + (0 if ended(t, n) else 1)
    logp(t+1, n)  = logp(t, n) + (0 if ended(t, n) else step_score(t, n, drawn(t, n)))
Loop invariant after t steps: the walk's end flag / length / score of every element are ended / len / logp; a running element has
length t; an ended one has length in [1, t] and its last token is eos; the path's rows below its length are the drawn labels
(in vocabulary) and none of them but the last of an ended path is eos; lengths within the rows of the path tensor. Per step: the
model is asked about exactly the first t rows of the paths with the current state and step, and its new state is carried on.
Exits: the step limit, or the `break` when every element has ended - so every returned path ends at its FIRST eos or at the limit,
and its score is the sum of the model's normalised scores of its own labels up to and including that eos."""
import z3

from vf.pyvc import api, ctensor as ct, interp as ip
from vf.pyvc.api import VC

M = "pydrobert.torch._decoding"


def walk_loop_p_vc(eos_set):
    import pydrobert.torch._decoding as D
    import pydrobert.torch._lm as LMM
    from vf.pyvc import symtensor as stn
    from vf.pyvc.interp import LoopSpec, PathAbort, _Break

    z = ip.to_z3
    N, V, MI, EOS, N0, R0, V0 = z3.Ints("N V max_iters eos n0 r0 v0")
    Iz, Rz, Bz = z3.IntSort(), z3.RealSort(), z3.BoolSort()
    fn = lambda nm, *so: z3.Function(nm, *so)
    DRAWN, LSM = fn("drawn", Iz, Iz, Iz), fn("step_score", Iz, Iz, Iz, Rz)
    ENDED, LEN, LOGP = fn("ended", Iz, Iz, Bz), fn("len", Iz, Iz, Iz), fn("logp", Iz, Iz, Rz)
    t_, n_, r_ = z3.Ints("t_q n_q r_q")
    is_eos = (lambda x: x == EOS) if eos_set else (lambda x: z3.BoolVal(False))
    base_def = lambda n: z3.And(z3.Not(ENDED(0, n)), LEN(0, n) == 0, LOGP(0, n) == 0)
    rec = lambda t, n: z3.Implies(t >= 0, z3.And(ENDED(t + 1, n) == z3.Or(ENDED(t, n), is_eos(DRAWN(t, n))), LEN(t + 1, n) == LEN(t, n) + z3.If(ENDED(t, n), 0, 1),
                                                 LOGP(t + 1, n) == LOGP(t, n) + z3.If(ENDED(t, n), z3.RealVal(0), LSM(t, n, DRAWN(t, n)))))
    Bq = lambda c: z3.BoolVal(bool(c)) if isinstance(c, (bool, int)) else (c if z3.is_bool(c) else c != 0)
    names = ("y", "y_lens", "eos_mask", "log_probs", "prev")

    class Tok:
        def __init__(self, what):
            self.what = what

    def inv_parts(st, t):
        y, ln, em, lp = st["y"], st["y_lens"], st["eos_mask"], st["log_probs"]
        rows = z(y.shape[0])
        at = z3.And(0 <= N0, N0 < N)
        ended, L = ENDED(t, N0), LEN(t, N0)
        return [("shapes", z3.And(z(y.shape[1]) == N, z(ln.shape[0]) == N, z(em.shape[0]) == N, z(lp.shape[0]) == N, rows >= 0)),
                ("end_flag_length_and_score_are_the_recorded_ones", z3.Implies(at, z3.And(Bq(em.elem(N0)) == ended, z(ln.elem(N0)) == L, z(lp.elem(N0)) == LOGP(t, N0), 0 <= L, L <= rows))),
                ("running_path_has_one_label_per_step", z3.Implies(z3.And(at, z3.Not(ended)), L == t)),
                ("ended_path_stops_with_eos", z3.Implies(z3.And(at, ended), z3.And(1 <= L, L <= t, is_eos(DRAWN(L - 1, N0))))),
                ("rows_are_the_drawn_labels", z3.Implies(z3.And(at, 0 <= R0, R0 < L), z3.And(z(y.elem(R0, N0)) == DRAWN(R0, N0), 0 <= DRAWN(R0, N0), DRAWN(R0, N0) < V))),
                ("no_eos_before_the_end", z3.Implies(z3.And(at, 0 <= R0, R0 < L - z3.If(ended, 1, 0)), z3.Not(is_eos(DRAWN(R0, N0)))))]

    sub = lambda fml, n, r: z3.substitute(fml, (N0, n), (R0, r))
    inv_all = lambda st, t: z3.ForAll([n_, r_], sub(z3.And([g for _, g in inv_parts(st, t)]), n_, r_))
    inv_inst = lambda st, t, n, r: sub(z3.And([g for _, g in inv_parts(st, t)]), n, r)

    def thunk(I):
        I.stubs.update(stn.stubs())
        g = I.ex.ghost

        def update_input(I2, a, kw):
            return Tok("initial")

        def calc(I2, a, kw):
            hist, prev, t = a[1], a[2], a[3]
            cur = g.get("cur")
            if cur is None or "lmo" in cur:
                raise ip.Unsupported("the model is queried outside a step of the walk (or twice in one)")
            tt, st = cur["t"], cur["st"]
            prs = cur["pre"]
            I2.ex.oblige("model_is_asked_with_the_current_state_and_step", z3.And(z3.BoolVal(prev is st["prev"] and hasattr(t, "elem") and len(t.shape) == 0), z(t.elem()) == tt))
            I2.ex.oblige("model_is_asked_about_the_first_t_rows_of_the_paths", z3.And(z3.BoolVal(hasattr(hist, "elem") and len(hist.shape) == 2), z(hist.shape[0]) == tt, z(hist.shape[1]) == N,
                                                                                      z3.Implies(z3.And(0 <= R0, R0 < tt, 0 <= N0, N0 < N), z(hist.elem(R0, N0)) == z(prs["y"].elem(R0, N0)))))
            LMO = stn._fresh("model_score", Iz, Iz, Rz)
            cur["lmo"], cur["state"] = LMO, Tok("after_step")
            return (stn.ST((N, V), lambda n, v: LMO(z(n), z(v)), "float"), cur["state"])

        def advance(I2, a, kw):
            cur = g.get("cur")
            if cur is None or "lmo" not in cur or "adv" in cur or kw or len(a) != 4:
                raise ip.Unsupported("random_walk_advance outside a step of the walk (or twice in one)")
            lt, lp, y, ln = a
            st, tt = cur["st"], cur["t"]
            same_objects = lp is st["log_probs"] and y is st["y"] and ln is st["y_lens"]
            # the walk updates y_lens in place after this call: the contract's formulas are over the values AT the call (frozen copies)
            lt, lp, y, ln = (stn.ST(x.shape, x.elem, x.dtype) if isinstance(x, stn.ST) else x for x in (lt, lp, y, ln))
            LS = I2.ex.ghost.get("log_softmaxes", [])
            if len(LS) != 1:
                raise ip.Unsupported("the step does not normalise the model's scores with exactly one log_softmax")
            I2.ex.oblige("structure.one_log_softmax_per_step", z3.BoolVal(len(LS) == 1 and LS[-1]["dim"] == 1))
            lsf = LS[-1]["LS"]
            cur["ls"] = lsf
            ended = ENDED(tt, N0)
            f0, v0 = ct.ng_split(lt.elem(N0, V0)) if hasattr(lt, "elem") and len(lt.shape) == 2 else (False, 0)
            at = z3.And(0 <= N0, N0 < N, 0 <= V0, V0 < V)
            # step scores: the normalised model scores for a running element; for an ended one everything on eos (score 0), -inf elsewhere
            I2.ex.oblige("step_scores_are_the_normalised_model_scores_or_eos_only", z3.And(z3.BoolVal(hasattr(lt, "elem") and len(lt.shape) == 2), z(lt.shape[0]) == N, z(lt.shape[1]) == V,
                                                                                          z3.Implies(z3.And(at, z3.Not(ended)), z3.And(z3.Not(Bq(f0)), z(v0) == lsf(N0, V0))),
                                                                                          z3.Implies(z3.And(at, ended), z3.And(Bq(f0) == (V0 != EOS), z3.Implies(V0 == EOS, z(v0) == 0))),
                                                                                          z3.Implies(at, z(LS[-1]["of"].elem(N0, V0)) == cur["lmo"](N0, V0))))
            I2.ex.oblige("step_gets_the_scores_the_paths_and_the_lengths", z3.BoolVal(same_objects))
            rows = z(cur["pre"]["y"].shape[0])
            DR, LP2, Y2 = stn._fresh("step_drawn", Iz, Iz), stn._fresh("step_score_after", Iz, Rz), stn._fresh("step_y", Iz, Iz, Iz)
            ROWS2 = I2.ex.fresh("int", "rows_after")
            ltf = lambda n, v: Bq(ct.ng_split(lt.elem(n, v))[0])
            ltv = lambda n, v: z(ct.ng_split(lt.elem(n, v))[1])
            post_el = lambda n: z3.Implies(z3.And(0 <= n, n < N), z3.And(0 <= DR(n), DR(n) < V, z3.Not(ltf(n, DR(n))), LP2(n) == z(lp.elem(n)) + ltv(n, DR(n)), z(ln.elem(n)) < ROWS2))
            post_cell = lambda n, r: z3.Implies(z3.And(0 <= n, n < N, 0 <= r, r <= z(ln.elem(n))), Y2(r, n) == z3.If(r == z(ln.elem(n)), DR(n), z(y.elem(r, n))))
            a1, a2 = z3.Ints("a1_q a2_q")
            I2.ex.assume(z3.Or(ROWS2 == rows, ROWS2 == rows + 1))
            I2.ex.assume(z3.ForAll([a1], post_el(a1)))
            I2.ex.assume(z3.ForAll([a1, a2], post_cell(a1, a2)))
            cur["adv"] = {"DR": DR, "el": post_el, "cell": post_cell}
            return (stn.ST((ROWS2, N), lambda r, n: Y2(z(r), z(n)), "long"), stn.ST((N,), lambda n: LP2(z(n)), "float"))

        I.contracts.update({"SequentialLanguageModel.update_input": update_input, "SequentialLanguageModel.calc_idx_log_probs": calc, "pydrobert.torch._decoding.random_walk_advance": advance})

        class Steps(LoopSpec):
            def run(self, I2, s, f):
                it = I.eval(s.iter, f)
                I.ex.oblige("structure.loop.range", z3.And(z(it.lo) == 0, z(it.hi) == MI, z(it.step) == 1))
                st0 = {nm: ip.local(f, nm) for nm in names}
                I.ex.instance(base_def(N0))
                for lbl, gl in inv_parts(st0, z3.IntVal(0)):
                    I.ex.oblige("walk.init." + lbl, gl)
                t = I.ex.fresh("int", "step")
                ROWS = I.ex.fresh("int", "rows_now")
                fr = lambda nm, *so: stn._fresh(nm, *so)
                Yh, Lh, Eh, Ph = fr("y_now", Iz, Iz, Iz), fr("len_now", Iz, Iz), fr("ended_now", Iz, Bz), fr("score_now", Iz, Rz)
                st = {"y": stn.ST((ROWS, N), lambda r, n: Yh(z(r), z(n)), "long"), "y_lens": stn.ST((N,), lambda n: Lh(z(n)), "long"), "eos_mask": stn.ST((N,), lambda n: Eh(z(n)), "bool"),
                      "log_probs": stn.ST((N,), lambda n: Ph(z(n)), "float"), "prev": Tok("carried")}
                for nm in names:
                    f.locals[nm] = st[nm]
                # the body updates y_lens IN PLACE: formulas about the state at the head of the iteration use frozen copies
                pre = {nm: (stn.ST(v.shape, v.elem, v.dtype) if isinstance(v, stn.ST) else v) for nm, v in st.items()}
                n_alls = len(I.ex.ghost.get("alls", []))
                if I.ex.choose(2) == 0:
                    I.ex.assume(z3.And(0 <= t, t < MI))
                    I.ex.assume(inv_all(pre, t))
                    cur = {"t": t, "st": st, "pre": pre}
                    g["cur"] = cur
                    I.ex.ghost["skolem_hooks"] = [lambda ii: [y_ for a in ii for y_ in (inv_inst(pre, t, a, z3.IntVal(0)), rec(t, a))] + ([cur["adv"]["el"](a) for a in ii] if "adv" in cur else [])]
                    I.ex.instance(inv_inst(pre, t, N0, R0))
                    I.assign(s.target, t, f)
                    try:
                        # the `all ended` test at the top of the body: its witness (an element still running) is where the invariant is needed
                        I.ex.ghost["all_hooks"] = [lambda al: [inv_inst(pre, t, w_, R0) for w_ in al["witness"]] + [al["elim"](N0)]]
                        I.exec_block(s.body, f)
                    except _Break:
                        # left before the step limit: nothing has been modified in this iteration, every element has ended
                        als = I.ex.ghost.get("alls", [])[n_alls:]
                        if len(als) != 1:
                            raise ip.Unsupported("break without the `every element has ended` test")
                        I.ex.instance(als[0]["elim"](N0))
                        I.ex.oblige("early_exit_only_when_every_element_has_ended", z3.Implies(z3.And(0 <= N0, N0 < N), ENDED(t, N0)))
                        g["cur"] = None
                        g["final"], g["t_end"], g["stopped_early"] = pre, t, True
                        return
                    st1 = {nm: ip.local(f, nm) for nm in names}
                    if "adv" not in cur:
                        raise ip.Unsupported("the step did not call random_walk_advance")
                    adv, lsf = cur["adv"], cur["ls"]
                    I.ex.oblige("state_carried_into_the_next_step_is_the_models_new_state", z3.BoolVal(st1["prev"] is cur.get("state")))
                    ghost = lambda n, v: z3.And(DRAWN(t, n) == adv["DR"](n), LSM(t, n, v) == lsf(n, v))
                    I.ex.assume(z3.ForAll([n_, r_], ghost(n_, r_)))
                    L0 = LEN(t, N0)
                    for y_ in (ghost(N0, adv["DR"](N0)), adv["el"](N0), adv["cell"](N0, R0), adv["cell"](N0, L0), adv["cell"](N0, L0 - 1), rec(t, N0), inv_inst(pre, t, N0, R0), inv_inst(pre, t, N0, L0 - 1)):
                        I.ex.instance(y_)
                    for lbl, gl in inv_parts(st1, t + 1):
                        I.ex.oblige("walk.step." + lbl, gl)
                    raise PathAbort()
                g["cur"] = None
                I.ex.assume(MI >= 0)
                I.ex.assume(inv_all(pre, z3.IntVal(0) + MI))
                I.ex.instance(inv_inst(pre, z3.IntVal(0) + MI, N0, R0))
                g["final"], g["t_end"], g["stopped_early"] = st, z3.IntVal(0) + MI, False

        I.loops[("forward", 0)] = Steps("walk", None, None, None, {})
        lm = ip.SObj(LMM.SequentialLanguageModel, {"vocab_size": V}, "lm")
        dev = stn.ST((0,), lambda i: z3.RealVal(0), "float")
        obj = ip.SObj(D.RandomWalk, {"lm": lm, "eos": EOS if eos_set else None, "device_buffer": dev}, "walk")
        return I.call(I.getattr(obj, "forward"), [None, N, MI], {})

    def post(p):
        if not api.returns(p) or not isinstance(p.value, tuple) or len(p.value) != 3 or "final" not in p.ghost:
            return False
        y, ln, lp = p.value
        te = p.ghost["t_end"]
        at = z3.And(0 <= N0, N0 < N)
        L, ended = LEN(te, N0), ENDED(te, N0)
        goals = [("result_shapes", z3.And(z3.BoolVal(len(y.shape) == 2 and len(ln.shape) == 1 and len(lp.shape) == 1), z(y.shape[1]) == N, z(ln.shape[0]) == N, z(lp.shape[0]) == N)),
                 ("length_and_score_are_those_of_the_recorded_walk", z3.Implies(at, z3.And(z(ln.elem(N0)) == L, z(lp.elem(N0)) == LOGP(te, N0), L <= z(y.shape[0])))),
                 ("path_rows_are_the_drawn_labels", z3.Implies(z3.And(at, 0 <= R0, R0 < L), z3.And(z(y.elem(R0, N0)) == DRAWN(R0, N0), 0 <= DRAWN(R0, N0), DRAWN(R0, N0) < V))),
                 ("path_ends_at_its_first_eos_or_at_the_step_limit", z3.Implies(at, z3.And(z3.Or(ended, z3.And(te == MI, L == MI)), z3.Implies(ended, z3.And(1 <= L, is_eos(DRAWN(L - 1, N0)))),
                                                                                              z3.Implies(z3.And(0 <= R0, R0 < L - z3.If(ended, 1, 0)), z3.Not(is_eos(DRAWN(R0, N0)))))))]
        return goals

    defs = [z3.ForAll([n_], base_def(n_)), z3.ForAll([t_, n_], rec(t_, n_))]
    pre = [N >= 1, V >= 1, MI >= 0, 0 <= N0, N0 < N] + ([0 <= EOS, EOS < V] if eos_set else []) + defs
    return VC("C07.P.walk_loop", "RandomWalk.forward[eos %s; symbolic batch size, vocabulary, step limit; any language model]" % ("set" if eos_set else "unset"), M, "RandomWalk.forward", thunk, pre=pre,
              posts=[("walk_after_the_last_step", post)], inputs={"N": N, "V": V, "max_iters": MI}, timeout_ms=60000, max_paths=64, witness_hints=[N == 1, V == 2, MI == 2] + ([EOS == 1] if eos_set else []),
              assumptions=["callee contracts: random_walk_advance = the postcondition of C07.P.walk_step; the language model's methods return opaque states and uninterpreted scores; log_softmax an uninterpreted element function (finite values)",
                           "ghost record (drawn, step_score per step) by ghost assignment in the step; ended / len / logp defined from it by recursion on the step (conservative)",
                           "all() over the end flags: true iff every flag is (assumed contract with a counterexample witness); a batch size given; the induction over the steps is the loop rule (init / step obligations; the early exit is taken at the top of an iteration, before anything is modified)",
                           "float arithmetic treated as real arithmetic; -inf as a flag"])


def loop_p_vcs(ctx):
    return [walk_loop_p_vc(True), walk_loop_p_vc(False)]
