"""C04, engine A part (S rung): one step of beam search (`beam_search_advance`) on symbolic scores.

The real source (joint scores, top-k, source/extension recovery, prefix gather, growth, filler slots) is executed over
symbolic log-probabilities and prefixes of concrete small shape. top-k has an assumed contract (sorted values, pairwise
distinct in-range indices, value = element at the index, unselected <= last selected; no tie rule). Proved for all contents:
every new score = source prefix score + extension score; every new path = its source prefix followed by the extension
token with length + 1; (source, token) pairs are pairwise distinct; scores are best-first and no unselected candidate
beats a selected one; slots beyond the candidates carry -inf and length 0.
"""
import z3

from vf.pyvc import api, ctensor as ct, interp as ip
from vf.pyvc.api import VC

M = "pydrobert.torch._decoding"


def adv_vc(N, Kp, V, S, width):
    import pydrobert.torch._decoding as D

    name = "N%dKp%dV%dS%dW%d" % (N, Kp, V, S, width)

    def thunk(I):
        lt = ct.CT.symbolic("lt", (N, Kp, V), "float")
        lp = ct.CT.symbolic("lp", (N, Kp), "float")
        y = ct.CT.symbolic("y", (S, N, Kp), "long")
        I.ex.ghost.update(lt=lt, lp=lp, y=y)

        def trunc_divide(I2, a, k):
            x, d = a
            return ct.CT.ew(lambda u: ip.to_z3(u) / d if ct.is_z3(u) else u // d, x, dtype="long")  # indices are non-negative: trunc = floor

        I.contracts["pydrobert.torch._compat.trunc_divide"] = trunc_divide
        return I.call(D.beam_search_advance, [lt, width, lp, y, None], {})

    def post(p):
        if not api.returns(p) or not isinstance(p.value, tuple) or len(p.value) != 4:
            return False
        y_next, lens, lpn, src = p.value
        g = p.ghost
        K = min(width, Kp * V)
        goals = []
        if y_next.shape != (S + 1, N, width) or lens.shape != (N, width) or lpn.shape != (N, width) or src.shape != (N, width):
            return False
        for n in range(N):
            toks = []
            if any(ct.is_inf(lpn.a[n, k]) for k in range(K)):
                goals.append(("n%d.fewer_real_slots_than_candidates" % n, z3.BoolVal(False)))  # a filler where a candidate must be
                continue
            for k in range(K):
                s_ = ip.to_z3(src.a[n, k])
                tok = ip.to_z3(y_next.a[S, n, k])
                toks.append((s_, tok))
                sel = []
                for a in range(Kp):
                    for v in range(V):
                        sel.append(z3.Implies(z3.And(s_ == a, tok == v), z3.And(
                            [ip.to_z3(lpn.a[n, k]) == g["lp"].a[n, a] + g["lt"].a[n, a, v]] + [ip.to_z3(y_next.a[t, n, k]) == g["y"].a[t, n, a] for t in range(S)])))
                goals.append(("n%d.k%d.extends_source" % (n, k), z3.And([s_ >= 0, s_ < Kp, tok >= 0, tok < V, ip.to_z3(lens.a[n, k]) == S + 1] + sel)))
                if k:
                    goals.append(("n%d.k%d.best_first" % (n, k), ip.to_z3(lpn.a[n, k - 1]) >= ip.to_z3(lpn.a[n, k])))
                # no candidate that was not selected beats this one
                for a in range(Kp):
                    for v in range(V):
                        chosen = z3.Or([z3.And(ip.to_z3(src.a[n, j]) == a, ip.to_z3(y_next.a[S, n, j]) == v) for j in range(K)])
                        goals.append(("n%d.k%d.optimal_vs_%d_%d" % (n, k, a, v), z3.Or(chosen, g["lp"].a[n, a] + g["lt"].a[n, a, v] <= ip.to_z3(lpn.a[n, k]))))
            for i in range(K):
                for j in range(i + 1, K):
                    goals.append(("n%d.distinct_%d_%d" % (n, i, j), z3.Or(toks[i][0] != toks[j][0], toks[i][1] != toks[j][1])))
            for k in range(K, width):
                v = lpn.a[n, k]
                goals.append(("n%d.k%d.filler" % (n, k), z3.And(z3.BoolVal(ct.is_inf(v) and v < 0), ip.to_z3(lens.a[n, k]) == 0)))
        return goals

    return VC("C04.S.advance_step", name, M, "beam_search_advance", thunk, posts=[("advance_postcondition", post)], inputs={},
              assumptions=["topk contract (vf/pyvc/ctensor.py): sorted, distinct in-range indices, value at index, unselected <= last selected; no tie rule",
                           "y_prev_lens omitted (all prefixes have full length S); finite scores; float arithmetic as real arithmetic"])


def divmod_of(J, A0, V0, V, KP):
    return z3.And(J / V == A0, J % V == V0, 0 <= J, J < KP * V)


def adv_p_vc(with_lens=False):
    """`with_lens`: the form BeamSearch.forward uses - prefix lengths given (0 <= length <= S, any mixture) and previous scores that may
    be -inf (slots holding no path): the slot's new token is written at position length[source] (the rows below it are the source's),
    its length is length[source] + 1 (rows beyond it are not part of the path), its score is -inf exactly when the source's is and otherwise the chained sum; the path tensor
    grows by one row exactly when some length equals S.
    P rung: beam_search_advance for SYMBOLIC batch size N, old width K', vocabulary V, prefix length S and beam width (all prefixes
    of full length: y_prev_lens omitted). top-k over a symbolic extent has the assumed contract of vf/pyvc/symtensor.py (in-range,
    pairwise distinct indices; value = element at the index; non-increasing; unselected <= last selected). For a skolem batch element
    and skolem slots: a slot below K = min(width, K' V) holds source s = index div V and token w = index mod V with
    score = prev[s] + step[s, w], path = prefix of s followed by w, length S + 1; two different slots hold different (s, w);
    slots are best-first; no candidate that was not selected beats a selected one; slots from K on are fillers (-inf, length 0)."""
    import pydrobert.torch._decoding as D
    from vf.pyvc import symtensor as stn

    N, KP, V, S, W, N0, K0, K1, T0, A0, V0 = z3.Ints("N old_width V S width n0 k0 k1 t0 a0 v0")
    LT = z3.Function("step_log_prob", z3.IntSort(), z3.IntSort(), z3.IntSort(), z3.RealSort())
    LP = z3.Function("prev_log_prob", z3.IntSort(), z3.IntSort(), z3.RealSort())
    LPNINF = z3.Function("prev_log_prob_is_minus_inf", z3.IntSort(), z3.IntSort(), z3.BoolSort())
    LEN = z3.Function("y_prev_lens", z3.IntSort(), z3.IntSort(), z3.IntSort())
    n_, k_ = z3.Ints("n_q k_q")
    len_ok = lambda n, k: z3.Implies(z3.And(0 <= n, n < N, 0 <= k, k < KP), z3.And(0 <= LEN(n, k), LEN(n, k) <= S))
    Y = z3.Function("y_prev", z3.IntSort(), z3.IntSort(), z3.IntSort(), z3.IntSort())
    KK = z3.If(W <= KP * V, W, KP * V)
    name = "beam_search_advance[symbolic N, old width, V, S, width; %s]" % ("prefix lengths given, previous scores possibly -inf" if with_lens else "full-length prefixes")

    def thunk(I):
        I.stubs.update(stn.stubs())
        lt = stn.ST((N, KP, V), lambda a, b, c: LT(ip.to_z3(a), ip.to_z3(b), ip.to_z3(c)), "float")
        lp = stn.ST((N, KP), (lambda a, b: ct.NegGuarded(LPNINF(ip.to_z3(a), ip.to_z3(b)), LP(ip.to_z3(a), ip.to_z3(b)))) if with_lens else (lambda a, b: LP(ip.to_z3(a), ip.to_z3(b))), "float")
        y = stn.ST((S, N, KP), lambda a, b, c: Y(ip.to_z3(a), ip.to_z3(b), ip.to_z3(c)), "long")
        lens_in = stn.ST((N, KP), lambda a, b: LEN(ip.to_z3(a), ip.to_z3(b)), "long") if with_lens else None
        if with_lens:
            I.ex.ghost["skolem_hooks"] = [lambda ii: [len_ok(a, c) for a in ii for c in ii if a is not c]]
            I.ex.ghost["any_points"] = {2: [(N0, K0), (N0, K1)]}

        def trunc_divide(I2, a, k):
            x, d = a
            return x._bin(I2, __import__("ast").FloorDiv(), d, False)  # indices are non-negative: trunc = floor

        I.contracts["pydrobert.torch._compat.trunc_divide"] = trunc_divide
        out = I.call(D.beam_search_advance, [lt, W, lp, y, lens_in], {})
        tk = I.ex.ghost["topks"][-1]
        if with_lens:
            for mx in I.ex.ghost.get("maxes", []):
                for x in (mx["ub"](N0, tk["IDX"](N0, K0) / V), mx["ub"](N0, tk["IDX"](N0, K1) / V)):
                    I.ex.instance(x)
            for x in (len_ok(N0, tk["IDX"](N0, K0) / V), len_ok(N0, tk["IDX"](N0, K1) / V)) + tuple(len_ok(w_[0], w_[1]) for mx in I.ex.ghost.get("maxes", []) for w_ in [mx["argmax"]] if isinstance(w_, list)):
                I.ex.instance(x)
            I.ex.ghost["maxes_"] = I.ex.ghost.get("maxes", [])
        for x in (tk["at"](N0, K0), tk["at"](N0, K1), tk["distinct"](N0, K0, K1), tk["distinct"](N0, K1, K0), tk["ordered"](N0, K0, K1), tk["ordered"](N0, K0, KK - 1)):
            I.ex.instance(x)
        I.ex.instance(tk["optimal"](N0, A0 * V + V0), quantified_atoms=True)  # its "not selected" premise recurs verbatim in the goal
        I.ex.ghost["tk"] = tk
        return out

    def post(p):
        if not api.returns(p) or not isinstance(p.value, tuple) or len(p.value) != 4:
            return False
        y_next, lens, lpn, src = p.value
        tk = p.ghost["tk"]
        IDX = tk["IDX"]
        s0, w0 = ip.to_z3(src.elem(N0, K0)), ip.to_z3(y_next.elem(S, N0, K0))
        s1, w1 = ip.to_z3(src.elem(N0, K1)), ip.to_z3(y_next.elem(S, N0, K1))
        real0, real1 = z3.And(0 <= K0, K0 < KK), z3.And(0 <= K1, K1 < KK)
        sc = lambda k: ip.to_z3(ct.ng_split(lpn.elem(N0, k))[1])
        fin = lambda k: z3.Not(ct.ng_split(lpn.elem(N0, k))[0]) if ip.is_z3(ct.ng_split(lpn.elem(N0, k))[0]) else z3.BoolVal(not ct.ng_split(lpn.elem(N0, k))[0])
        shapes = z3.And(ip.to_z3(y_next.shape[0]) == S + 1, ip.to_z3(y_next.shape[1]) == N, ip.to_z3(y_next.shape[2]) == W, ip.to_z3(lpn.shape[0]) == N, ip.to_z3(lpn.shape[1]) == W,
                        ip.to_z3(lens.shape[1]) == W, ip.to_z3(src.shape[1]) == W)
        J = A0 * V + V0
        cand_ok = z3.And(0 <= A0, A0 < KP, 0 <= V0, V0 < V)
        if with_lens:
            ninf = lambda k: (lambda f_: f_ if ip.is_z3(f_) else z3.BoolVal(bool(f_)))(ct.ng_split(lpn.elem(N0, k))[0])
            mxs = p.ghost.get("maxes_", [])
            rows = ip.to_z3(y_next.shape[0])
            tok0, tok1 = tk["IDX"](N0, K0) % V, tk["IDX"](N0, K1) % V
            src0, src1 = tk["IDX"](N0, K0) / V, tk["IDX"](N0, K1) / V
            # rows beyond the slot's new length are not part of its path (whatever they hold)
            cell = lambda t, k, sr, tk_: z3.Implies(t <= LEN(N0, sr), ip.to_z3(y_next.elem(t, N0, k)) == z3.If(t == LEN(N0, sr), tk_, Y(t, N0, sr)))
            return [("result_shapes", z3.And(ip.to_z3(y_next.shape[1]) == N, ip.to_z3(y_next.shape[2]) == W, ip.to_z3(lpn.shape[0]) == N, ip.to_z3(lpn.shape[1]) == W, ip.to_z3(lens.shape[1]) == W, ip.to_z3(src.shape[1]) == W,
                                             z3.Or(rows == S, rows == S + 1))),
                    ("path_tensor_grows_exactly_when_some_prefix_is_full", z3.And(z3.Implies(z3.And(0 <= A0, A0 < KP, LEN(N0, A0) == S), rows == S + 1),
                                                                                 z3.Implies(rows == S + 1, z3.And([z3.And(0 <= mx["argmax"][0], mx["argmax"][0] < N, 0 <= mx["argmax"][1], mx["argmax"][1] < KP, LEN(mx["argmax"][0], mx["argmax"][1]) == S) for mx in mxs if isinstance(mx["argmax"], list)]
                                                                                                                    or [S == 0])))),  # (no prefixes yet: every - empty - prefix is full)
                    ("index_of_a_candidate_splits_back_into_source_and_token", z3.Implies(cand_ok, divmod_of(J, A0, V0, V, KP))),
                    ("slot_reports_its_source", z3.Implies(real0, z3.And(ip.to_z3(src.elem(N0, K0)) == src0, 0 <= src0, src0 < KP, 0 <= tok0, tok0 < V))),
                    ("slot_score_is_minus_inf_exactly_when_the_source_is", z3.Implies(real0, ninf(K0) == LPNINF(N0, src0))),
                    ("slot_score_is_the_chained_sum", z3.Implies(z3.And(real0, z3.Not(LPNINF(N0, src0))), sc(K0) == LP(N0, src0) + LT(N0, src0, tok0))),
                    ("slot_length_is_the_source_length_plus_one", z3.Implies(real0, z3.And(ip.to_z3(lens.elem(N0, K0)) == LEN(N0, src0) + 1, LEN(N0, src0) < rows))),
                    ("slot_path_is_the_source_path_with_the_token_at_its_length", z3.Implies(z3.And(real0, 0 <= T0, T0 < rows), cell(T0, K0, src0, tok0))),
                    ("different_slots_hold_different_candidates", z3.Implies(z3.And(real0, real1, K0 != K1), z3.Or(src0 != src1, tok0 != tok1))),
                    ("best_first", z3.Implies(z3.And(real0, real1, K0 <= K1), z3.And(z3.Implies(ninf(K0), ninf(K1)), z3.Implies(z3.And(z3.Not(ninf(K0)), z3.Not(ninf(K1))), sc(K0) >= sc(K1))))),
                    ("slots_beyond_the_candidates_are_fillers", z3.Implies(z3.And(KK <= K0, K0 < W), z3.And(ninf(K0), ip.to_z3(lens.elem(N0, K0)) == 0)))]
        divmod = z3.And(J / V == A0, J % V == V0, 0 <= J, J < KP * V)
        return [("result_shapes", shapes),
                ("index_of_a_candidate_splits_back_into_source_and_token", z3.Implies(cand_ok, divmod)),
                ("slot_extends_its_source", z3.Implies(real0, z3.And(0 <= s0, s0 < KP, 0 <= w0, w0 < V, fin(K0), sc(K0) == LP(N0, s0) + LT(N0, s0, w0), ip.to_z3(lens.elem(N0, K0)) == S + 1,
                                                                    z3.Implies(z3.And(0 <= T0, T0 < S), ip.to_z3(y_next.elem(T0, N0, K0)) == Y(T0, N0, s0))))),
                ("different_slots_hold_different_candidates", z3.Implies(z3.And(real0, real1, K0 != K1), z3.Or(s0 != s1, w0 != w1))),
                ("best_first", z3.Implies(z3.And(real0, real1, K0 <= K1), sc(K0) >= sc(K1))),
                # cut: with the index arithmetic above proved, the contract's optimality clause at that index gives the bound
                ("no_unselected_candidate_beats_a_selected_one", z3.Implies(z3.And(real0, cand_ok, divmod, tk["notsel"](N0, J)), LP(N0, A0) + LT(N0, A0, V0) <= sc(K0))),
                ("slots_beyond_the_candidates_are_fillers", z3.Implies(z3.And(KK <= K0, K0 < W), z3.And(z3.Not(fin(K0)), ip.to_z3(lens.elem(N0, K0)) == 0)))]

    pre = [N >= 1, KP >= 1, V >= 1, S >= 0, W >= 1, 0 <= N0, N0 < N] + ([z3.ForAll([n_, k_], len_ok(n_, k_))] if with_lens else [])
    return VC("C04.P.advance_step", name, M, "beam_search_advance", thunk, pre=pre, posts=[("advance_postcondition", post)], inputs={"N": N, "old_width": KP, "V": V, "S": S, "width": W},
              timeout_ms=60000, twins=[("token_is_always_zero", lambda p: z3.Implies(z3.And(0 <= K0, K0 < KK), ip.to_z3(p.value[0].elem(S, N0, K0)) == 0) if api.returns(p) else None)],
              assumptions=["topk over a symbolic extent: in-range pairwise distinct indices, value = element at the index, non-increasing, unselected <= last selected (assumed contract, no tie rule)",
                           "flatten of two symbolic dimensions = row-major index split (i div V, i mod V); cat / gather / expand as index functions (vf/pyvc/symtensor.py); integer div / mod by the symbolic vocabulary size: solver arithmetic, products abstracted first",
                           "y_prev_lens omitted (all prefixes have full length S); finite input scores; float arithmetic as real arithmetic"])


def p_vcs(ctx):
    return [adv_p_vc(), adv_p_vc(with_lens=True)]


def vcs(ctx):
    shapes = [(1, 1, 2, 0, 2), (1, 2, 2, 1, 3), (1, 2, 2, 1, 5), (2, 1, 2, 1, 1)] if ctx.quick else \
        [(1, 1, 2, 0, 2), (1, 2, 2, 1, 3), (1, 2, 2, 1, 5), (2, 1, 2, 1, 1), (1, 2, 3, 2, 4), (1, 3, 2, 1, 6), (2, 2, 2, 1, 3)]
    return [adv_vc(*s) for s in shapes]
