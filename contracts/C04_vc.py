"""C04, engine A part (S rung): one step of beam search (`beam_search_advance`) on symbolic scores.

The real source (joint scores, top-k, source/extension recovery, prefix gather, growth, filler slots) is executed over
symbolic log-probabilities and prefixes of concrete small shape. top-k has an assumed contract (sorted values, pairwise
distinct in-range indices, value = element at the index, unselected <= last selected; no tie rule). Proved for all contents:
every new score = source prefix score + extension score; every new path = its source prefix followed by the extension
token with length + 1; (source, token) pairs are pairwise distinct; scores are best-first and no unselected candidate
beats a selected one; slots beyond the candidates carry -inf and length 0.
"""
import z3

from vf.pyvc import api, ctensor as ct, interp as ip
from vf.pyvc.api import VC

M = "pydrobert.torch._decoding"


def adv_vc(N, Kp, V, S, width):
    import pydrobert.torch._decoding as D

    name = "N%dKp%dV%dS%dW%d" % (N, Kp, V, S, width)

    def thunk(I):
        lt = ct.CT.symbolic("lt", (N, Kp, V), "float")
        lp = ct.CT.symbolic("lp", (N, Kp), "float")
        y = ct.CT.symbolic("y", (S, N, Kp), "long")
        I.ex.ghost.update(lt=lt, lp=lp, y=y)

        def trunc_divide(I2, a, k):
            x, d = a
            return ct.CT.ew(lambda u: ip.to_z3(u) / d if ct.is_z3(u) else u // d, x, dtype="long")  # indices are non-negative: trunc = floor

        I.contracts["pydrobert.torch._compat.trunc_divide"] = trunc_divide
        return I.call(D.beam_search_advance, [lt, width, lp, y, None], {})

    def post(p):
        if not api.returns(p) or not isinstance(p.value, tuple) or len(p.value) != 4:
            return False
        y_next, lens, lpn, src = p.value
        g = p.ghost
        K = min(width, Kp * V)
        goals = []
        if y_next.shape != (S + 1, N, width) or lens.shape != (N, width) or lpn.shape != (N, width) or src.shape != (N, width):
            return False
        for n in range(N):
            toks = []
            if any(ct.is_inf(lpn.a[n, k]) for k in range(K)):
                goals.append(("n%d.fewer_real_slots_than_candidates" % n, z3.BoolVal(False)))  # a filler where a candidate must be
                continue
            for k in range(K):
                s_ = ip.to_z3(src.a[n, k])
                tok = ip.to_z3(y_next.a[S, n, k])
                toks.append((s_, tok))
                sel = []
                for a in range(Kp):
                    for v in range(V):
                        sel.append(z3.Implies(z3.And(s_ == a, tok == v), z3.And(
                            [ip.to_z3(lpn.a[n, k]) == g["lp"].a[n, a] + g["lt"].a[n, a, v]] + [ip.to_z3(y_next.a[t, n, k]) == g["y"].a[t, n, a] for t in range(S)])))
                goals.append(("n%d.k%d.extends_source" % (n, k), z3.And([s_ >= 0, s_ < Kp, tok >= 0, tok < V, ip.to_z3(lens.a[n, k]) == S + 1] + sel)))
                if k:
                    goals.append(("n%d.k%d.best_first" % (n, k), ip.to_z3(lpn.a[n, k - 1]) >= ip.to_z3(lpn.a[n, k])))
                # no candidate that was not selected beats this one
                for a in range(Kp):
                    for v in range(V):
                        chosen = z3.Or([z3.And(ip.to_z3(src.a[n, j]) == a, ip.to_z3(y_next.a[S, n, j]) == v) for j in range(K)])
                        goals.append(("n%d.k%d.optimal_vs_%d_%d" % (n, k, a, v), z3.Or(chosen, g["lp"].a[n, a] + g["lt"].a[n, a, v] <= ip.to_z3(lpn.a[n, k]))))
            for i in range(K):
                for j in range(i + 1, K):
                    goals.append(("n%d.distinct_%d_%d" % (n, i, j), z3.Or(toks[i][0] != toks[j][0], toks[i][1] != toks[j][1])))
            for k in range(K, width):
                v = lpn.a[n, k]
                goals.append(("n%d.k%d.filler" % (n, k), z3.And(z3.BoolVal(ct.is_inf(v) and v < 0), ip.to_z3(lens.a[n, k]) == 0)))
        return goals

    return VC("C04.S.advance_step", name, M, "beam_search_advance", thunk, posts=[("advance_postcondition", post)], inputs={},
              assumptions=["topk contract (vf/pyvc/ctensor.py): sorted, distinct in-range indices, value at index, unselected <= last selected; no tie rule",
                           "y_prev_lens omitted (all prefixes have full length S); finite scores; float arithmetic as real arithmetic"])


def divmod_of(J, A0, V0, V, KP):
    return z3.And(J / V == A0, J % V == V0, 0 <= J, J < KP * V)


def adv_p_vc(with_lens=False):
    """`with_lens`: the form BeamSearch.forward uses - prefix lengths given (0 <= length <= S, any mixture) and previous scores that may
    be -inf (slots holding no path): the slot's new token is written at position length[source] (the rows below it are the source's),
    its length is length[source] + 1 (rows beyond it are not part of the path), its score is -inf exactly when the source's is and otherwise the chained sum; the path tensor
    grows by one row exactly when some length equals S.
    P rung: beam_search_advance for SYMBOLIC batch size N, old width K', vocabulary V, prefix length S and beam width (all prefixes
    of full length: y_prev_lens omitted). top-k over a symbolic extent has the assumed contract of vf/pyvc/symtensor.py (in-range,
    pairwise distinct indices; value = element at the index; non-increasing; unselected <= last selected). For a skolem batch element
    and skolem slots: a slot below K = min(width, K' V) holds source s = index div V and token w = index mod V with
    score = prev[s] + step[s, w], path = prefix of s followed by w, length S + 1; two different slots hold different (s, w);
    slots are best-first; no candidate that was not selected beats a selected one; slots from K on are fillers (-inf, length 0)."""
    import pydrobert.torch._decoding as D
    from vf.pyvc import symtensor as stn

    N, KP, V, S, W, N0, K0, K1, T0, A0, V0 = z3.Ints("N old_width V S width n0 k0 k1 t0 a0 v0")
    LT = z3.Function("step_log_prob", z3.IntSort(), z3.IntSort(), z3.IntSort(), z3.RealSort())
    LP = z3.Function("prev_log_prob", z3.IntSort(), z3.IntSort(), z3.RealSort())
    LPNINF = z3.Function("prev_log_prob_is_minus_inf", z3.IntSort(), z3.IntSort(), z3.BoolSort())
    LEN = z3.Function("y_prev_lens", z3.IntSort(), z3.IntSort(), z3.IntSort())
    n_, k_ = z3.Ints("n_q k_q")
    len_ok = lambda n, k: z3.Implies(z3.And(0 <= n, n < N, 0 <= k, k < KP), z3.And(0 <= LEN(n, k), LEN(n, k) <= S))
    Y = z3.Function("y_prev", z3.IntSort(), z3.IntSort(), z3.IntSort(), z3.IntSort())
    KK = z3.If(W <= KP * V, W, KP * V)
    name = "beam_search_advance[symbolic N, old width, V, S, width; %s]" % ("prefix lengths given, previous scores possibly -inf" if with_lens else "full-length prefixes")

    def thunk(I):
        I.stubs.update(stn.stubs())
        lt = stn.ST((N, KP, V), lambda a, b, c: LT(ip.to_z3(a), ip.to_z3(b), ip.to_z3(c)), "float")
        lp = stn.ST((N, KP), (lambda a, b: ct.NegGuarded(LPNINF(ip.to_z3(a), ip.to_z3(b)), LP(ip.to_z3(a), ip.to_z3(b)))) if with_lens else (lambda a, b: LP(ip.to_z3(a), ip.to_z3(b))), "float")
        y = stn.ST((S, N, KP), lambda a, b, c: Y(ip.to_z3(a), ip.to_z3(b), ip.to_z3(c)), "long")
        lens_in = stn.ST((N, KP), lambda a, b: LEN(ip.to_z3(a), ip.to_z3(b)), "long") if with_lens else None
        if with_lens:
            I.ex.ghost["skolem_hooks"] = [lambda ii: [len_ok(a, c) for a in ii for c in ii if a is not c]]
            I.ex.ghost["any_points"] = {2: [(N0, K0), (N0, K1)]}

        def trunc_divide(I2, a, k):
            x, d = a
            return x._bin(I2, __import__("ast").FloorDiv(), d, False)  # indices are non-negative: trunc = floor

        I.contracts["pydrobert.torch._compat.trunc_divide"] = trunc_divide
        out = I.call(D.beam_search_advance, [lt, W, lp, y, lens_in], {})
        tk = I.ex.ghost["topks"][-1]
        if with_lens:
            for mx in I.ex.ghost.get("maxes", []):
                for x in (mx["ub"](N0, tk["IDX"](N0, K0) / V), mx["ub"](N0, tk["IDX"](N0, K1) / V)):
                    I.ex.instance(x)
            for x in (len_ok(N0, tk["IDX"](N0, K0) / V), len_ok(N0, tk["IDX"](N0, K1) / V)) + tuple(len_ok(w_[0], w_[1]) for mx in I.ex.ghost.get("maxes", []) for w_ in [mx["argmax"]] if isinstance(w_, list)):
                I.ex.instance(x)
            I.ex.ghost["maxes_"] = I.ex.ghost.get("maxes", [])
        for x in (tk["at"](N0, K0), tk["at"](N0, K1), tk["distinct"](N0, K0, K1), tk["distinct"](N0, K1, K0), tk["ordered"](N0, K0, K1), tk["ordered"](N0, K0, KK - 1)):
            I.ex.instance(x)
        I.ex.instance(tk["optimal"](N0, A0 * V + V0), quantified_atoms=True)  # its "not selected" premise recurs verbatim in the goal
        I.ex.ghost["tk"] = tk
        return out

    def post(p):
        if not api.returns(p) or not isinstance(p.value, tuple) or len(p.value) != 4:
            return False
        y_next, lens, lpn, src = p.value
        tk = p.ghost["tk"]
        IDX = tk["IDX"]
        s0, w0 = ip.to_z3(src.elem(N0, K0)), ip.to_z3(y_next.elem(S, N0, K0))
        s1, w1 = ip.to_z3(src.elem(N0, K1)), ip.to_z3(y_next.elem(S, N0, K1))
        real0, real1 = z3.And(0 <= K0, K0 < KK), z3.And(0 <= K1, K1 < KK)
        sc = lambda k: ip.to_z3(ct.ng_split(lpn.elem(N0, k))[1])
        fin = lambda k: z3.Not(ct.ng_split(lpn.elem(N0, k))[0]) if ip.is_z3(ct.ng_split(lpn.elem(N0, k))[0]) else z3.BoolVal(not ct.ng_split(lpn.elem(N0, k))[0])
        shapes = z3.And(ip.to_z3(y_next.shape[0]) == S + 1, ip.to_z3(y_next.shape[1]) == N, ip.to_z3(y_next.shape[2]) == W, ip.to_z3(lpn.shape[0]) == N, ip.to_z3(lpn.shape[1]) == W,
                        ip.to_z3(lens.shape[1]) == W, ip.to_z3(src.shape[1]) == W)
        J = A0 * V + V0
        cand_ok = z3.And(0 <= A0, A0 < KP, 0 <= V0, V0 < V)
        if with_lens:
            ninf = lambda k: (lambda f_: f_ if ip.is_z3(f_) else z3.BoolVal(bool(f_)))(ct.ng_split(lpn.elem(N0, k))[0])
            mxs = p.ghost.get("maxes_", [])
            rows = ip.to_z3(y_next.shape[0])
            tok0, tok1 = tk["IDX"](N0, K0) % V, tk["IDX"](N0, K1) % V
            src0, src1 = tk["IDX"](N0, K0) / V, tk["IDX"](N0, K1) / V
            # rows beyond the slot's new length are not part of its path (whatever they hold)
            cell = lambda t, k, sr, tk_: z3.Implies(t <= LEN(N0, sr), ip.to_z3(y_next.elem(t, N0, k)) == z3.If(t == LEN(N0, sr), tk_, Y(t, N0, sr)))
            return [("result_shapes", z3.And(ip.to_z3(y_next.shape[1]) == N, ip.to_z3(y_next.shape[2]) == W, ip.to_z3(lpn.shape[0]) == N, ip.to_z3(lpn.shape[1]) == W, ip.to_z3(lens.shape[1]) == W, ip.to_z3(src.shape[1]) == W,
                                             z3.Or(rows == S, rows == S + 1))),
                    ("path_tensor_grows_exactly_when_some_prefix_is_full", z3.And(z3.Implies(z3.And(0 <= A0, A0 < KP, LEN(N0, A0) == S), rows == S + 1),
                                                                                 z3.Implies(rows == S + 1, z3.And([z3.And(0 <= mx["argmax"][0], mx["argmax"][0] < N, 0 <= mx["argmax"][1], mx["argmax"][1] < KP, LEN(mx["argmax"][0], mx["argmax"][1]) == S) for mx in mxs if isinstance(mx["argmax"], list)]
                                                                                                                    or [S == 0])))),  # (no prefixes yet: every - empty - prefix is full)
                    ("index_of_a_candidate_splits_back_into_source_and_token", z3.Implies(cand_ok, divmod_of(J, A0, V0, V, KP))),
                    ("slot_reports_its_source", z3.Implies(real0, z3.And(ip.to_z3(src.elem(N0, K0)) == src0, 0 <= src0, src0 < KP, 0 <= tok0, tok0 < V))),
                    ("slot_score_is_minus_inf_exactly_when_the_source_is", z3.Implies(real0, ninf(K0) == LPNINF(N0, src0))),
                    ("slot_score_is_the_chained_sum", z3.Implies(z3.And(real0, z3.Not(LPNINF(N0, src0))), sc(K0) == LP(N0, src0) + LT(N0, src0, tok0))),
                    ("slot_length_is_the_source_length_plus_one", z3.Implies(real0, z3.And(ip.to_z3(lens.elem(N0, K0)) == LEN(N0, src0) + 1, LEN(N0, src0) < rows))),
                    ("slot_path_is_the_source_path_with_the_token_at_its_length", z3.Implies(z3.And(real0, 0 <= T0, T0 < rows), cell(T0, K0, src0, tok0))),
                    ("different_slots_hold_different_candidates", z3.Implies(z3.And(real0, real1, K0 != K1), z3.Or(src0 != src1, tok0 != tok1))),
                    ("best_first", z3.Implies(z3.And(real0, real1, K0 <= K1), z3.And(z3.Implies(ninf(K0), ninf(K1)), z3.Implies(z3.And(z3.Not(ninf(K0)), z3.Not(ninf(K1))), sc(K0) >= sc(K1))))),
                    ("slots_beyond_the_candidates_are_fillers", z3.Implies(z3.And(KK <= K0, K0 < W), z3.And(ninf(K0), ip.to_z3(lens.elem(N0, K0)) == 0)))]
        divmod = z3.And(J / V == A0, J % V == V0, 0 <= J, J < KP * V)
        return [("result_shapes", shapes),
                ("index_of_a_candidate_splits_back_into_source_and_token", z3.Implies(cand_ok, divmod)),
                ("slot_extends_its_source", z3.Implies(real0, z3.And(0 <= s0, s0 < KP, 0 <= w0, w0 < V, fin(K0), sc(K0) == LP(N0, s0) + LT(N0, s0, w0), ip.to_z3(lens.elem(N0, K0)) == S + 1,
                                                                    z3.Implies(z3.And(0 <= T0, T0 < S), ip.to_z3(y_next.elem(T0, N0, K0)) == Y(T0, N0, s0))))),
                ("different_slots_hold_different_candidates", z3.Implies(z3.And(real0, real1, K0 != K1), z3.Or(s0 != s1, w0 != w1))),
                ("best_first", z3.Implies(z3.And(real0, real1, K0 <= K1), sc(K0) >= sc(K1))),
                # cut: with the index arithmetic above proved, the contract's optimality clause at that index gives the bound
                ("no_unselected_candidate_beats_a_selected_one", z3.Implies(z3.And(real0, cand_ok, divmod, tk["notsel"](N0, J)), LP(N0, A0) + LT(N0, A0, V0) <= sc(K0))),
                ("slots_beyond_the_candidates_are_fillers", z3.Implies(z3.And(KK <= K0, K0 < W), z3.And(z3.Not(fin(K0)), ip.to_z3(lens.elem(N0, K0)) == 0)))]

    pre = [N >= 1, KP >= 1, V >= 1, S >= 0, W >= 1, 0 <= N0, N0 < N] + ([z3.ForAll([n_, k_], len_ok(n_, k_))] if with_lens else [])
    return VC("C04.P.advance_step", name, M, "beam_search_advance", thunk, pre=pre, posts=[("advance_postcondition", post)], inputs={"N": N, "old_width": KP, "V": V, "S": S, "width": W},
              timeout_ms=60000, twins=[("token_is_always_zero", lambda p: z3.Implies(z3.And(0 <= K0, K0 < KK), ip.to_z3(p.value[0].elem(S, N0, K0)) == 0) if api.returns(p) else None)],
              assumptions=["topk over a symbolic extent: in-range pairwise distinct indices, value = element at the index, non-increasing, unselected <= last selected (assumed contract, no tie rule)",
                           "flatten of two symbolic dimensions = row-major index split (i div V, i mod V); cat / gather / expand as index functions (vf/pyvc/symtensor.py); integer div / mod by the symbolic vocabulary size: solver arithmetic, products abstracted first",
                           "y_prev_lens omitted (all prefixes have full length S); finite input scores; float arithmetic as real arithmetic"])


def search_loop_p_vc():
    """P rung: the loop of BeamSearch.forward with the end-of-sequence symbol unset, for a SYMBOLIC batch size, beam width, vocabulary and
    step limit, an ARBITRARY language model and `beam_search_advance` under its contract (C04.P.advance_step, lengths given):
    callee contracts
      lm.update_input / lm.calc_idx_log_probs / lm.extract_by_src: opaque state tokens; the model's scores for step t are an uninterpreted
        function of (t, flat slot, token); extract_by_src(state, index) is recorded with its index tensor;
      log_softmax: uninterpreted element function; beam_search_advance: the postcondition proved in C04.P.advance_step.
    Ghost genealogy, recorded step by step: source(t, n, k), token(t, n, k) and step_score(t, n, s, v) = the normalised score the model
    gave at step t to token v after the path in slot s. Defined from it by recursion on t:
        alive(t+1, n, k) = k below the number of candidates and alive(t, n, source);   chained(t+1, n, k) = chained(t, n, source) + step_score(t, n, source, token)
        path(t+1, n, k, r) = token if r = t else path(t, n, source, r);   differ(t+1, n, k, k') = differ(t, n, source, source') if the sources differ else t
    Loop invariant (k < current width):  the slot's score is -inf exactly when it is not alive; an alive slot has length t, score
    chained(t) and rows path(t); two alive slots differ at row differ(t) < t; lengths within the rows of the path tensor.
    Per iteration it is also proved that the model is asked about exactly the (clamped) paths with the current state and step, and that the
    next state is the model's new state re-indexed by the global source index n * width' + source - the state follows the paths.
    After the loop: the returned triple is the beam padded to the width (only when no step was taken)."""
    import pydrobert.torch._decoding as D
    import pydrobert.torch._lm as LMM
    from vf.pyvc import symtensor as stn
    from vf.pyvc.interp import LoopSpec, PathAbort

    z = ip.to_z3
    N, W, V, MI, PADV, N0, K0, K1, R0 = z3.Ints("N width V max_iters pad_value n0 k0 k1 r0")
    Iz, Rz, Bz = z3.IntSort(), z3.RealSort(), z3.BoolSort()
    fn = lambda nm, *so: z3.Function(nm, *so)
    SRC, TOK, LSM = fn("source", Iz, Iz, Iz, Iz), fn("token", Iz, Iz, Iz, Iz), fn("step_score", Iz, Iz, Iz, Iz, Rz)
    ALIVE, CH, PATH, DIFF = fn("alive", Iz, Iz, Iz, Bz), fn("chained", Iz, Iz, Iz, Rz), fn("path", Iz, Iz, Iz, Iz, Iz), fn("differ", Iz, Iz, Iz, Iz, Iz)
    pw_of = lambda t: z3.If(t == 0, 1, W)
    kk_of = lambda t: z3.If(W <= pw_of(t) * V, W, pw_of(t) * V)
    t_, n_, k_, k2_, r_ = z3.Ints("t_q n_q k_q k2_q r_q")
    base_def = lambda n: z3.And(ALIVE(0, n, 0), CH(0, n, 0) == 0)
    rec_alive = lambda t, n, k: z3.Implies(t >= 0, ALIVE(t + 1, n, k) == z3.And(0 <= k, k < kk_of(t), ALIVE(t, n, SRC(t, n, k))))
    rec_ch = lambda t, n, k: z3.Implies(t >= 0, CH(t + 1, n, k) == CH(t, n, SRC(t, n, k)) + LSM(t, n, SRC(t, n, k), TOK(t, n, k)))
    rec_path = lambda t, n, k, r: z3.Implies(t >= 0, PATH(t + 1, n, k, r) == z3.If(r == t, TOK(t, n, k), PATH(t, n, SRC(t, n, k), r)))
    rec_diff = lambda t, n, k, k2: z3.Implies(t >= 0, DIFF(t + 1, n, k, k2) == z3.If(SRC(t, n, k) != SRC(t, n, k2), DIFF(t, n, SRC(t, n, k), SRC(t, n, k2)), t))
    Bq = lambda c: z3.BoolVal(c) if isinstance(c, bool) else c

    class Tok:  # an opaque model state
        def __init__(self, what, **kw):
            self.what, self.kw = what, kw

    def inv_parts(st, t):
        """the invariant after t steps at the skolem element n0, slots k0 / k1, row r0"""
        y, lens, lp, pw = st["y_prev"], st["y_prev_lens"], st["log_probs_prev"], st["prev_width"]
        rows = z(y.shape[0])
        nf = lambda k: Bq(ct.ng_split(lp.elem(N0, k))[0])
        val = lambda k: z(ct.ng_split(lp.elem(N0, k))[1])
        slot = lambda k: z3.And(0 <= k, k < pw_of(t))
        return [("width_and_shapes", z3.And(z(pw) == pw_of(t), z(y.shape[1]) == N, z(y.shape[2]) == pw_of(t), z(lens.shape[0]) == N, z(lens.shape[1]) == pw_of(t), z(lp.shape[0]) == N, z(lp.shape[1]) == pw_of(t), rows >= 0)),
                ("lengths_within_the_rows", z3.Implies(slot(K0), z3.And(0 <= z(lens.elem(N0, K0)), z(lens.elem(N0, K0)) <= rows))),
                ("score_is_minus_inf_exactly_when_not_alive", z3.Implies(slot(K0), nf(K0) == z3.Not(ALIVE(t, N0, K0)))),
                ("alive_slot_has_length_t", z3.Implies(z3.And(slot(K0), ALIVE(t, N0, K0)), z(lens.elem(N0, K0)) == t)),
                ("alive_slot_has_the_chained_score", z3.Implies(z3.And(slot(K0), ALIVE(t, N0, K0)), val(K0) == CH(t, N0, K0))),
                ("alive_slot_holds_its_path", z3.Implies(z3.And(slot(K0), ALIVE(t, N0, K0), 0 <= R0, R0 < t), z3.And(z(y.elem(R0, N0, K0)) == PATH(t, N0, K0, R0), 0 <= PATH(t, N0, K0, R0), PATH(t, N0, K0, R0) < V))),
                ("alive_slots_hold_different_paths", z3.Implies(z3.And(slot(K0), slot(K1), K0 != K1, ALIVE(t, N0, K0), ALIVE(t, N0, K1)),
                                                              z3.And(0 <= DIFF(t, N0, K0, K1), DIFF(t, N0, K0, K1) < t, PATH(t, N0, K0, DIFF(t, N0, K0, K1)) != PATH(t, N0, K1, DIFF(t, N0, K0, K1)))))]

    def inv_all(st, t):
        """the same, quantified over element, slots and row (as a hypothesis)"""
        sub = [(N0, n_), (K0, k_), (K1, k2_), (R0, r_)]
        return z3.ForAll([n_, k_, k2_, r_], z3.Implies(z3.And(0 <= n_, n_ < N), z3.substitute(z3.And([g for _, g in inv_parts(st, t)]), *sub)))

    def inv_inst(st, t, n, k, k2, r):
        return z3.Implies(z3.And(0 <= n, n < N), z3.substitute(z3.And([g for _, g in inv_parts(st, t)]), (N0, n), (K0, k), (K1, k2), (R0, r)))

    def thunk(I):
        I.stubs.update(stn.stubs())
        names = ("y_prev", "y_prev_lens", "log_probs_prev", "prev_width", "prev")
        g = I.ex.ghost
        g["calls"] = []

        def update_input(I2, a, kw):
            return Tok("initial")

        def calc(I2, a, kw):
            hist, prev, t = a[1], a[2], a[3]
            cur = g.get("cur")
            if cur is None:
                raise ip.Unsupported("the model is queried outside the search loop")
            tt, pw = cur["t"], cur["pw"]
            I2.ex.oblige("structure.model_query.once_per_step", z3.BoolVal("lmo" not in cur))
            I2.ex.oblige("model_is_asked_with_the_current_state_and_step", z3.And(z3.BoolVal(prev is cur["st"]["prev"] and hasattr(t, "elem") and len(t.shape) == 0), z(t.elem()) == tt))
            yq = cur["st"]["y_prev"]
            clampv = lambda x: z3.If(x < 0, 0, z3.If(x > V - 1, V - 1, x))
            I2.ex.oblige("model_is_asked_about_the_clamped_paths", z3.And(z3.BoolVal(hasattr(hist, "elem") and len(hist.shape) == 2), z(hist.shape[0]) == z(yq.shape[0]), z(hist.shape[1]) == N * pw,
                                                                          z3.Implies(z3.And(0 <= R0, R0 < z(yq.shape[0]), 0 <= N0, N0 < N, 0 <= K0, K0 < pw), z(hist.elem(R0, N0 * pw + K0)) == clampv(z(yq.elem(R0, N0, K0))))))
            LMO = stn._fresh("model_score", Iz, Iz, Rz)
            cur["lmo"] = LMO
            cur["in_next"] = Tok("after_step")
            return (stn.ST((N * pw, V), lambda i, v: LMO(z(i), z(v)), "float"), cur["in_next"])

        def extract(I2, a, kw):
            cur = g.get("cur")
            if cur is None or "adv" not in cur:
                raise ip.Unsupported("extract_by_src outside a step of the search loop")
            state, idx = a[1], a[2]
            adv, pw = cur["adv"], cur["pw"]
            I2.ex.oblige("next_state_is_the_new_model_state_reindexed_by_the_global_source", z3.And(z3.BoolVal(state is cur["in_next"] and hasattr(idx, "elem") and len(idx.shape) == 1), z(idx.shape[0]) == N * W,
                                                                                                   z3.Implies(z3.And(0 <= N0, N0 < N, 0 <= K0, K0 < W), z(idx.elem(N0 * W + K0)) == N0 * pw + adv["S"](N0, K0))))
            cur["extracted"] = Tok("extracted")
            return cur["extracted"]

        def advance(I2, a, kw):
            """callee contract = the postcondition of C04.P.advance_step (lengths given, scores possibly -inf)"""
            cur = g.get("cur")
            if cur is None or "lmo" not in cur or kw:
                raise ip.Unsupported("beam_search_advance outside a step of the search loop")
            lt, width, lp, y, lens = a
            st, tt, pw = cur["st"], cur["t"], cur["pw"]
            LS = [x for x in I2.ex.ghost.get("log_softmaxes", [])]
            if len(LS) != 1:
                raise ip.Unsupported("the step does not normalise the model's scores with exactly one log_softmax")
            I2.ex.oblige("structure.one_log_softmax_per_step", z3.BoolVal(len(LS) == 1 and LS[-1]["dim"] == 2))
            lsf = LS[-1]["LS"]
            cur["ls"] = lsf
            I2.ex.oblige("advance_gets_the_normalised_model_scores_per_slot", z3.And(z3.BoolVal(hasattr(lt, "elem") and len(lt.shape) == 3), z(lt.shape[0]) == N, z(lt.shape[1]) == pw, z(lt.shape[2]) == V,
                                                                                     z3.Implies(z3.And(0 <= N0, N0 < N, 0 <= K0, K0 < pw, 0 <= R0, R0 < V), z(lt.elem(N0, K0, R0)) == lsf(N0, K0, R0)),
                                                                                     z3.Implies(z3.And(0 <= N0, N0 < N, 0 <= K0, K0 < pw, 0 <= R0, R0 < V), z(LS[-1]["of"].elem(N0, K0, R0)) == cur["lmo"](N0 * pw + K0, R0))))
            clampv = lambda x: z3.If(x < 0, 0, z3.If(x > V - 1, V - 1, x))
            I2.ex.oblige("advance_gets_the_width_the_scores_the_paths_and_the_lengths", z3.And(z(width) == W, z3.BoolVal(lp is st["log_probs_prev"] and lens is st["y_prev_lens"] and hasattr(y, "elem") and len(y.shape) == 3),
                                                                                               z(y.shape[0]) == z(st["y_prev"].shape[0]), z3.Implies(z3.And(0 <= R0, R0 < z(y.shape[0]), 0 <= N0, N0 < N, 0 <= K0, K0 < pw),
                                                                                                                                                       z(y.elem(R0, N0, K0)) == clampv(z(st["y_prev"].elem(R0, N0, K0))))))
            rows = z(st["y_prev"].shape[0])
            S_, W_, NF_, VAL_, LEN_, Y_ = (stn._fresh(nm, *so) for nm, so in (("slot_source", (Iz, Iz, Iz)), ("slot_token", (Iz, Iz, Iz)), ("slot_score_is_minus_inf", (Iz, Iz, Bz)), ("slot_score", (Iz, Iz, Rz)),
                                                                                 ("slot_length", (Iz, Iz, Iz)), ("slot_path", (Iz, Iz, Iz, Iz))))
            ROWS2 = I2.ex.fresh("int", "rows_after")
            KK = z3.If(W <= pw * V, W, pw * V)
            lpn = lambda n, k: ct.ng_split(lp.elem(n, k))
            real = lambda n, k: z3.And(0 <= n, n < N, 0 <= k, k < KK)
            post_slot = lambda n, k: z3.Implies(real(n, k), z3.And(0 <= S_(n, k), S_(n, k) < pw, 0 <= W_(n, k), W_(n, k) < V, NF_(n, k) == Bq(lpn(n, S_(n, k))[0]),
                                                                    z3.Implies(z3.Not(Bq(lpn(n, S_(n, k))[0])), VAL_(n, k) == z(lpn(n, S_(n, k))[1]) + lsf(n, S_(n, k), W_(n, k))),
                                                                    LEN_(n, k) == z(lens.elem(n, S_(n, k))) + 1, z(lens.elem(n, S_(n, k))) < ROWS2))
            post_cell = lambda n, k, r: z3.Implies(z3.And(real(n, k), 0 <= r, r <= z(lens.elem(n, S_(n, k)))), Y_(r, n, k) == z3.If(r == z(lens.elem(n, S_(n, k))), W_(n, k), z(y.elem(r, n, S_(n, k)))))
            post_distinct = lambda n, k, k2: z3.Implies(z3.And(real(n, k), real(n, k2), k != k2), z3.Or(S_(n, k) != S_(n, k2), W_(n, k) != W_(n, k2)))
            post_filler = lambda n, k: z3.Implies(z3.And(0 <= n, n < N, KK <= k, k < W), z3.And(NF_(n, k), LEN_(n, k) == 0))
            I2.ex.assume(z3.Or(ROWS2 == rows, ROWS2 == rows + 1))
            a1, a2, a3, a4 = z3.Ints("a1_q a2_q a3_q a4_q")
            I2.ex.assume(z3.ForAll([a1, a2], post_slot(a1, a2)))
            I2.ex.assume(z3.ForAll([a1, a2, a3], post_cell(a1, a2, a3)))
            I2.ex.assume(z3.ForAll([a1, a2, a3], post_distinct(a1, a2, a3)))
            I2.ex.assume(z3.ForAll([a1, a2], post_filler(a1, a2)))
            cur["adv"] = {"S": S_, "W": W_, "slot": post_slot, "cell": post_cell, "distinct": post_distinct, "filler": post_filler, "KK": KK}
            return (stn.ST((ROWS2, N, W), lambda r, n, k: Y_(z(r), z(n), z(k)), "long"), stn.ST((N, W), lambda n, k: LEN_(z(n), z(k)), "long"),
                    stn.ST((N, W), lambda n, k: ct.NegGuarded(NF_(z(n), z(k)), VAL_(z(n), z(k))), "float"), stn.ST((N, W), lambda n, k: S_(z(n), z(k)), "long"))

        I.contracts.update({"SequentialLanguageModel.update_input": update_input, "SequentialLanguageModel.calc_idx_log_probs": calc,
                            "ExtractableSequentialLanguageModel.extract_by_src": extract, "pydrobert.torch._decoding.beam_search_advance": advance})

        class Steps(LoopSpec):
            def run(self, I2, s, f):
                it = I.eval(s.iter, f)
                I.ex.oblige("structure.loop.range", z3.And(z(it.lo) == 0, z(it.hi) == MI, z(it.step) == 1))
                st0 = {nm: ip.local(f, nm) for nm in names}
                I.ex.instance(base_def(N0))
                for lbl, gl in inv_parts(st0, z3.IntVal(0)):
                    I.ex.oblige("search.init." + lbl, gl)
                t = I.ex.fresh("int", "step")
                PW, ROWS = I.ex.fresh("int", "width_now"), I.ex.fresh("int", "rows_now")
                fr = lambda nm, *so: stn._fresh(nm, *so)
                Yh, Lh, NFh, Vh = fr("y_now", Iz, Iz, Iz, Iz), fr("len_now", Iz, Iz, Iz), fr("score_now_is_minus_inf", Iz, Iz, Bz), fr("score_now", Iz, Iz, Rz)
                st = {"y_prev": stn.ST((ROWS, N, PW), lambda r, n, k: Yh(z(r), z(n), z(k)), "long"), "y_prev_lens": stn.ST((N, PW), lambda n, k: Lh(z(n), z(k)), "long"),
                      "log_probs_prev": stn.ST((N, PW), lambda n, k: ct.NegGuarded(NFh(z(n), z(k)), Vh(z(n), z(k))), "float"), "prev_width": PW, "prev": Tok("carried")}
                for nm in names:
                    f.locals[nm] = st[nm]
                if I.ex.choose(2) == 0:
                    I.ex.assume(z3.And(0 <= t, t < MI))
                    I.ex.assume(inv_all(st, t))
                    cur = {"t": t, "pw": PW, "st": st}
                    g["cur"] = cur
                    I.ex.ghost["skolem_hooks"] = [lambda ii: [inv_inst(st, t, a, b, b, z3.IntVal(0)) for a in ii for b in ii if a is not b]]
                    I.ex.instance(inv_inst(st, t, N0, K0, K1, R0))
                    I.assign(s.target, t, f)
                    I.exec_block(s.body, f)
                    st1 = {nm: ip.local(f, nm) for nm in names}
                    if "adv" not in cur:
                        raise ip.Unsupported("the step did not call beam_search_advance")
                    adv, lsf = cur["adv"], cur["ls"]
                    I.ex.oblige("state_carried_into_the_next_step_is_the_reindexed_one", z3.BoolVal(cur.get("extracted") is not None and st1["prev"] is cur.get("extracted")))
                    S0, S1 = adv["S"](N0, K0), adv["S"](N0, K1)
                    # ghost assignment: the genealogy of step t is what this step did
                    ghost = lambda n, k, sv, v: z3.And(SRC(t, n, k) == adv["S"](n, k), TOK(t, n, k) == adv["W"](n, k), LSM(t, n, sv, v) == lsf(n, sv, v))
                    I.ex.assume(z3.ForAll([n_, k_, k2_, r_], ghost(n_, k_, k2_, r_)))
                    for y_ in (ghost(N0, K0, S0, adv["W"](N0, K0)), ghost(N0, K1, S1, adv["W"](N0, K1)), adv["slot"](N0, K0), adv["slot"](N0, K1), adv["cell"](N0, K0, R0), adv["cell"](N0, K1, R0),
                               adv["cell"](N0, K0, DIFF(t, N0, S0, S1)), adv["cell"](N0, K1, DIFF(t, N0, S0, S1)), adv["cell"](N0, K0, t), adv["cell"](N0, K1, t),
                               adv["distinct"](N0, K0, K1), adv["filler"](N0, K0), adv["filler"](N0, K1),
                               inv_inst(st, t, N0, S0, S1, R0), inv_inst(st, t, N0, S1, S0, R0), inv_inst(st, t, N0, S0, S1, DIFF(t, N0, S0, S1)), inv_inst(st, t, N0, S1, S0, DIFF(t, N0, S0, S1)),
                               rec_alive(t, N0, K0), rec_alive(t, N0, K1), rec_ch(t, N0, K0), rec_path(t, N0, K0, R0), rec_path(t, N0, K0, DIFF(t, N0, S0, S1)), rec_path(t, N0, K1, DIFF(t, N0, S0, S1)),
                               rec_path(t, N0, K0, t), rec_path(t, N0, K1, t), rec_path(t, N0, K0, DIFF(t + 1, N0, K0, K1)), rec_path(t, N0, K1, DIFF(t + 1, N0, K0, K1)), rec_diff(t, N0, K0, K1)):
                        I.ex.instance(y_)
                    for lbl, gl in inv_parts(st1, t + 1):
                        I.ex.oblige("search.step." + lbl, gl)
                    raise PathAbort()
                g["cur"] = None
                I.ex.assume(MI >= 0)
                I.ex.assume(inv_all(st, z3.IntVal(0) + MI))
                I.ex.instance(inv_inst(st, z3.IntVal(0) + MI, N0, K0, K1, R0))
                g["final"] = st

        I.loops[("forward", 0)] = Steps("search", None, None, None, {})
        lm = ip.SObj(LMM.ExtractableSequentialLanguageModel, {"vocab_size": V}, "lm")
        dev = stn.ST((0,), lambda i: z3.RealVal(0), "float")
        obj = ip.SObj(D.BeamSearch, {"lm": lm, "width": W, "eos": None, "finish_all_paths": False, "pad_value": PADV, "device_buffer": dev}, "search")
        return I.call(I.getattr(obj, "forward"), [None, N, MI], {})

    def post(p):
        if not api.returns(p) or not isinstance(p.value, tuple) or len(p.value) != 3 or "final" not in p.ghost:
            return False
        y, lens, lp = p.value
        t = z3.IntVal(0) + MI
        nf = Bq(ct.ng_split(lp.elem(N0, K0))[0])
        val = z(ct.ng_split(lp.elem(N0, K0))[1])
        slot = z3.And(0 <= K0, K0 < W)
        al = z3.And(K0 < pw_of(t), ALIVE(t, N0, K0))   # slots added by the final padding are not alive
        al1 = z3.And(K1 < pw_of(t), ALIVE(t, N0, K1))
        return [("result_shapes", z3.And(z3.BoolVal(len(y.shape) == 3 and len(lens.shape) == 2 and len(lp.shape) == 2), z(y.shape[1]) == N, z(y.shape[2]) == W, z(lens.shape[0]) == N, z(lens.shape[1]) == W, z(lp.shape[0]) == N, z(lp.shape[1]) == W)),
                ("score_is_minus_inf_exactly_when_the_slot_holds_no_path", z3.Implies(slot, nf == z3.Not(al))),
                ("returned_path_has_one_token_per_step_and_the_chained_score", z3.Implies(z3.And(slot, al), z3.And(z(lens.elem(N0, K0)) == t, val == CH(t, N0, K0), z3.Implies(z3.And(0 <= R0, R0 < t), z(y.elem(R0, N0, K0)) == PATH(t, N0, K0, R0))))),
                ("returned_paths_are_pairwise_different", z3.Implies(z3.And(slot, 0 <= K1, K1 < W, K0 != K1, al, al1), z3.And(0 <= DIFF(t, N0, K0, K1), DIFF(t, N0, K0, K1) < t, PATH(t, N0, K0, DIFF(t, N0, K0, K1)) != PATH(t, N0, K1, DIFF(t, N0, K0, K1)))))]

    defs = [z3.ForAll([n_], base_def(n_)), z3.ForAll([t_, n_, k_], rec_alive(t_, n_, k_)), z3.ForAll([t_, n_, k_], rec_ch(t_, n_, k_)), z3.ForAll([t_, n_, k_, r_], rec_path(t_, n_, k_, r_)), z3.ForAll([t_, n_, k_, k2_], rec_diff(t_, n_, k_, k2_))]
    pre = [N >= 1, W >= 1, V >= 1, MI >= 0, 0 <= N0, N0 < N] + defs
    return VC("C04.P.search_loop", "BeamSearch.forward[eos unset; symbolic batch size, width, vocabulary, step limit; any language model]", M, "BeamSearch.forward", thunk, pre=pre, posts=[("beam_after_the_last_step", post)],
              inputs={"N": N, "width": W, "V": V, "max_iters": MI}, timeout_ms=60000, max_paths=64, witness_hints=[N == 1, W == 2, V == 2, MI == 2],
              assumptions=["callee contracts: beam_search_advance = the postcondition of C04.P.advance_step (lengths given, scores possibly -inf); the language model's methods return opaque states and uninterpreted scores; log_softmax an uninterpreted element function (finite values)",
                           "ghost genealogy (source, token, step_score per step) recorded by ghost assignment in the step; alive / chained / path / differ defined from it by recursion on the step (conservative)",
                           "end-of-sequence symbol unset (no early stop, no finished paths) and a batch size given: the eos logic is the bounded driver's; the induction over the steps is the loop rule (init / step obligations)",
                           "float arithmetic treated as real arithmetic; -inf as a flag"])


def p_vcs(ctx):
    return [adv_p_vc(), adv_p_vc(with_lens=True)]


def loop_p_vcs(ctx):
    return [search_loop_p_vc()]


def vcs(ctx):
    shapes = [(1, 1, 2, 0, 2), (1, 2, 2, 1, 3), (1, 2, 2, 1, 5), (2, 1, 2, 1, 1)] if ctx.quick else \
        [(1, 1, 2, 0, 2), (1, 2, 2, 1, 3), (1, 2, 2, 1, 5), (2, 1, 2, 1, 1), (1, 2, 3, 2, 4), (1, 3, 2, 1, 6), (2, 2, 2, 1, 3)]
    return [adv_vc(*s) for s in shapes]
