"""C04, engine A part (S rung): one step of beam search (`beam_search_advance`) on symbolic scores.

The real source (joint scores, top-k, source/extension recovery, prefix gather, growth, filler slots) is executed over
symbolic log-probabilities and prefixes of concrete small shape. top-k has an assumed contract (sorted values, pairwise
distinct in-range indices, value = element at the index, unselected <= last selected; no tie rule). Proved for all contents:
every new score = source prefix score + extension score; every new path = its source prefix followed by the extension
token with length + 1; (source, token) pairs are pairwise distinct; scores are best-first and no unselected candidate
beats a selected one; slots beyond the candidates carry -inf and length 0.
"""
import z3

from vf.pyvc import api, ctensor as ct, interp as ip
from vf.pyvc.api import VC

M = "pydrobert.torch._decoding"


def adv_vc(N, Kp, V, S, width):
    import pydrobert.torch._decoding as D

    name = "N%dKp%dV%dS%dW%d" % (N, Kp, V, S, width)

    def thunk(I):
        lt = ct.CT.symbolic("lt", (N, Kp, V), "float")
        lp = ct.CT.symbolic("lp", (N, Kp), "float")
        y = ct.CT.symbolic("y", (S, N, Kp), "long")
        I.ex.ghost.update(lt=lt, lp=lp, y=y)

        def trunc_divide(I2, a, k):
            x, d = a
            return ct.CT.ew(lambda u: ip.to_z3(u) / d if ct.is_z3(u) else u // d, x, dtype="long")  # indices are non-negative: trunc = floor

        I.contracts["pydrobert.torch._compat.trunc_divide"] = trunc_divide
        return I.call(D.beam_search_advance, [lt, width, lp, y, None], {})

    def post(p):
        if not api.returns(p) or not isinstance(p.value, tuple) or len(p.value) != 4:
            return False
        y_next, lens, lpn, src = p.value
        g = p.ghost
        K = min(width, Kp * V)
        goals = []
        if y_next.shape != (S + 1, N, width) or lens.shape != (N, width) or lpn.shape != (N, width) or src.shape != (N, width):
            return False
        for n in range(N):
            toks = []
            if any(ct.is_inf(lpn.a[n, k]) for k in range(K)):
                goals.append(("n%d.fewer_real_slots_than_candidates" % n, z3.BoolVal(False)))  # a filler where a candidate must be
                continue
            for k in range(K):
                s_ = ip.to_z3(src.a[n, k])
                tok = ip.to_z3(y_next.a[S, n, k])
                toks.append((s_, tok))
                sel = []
                for a in range(Kp):
                    for v in range(V):
                        sel.append(z3.Implies(z3.And(s_ == a, tok == v), z3.And(
                            [ip.to_z3(lpn.a[n, k]) == g["lp"].a[n, a] + g["lt"].a[n, a, v]] + [ip.to_z3(y_next.a[t, n, k]) == g["y"].a[t, n, a] for t in range(S)])))
                goals.append(("n%d.k%d.extends_source" % (n, k), z3.And([s_ >= 0, s_ < Kp, tok >= 0, tok < V, ip.to_z3(lens.a[n, k]) == S + 1] + sel)))
                if k:
                    goals.append(("n%d.k%d.best_first" % (n, k), ip.to_z3(lpn.a[n, k - 1]) >= ip.to_z3(lpn.a[n, k])))
                # no candidate that was not selected beats this one
                for a in range(Kp):
                    for v in range(V):
                        chosen = z3.Or([z3.And(ip.to_z3(src.a[n, j]) == a, ip.to_z3(y_next.a[S, n, j]) == v) for j in range(K)])
                        goals.append(("n%d.k%d.optimal_vs_%d_%d" % (n, k, a, v), z3.Or(chosen, g["lp"].a[n, a] + g["lt"].a[n, a, v] <= ip.to_z3(lpn.a[n, k]))))
            for i in range(K):
                for j in range(i + 1, K):
                    goals.append(("n%d.distinct_%d_%d" % (n, i, j), z3.Or(toks[i][0] != toks[j][0], toks[i][1] != toks[j][1])))
            for k in range(K, width):
                v = lpn.a[n, k]
                goals.append(("n%d.k%d.filler" % (n, k), z3.And(z3.BoolVal(ct.is_inf(v) and v < 0), ip.to_z3(lens.a[n, k]) == 0)))
        return goals

    return VC("C04.S.advance_step", name, M, "beam_search_advance", thunk, posts=[("advance_postcondition", post)], inputs={},
              assumptions=["topk contract (vf/pyvc/ctensor.py): sorted, distinct in-range indices, value at index, unselected <= last selected; no tie rule",
                           "y_prev_lens omitted (all prefixes have full length S); finite scores; float arithmetic as real arithmetic"])


def vcs(ctx):
    shapes = [(1, 1, 2, 0, 2), (1, 2, 2, 1, 3), (1, 2, 2, 1, 5), (2, 1, 2, 1, 1)] if ctx.quick else \
        [(1, 1, 2, 0, 2), (1, 2, 2, 1, 3), (1, 2, 2, 1, 5), (2, 1, 2, 1, 1), (1, 2, 3, 2, 4), (1, 3, 2, 1, 6), (2, 2, 2, 1, 3)]
    return [adv_vc(*s) for s in shapes]
