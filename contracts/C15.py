"""C15 - training control decisions follow the stated rules and survive restarts."""
from contracts import C15_vc
from vf.pyvc import api

try:
    from contracts import C15_rt
except ImportError:
    C15_rt = None
CHECKERS = dict(C15_rt.CHECKERS) if C15_rt else {}

TEXT = {
    "C15.step.rules": "one update_for_epoch call: early-stopping and lr-reduction count-down transitions, stop decision, lr multiplied iff criterion fires outside cool-down and change not negligible (and written to every param group), frame, history invariant preserved",
    "C15.best.argmin": "get_best_epoch = earliest epoch minimising the formatted metric (loop invariant over the history)",
    "C15.P.initial_row": "update_cache without a history file: the epoch-0 row holds each criterion's OWN burn-in and patience, infinite metrics and the configured learning rate (base case of the history invariant)",
}


def run(ctx):
    api.run_vcs(ctx, C15_vc.vcs(ctx) + C15_vc.initial_vcs(ctx), TEXT)
    for a in C15_vc.ASSUME:
        ctx.assume(a)
    if C15_rt:
        C15_rt.run_bounded(ctx)
    else:
        ctx.not_applicable.append("restart equivalence and user-entry typing: bounded driver not present in this tree")
