"""C10 - bounded run-time contracts (engine B): slicing policies yield the documented windows;
token chunks are slice-relative; chunking a data directory yields a well-formed data directory.

Real functions under contract (called through their public entry points):
  pydrobert.torch.functional.slice_spect_data / modules.SliceSpectData                     (_feats.py)
  pydrobert.torch.functional.chunk_token_sequences_by_slices / modules.ChunkTokenSequencesBySlices
  pydrobert.torch.command_line.chunk_torch_spect_data_dir  (chunk-torch-spect-data-dir)  (command_line.py)

Oracle: pure Python on lists, written from the property text and the prose of the SliceSpectData /
ChunkTokenSequencesBySlices documentation (no tensor code shared with the library):

  fixed  stride lobe+1; window size 2*lobe+1 (symmetric) or lobe+1 (causal, future).
         valid-only: windows [k*stride, k*stride+size), k = 0, 1, ..., while they fit inside the sequence.
         otherwise:  first start (lobe+1)//2 - size//2 (symmetric), -lobe (causal), 0 (future); a window
                     is kept iff its middle index lies before the end of the sequence; the middle index is
                     start + size//2 (symmetric), end - 1 (causal), start (future).  Bounds not clamped
                     (the documented examples keep [-2, 1] and [6, 9] for a sequence of 8).
  ali    segment m starts at t == 0 or ali[t-1] != ali[t] (t < length); slice m = [start of segment
         m-lobe (symmetric, causal) else of m, end of segment m+lobe (symmetric, future) else of m);
         a missing neighbour discards the slice under valid-only, else the furthest existing one is used.
  ref    per token t < in_len: discarded if a bound is missing (< 0); start -= lobe (symmetric, causal),
         end += lobe (symmetric, future); discarded if start >= end; valid-only: discarded if start < 0
         or end > other_len; otherwise: discarded unless end > 0 and start < other_len.
  all    windows listed per batch element in order, batch elements in order, sources = batch index;
         omitted in_lens = full width.
  token chunks   kept, in order, iff index < ref_len, both bounds known (>= 0), start <= end and the
         segment is contained in the slice (slice_start <= start and end <= slice_end) or, with partial,
         overlaps it (slice_start < end and start < slice_end); boundaries minus slice start unless retain.
  directory      every output file is named by a window of the policy (in order), its features and
         alignments equal the source restricted to the window (padded by the pad mode outside), its tokens
         are the token chunk of the window; the output satisfies the documented validity conditions of a
         SpectDataSet directory and the library's own validate_spect_data_set.

Readings that the texts leave open are accepted either way (never flagged):
  * other_lens omitted under 'ref' (the documentation does not say what replaces it): the end of the last
    in-length segment (the code's comment) or the largest known in-length end.
  * partial=True and a token with an EMPTY segment touching a slice end, or an empty slice: "overlap"
    alone, or "contained or overlap".
"""
import itertools
import random
import warnings

warnings.filterwarnings("ignore", category=FutureWarning, message=".*torch.jit.script.*")

WTS = ("symmetric", "causal", "future")
POLICIES = ("fixed", "ali", "ref")
PAD_CONST = -7.0

# ---------------------------------------------------------------------------------------------
# the independent spec (pure Python)


def spec_fixed(lens, wt, vo, lobe):
    """lens: per-row sequence lengths. Returns [(n, start, end)] in order."""
    out = []
    stride = lobe + 1
    size = 2 * lobe + 1 if wt == "symmetric" else lobe + 1
    for n, L in enumerate(lens):
        if vo:
            s = 0
            while s + size <= L:
                out.append((n, s, s + size))
                s += stride
            continue
        if wt == "symmetric":
            s, mid_off = (lobe + 1) // 2 - size // 2, size // 2
        elif wt == "causal":
            s, mid_off = -lobe, size - 1
        else:
            s, mid_off = 0, 0
        while s + mid_off < L:
            out.append((n, s, s + size))
            s += stride
    return out


def segments(row, L):
    starts = [t for t in range(L) if t == 0 or row[t - 1] != row[t]]
    return starts, starts[1:] + ([L] if starts else [])


def spec_ali(rows, lens, wt, vo, lobe):
    out = []
    left, right = wt in ("symmetric", "causal"), wt in ("symmetric", "future")
    for n, (row, L) in enumerate(zip(rows, lens)):
        starts, ends = segments(row, L)
        S = len(starts)
        for m in range(S):
            a = m - lobe if left else m
            b = m + lobe if right else m
            if vo:
                if a < 0 or b >= S:
                    continue
            else:
                a, b = max(a, 0), min(b, S - 1)
            out.append((n, starts[a], ends[b]))
    return out


def spec_ref(rows, in_lens, other_lens, wt, vo, lobe):
    """rows[n] = [(start, end), ...]"""
    out = []
    left, right = wt in ("symmetric", "causal"), wt in ("symmetric", "future")
    for n, row in enumerate(rows):
        for t in range(in_lens[n]):
            s, e = row[t]
            if s < 0 or e < 0:
                continue
            if left:
                s -= lobe
            if right:
                e += lobe
            if s >= e:
                continue
            if vo:
                if s < 0 or e > other_lens[n]:
                    continue
            elif not (e > 0 and s < other_lens[n]):
                continue
            out.append((n, s, e))
    return out


def other_len_readings(rows, in_lens):
    """admissible replacements of an omitted other_lens: [last in-length end, largest known in-length end]"""
    last, big = [], []
    for row, L in zip(rows, in_lens):
        last.append(row[L - 1][1] if L > 0 else 0)
        big.append(max([e for s, e in row[:L] if s >= 0 and e >= 0], default=0))
    return [last] if last == big else [last, big]


def spec_tok(row, L, sl, partial, lenient):
    """indices of the tokens kept. lenient: partial means 'contained or overlap' instead of 'overlap'"""
    ss, se = sl
    keep = []
    for j in range(L):
        s, e = row[j]
        if s < 0 or e < 0 or s > e:
            continue
        contained = ss <= s and e <= se
        overlap = ss < e and s < se
        if (contained if not partial else (overlap or (lenient and contained))):
            keep.append(j)
    return keep


# ---------------------------------------------------------------------------------------------
# helpers


def _long(x, shape=None):
    import torch

    t = torch.tensor(x, dtype=torch.long)
    return t if shape is None else t.view(shape)


def _call_slicer(inp, in_lens, other_lens, policy, wt, vo, lobe, via):
    from pydrobert.torch import functional as PF
    from pydrobert.torch import modules as PM

    if via == "module":
        return PM.SliceSpectData(policy, wt, vo, lobe)(inp, in_lens, other_lens)
    return PF.slice_spect_data(inp, in_lens, other_lens, policy, wt, vo, lobe)


def _windows(slices, sources):
    """validate the result's form and turn it into [(n, start, end)]"""
    import torch

    if slices.dtype != torch.long or sources.dtype != torch.long:
        return None, "result dtypes %s/%s, want long" % (slices.dtype, sources.dtype)
    if slices.dim() != 2 or slices.shape[1] != 2 or tuple(sources.shape) != (slices.shape[0],):
        return None, "result shapes %s/%s, want (M,2)/(M,)" % (tuple(slices.shape), tuple(sources.shape))
    return [(int(n), int(s), int(e)) for n, (s, e) in zip(sources.tolist(), slices.tolist())], None


def _cmp(got, wants, vo, inside_lens, what):
    """wants: list of admissible window lists"""
    if vo and inside_lens is not None:
        for n, s, e in got:
            if not (0 <= n < len(inside_lens)) or not (0 <= s < e <= inside_lens[n]):
                return "%s: valid-only window [%d,%d) of element %d does not lie inside its sequence of length %s" % (
                    what, s, e, n, inside_lens[n] if 0 <= n < len(inside_lens) else "?")
    if any(got == w for w in wants):
        return None
    return "%s: windows (source,start,end) %s, documented policy prescribes %s" % (what, got, wants[0] if len(wants) == 1 else wants)


# ---------------------------------------------------------------------------------------------
# C10.fixed.windows


def check_fixed(case):
    """case: {T, N, lens: [..]|None, rest: [..], wt, vo, lobe, via}"""
    import torch

    T, N, lens, wt, vo, lobe = case["T"], case["N"], case["lens"], case["wt"], case["vo"], case["lobe"]
    inp = torch.zeros([N, T] + list(case.get("rest", [])))
    in_lens = None if lens is None else _long(lens, (N,))
    slices, sources = _call_slicer(inp, in_lens, None, "fixed", wt, vo, lobe, case.get("via", "functional"))
    got, msg = _windows(slices, sources)
    if msg:
        return msg
    eff = [T] * N if lens is None else lens
    return _cmp(got, [spec_fixed(eff, wt, vo, lobe)], vo, eff, "fixed/%s/%s/lobe %d, T=%d lens=%s" % (wt, "valid" if vo else "any", lobe, T, lens))


def fixed_bound(ctx):
    return dict(tmax=9, lobemax=4, nrand=0) if ctx.quick else dict(tmax=14, lobemax=7, nrand=30000)


def cases_fixed(ctx):
    b = fixed_bound(ctx)
    i = 0
    for lobe in range(b["lobemax"] + 1):
        for wt in WTS:
            for vo in (True, False):
                base = {"wt": wt, "vo": vo, "lobe": lobe}
                yield dict(base, T=3, N=0, lens=None, rest=[2], via="functional")
                yield dict(base, T=3, N=0, lens=[], rest=[], via="module")
                for T in range(b["tmax"] + 1):
                    for N, rest in ((1, [2]), (2, []), (1, [1, 2])):
                        i += 1
                        yield dict(base, T=T, N=N, lens=None, rest=rest, via=("functional", "module")[i % 2])
                    for L in range(T + 1):
                        i += 1
                        yield dict(base, T=T, N=1, lens=[L], rest=[1], via=("functional", "module")[i % 2])
                    for L0 in range(T + 1):
                        for L1 in range(T + 1):
                            yield dict(base, T=T, N=2, lens=[L0, L1], rest=[], via="functional")
                    yield dict(base, T=T, N=3, lens=[T, 0, T // 2], rest=[2], via="module")
    rng = random.Random(ctx.seed * 7919 + 101)
    for _ in range(b["nrand"]):
        T, N = rng.randint(0, 40), rng.randint(1, 4)
        yield {"wt": rng.choice(WTS), "vo": rng.random() < 0.5, "lobe": rng.randint(0, 12), "T": T, "N": N,
               "lens": None if rng.random() < 0.3 else [rng.randint(0, T) for _ in range(N)], "rest": [1], "via": rng.choice(("functional", "module"))}


# ---------------------------------------------------------------------------------------------
# C10.ali.windows


def check_ali(case):
    """case: {T, rows: N x T label lists, lens: [..]|None, wt, vo, lobe, via}"""
    T, rows, lens, wt, vo, lobe = case["T"], case["rows"], case["lens"], case["wt"], case["vo"], case["lobe"]
    N = len(rows)
    inp = _long(rows, (N, T))
    in_lens = None if lens is None else _long(lens, (N,))
    slices, sources = _call_slicer(inp, in_lens, None, "ali", wt, vo, lobe, case.get("via", "functional"))
    got, msg = _windows(slices, sources)
    if msg:
        return msg
    eff = [T] * N if lens is None else lens
    return _cmp(got, [spec_ali(rows, eff, wt, vo, lobe)], vo, eff, "ali/%s/%s/lobe %d, rows=%s lens=%s" % (wt, "valid" if vo else "any", lobe, rows, lens))


def ali_bound(ctx):
    if ctx.quick:
        return dict(t3=4, t2=6, lobemax=3, pair_t=3, pair_lobe=2, nrand=0)
    return dict(t3=6, t2=7, lobemax=4, pair_t=4, pair_lobe=2, nrand=40000)


def cases_ali(ctx):
    b = ali_bound(ctx)
    cfgs = [(wt, vo) for wt in WTS for vo in (True, False)]
    i = 0
    # single rows: every alignment over an alphabet of 3 (T <= t3) / of 2 (t3 < T <= t2), every length and lens omitted
    for T in range(0, max(b["t3"], b["t2"]) + 1):
        alpha = (0, 1, 2) if T <= b["t3"] else (0, 1)
        for row in itertools.product(alpha, repeat=T):
            for lens in [None] + [[L] for L in range(T + 1)]:
                for lobe in range(b["lobemax"] + 1):
                    for wt, vo in cfgs:
                        i += 1
                        yield {"T": T, "rows": [list(row)], "lens": lens, "wt": wt, "vo": vo, "lobe": lobe, "via": ("functional", "module")[i % 7 == 0]}
    # ordered pairs of (row, length): batch elements must not leak into each other
    for T in range(1, b["pair_t"] + 1):
        rowcfgs = [(list(r), L) for r in itertools.product((0, 1), repeat=T) for L in range(T + 1)]
        for (r0, L0), (r1, L1) in itertools.product(rowcfgs, repeat=2):
            for lobe in range(b["pair_lobe"] + 1):
                for wt, vo in (cfgs if lobe else cfgs[:1]):  # without lobes the window type and validity setting play no role
                    yield {"T": T, "rows": [r0, r1], "lens": [L0, L1], "wt": wt, "vo": vo, "lobe": lobe, "via": "functional"}
        for r0, r1 in itertools.product(itertools.product((0, 1), repeat=T), repeat=2):
            for lobe in range(b["pair_lobe"] + 1):
                for wt, vo in (cfgs if lobe else cfgs[:1]):
                    yield {"T": T, "rows": [list(r0), list(r1)], "lens": None, "wt": wt, "vo": vo, "lobe": lobe, "via": "functional"}
    # the empty batch
    for wt, vo in cfgs:
        yield {"T": 2, "rows": [], "lens": [], "wt": wt, "vo": vo, "lobe": 1, "via": "functional"}
    rng = random.Random(ctx.seed * 7919 + 102)
    for _ in range(b["nrand"]):
        T, N = rng.randint(1, 14), rng.randint(1, 4)
        p = rng.random()
        rows = []
        for _n in range(N):
            row, cur = [], rng.randint(0, 4)
            for _t in range(T):
                if rng.random() < p:
                    cur = rng.randint(0, 4)
                row.append(cur)
            rows.append(row)
        wt, vo = rng.choice(cfgs)
        yield {"T": T, "rows": rows, "lens": None if rng.random() < 0.2 else [rng.randint(0, T) for _ in range(N)], "wt": wt, "vo": vo,
               "lobe": rng.randint(0, 5), "via": rng.choice(("functional", "module"))}


# ---------------------------------------------------------------------------------------------
# C10.ref.windows


def check_ref(case):
    """case: {R, rows: N x R x [start, end], in_lens: [..]|None, other_lens: [..]|None, wt, vo, lobe, via}"""
    R, rows, wt, vo, lobe = case["R"], case["rows"], case["wt"], case["vo"], case["lobe"]
    N = len(rows)
    inp = _long([[[7 + t, s, e] for t, (s, e) in enumerate(row)] for row in rows], (N, R, 3))
    in_lens = None if case["in_lens"] is None else _long(case["in_lens"], (N,))
    other_lens = None if case["other_lens"] is None else _long(case["other_lens"], (N,))
    before = inp.clone()
    slices, sources = _call_slicer(inp, in_lens, other_lens, "ref", wt, vo, lobe, case.get("via", "functional"))
    got, msg = _windows(slices, sources)
    if msg:
        return msg
    if not (inp == before).all():
        return "ref: the input tensor was modified in place"
    il = [R] * N if case["in_lens"] is None else case["in_lens"]
    ols = [case["other_lens"]] if case["other_lens"] is not None else other_len_readings(rows, il)
    wants = []
    for ol in ols:
        w = spec_ref(rows, il, ol, wt, vo, lobe)
        if w not in wants:
            wants.append(w)
    return _cmp(got, wants, vo, case["other_lens"], "ref/%s/%s/lobe %d, rows=%s in_lens=%s other_lens=%s" % (
        wt, "valid" if vo else "any", lobe, rows, case["in_lens"], case["other_lens"]))


def ref_bound(ctx):
    if ctx.quick:
        return dict(vals=(-1, 0, 1, 2, 3), omax=4, lobemax=2, batch=10, nrand=0)
    return dict(vals=(-1, 0, 1, 2, 3, 4), omax=5, lobemax=3, batch=10, nrand=40000)


def _batches(items, k):
    buf = []
    for it in items:
        buf.append(it)
        if len(buf) == k:
            yield buf
            buf = []
    if buf:
        yield buf


def _ref_rowcfgs(b, R, with_in, with_other):
    segs = list(itertools.product(b["vals"], repeat=2))
    for row in itertools.product(segs, repeat=R):
        for il in (range(R + 1) if with_in else (None,)):
            for ol in (range(b["omax"] + 1) if with_other else (None,)):
                yield [list(s) for s in row], il, ol


def cases_ref(ctx):
    b = ref_bound(ctx)
    cfgs = [(wt, vo, lobe) for wt in WTS for vo in (True, False) for lobe in range(b["lobemax"] + 1)]
    i = 0
    for R in (0, 1, 2):
        for with_in in (True, False):
            for with_other in (True, False):
                for batch in _batches(_ref_rowcfgs(b, R, with_in, with_other), b["batch"] if R else 1):
                    for wt, vo, lobe in cfgs:
                        i += 1
                        yield {"R": R, "rows": [r for r, _, _ in batch], "in_lens": [il for _, il, _ in batch] if with_in else None,
                               "other_lens": [ol for _, _, ol in batch] if with_other else None, "wt": wt, "vo": vo, "lobe": lobe,
                               "via": ("functional", "module")[i % 5 == 0]}
    for wt, vo, lobe in cfgs:  # the empty batch
        yield {"R": 2, "rows": [], "in_lens": [], "other_lens": [], "wt": wt, "vo": vo, "lobe": lobe, "via": "functional"}
    rng = random.Random(ctx.seed * 7919 + 103)
    for _ in range(b["nrand"]):
        R, N, Tf = rng.randint(1, 6), rng.randint(1, 4), rng.randint(0, 12)
        rows = []
        for _n in range(N):
            row = []
            for _t in range(R):
                s = rng.randint(-1, Tf + 1)
                e = rng.choice((-1, s, s + 1, rng.randint(0, Tf + 2)))
                row.append([s, e])
            rows.append(row)
        wt, vo, lobe = rng.choice(WTS), rng.random() < 0.5, rng.randint(0, 4)
        yield {"R": R, "rows": rows, "in_lens": None if rng.random() < 0.3 else [rng.randint(0, R) for _ in range(N)],
               "other_lens": None if rng.random() < 0.2 else [rng.randint(0, Tf + 2) for _ in range(N)], "wt": wt, "vo": vo, "lobe": lobe,
               "via": rng.choice(("functional", "module"))}


# ---------------------------------------------------------------------------------------------
# C10.tok.mask / C10.tok.relative


def _tok_call(case):
    from pydrobert.torch import functional as PF
    from pydrobert.torch import modules as PM

    R, rows, slices = case["R"], case["rows"], case["slices"]
    N = len(rows)
    refs = _long([[[100 + j, s, e] for j, (s, e) in enumerate(row)] for row in rows], (N, R, 3))
    sl = _long(slices, (N, 2))
    ref_lens = None if case["ref_lens"] is None else _long(case["ref_lens"], (N,))
    before = refs.clone()
    if case.get("via", "functional") == "module":
        chunked, clens = PM.ChunkTokenSequencesBySlices(case["partial"], case["retain"])(refs, sl, ref_lens)
    else:
        chunked, clens = PF.chunk_token_sequences_by_slices(refs, sl, ref_lens, case["partial"], case["retain"])
    return N, R, refs, before, chunked, clens


def _tok_form(N, refs, before, chunked, clens):
    import torch

    if not (refs == before).all():
        return "the refs argument was modified in place"
    if chunked.dtype != torch.long or clens.dtype != torch.long:
        return "result dtypes %s/%s, want long" % (chunked.dtype, clens.dtype)
    if tuple(clens.shape) != (N,) or chunked.dim() != 3 or chunked.shape[0] != N or chunked.shape[2] != 3:
        return "result shapes %s/%s, want (N,R',3)/(N,)" % (tuple(chunked.shape), tuple(clens.shape))
    if N and (int(clens.min()) < 0 or int(clens.max()) > chunked.shape[1]):
        return "chunked_lens %s outside 0..R'=%d" % (clens.tolist(), chunked.shape[1])
    return None


def check_tok_mask(case):
    """case: {R, rows: N x R x [start, end], slices: N x [start, end], ref_lens: [..]|None, partial, retain, via}
    which tokens are kept (token ids 100+j identify the source position), in order, and chunked_lens."""
    N, R, refs, before, chunked, clens = _tok_call(case)
    msg = _tok_form(N, refs, before, chunked, clens)
    if msg:
        return msg
    rl = [R] * N if case["ref_lens"] is None else case["ref_lens"]
    for n in range(N):
        got = [int(t) - 100 for t in chunked[n, : int(clens[n]), 0].tolist()]
        wants = [spec_tok(case["rows"][n], rl[n], case["slices"][n], case["partial"], lenient) for lenient in ((False, True) if case["partial"] else (False,))]
        if got not in wants:
            return "row %d segments %s (len %d) slice %s partial=%s: kept token positions %s (chunked_lens %d), want %s" % (
                n, case["rows"][n], rl[n], case["slices"][n], case["partial"], got, int(clens[n]), wants[0] if wants[0] == wants[-1] else wants)
    return None


def check_tok_relative(case):
    """same cases: boundaries of every kept token are the source's minus the slice start (retain: unchanged)"""
    N, R, refs, before, chunked, clens = _tok_call(case)
    msg = _tok_form(N, refs, before, chunked, clens)
    if msg:
        return msg
    for n in range(N):
        ss = case["slices"][n][0]
        for k in range(int(clens[n])):
            tid, s, e = (int(v) for v in chunked[n, k].tolist())
            j = tid - 100
            if not (0 <= j < R):
                continue  # not a token of the source: C10.tok.mask reports it
            s0, e0 = case["rows"][n][j]
            want = (s0, e0) if case["retain"] else (s0 - ss, e0 - ss)
            if (s, e) != want:
                return "row %d token %d with segment [%d,%d) in slice %s, retain=%s: boundaries came back (%d,%d), want %s" % (
                    n, j, s0, e0, case["slices"][n], case["retain"], s, e, want)
    return None


def tok_bound(ctx):
    if ctx.quick:
        return dict(vals=(-1, 0, 1, 2, 3), sl=(-1, 0, 1, 2, 3, 4), batch=12, nrand=0)
    return dict(vals=(-1, 0, 1, 2, 3, 4), sl=(-2, -1, 0, 1, 2, 3, 4, 5), batch=12, nrand=40000)


def _tok_rowcfgs(b, R, with_lens):
    segs = list(itertools.product(b["vals"], repeat=2))
    sls = list(itertools.product(b["sl"], repeat=2))
    for row in itertools.product(segs, repeat=R):
        for sl in sls:
            for L in (range(R + 1) if with_lens else (None,)):
                yield [list(s) for s in row], list(sl), L


def cases_tok(ctx):
    b = tok_bound(ctx)
    i = 0
    for R in (0, 1, 2):
        for with_lens in (True, False):
            for batch in _batches(_tok_rowcfgs(b, R, with_lens), b["batch"]):
                for partial in (False, True):
                    for retain in (False, True):
                        i += 1
                        yield {"R": R, "rows": [r for r, _, _ in batch], "slices": [s for _, s, _ in batch],
                               "ref_lens": [L for _, _, L in batch] if with_lens else None, "partial": partial, "retain": retain,
                               "via": ("functional", "module")[i % 5 == 0]}
    for partial in (False, True):  # the empty batch
        yield {"R": 2, "rows": [], "slices": [], "ref_lens": [], "partial": partial, "retain": False, "via": "functional"}
    rng = random.Random(ctx.seed * 7919 + 104)
    for _ in range(b["nrand"]):
        R, N, Tf = rng.randint(1, 6), rng.randint(1, 4), rng.randint(1, 12)
        rows, slices = [], []
        for _n in range(N):
            row = []
            for _t in range(R):
                s = rng.randint(-1, Tf)
                e = rng.choice((-1, s, s + 1, rng.randint(0, Tf + 1)))
                row.append([s, e])
            rows.append(row)
            a = rng.randint(-3, Tf + 1)
            slices.append([a, rng.choice((a, a + 1, rng.randint(-3, Tf + 3)))])
        yield {"R": R, "rows": rows, "slices": slices, "ref_lens": None if rng.random() < 0.3 else [rng.randint(0, R) for _ in range(N)],
               "partial": rng.random() < 0.5, "retain": rng.random() < 0.5, "via": rng.choice(("functional", "module"))}


def _tok_keeps(case):
    """per row: does some reading keep a token?"""
    R = case["R"]
    rl = [R] * len(case["rows"]) if case["ref_lens"] is None else case["ref_lens"]
    return [bool(spec_tok(row, L, sl, case["partial"], True)) for row, L, sl in zip(case["rows"], rl, case["slices"])]


# ---------------------------------------------------------------------------------------------
# C10.dir.wellformed


def _pad_rule(seq, s, e, mode, fill):
    """seq[s:e] with positions outside 0..len-1 filled by the pad mode (constant / replicate)"""
    out = []
    for t in range(s, e):
        if 0 <= t < len(seq):
            out.append(seq[t])
        elif mode == "replicate":
            out.append(seq[0] if t < 0 else seq[-1])
        else:
            out.append(fill)
    return out


def _dir_expected_windows(utt, policy, wt, vo, lobe):
    """admissible window lists [(start, end)] of one utterance"""
    T = utt["T"]
    if policy == "fixed":
        return [[(s, e) for _, s, e in spec_fixed([T], wt, vo, lobe)]]
    if policy == "ali":
        return [[(s, e) for _, s, e in spec_ali([utt["ali"]], [T], wt, vo, lobe)]]
    rows = [[(s, e) for _, s, e in utt["ref"]]]
    R = len(rows[0])
    outs = []
    for ol in [[T]] + other_len_readings(rows, [R]):  # the frame count, or what replaces an omitted other_lens
        w = [(s, e) for _, s, e in spec_ref(rows, [R], ol, wt, vo, lobe)]
        if w not in outs:
            outs.append(w)
    return outs


def _wellformed(out, feat_sub="feat", ali_sub="ali", ref_sub="ref"):
    """the documented validity conditions of a SpectDataSet directory (validate_spect_data_set, 1.-6.)"""
    import os

    import torch

    fdir = os.path.join(out, feat_sub)
    names = sorted(os.listdir(fdir))
    dtype = F = None
    frames = {}
    for nm in names:
        x = torch.load(os.path.join(fdir, nm))
        if not isinstance(x, torch.Tensor) or x.device.type != "cpu":
            return "feat %s is not a CPU tensor" % nm
        if x.dim() != 2:
            return "feat %s has %d dimensions" % (nm, x.dim())
        if dtype is None:
            dtype, F = x.dtype, x.shape[1]
        if x.dtype != dtype or x.shape[1] != F:
            return "feat %s has dtype/width %s/%d, others %s/%d" % (nm, x.dtype, x.shape[1], dtype, F)
        frames[nm] = x.shape[0]
    adir = os.path.join(out, ali_sub)
    if os.path.isdir(adir):
        for nm in sorted(os.listdir(adir)):
            if nm not in frames:
                return "ali %s has no features" % nm
            a = torch.load(os.path.join(adir, nm))
            if a.dtype != torch.long or a.dim() != 1 or a.shape[0] != frames[nm]:
                return "ali %s: dtype %s shape %s for %d frames" % (nm, a.dtype, tuple(a.shape), frames[nm])
    rdir = os.path.join(out, ref_sub)
    if os.path.isdir(rdir):
        ndim = None
        for nm in sorted(os.listdir(rdir)):
            if nm not in frames:
                return "ref %s has no features" % nm
            r = torch.load(os.path.join(rdir, nm))
            if r.dtype != torch.long or r.dim() not in (1, 2):
                return "ref %s: dtype %s, %d dimensions" % (nm, r.dtype, r.dim())
            if ndim is None:
                ndim = r.dim()
            if r.dim() != ndim:
                return "ref %s has %d dimensions, others %d" % (nm, r.dim(), ndim)
            if r.dim() == 2:
                if r.shape[1] != 3:
                    return "ref %s has shape %s" % (nm, tuple(r.shape))
                for tok, s, e in r.tolist():
                    if not ((s < 0 and e < 0) or (0 <= s <= e <= frames[nm])):
                        return "ref %s: token %d has bounds (%d,%d) in an utterance of %d frames" % (nm, tok, s, e, frames[nm])
    return None


def _feat_rows(u, utt):
    return [[float(1000 * (u + 1) + 10 * t + f) for f in range(utt["F"])] for t in range(utt["T"])]


def check_dir(case):
    """case: {utts: [{T, F, ali: [..]|None, ref: [[tok,s,e],..] | [tok,..] | None}], policy, wt, pad: None|constant|replicate,
              lobe, partial, retain, prefix, suffix}
    Messages start with the stage that failed: run / names / feat / ali / ref / valid."""
    import os
    import re
    import tempfile

    import torch
    from pydrobert.torch import command_line, data

    utts, policy, wt, pad, lobe = case["utts"], case["policy"], case["wt"], case["pad"], case["lobe"]
    partial, retain = case["partial"], case["retain"]
    prefix, suffix = case.get("prefix", ""), case.get("suffix", ".pt")
    vo = pad is None
    has_ali = all(u["ali"] is not None for u in utts)
    has_ref = all(u["ref"] is not None for u in utts)
    with tempfile.TemporaryDirectory(prefix="vfC10_") as tmp:
        ind, out = os.path.join(tmp, "in"), os.path.join(tmp, "out")
        for sub, on in (("feat", True), ("ali", has_ali), ("ref", has_ref)):
            if on:
                os.makedirs(os.path.join(ind, sub))
        for u, utt in enumerate(utts):
            nm = "%su%d%s" % (prefix, u, suffix)
            torch.save(torch.tensor(_feat_rows(u, utt), dtype=torch.float32).view(utt["T"], utt["F"]), os.path.join(ind, "feat", nm))
            if has_ali:
                torch.save(_long(utt["ali"], (utt["T"],)), os.path.join(ind, "ali", nm))
            if has_ref:
                r = utt["ref"]
                segs = bool(case.get("ref_segments", True))
                torch.save(_long(r, (len(r), 3)) if segs else _long(r, (len(r),)), os.path.join(ind, "ref", nm))
        args = [ind, out, "--policy", policy, "--window-type", wt, "--lobe-size", str(lobe), "--num-workers", "0", "--quiet",
                "--format-utt", "{utt_id}_{idx}_{start}_{end}", "--file-prefix", prefix, "--file-suffix", suffix]
        if pad is not None:
            args += ["--pad-mode", pad, "--pad-constant", str(PAD_CONST)]
        if partial:
            args.append("--partial-tokens")
        if retain:
            args.append("--retain-token-boundaries")
        with warnings.catch_warnings():
            warnings.simplefilter("ignore")
            rc = command_line.chunk_torch_spect_data_dir(args)
        if rc:
            return "run: command returned %r" % (rc,)
        # ---- names: one output file per window of the policy, in order
        pat = re.compile(r"^%su(\d+)_(\d+)_(-?\d+)_(-?\d+)%s$" % (re.escape(prefix), re.escape(suffix)))
        per_utt = {u: {} for u in range(len(utts))}
        fnames = sorted(os.listdir(os.path.join(out, "feat"))) if os.path.isdir(os.path.join(out, "feat")) else []
        for nm in fnames:
            m = pat.match(nm)
            if not m or int(m.group(1)) not in per_utt:
                return "names: unexpected output file %s" % nm
            per_utt[int(m.group(1))][int(m.group(2))] = (int(m.group(3)), int(m.group(4)), nm)
        for sub, on in (("ali", has_ali), ("ref", has_ref)):
            d = os.path.join(out, sub)
            have = sorted(os.listdir(d)) if os.path.isdir(d) else []
            if on and sub == "ref" and not case.get("ref_segments", True) and not have:
                has_ref = False  # tokens without segments: nothing to restrict, writing no token files is as good as writing empty ones
                continue
            if on and have != fnames:
                return "names: %s/ holds %s, feat/ holds %s" % (sub, have, fnames)
            if not on and have:
                return "names: %s/ written although the source has none" % sub
        for u, utt in enumerate(utts):
            got = per_utt[u]
            if sorted(got) != list(range(len(got))):
                return "names: chunk indices of utterance %d are %s" % (u, sorted(got))
            wins = [got[k][:2] for k in range(len(got))]
            wants = _dir_expected_windows(utt, policy, wt, vo, lobe)
            if wins not in wants:
                return "names: utterance %d (T=%d, ali=%s, ref=%s) chunked into windows %s, policy %s/%s/%s/lobe %d prescribes %s" % (
                    u, utt["T"], utt["ali"], utt["ref"], wins, policy, wt, "valid" if vo else pad, lobe, wants[0] if len(wants) == 1 else wants)
            # ---- every chunk equals the source restricted to its window
            frows = _feat_rows(u, utt)
            for k in range(len(got)):
                s, e, nm = got[k]
                if vo and not (0 <= s < e <= utt["T"]):
                    return "names: valid-only window [%d,%d) outside utterance %d of %d frames" % (s, e, u, utt["T"])
                f = torch.load(os.path.join(out, "feat", nm))
                want_f = _pad_rule(frows, s, e, pad, [PAD_CONST] * utt["F"])
                if f.dim() != 2 or f.tolist() != want_f:
                    return "feat: %s is %s, source[%d:%d] (pad %s) is %s" % (nm, f.tolist(), s, e, pad, want_f)
                if has_ali:
                    a = torch.load(os.path.join(out, "ali", nm))
                    want_a = _pad_rule(utt["ali"], s, e, pad, int(PAD_CONST))
                    if a.dim() != 1 or a.tolist() != want_a:
                        return "ali: %s is %s, source[%d:%d] (pad %s) is %s" % (nm, a.tolist(), s, e, pad, want_a)
                if has_ref:
                    r = torch.load(os.path.join(out, "ref", nm))
                    if not case.get("ref_segments", True):
                        if r.numel():  # tokens without segments: nothing is known to lie in a window
                            return "ref: %s is %s although the source tokens carry no segments" % (nm, r.tolist())
                        continue
                    row = [(ts, te) for _, ts, te in utt["ref"]]
                    wants_r = []
                    for lenient in ((False, True) if partial else (False,)):
                        keep = spec_tok(row, len(row), (s, e), partial, lenient)
                        wants_r.append([[utt["ref"][j][0]] + ([row[j][0], row[j][1]] if retain else [row[j][0] - s, row[j][1] - s]) for j in keep])
                    if r.dim() != 2 or (r.shape[1] != 3) or r.tolist() not in wants_r:
                        return "ref: %s is %s, tokens %s restricted to [%d,%d) (partial=%s retain=%s) are %s" % (
                            nm, r.tolist(), utt["ref"], s, e, partial, retain, wants_r[0])
        # ---- the output is a well-formed data directory (only promised for contained, slice-relative tokens)
        if fnames and not partial and not retain:
            msg = _wellformed(out)
            if msg:
                return "valid: " + msg
            with warnings.catch_warnings():
                warnings.simplefilter("ignore")
                ds = data.SpectDataSet(out, file_prefix=prefix, file_suffix=suffix, warn_on_missing=False, suppress_alis=False, tokens_only=False)
                if sorted(ds.utt_ids) != sorted(nm[len(prefix): len(nm) - len(suffix)] for nm in fnames):
                    return "valid: SpectDataSet lists %s for files %s" % (sorted(ds.utt_ids), fnames)
                try:
                    data.validate_spect_data_set(ds)
                except ValueError as ex:
                    return "valid: validate_spect_data_set rejects the output: %s" % ex
    return None


def _gen_utt(rng, tmax, F, kind):
    T = rng.randint(1, tmax)
    p = rng.random()
    ali, cur = [], rng.randint(0, 2)
    for _ in range(T):
        if rng.random() < p:
            cur = rng.randint(0, 2)
        ali.append(cur)
    ref = []
    for j in range(rng.randint(0, 4)):
        if rng.random() < 0.2:
            ref.append([20 + j, -1, -1])
        else:
            s = rng.randint(0, T)
            e = rng.choice((s, min(s + 1, T), rng.randint(s, T)))
            ref.append([20 + j, s, e])
    return {"T": T, "F": F, "ali": ali if kind in ("all", "ali") else None, "ref": ref if kind in ("all", "ref") else None}


FIXED_SETS = [  # hand-written: lengths 1 and 2, a single run, all-different labels, missing and empty segments, overlapping tokens
    [{"T": 1, "F": 1, "ali": [4], "ref": [[20, 0, 1]]}],
    [{"T": 2, "F": 2, "ali": [0, 1], "ref": [[20, 0, 0], [21, 0, 2], [22, 2, 2]]}, {"T": 5, "F": 2, "ali": [3, 3, 3, 3, 3], "ref": []}],
    [{"T": 8, "F": 1, "ali": [1, 1, 1, 1, 2, 2, 2, 1], "ref": [[20, 0, 3], [21, -1, -1], [22, 3, 3], [23, 2, 6], [24, 6, 8]]},
     {"T": 3, "F": 1, "ali": [0, 1, 2], "ref": [[30, 1, 2]]}, {"T": 6, "F": 1, "ali": [5, 5, 0, 0, 5, 5], "ref": [[40, 4, 6], [41, 0, 4]]}],
    [{"T": 7, "F": 3, "ali": [2, 2, 1, 1, 1, 0, 2], "ref": [[20, 0, 2], [21, 2, 5], [22, 5, 6], [23, 6, 7]]}],
]


def dir_bound(ctx):
    return dict(nsets=4, tmax=8, lobemax=2, nrand=0) if ctx.quick else dict(nsets=12, tmax=10, lobemax=3, nrand=3000)


def _dir_sets(ctx):
    b = dir_bound(ctx)
    sets = [s for s in FIXED_SETS]
    rng = random.Random(1234)  # the enumerated data sets do not depend on the run's seed
    while len(sets) < len(FIXED_SETS) + b["nsets"]:
        F = rng.randint(1, 2)
        sets.append([_gen_utt(rng, b["tmax"], F, "all") for _ in range(rng.randint(1, 3))])
    return sets


def _strip(utts, kind):
    return [dict(u, ali=u["ali"] if kind in ("all", "ali") else None, ref=u["ref"] if kind in ("all", "ref") else None) for u in utts]


def cases_dir(ctx):
    b = dir_bound(ctx)
    sets = _dir_sets(ctx)
    for si, utts in enumerate(sets):
        for policy in POLICIES:
            for wt in WTS:
                for pad in (None, "constant", "replicate"):
                    for lobe in range(b["lobemax"] + 1):
                        base = {"policy": policy, "wt": wt, "pad": pad, "lobe": lobe, "prefix": "", "suffix": ".pt"}
                        for partial, retain in ((False, False), (True, False), (False, True), (True, True)):
                            if (partial or retain) and (lobe != 1 or pad == "replicate"):
                                continue
                            yield dict(base, utts=utts, partial=partial, retain=retain)
                        # only the data the policy needs / features alone
                        need = {"fixed": "none", "ali": "ali", "ref": "ref"}[policy]
                        if si % 2 == 0 and lobe <= 1 and pad != "replicate":
                            yield dict(base, utts=_strip(utts, need), partial=False, retain=False, prefix="p-" if si % 4 == 0 else "", suffix=".x" if si % 4 == 0 else ".pt")
    # tokens without segment information (1-dimensional refs) under the fixed policy
    for utts in sets[:3]:
        for pad in (None, "constant"):
            u2 = [dict(u, ali=None, ref=[r[0] for r in u["ref"]]) for u in utts]
            yield {"policy": "fixed", "wt": "symmetric", "pad": pad, "lobe": 1, "prefix": "", "suffix": ".pt", "utts": u2, "partial": False, "retain": False,
                   "ref_segments": False}
    # an utterance of zero frames next to ordinary ones
    z = {"T": 0, "F": 1, "ali": [], "ref": []}
    for policy in POLICIES:
        for pad in (None, "constant"):
            yield {"policy": policy, "wt": "symmetric", "pad": pad, "lobe": 1, "prefix": "", "suffix": ".pt", "utts": [FIXED_SETS[0][0], z], "partial": False, "retain": False}
    rng = random.Random(ctx.seed * 7919 + 105)
    for _ in range(b["nrand"]):
        F = rng.randint(1, 3)
        utts = [_gen_utt(rng, 14, F, "all") for _ in range(rng.randint(1, 3))]
        yield {"policy": rng.choice(POLICIES), "wt": rng.choice(WTS), "pad": rng.choice((None, None, "constant", "replicate")), "lobe": rng.randint(0, 4),
               "prefix": "", "suffix": ".pt", "utts": utts, "partial": rng.random() < 0.3, "retain": rng.random() < 0.3}


# ---------------------------------------------------------------------------------------------
# guard: the spec reproduces the documentation's worked examples


def oracle_examples():
    """(what, got, want) for every worked example in the SliceSpectData documentation"""
    out = []
    doc_fixed = {("symmetric", True): [[0, 5], [3, 8]], ("causal", True): [[0, 3], [3, 6]], ("future", True): [[0, 3], [3, 6]],
                 # the documentation prints [[-1, 4], [2, 6], [5, 9]] here, which contradicts its own window size 1 + 2 * lobe_size = 5;
                 # the prose (and tests/test_feats.py) give [2, 7], [5, 10]
                 ("symmetric", False): [[-1, 4], [2, 7], [5, 10]],
                 ("causal", False): [[-2, 1], [1, 4], [4, 7]], ("future", False): [[0, 3], [3, 6], [6, 9]]}
    for (wt, vo), want in doc_fixed.items():
        out.append(("fixed %s %s" % (wt, vo), [[s, e] for _, s, e in spec_fixed([8], wt, vo, 2)], want))
    ali = [1] * 4 + [2] * 3 + [1] + [5] * 2
    doc_ali = {("symmetric", True): [[0, 8], [4, 10]], ("causal", True): [[0, 7], [4, 8], [7, 10]], ("future", True): [[0, 7], [4, 8], [7, 10]],
               ("symmetric", False): [[0, 7], [0, 8], [4, 10], [7, 10]], ("causal", False): [[0, 4], [0, 7], [4, 8], [7, 10]],
               ("future", False): [[0, 7], [4, 8], [7, 10], [8, 10]]}
    for (wt, vo), want in doc_ali.items():
        out.append(("ali %s %s" % (wt, vo), [[s, e] for _, s, e in spec_ali([ali], [10], wt, vo, 1)], want))
    ref = [(0, 0), (2, 3), (-1, 1), (0, -1), (3, 5), (4, 4)]
    doc_ref = {("symmetric", True): [[0, 5]], ("causal", True): [[0, 3], [1, 5]], ("future", True): [[0, 2], [2, 5]],
               ("symmetric", False): [[-2, 2], [0, 5], [1, 7]], ("causal", False): [[0, 3], [1, 5]], ("future", False): [[0, 2], [2, 5], [3, 7]]}
    for (wt, vo), want in doc_ref.items():
        out.append(("ref %s %s" % (wt, vo), [[s, e] for _, s, e in spec_ref([ref], [5], [6], wt, vo, 2)], want))
    return out


# ---------------------------------------------------------------------------------------------
# findings on the unchanged tree (the maintainer of known_findings.jsonl decides what becomes a fix)


def _kf_tok_plus(case, msg):
    keeps = _tok_keeps(case)
    return (not case["retain"]) and "boundaries came back" in msg and any(k and sl[0] != 0 for k, sl in zip(keeps, case["slices"]))


def _kf_ali_full(case, msg):
    T = case["T"]
    return T > 0 and len(case["rows"]) > 0 and (case["lens"] is None or any(L == T for L in case["lens"]))


def _ali_total_segments(rows, lens):
    return sum(len(segments(r, L)[0]) for r, L in zip(rows, lens))


def _ali_lobe_wraps(NN, wt, vo, lobe):
    """does the slicer index with a negative stop (NN - offset < 0) that wraps around to a non-empty range?"""
    left, right = wt in ("symmetric", "causal"), wt in ("symmetric", "future")
    if vo:
        offs = (int(left) + int(right)) * lobe
        return NN < offs < 2 * NN
    for n in range(NN + 1, lobe + 1):
        k = 2 * NN - n  # size of sources[: NN - n]
        if k >= 2 or (k == 1 and right):
            return True
    return False


def _kf_ali_lobe(case, msg):
    T, rows = case["T"], case["rows"]
    lens = [T] * len(rows) if case["lens"] is None else case["lens"]
    return "checker raised" in msg and _ali_lobe_wraps(_ali_total_segments(rows, lens), case["wt"], case["vo"], case["lobe"])


def _kf_ref_other(case, msg):
    return case["other_lens"] is None and case["R"] > 0 and "IndexError" in msg


def _kf_fixed_odd(case, msg):
    s = case["lobe"] + 1
    return (case["wt"] == "symmetric" and not case["vo"] and case["lens"] is None and case["lobe"] % 2 == 1 and case["N"] > 0
            and case["T"] % s == s // 2)


def _kf_dir_ali(case, msg):
    return case["policy"] == "ali" and any(u["T"] > 0 for u in case["utts"]) and "checker raised" in msg


def _kf_dir_ref(case, msg):
    return case["policy"] == "ref" and any(u["ref"] for u in case["utts"]) and "checker raised IndexError" in msg


def _kf_dir_fixed_odd(case, msg):
    s = case["lobe"] + 1
    return (case["policy"] == "fixed" and case["wt"] == "symmetric" and case["pad"] is not None and case["lobe"] % 2 == 1 and msg.startswith("names:")
            and any(u["T"] % s == s // 2 for u in case["utts"]))


def _kf_dir_ali_lobe(case, msg):
    return case["policy"] == "ali" and "checker raised" in msg and any(
        _ali_lobe_wraps(_ali_total_segments([u["ali"]], [u["T"]]), case["wt"], case["pad"] is None, case["lobe"]) for u in case["utts"] if u["ali"] is not None)


def _kf_dir_tok(case, msg):
    if case["retain"] or not case.get("ref_segments", True) or not (msg.startswith("ref:") or msg.startswith("valid:")):
        return False
    vo = case["pad"] is None
    for utt in case["utts"]:
        if utt["ref"] is None:
            return False
        row = [(s, e) for _, s, e in utt["ref"]]
        for wins in _dir_expected_windows(utt, case["policy"], case["wt"], vo, case["lobe"]):
            if any(s != 0 and spec_tok(row, len(row), (s, e), case["partial"], True) for s, e in wins):
                return True
    return False


def _kf_dir_tokens_only(case, msg):
    return not case.get("ref_segments", True) and "checker raised" in msg


FINDINGS = [
    {"id": "KF-C10-1", "property": "C10", "clause": "C10.tok.relative",
     "what": "chunk_token_sequences_by_slices(retain=False) ADDS the slice start to the kept tokens' boundaries instead of subtracting it (chunked[..., 1:] += slices[..., 0])",
     "class": "retain == False and some row with slice start != 0 keeps at least one token",
     "witness": {"R": 1, "rows": [[[1, 2]]], "slices": [[1, 2]], "ref_lens": [1], "partial": False, "retain": False, "via": "functional"}},
    {"id": "KF-C10-2", "property": "C10", "clause": "C10.ali.windows",
     "what": "slice_spect_data(policy='ali') loses the end of the last segment of every sequence that fills the whole time dimension (in_lens[n] == T, or in_lens omitted): the end mask is only T wide, so starts and ends no longer pair up -> RuntimeError/IndexError or windows paired with another segment's end",
     "class": "policy 'ali', T > 0 and (in_lens omitted or some in_lens[n] == T)",
     "witness": {"T": 1, "rows": [[0]], "lens": None, "wt": "symmetric", "vo": True, "lobe": 0, "via": "functional"}},
    {"id": "KF-C10-3", "property": "C10", "clause": "C10.ref.windows",
     "what": "slice_spect_data(policy='ref') raises IndexError whenever other_lens is omitted (ends[..., 1].gather(1, ...) indexes a 1-dimensional tensor along dim 1)",
     "class": "policy 'ref', other_lens omitted, R > 0",
     "witness": {"R": 1, "rows": [[[0, 1]]], "in_lens": [1], "other_lens": None, "wt": "symmetric", "vo": True, "lobe": 0, "via": "functional"}},
    {"id": "KF-C10-4", "property": "C10", "clause": "C10.fixed.windows",
     "what": "slice_spect_data(policy='fixed', window_type='symmetric', valid_only=False) with in_lens omitted returns one window too many when lobe_size is odd and T % (lobe_size+1) == (lobe_size+1)/2: its middle index equals T (not before the end of the sequence); with in_lens=[T] given the same window is dropped",
     "class": "policy 'fixed', symmetric, not valid-only, in_lens omitted, lobe odd, T mod (lobe+1) == (lobe+1)/2",
     "witness": {"T": 1, "N": 1, "lens": None, "rest": [], "wt": "symmetric", "vo": False, "lobe": 1, "via": "functional"}},
    {"id": "KF-C10-5", "property": "C10", "clause": "C10.dir.wellformed",
     "what": "chunk-torch-spect-data-dir --policy ali always fails: it calls the slicer without in_lens on full-length alignments (KF-C10-2)",
     "class": "policy 'ali' and some utterance has at least one frame",
     "witness": {"policy": "ali", "wt": "symmetric", "pad": None, "lobe": 0, "prefix": "", "suffix": ".pt", "partial": False, "retain": False,
                 "utts": [{"T": 1, "F": 1, "ali": [4], "ref": None}]}},
    {"id": "KF-C10-6", "property": "C10", "clause": "C10.dir.wellformed",
     "what": "chunk-torch-spect-data-dir --policy ref always fails: it calls the slicer without other_lens (KF-C10-3)",
     "class": "policy 'ref' and some utterance has at least one token",
     "witness": {"policy": "ref", "wt": "symmetric", "pad": None, "lobe": 0, "prefix": "", "suffix": ".pt", "partial": False, "retain": False,
                 "utts": [{"T": 1, "F": 1, "ali": None, "ref": [[20, 0, 1]]}]}},
    {"id": "KF-C10-7", "property": "C10", "clause": "C10.dir.wellformed",
     "what": "chunk-torch-spect-data-dir writes token boundaries shifted by +start instead of -start (KF-C10-1); for windows not starting at 0 the chunk's tokens differ from the source restricted to the window and the output directory fails validation",
     "class": "not --retain-token-boundaries and some window with start != 0 keeps a token",
     "witness": {"policy": "fixed", "wt": "symmetric", "pad": None, "lobe": 0, "prefix": "", "suffix": ".pt", "partial": False, "retain": False,
                 "utts": [{"T": 2, "F": 1, "ali": None, "ref": [[20, 1, 2]]}]}},
    {"id": "KF-C10-8", "property": "C10", "clause": "C10.dir.wellformed",
     "what": "chunk-torch-spect-data-dir raises IndexError on a directory whose refs are token-only (1-dimensional, valid per validate_spect_data_set) as soon as one window exists: the token chunker returns empty (0, R)/(0,) results for refs without segments and the command indexes them per chunk",
     "class": "ref/ holds 1-dimensional token sequences and at least one window is produced",
     "witness": {"policy": "fixed", "wt": "symmetric", "pad": None, "lobe": 0, "prefix": "", "suffix": ".pt", "partial": False, "retain": False, "ref_segments": False,
                 "utts": [{"T": 1, "F": 1, "ali": None, "ref": [20]}]}},
    {"id": "KF-C10-9", "property": "C10", "clause": "C10.dir.wellformed",
     "what": "chunk-torch-spect-data-dir --policy fixed --window-type symmetric --pad-mode M with an odd lobe writes one chunk too many (middle index == number of frames) for utterances with T mod (lobe+1) == (lobe+1)/2 (KF-C10-4; the command never passes in_lens)",
     "class": "policy 'fixed', symmetric, --pad-mode given, lobe odd, some utterance with T mod (lobe+1) == (lobe+1)/2",
     "witness": {"policy": "fixed", "wt": "symmetric", "pad": "constant", "lobe": 1, "prefix": "", "suffix": ".pt", "partial": False, "retain": False,
                 "utts": [{"T": 1, "F": 1, "ali": None, "ref": None}]}},
    {"id": "KF-C10-10", "property": "C10", "clause": "C10.ali.windows",
     "what": "slice_spect_data(policy='ali') raises RuntimeError/IndexError when the lobe reaches further than the total number NN of segments in the batch: starts[: NN - offs] / sources[: NN - n] get a negative stop, which wraps around instead of being empty",
     "class": "policy 'ali', lobe >= 1; valid-only: NN < (1 or 2)*lobe < 2*NN; otherwise: some n in NN+1..lobe with 2*NN - n >= 2, or == 1 for symmetric/future",
     "witness": {"T": 3, "rows": [[0, 1, 1]], "lens": [2], "wt": "causal", "vo": True, "lobe": 3, "via": "functional"}},
    {"id": "KF-C10-11", "property": "C10", "clause": "C10.dir.wellformed",
     "what": "chunk-torch-spect-data-dir --policy ali fails on an utterance with fewer segments than the lobe reaches (KF-C10-10; hidden behind KF-C10-5 while that is open)",
     "class": "policy 'ali' and some utterance's segment count NN satisfies the class of KF-C10-10",
     "witness": {"policy": "ali", "wt": "causal", "pad": None, "lobe": 3, "prefix": "", "suffix": ".pt", "partial": False, "retain": False,
                 "utts": [{"T": 3, "F": 1, "ali": [0, 1, 1], "ref": None}]}},
]
KNOWN_MATCH = {
    "KF-C10-1": _kf_tok_plus,
    "KF-C10-2": _kf_ali_full,
    "KF-C10-3": _kf_ref_other,
    "KF-C10-4": _kf_fixed_odd,
    "KF-C10-5": _kf_dir_ali,
    "KF-C10-6": _kf_dir_ref,
    "KF-C10-7": _kf_dir_tok,
    "KF-C10-8": _kf_dir_tokens_only,
    "KF-C10-9": _kf_dir_fixed_odd,
    "KF-C10-10": _kf_ali_lobe,
    "KF-C10-11": _kf_dir_ali_lobe,
}

CHECKERS = {
    "C10.fixed.windows": check_fixed,
    "C10.ali.windows": check_ali,
    "C10.ref.windows": check_ref,
    "C10.tok.mask": check_tok_mask,
    "C10.tok.relative": check_tok_relative,
    "C10.dir.wellformed": check_dir,
}


def _wanted(ctx, name):
    only = getattr(ctx, "only", None)
    return not only or any(name.startswith(o) for o in only)


def run_bounded(ctx):
    import torch  # noqa: F401  (imported before the first fork: workers start much faster)
    import pydrobert.torch  # noqa: F401
    import pydrobert.torch.command_line  # noqa: F401
    from vf.core import Clause

    ctx.known_match.update(KNOWN_MATCH)
    ex = oracle_examples()
    bad = [w for w, got, want in ex if got != want]
    ctx.add_clause(Clause(name="C10.guard.oracle", kind="guard", status="ok" if not bad else "error", evaluations=len(ex),
                          detail="the spec vs the %d worked examples of the SliceSpectData documentation (the misprinted 'symmetric, not valid_only' fixed example taken "
                                 "from the prose): %d disagreements %s" % (len(ex), len(bad), bad[:3])))
    if bad:
        ctx.errors.append("C10 oracle disagrees with the documentation's examples")
    fb, ab, rb, tb, db = fixed_bound(ctx), ali_bound(ctx), ref_bound(ctx), tok_bound(ctx), dir_bound(ctx)
    if _wanted(ctx, "C10.fixed.windows"):
        ctx.bounded(
            "C10.fixed.windows", check_fixed, cases_fixed(ctx),
            bound="3 window types x valid/any x lobe 0..%d; T = 0..%d; in_lens omitted (N=1,2, trailing dims (),(2,),(1,2)), N=1 every length 0..T, N=2 every ordered pair of lengths, "
                  "N=3 lengths (T,0,T//2); N=0; functional and module; %d seeded random (T<=40, lobe<=12, N<=4)" % (fb["lobemax"], fb["tmax"], fb["nrand"]),
            text="slice_spect_data(policy='fixed'): (slices, sources) equal, in order, the windows of the documented fixed policy (pure-Python oracle); valid-only windows lie inside their sequence",
            nontrivial=lambda c: c["T"] > 0 and c["N"] > 0,
            chunk=256, functions=["_feats.slice_spect_data", "_feats.SliceSpectData.forward"])
    if _wanted(ctx, "C10.ali.windows"):
        ctx.bounded(
            "C10.ali.windows", check_ali, cases_ali(ctx),
            bound="3 window types x valid/any; N=1: every alignment over {0,1,2} with T<=%d%s, in_lens omitted and every length 0..T, lobe 0..%d; N=2: every ordered pair of (alignment over {0,1}, length) "
                  "with T<=%d (and in_lens omitted), lobe 0..%d; N=0; %d seeded random (T<=14, N<=4, 5 labels, lobe<=5)" % (
                      ab["t3"], (" and over {0,1} with T<=%d" % ab["t2"]) if ab["t2"] > ab["t3"] else "", ab["lobemax"], ab["pair_t"], ab["pair_lobe"], ab["nrand"]),
            text="slice_spect_data(policy='ali'): windows equal, in order, those built from the label runs within each length (neighbour segments by lobe, thrown out / clamped per valid-only)",
            nontrivial=lambda c: c["lobe"] > 0 and any(len(segments(r, (c["lens"][n] if c["lens"] is not None else c["T"]))[0]) > 1 for n, r in enumerate(c["rows"])),
            chunk=512, functions=["_feats.slice_spect_data", "_feats.SliceSpectData.forward"])
    if _wanted(ctx, "C10.ref.windows"):
        ctx.bounded(
            "C10.ref.windows", check_ref, cases_ref(ctx),
            bound="3 window types x valid/any x lobe 0..%d; R<=2 tokens per row, every (start,end) in {%s}^2 per token (missing, empty, inverted included), every in_lens 0..R or omitted, "
                  "every other_lens 0..%d or omitted, rows batched %d at a time (N=%d); N=0; %d seeded random (R<=6, N<=4, frames<=12, lobe<=4)" % (
                      rb["lobemax"], ",".join(map(str, rb["vals"])), rb["omax"], rb["batch"], rb["batch"], rb["nrand"]),
            text="slice_spect_data(policy='ref'): windows equal, in order, the lobe-extended known in-length segments that pass the documented valid-only / overlap filter; input not modified",
            nontrivial=lambda c: any(s >= 0 and e >= 0 for row in c["rows"] for s, e in row),
            chunk=256, functions=["_feats.slice_spect_data", "_feats.SliceSpectData.forward"])
    tok_bound_txt = ("R<=2 tokens per row, every (start,end) in {%s}^2 per token, every slice in {%s}^2 (empty, inverted, negative start included), every ref_lens 0..R or omitted, partial x retain, "
                     "rows batched %d at a time; N=0; %d seeded random (R<=6, N<=4, frames<=12)" % (",".join(map(str, tb["vals"])), ",".join(map(str, tb["sl"])), tb["batch"], tb["nrand"]))
    if _wanted(ctx, "C10.tok.mask"):
        ctx.bounded(
            "C10.tok.mask", check_tok_mask, cases_tok(ctx), bound=tok_bound_txt,
            text="chunk_token_sequences_by_slices: the kept tokens are, in order, exactly the in-length tokens with known well-ordered segments contained in (partial: overlapping) the slice; chunked_lens counts them; refs not modified",
            nontrivial=lambda c: any(_tok_keeps(c)),
            chunk=256, functions=["_feats.chunk_token_sequences_by_slices", "_feats.ChunkTokenSequencesBySlices.forward"])
    if _wanted(ctx, "C10.tok.relative"):
        ctx.bounded(
            "C10.tok.relative", check_tok_relative, cases_tok(ctx), bound=tok_bound_txt,
            text="chunk_token_sequences_by_slices: every kept token keeps its id; its boundaries are the source's minus the slice start, or unchanged with retain",
            nontrivial=lambda c: any(k and sl[0] != 0 for k, sl in zip(_tok_keeps(c), c["slices"])),
            chunk=256, functions=["_feats.chunk_token_sequences_by_slices", "_feats.ChunkTokenSequencesBySlices.forward"])
    if _wanted(ctx, "C10.dir.wellformed"):
        ctx.bounded(
            "C10.dir.wellformed", check_dir, cases_dir(ctx),
            bound="%d data directories (4 hand-written + %d generated from a fixed seed: <=3 utterances, 1..%d frames, alignments over 3 labels, <=4 tokens with missing/empty/overlapping segments) x 3 policies x "
                  "3 window types x {valid-only, pad constant, pad replicate} x lobe 0..%d; (partial, retain) in all 4 combinations for lobe 1 and valid-only/constant; variants with only the data the policy needs and a file prefix/suffix; "
                  "token-only refs; a zero-frame utterance; %d seeded random directories (frames<=14, lobe<=4)" % (len(FIXED_SETS) + db["nsets"], db["nsets"], db["tmax"], db["lobemax"], db["nrand"]),
            text="chunk-torch-spect-data-dir (in process, serial): one output utterance per window of the policy, in order; features/alignments equal the source restricted to the window (padded outside), "
                 "tokens equal the token chunk of the window; output passes the documented validity conditions and validate_spect_data_set",
            nontrivial=lambda c: True, chunk=8,
            functions=["command_line.chunk_torch_spect_data_dir", "command_line._chunk_torch_spect_data_dir_do_work", "_feats.slice_spect_data", "_feats.chunk_token_sequences_by_slices", "_pad.chunk_by_slices"])
    ctx.replay_known_witnesses()
    ctx.not_applicable.append("C10.dir: the multi-process path of chunk-torch-spect-data-dir (--num-workers > 0, spawn pool) is not exercised; only the serial path is")
    ctx.not_applicable.append("C10: jit-scripted / traced variants and non-CPU devices of the slicer and the token chunker are not exercised")
    ctx.assume(
        "inputs are well-typed: long tensors, in_lens/ref_lens within 0..width, lobe_size >= 0, window_type and policy among the documented values (other inputs are outside the property)",
        "fixed policy, valid_only=False: bounds are NOT clamped to the sequence (the documentation's examples keep [-2,1] and [6,9] for a sequence of 8, although its prose mentions clamping)",
        "ref policy, other_lens omitted: the documentation names no replacement; the end of the last in-length segment and the largest known in-length end are both accepted",
        "ref policy, valid_only=False: 'begins after other_lens' is read as start >= other_lens (a window must overlap [0, other_lens))",
        "token chunks: a token whose segment has end < start is treated as having no usable segment (never kept)",
        "token chunks, partial=True: for empty segments touching a slice end (and for empty slices) both 'overlap' and 'contained or overlap' are accepted",
        "cells of `chunked` beyond chunked_lens are unconstrained; R' only has to hold the longest chunk",
        "directory level: pad constant -7, feature values distinct per (utterance, frame, coefficient); ref policy accepts the windows for other_lens = frame count or either reading of an omitted other_lens",
        "directory level: well-formedness of the output is only required for contained, slice-relative tokens (partial or retained boundaries are by definition not relative to the chunk)",
    )
