"""C06 - the n-gram lookup model computes Katz back-off on any table (bounded part: contracts/C06_rt.py)."""
from contracts import C06_rt

CHECKERS = dict(C06_rt.CHECKERS)


def run(ctx):
    C06_rt.run_bounded(ctx)
