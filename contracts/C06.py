"""C06 - the n-gram lookup model computes Katz back-off on any table.

Deductive part (contracts/C06_vc.py, S rung): the real trie descent against the back-off recursion for ALL listed values per
table structure and history. Bounded part (contracts/C06_rt.py): tables with concrete values, chunking, per-element idx, reload, ARPA."""
from contracts import C06_rt, C06_vc
from vf.pyvc import api

CHECKERS = dict(C06_rt.CHECKERS)


def run(ctx):
    from vf.pyvc import crosscheck_sym

    crosscheck_sym.guard(ctx)  # the symbolic-shape tensor layer against real torch, before the clause that rests on it
    from contracts import wrap_vc

    api.run_vcs(ctx, [wrap_vc.method_vc("C06.P.method_forwards_parameters", "LookupLanguageModel")], {"C06.P.method_forwards_parameters": "real LookupLanguageModel.calc_idx_log_probs source: the descent is called once with the history, the index, the four buffers and sos / vocab_size / max_ngram / max_ngram_nodes / max_direct_descendants each under its own parameter (V, N, G, S), and its result is returned with the state unchanged"})
    api.run_vcs(ctx, C06_vc.p_vcs(ctx), {"C06.P.descent_is_katz_on_the_view": "real _lookup_calc_idx_log_probs source for a SYMBOLIC order, batch, vocabulary, history (one history index for the batch, or one per batch element) and ANY well-formed flat trie: result = the back-off recursion over the trie's abstract view (loop invariant over the descent)"})
    api.run_vcs(ctx, C06_vc.vcs(ctx), {"C06.S.descent_is_backoff_recursion": "real _lookup_calc_idx_log_probs source over buffers built by the real _build_trie: next-token log-probabilities = the back-off recursion on the table, for all listed log-probabilities (finite or -inf) and back-off weights"},
                bounded="table structures: V=2 (3 in the thorough tier), start symbol inside / outside the vocabulary, orders 2-3, every subset of bigrams resp. sampled subsets of higher-order n-grams (missing suffixes included); every history of length 0..N")
    C06_rt.run_bounded(ctx)
