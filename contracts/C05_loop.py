"""C05.P.search_loop - the frame loop of CTCPrefixSearch.forward (no language model), for SYMBOLIC sizes.

`ctc_prefix_search_advance` is replaced by an OPAQUE contract (fresh results; what one step computes is C05.P.advance_step /
C05.S.advance_step). What is proved here is everything around it, for a symbolic number of frames T, batch size N, vocabulary V, beam
width W and per-element lengths:
  - per frame t the step is called with the softmax of frame t split into its V label classes (used twice: extension and
    non-extension probabilities, broadcast over the current width) and the blank class V, with the beam width, and with the CURRENT
    beam (masses, prefixes, last tokens, lengths, prefix relation);
  - the beam an element carries into the next frame is the step's result while t < length[n], and its own beam, unchanged (widened to
    W with -inf masses the first time), from then on;
  - ghost history: beam(tau, n) = the step's result for frame tau - 1 (recorded by ghost assignment), beam(0, n) = the empty prefix with
    masses (nb, b) = (0, 1); loop invariant: the element carries beam(min(t, length[n]), n); while it is still running also the last
    tokens and the prefix relation are the step's;
  - after the loop: reported probability = nb + b of beam(length[n], n), lengths and prefixes those of that beam.
Hence: the result for element n is the `length[n]`-fold iteration of the step over its own frames - the "standard prefix-beam recursion
of that width" of the property, with the step's own contract saying what one application does."""
import z3

from vf.pyvc import api, ctensor as ct, interp as ip
from vf.pyvc.api import VC

M = "pydrobert.torch._decoding"


def search_loop_p_vc(with_lens=True, fusion=False):
    import pydrobert.torch._decoding as D
    import pydrobert.torch._lm as LMM
    from vf.pyvc import symtensor as stn
    from vf.pyvc.interp import LoopSpec, PathAbort

    z = ip.to_z3
    T, N, V, W, N0, K0, K1, R0 = z3.Ints("T N V width n0 k0 k1 r0")
    BETA = z3.Real("beta")
    EXPF = z3.Function("exp", z3.RealSort(), z3.RealSort())
    Iz, Rz, Bz = z3.IntSort(), z3.RealSort(), z3.BoolSort()
    fn = lambda nm, *so: z3.Function(nm, *so)
    LOGIT, LENS, SM = fn("logit", Iz, Iz, Iz, Rz), fn("lens", Iz, Iz), fn("softmax", Iz, Iz, Iz, Rz)
    L = (lambda n: LENS(n)) if with_lens else (lambda n: T)
    # ghost history of beams: masses (flag = -inf filler), lengths, prefixes, last tokens, prefix relation
    GNBF, GNB, GBF, GB = fn("beam_nb_is_minus_inf", Iz, Iz, Iz, Bz), fn("beam_nb", Iz, Iz, Iz, Rz), fn("beam_b_is_minus_inf", Iz, Iz, Iz, Bz), fn("beam_b", Iz, Iz, Iz, Rz)
    GLEN, GY, GLAST, GISP = fn("beam_len", Iz, Iz, Iz, Iz), fn("beam_y", Iz, Iz, Iz, Iz, Iz), fn("beam_last", Iz, Iz, Iz, Iz), fn("beam_is_prefix", Iz, Iz, Iz, Iz, Bz)
    mn = lambda a, b: z3.If(a <= b, a, b)
    pw_of = lambda t: z3.If(t == 0, 1, W)
    Bq = lambda c: z3.BoolVal(bool(c)) if isinstance(c, (bool, int)) else (c if z3.is_bool(c) else c != 0)
    t_, n_, k_, k2_, r_ = z3.Ints("t_q n_q k_q k2_q r_q")
    # beam(0): the empty prefix in slot 0 with (nb, b) = (0, 1); wider beams only through the -inf widening
    beam0 = lambda n, k: z3.And(z3.Not(GNBF(0, n, 0)), GNB(0, n, 0) == 0, z3.Not(GBF(0, n, 0)), GB(0, n, 0) == 1, GLEN(0, n, 0) == 0, GLAST(0, n, 0) == 0, GISP(0, n, 0, 0),
                                z3.Implies(k >= 1, z3.And(GNBF(0, n, k), GBF(0, n, k), GLEN(0, n, k) == 0)))
    lens_ok = lambda n: z3.Implies(z3.And(0 <= n, n < N), z3.And(0 <= L(n), L(n) <= T))
    names = ("nb_probs_prev", "b_probs_prev", "y_prev", "y_prev_lens", "y_prev_last", "prev_is_prefix", "prev_width") + (("prev",) if fusion else ())

    def inv_parts(st, t):
        nb, b, y, ln, last, isp, pw = (st[x] for x in names[:7])
        tau = mn(t, L(N0))
        slot = lambda k: z3.And(0 <= k, k < pw_of(t))
        cell = lambda x, k: ct.ng_split(x.elem(N0, k))
        running = t <= L(N0)  # (at t = length the element has just received its last frame)
        # a frozen element that was widened at the first frame holds beam(0) in slot 0 and -inf fillers elsewhere: beam(0, n, k >= 1)
        return [("width_and_shapes", z3.And(z(pw) == pw_of(t), z(nb.shape[0]) == N, z(nb.shape[1]) == pw_of(t), z(b.shape[0]) == N, z(b.shape[1]) == pw_of(t), z(ln.shape[0]) == N, z(ln.shape[1]) == pw_of(t),
                                            z(y.shape[1]) == N, z(y.shape[2]) == pw_of(t), z(y.shape[0]) >= 0)),
                ("masses_are_the_recorded_beam", z3.Implies(slot(K0), z3.And(Bq(cell(nb, K0)[0]) == GNBF(tau, N0, K0), z3.Implies(z3.Not(GNBF(tau, N0, K0)), z(cell(nb, K0)[1]) == GNB(tau, N0, K0)),
                                                                              Bq(cell(b, K0)[0]) == GBF(tau, N0, K0), z3.Implies(z3.Not(GBF(tau, N0, K0)), z(cell(b, K0)[1]) == GB(tau, N0, K0))))),
                ("lengths_are_the_recorded_beam", z3.Implies(slot(K0), z3.And(z(ln.elem(N0, K0)) == GLEN(tau, N0, K0), 0 <= z(ln.elem(N0, K0)), z(ln.elem(N0, K0)) <= z(y.shape[0])))),
                ("prefixes_are_the_recorded_beam", z3.Implies(z3.And(slot(K0), 0 <= R0, R0 < GLEN(tau, N0, K0), R0 < z(y.shape[0])), z(y.elem(R0, N0, K0)) == GY(tau, N0, K0, R0))),
                ("running_element_also_carries_last_tokens_and_prefix_relation", z3.Implies(z3.And(running, slot(K0), slot(K1)), z3.And(z(last.elem(N0, K0)) == GLAST(t, N0, K0), Bq(isp.elem(N0, K0, K1)) == GISP(t, N0, K0, K1))))]

    sub_all = lambda fml, n, k, k2, r: z3.substitute(fml, (N0, n), (K0, k), (K1, k2), (R0, r))
    inv_all = lambda st, t: z3.ForAll([n_, k_, k2_, r_], z3.Implies(z3.And(0 <= n_, n_ < N), sub_all(z3.And([g for _, g in inv_parts(st, t)]), n_, k_, k2_, r_)))
    inv_inst = lambda st, t, n, k, k2, r: z3.Implies(z3.And(0 <= n, n < N), sub_all(z3.And([g for _, g in inv_parts(st, t)]), n, k, k2, r))

    def thunk(I):
        I.stubs.update(stn.stubs())
        g = I.ex.ghost
        logits = stn.ST((T, N, V + 1), lambda a, b, c: LOGIT(z(a), z(b), z(c)), "float")
        lens = stn.ST((N,), lambda n: LENS(z(n)), "long") if with_lens else None
        for y_ in (lens_ok(N0),):
            I.ex.instance(y_)

        def softmax(I2, x, dim=-1, **kw):
            I2.ex.oblige("structure.softmax.over_the_classes_of_the_logits", z3.BoolVal(x is logits and dim in (2, -1)))
            return stn.ST((T, N, V + 1), lambda a, b, c: SM(z(a), z(b), z(c)), "float")

        stn_softmax = stn.METH.get("softmax")
        I.stubs["torch.softmax"] = I.stubs["torch.nn.functional.softmax"] = softmax
        g["method_overrides"] = {"softmax": softmax}

        class Tok:  # an opaque model state
            def __init__(self, what, **kw):
                self.what, self.kw = what, kw

        def update_input(I2, a, kw):
            return Tok("initial")

        def calc(I2, a, kw):
            hist, prev, idx = a[1], a[2], a[3]
            cur = g.get("cur")
            if cur is None or "lmo" in cur:
                raise ip.Unsupported("the language model is queried outside a frame of the search loop (or twice in one)")
            st, pw = cur["st"], cur["pw"]
            at = z3.And(0 <= N0, N0 < N, 0 <= K0, K0 < pw)
            I2.ex.oblige("model_is_asked_about_the_current_prefixes_their_lengths_and_state", z3.And(
                z3.BoolVal(prev is st["prev"] and hasattr(hist, "elem") and len(hist.shape) == 2 and hasattr(idx, "elem") and len(idx.shape) == 1), z(hist.shape[0]) == z(st["y_prev"].shape[0]), z(hist.shape[1]) == N * pw, z(idx.shape[0]) == N * pw,
                z3.Implies(z3.And(at, 0 <= R0, R0 < z(st["y_prev"].shape[0])), z(hist.elem(R0, N0 * pw + K0)) == z(st["y_prev"].elem(R0, N0, K0))),
                z3.Implies(at, z(idx.elem(N0 * pw + K0)) == z(st["y_prev_lens"].elem(N0, K0)))))
            LMO = stn._fresh("model_score", Iz, Iz, Rz)
            cur["lmo"], cur["in_next"] = LMO, Tok("after_frame")
            return (stn.ST((N * pw, V), lambda i, v: LMO(z(i), z(v)), "float"), cur["in_next"])

        def extract(I2, a, kw):
            cur = g.get("cur")
            if cur is None or "adv" not in cur:
                raise ip.Unsupported("extract_by_src outside a frame of the search loop")
            state, idx = a[1], a[2]
            o, pw = cur["adv"], cur["pw"]
            which = "old" if state is cur["st"]["prev"] else ("new" if state is cur.get("in_next") else None)
            I2.ex.oblige("states_are_reindexed_by_the_global_source", z3.And(z3.BoolVal(which is not None and which not in cur.setdefault("extracted", {}) and hasattr(idx, "elem") and len(idx.shape) == 1), z(idx.shape[0]) == N * W,
                                                                            z3.Implies(z3.And(0 <= N0, N0 < N, 0 <= K0, K0 < W), z(idx.elem(N0 * W + K0)) == N0 * pw + o["SRC"](N0, K0))))
            tok = Tok("extracted_" + str(which))
            cur.setdefault("extracted", {})[which] = tok
            return tok

        def mix(I2, a, kw):
            cur = g.get("cur")
            ex_ = (cur or {}).get("extracted", {})
            if cur is None or "adv" not in cur or len(a) != 4:
                raise ip.Unsupported("mix_by_mask outside a frame of the search loop")
            t_true, t_false, mask = a[1], a[2], a[3]
            o = cur["adv"]
            # mix_by_mask(prev_true, prev_false, mask): where the mask holds the first state is kept - here: a slot that did NOT extend its
            # prefix keeps the old (re-indexed) state, a slot that extended it takes the model's new (re-indexed) state
            I2.ex.oblige("non_extending_slots_keep_the_old_state_extending_ones_take_the_new", z3.And(z3.BoolVal(t_true is ex_.get("old") and t_false is ex_.get("new") and hasattr(mask, "elem") and len(mask.shape) == 1), z(mask.shape[0]) == N * W,
                                                                                                   z3.Implies(z3.And(0 <= N0, N0 < N, 0 <= K0, K0 < W), Bq(mask.elem(N0 * W + K0)) == o["NONEXT"](N0, K0))))
            cur["mixed"] = Tok("mixed")
            return cur["mixed"]

        if fusion:
            I.contracts.update({"SequentialLanguageModel.update_input": update_input, "SequentialLanguageModel.calc_idx_log_probs": calc,
                                "ExtractableSequentialLanguageModel.extract_by_src": extract, "MixableSequentialLanguageModel.mix_by_mask": mix})
            I.ex.ghost.setdefault("method_overrides", {})["exp"] = lambda I2, t_: stn.ST(t_.shape, (lambda e_: (lambda *idx: EXPF(z(e_(*idx)))))(t_.elem), "float")

        def ext_want(cur, n, k, v, t, pw):
            """extension probability of label v after the prefix in slot k: the frame's label probability, with shallow fusion times
            exp(beta * log_softmax(model scores of that prefix))[v]"""
            if not fusion:
                return SM(t, n, v)
            LS = I.ex.ghost.get("log_softmaxes", [])
            if len(LS) != 1 or "lmo" not in cur:
                raise ip.Unsupported("shallow fusion without exactly one log_softmax of the model's scores in the frame")
            I.ex.oblige("structure.fusion.log_softmax_of_the_model_scores", z3.And(z3.BoolVal(LS[-1]["dim"] == 1), z3.Implies(z3.And(0 <= n, n < N, 0 <= k, k < pw, 0 <= v, v < V), z(LS[-1]["of"].elem(n * pw + k, v)) == cur["lmo"](n * pw + k, v))))
            return EXPF(BETA * LS[-1]["LS"](n * pw + k, v)) * SM(t, n, v)

        def advance(I2, a, kw):
            cur = g.get("cur")
            if cur is None or "adv" in cur or kw or len(a) != 7:
                raise ip.Unsupported("ctc_prefix_search_advance outside a frame of the search loop (or twice in one)")
            (ext, nonext, blank), width, (nbp, bp), y, last, ln, isp = a
            st, t, pw = cur["st"], cur["t"], cur["pw"]
            V0 = z3.Int("v0")
            at = z3.And(0 <= N0, N0 < N, 0 <= K0, K0 < pw, 0 <= V0, V0 < V)
            I2.ex.oblige("step_gets_the_label_and_blank_probabilities_of_frame_t", z3.And(
                z3.BoolVal(all(hasattr(x, "elem") for x in (ext, nonext, blank)) and len(ext.shape) == 3 and len(nonext.shape) == 2 and len(blank.shape) == 1),
                z(ext.shape[0]) == N, z(ext.shape[1]) == pw, z(ext.shape[2]) == V, z(nonext.shape[0]) == N, z(nonext.shape[1]) == V, z(blank.shape[0]) == N,
                z3.Implies(at, z3.And(z(ext.elem(N0, K0, V0)) == ext_want(cur, N0, K0, V0, t, pw), z(nonext.elem(N0, V0)) == SM(t, N0, V0), z(blank.elem(N0)) == SM(t, N0, V)))))
            I2.ex.oblige("step_gets_the_width_and_the_current_beam", z3.And(z(width) == W, z3.BoolVal(nbp is st["nb_probs_prev"] and bp is st["b_probs_prev"] and y is st["y_prev"] and last is st["y_prev_last"]
                                                                                                  and ln is st["y_prev_lens"] and isp is st["prev_is_prefix"])))
            fr = lambda nm, *so: stn._fresh(nm, *so)
            ROWS2 = I2.ex.fresh("int", "rows_after")
            I2.ex.assume(ROWS2 == z(st["y_prev"].shape[0]) + 1)  # the step's result shapes (C05.P.advance_step: one more row than the prefixes had)
            o = {"Y": fr("step_y", Iz, Iz, Iz, Iz), "LAST": fr("step_last", Iz, Iz, Iz), "LEN": fr("step_len", Iz, Iz, Iz), "NBF": fr("step_nb_is_minus_inf", Iz, Iz, Bz), "NB": fr("step_nb", Iz, Iz, Rz),
                 "BF": fr("step_b_is_minus_inf", Iz, Iz, Bz), "B": fr("step_b", Iz, Iz, Rz), "ISP": fr("step_is_prefix", Iz, Iz, Iz, Bz), "SRC": fr("step_src", Iz, Iz, Iz), "NONEXT": fr("step_is_nonext", Iz, Iz, Bz), "ROWS": ROWS2}
            # the step's lengths stay within its rows (part of C05.P.advance_step's result shapes: one row more than the longest prefix needs)
            a1, a2 = z3.Ints("a1_q a2_q")
            len_rows = lambda n, k: z3.Implies(z3.And(0 <= n, n < N, 0 <= k, k < W), z3.And(0 <= o["LEN"](n, k), o["LEN"](n, k) <= ROWS2))
            I2.ex.assume(z3.ForAll([a1, a2], len_rows(a1, a2)))
            o["len_rows"] = len_rows
            cur["adv"] = o
            mk2 = lambda f_, dt: stn.ST((N, W), lambda n, k: f_(z(n), z(k)), dt)
            return (stn.ST((ROWS2, N, W), lambda r, n, k: o["Y"](z(r), z(n), z(k)), "long"), mk2(o["LAST"], "long"), mk2(o["LEN"], "long"),
                    (stn.ST((N, W), lambda n, k: ct.NegGuarded(o["NBF"](z(n), z(k)), o["NB"](z(n), z(k))), "float"), stn.ST((N, W), lambda n, k: ct.NegGuarded(o["BF"](z(n), z(k)), o["B"](z(n), z(k))), "float")),
                    stn.ST((N, W, W), lambda n, k, k2: o["ISP"](z(n), z(k), z(k2)), "bool"), mk2(o["SRC"], "long"), mk2(o["NONEXT"], "bool"))

        I.contracts["pydrobert.torch._decoding.ctc_prefix_search_advance"] = advance

        class Frames(LoopSpec):
            def run(self, I2, s, f):
                it = I.eval(s.iter, f)
                mxs, mns = I.ex.ghost.get("maxes", []), I.ex.ghost.get("mins_all", [])
                for m_ in mxs:
                    I.ex.instance(m_["ub"](N0))
                for m_ in mns:
                    I.ex.instance(m_["lb"](N0))
                LMAX = z(it.hi)
                g["len_max"], g["len_min"] = LMAX, (z(ip.local(f, "len_min")))
                I.ex.oblige("structure.loop.range", z3.And(z(it.lo) == 0, z(it.step) == 1))
                I.ex.oblige("loop_runs_over_the_longest_element", z3.And(z3.Implies(z3.And(0 <= N0, N0 < N), L(N0) <= LMAX), LMAX <= T, LMAX >= 0, z3.Implies(z3.And(0 <= N0, N0 < N), g["len_min"] <= L(N0))))
                rng = lambda n: z3.Implies(z3.And(0 <= n, n < N), z3.And(L(n) <= LMAX, g["len_min"] <= L(n)))
                I.ex.assume(z3.ForAll([n_], rng(n_)))
                I.ex.assume(z3.And(LMAX <= T, LMAX >= 0))
                st0 = {nm: ip.local(f, nm) for nm in names}
                I.ex.instance(beam0(N0, K0))
                I.ex.instance(rng(N0))
                for lbl, gl in inv_parts(st0, z3.IntVal(0)):
                    I.ex.oblige("search.init." + lbl, gl)
                t = I.ex.fresh("int", "frame")
                # the current width is 1 before the first frame and W afterwards: the two cases are explored separately with the width
                # as written (a symbolic extent that merely equals 1 would not broadcast in the tensor model)
                case = I.ex.choose(4)  # 0: first frame, 1: a later frame, 2: exit without any frame, 3: exit after some frame
                PW, ROWS = (1 if case in (0, 2) else W), I.ex.fresh("int", "rows_now")
                fr = lambda nm, *so: stn._fresh(nm, *so)
                h = {"Y": fr("y_now", Iz, Iz, Iz, Iz), "LAST": fr("last_now", Iz, Iz, Iz), "LEN": fr("len_now", Iz, Iz, Iz), "NBF": fr("nb_now_is_minus_inf", Iz, Iz, Bz), "NB": fr("nb_now", Iz, Iz, Rz),
                     "BF": fr("b_now_is_minus_inf", Iz, Iz, Bz), "B": fr("b_now", Iz, Iz, Rz), "ISP": fr("is_prefix_now", Iz, Iz, Iz, Bz)}
                st = {"nb_probs_prev": stn.ST((N, PW), lambda n, k: ct.NegGuarded(h["NBF"](z(n), z(k)), h["NB"](z(n), z(k))), "float"),
                      "b_probs_prev": stn.ST((N, PW), lambda n, k: ct.NegGuarded(h["BF"](z(n), z(k)), h["B"](z(n), z(k))), "float"),
                      "y_prev": stn.ST((ROWS, N, PW), lambda r, n, k: h["Y"](z(r), z(n), z(k)), "long"), "y_prev_lens": stn.ST((N, PW), lambda n, k: h["LEN"](z(n), z(k)), "long"),
                      "y_prev_last": stn.ST((N, PW), lambda n, k: h["LAST"](z(n), z(k)), "long"), "prev_is_prefix": stn.ST((N, PW, PW), lambda n, k, k2: h["ISP"](z(n), z(k), z(k2)), "bool"), "prev_width": PW}
                if fusion:
                    st["prev"] = Tok("carried")
                for nm in names:
                    f.locals[nm] = st[nm]
                if case in (0, 1):
                    I.ex.assume(z3.And(0 <= t, t < LMAX, (t == 0) if case == 0 else (t >= 1)))
                    I.ex.assume(inv_all(st, t))
                    cur = {"t": t, "pw": PW, "st": st}
                    g["cur"] = cur
                    for y_ in (inv_inst(st, t, N0, K0, K1, R0), inv_inst(st, t, N0, z3.IntVal(0), z3.IntVal(0), R0), rng(N0), lens_ok(N0), beam0(N0, K0), beam0(N0, K1)):
                        I.ex.instance(y_)
                    I.assign(s.target, t, f)
                    I.exec_block(s.body, f)
                    st1 = {nm: ip.local(f, nm) for nm in names}
                    o = cur.get("adv")
                    if o is None:
                        raise ip.Unsupported("the frame did not call ctc_prefix_search_advance")
                    if fusion:
                        I.ex.oblige("state_carried_into_the_next_frame_is_the_mixed_one", z3.BoolVal(cur.get("mixed") is not None and st1["prev"] is cur.get("mixed")))
                    # ghost assignment: beam(t + 1, n) is what the step returned for frame t
                    rec = lambda n, k, k2, r: z3.And(GNBF(t + 1, n, k) == o["NBF"](n, k), GNB(t + 1, n, k) == o["NB"](n, k), GBF(t + 1, n, k) == o["BF"](n, k), GB(t + 1, n, k) == o["B"](n, k),
                                                     GLEN(t + 1, n, k) == o["LEN"](n, k), GY(t + 1, n, k, r) == o["Y"](r, n, k), GLAST(t + 1, n, k) == o["LAST"](n, k), GISP(t + 1, n, k, k2) == o["ISP"](n, k, k2))
                    I.ex.assume(z3.ForAll([n_, k_, k2_, r_], rec(n_, k_, k2_, r_)))
                    for y_ in (rec(N0, K0, K1, R0), o["len_rows"](N0, K0)):
                        I.ex.instance(y_)
                    for lbl, gl in inv_parts(st1, t + 1):
                        I.ex.oblige("search.frame." + lbl, gl)
                    raise PathAbort()
                g["cur"] = None
                I.ex.assume((LMAX == 0) if case == 2 else (LMAX >= 1))
                I.ex.assume(inv_all(st, LMAX))
                for y_ in (inv_inst(st, LMAX, N0, K0, K1, R0), rng(N0), lens_ok(N0), beam0(N0, K0)):
                    I.ex.instance(y_)
                g["final"] = st

        I.loops[("forward", 0)] = Frames("search", None, None, None, {})
        lm = ip.SObj(LMM.MixableSequentialLanguageModel, {"vocab_size": V}, "lm") if fusion else None
        obj = ip.SObj(D.CTCPrefixSearch, {"lm": lm, "width": W, "beta": BETA if fusion else 0.2, "valid_mixture": False}, "search")
        return I.call(I.getattr(obj, "forward"), [logits] + ([lens] if with_lens else []), {})

    def post(p):
        if not api.returns(p) or not isinstance(p.value, tuple) or len(p.value) != 3 or "final" not in p.ghost:
            return False
        y, ln, pr = p.value
        tau = L(N0)
        slot = z3.And(0 <= N0, N0 < N, 0 <= K0, K0 < W)
        pf, pv = ct.ng_split(pr.elem(N0, K0))
        return [("result_shapes", z3.And(z3.BoolVal(len(y.shape) == 3 and len(ln.shape) == 2 and len(pr.shape) == 2), z(y.shape[1]) == N, z(y.shape[2]) == W, z(ln.shape[0]) == N, z(ln.shape[1]) == W, z(pr.shape[0]) == N, z(pr.shape[1]) == W)),
                ("probability_is_nb_plus_b_of_the_beam_after_the_elements_own_frames", z3.Implies(slot, z3.And(Bq(pf) == z3.Or(GNBF(tau, N0, K0), GBF(tau, N0, K0)),
                                                                                                               z3.Implies(z3.Not(z3.Or(GNBF(tau, N0, K0), GBF(tau, N0, K0))), z(pv) == GNB(tau, N0, K0) + GB(tau, N0, K0))))),
                ("lengths_and_prefixes_are_that_beams", z3.Implies(slot, z3.And(z(ln.elem(N0, K0)) == GLEN(tau, N0, K0), z3.Implies(z3.And(0 <= R0, R0 < GLEN(tau, N0, K0), R0 < z(y.shape[0])), z(y.elem(R0, N0, K0)) == GY(tau, N0, K0, R0)))))]

    pre = ([BETA > 0, BETA <= 1] if fusion else []) + [T >= 0, N >= 1, V >= 1, W >= 1, 0 <= N0, N0 < N, z3.ForAll([n_], lens_ok(n_)), z3.ForAll([n_, k_], beam0(n_, k_))]
    return VC("C05.P.search_loop", "CTCPrefixSearch.forward[%s, lengths %s; symbolic frames, batch size, vocabulary, width]" % ("shallow fusion with any language model" if fusion else "no language model", "given" if with_lens else "omitted"), M, "CTCPrefixSearch.forward", thunk,
              pre=pre, posts=[("beam_after_the_elements_own_frames", post)], inputs={"T": T, "N": N, "V": V, "width": W}, timeout_ms=60000, max_paths=64, witness_hints=[T == 2, N == 1, V == 2, W == 2],
              assumptions=["callee contract: ctc_prefix_search_advance is opaque here (fresh results of the shapes C05.P.advance_step proves - one more prefix row, width W -; lengths within its rows) - what one step computes is C05.P.advance_step / C05.S.advance_step; softmax over the classes: an uninterpreted element function",
                           "min / max over the lengths: attained bounds (assumed contracts); ghost history beam(tau, n) recorded by ghost assignment in the frame; beam(0) = the empty prefix with masses (0, 1)",
                           "no language model (fusion: bounded driver); lengths within [0, T]; the induction over the frames is the loop rule (init / frame obligations); float arithmetic treated as real arithmetic, -inf as a flag"])


def loop_p_vcs(ctx):
    return [search_loop_p_vc(True), search_loop_p_vc(False), search_loop_p_vc(True, fusion=True)]
