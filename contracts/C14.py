"""C14 - batching loses nothing: buckets, loaders and collation preserve every utterance.

Bounded run-time contracts only so far (contracts/C14_rt.py); the deductive clauses of DESIGN.md
section 3 (C14.bucket.iter_inv, C14.len.formula, C14.collate.lossless element-wise, C14.window.post)
are added here when written.
"""
from contracts import C14_rt

CHECKERS = dict(C14_rt.CHECKERS)


def run(ctx):
    C14_rt.run_bounded(ctx)
