"""C14 - batching loses nothing: buckets, loaders and collation preserve every utterance."""
from contracts import C14_rt, C14_vc
from vf.pyvc import api

CHECKERS = dict(C14_rt.CHECKERS)


def run(ctx):
    api.run_vcs(ctx, C14_vc.vcs(ctx), {"C14.bucket.iter_inv": "BucketBatchSampler.__iter__ for a sampler of symbolic length: per bucket consumed = full*size + pending with 0 <= pending < size; yielded batches have exactly the bucket's size; drop => only the incomplete batch is lost, else flushed once; len formula lemma",
                                       "C14.P.len_is_number_of_batches": "real _get_batch_sampler_len source for a symbolic number of buckets: the reported length is the number of batches __iter__ yields (full batches per bucket, plus the flushed incomplete one when kept), asked for the sampler's current epoch"})
    C14_rt.run_bounded(ctx)
