"""C04 (engine B) - beam search returns distinct, correctly scored, best-first paths per element.

Run-time contracts on the REAL `pydrobert.torch.modules.BeamSearch.__call__` and
`pydrobert.torch.functional.beam_search_advance`, over an enumerated bounded space.

Test language model ("table LM")
--------------------------------
An arbitrary *stateful* sequential LM is represented by `TableLM`: the logits it returns for one
beam slot are a seeded table row `row(tab, b, h, depth)` where

* `b`  is the identity of the batch element. It enters only through `initial_state['b']` and is
  carried through the search only by `extract_by_src` (so an element leaking into another, or a
  wrong `next_src` offset, changes the scores);
* `h`  is an injective code of the whole token history. In mode 'state' it is *threaded*: it lives in
  `prev['h']` and is updated in `calc_idx_log_probs` from `(prev['h'], hist[idx-1])` exactly like a
  recurrent cell, so it is right only if the model state follows the surviving paths. In mode 'hist'
  it is recomputed from `hist[:idx]` (a stateless n-gram-like LM with unbounded order), so it is
  right only if the prefixes themselves follow the surviving paths.

The model also polices its own protocol: it refuses to be stepped more often than the step limit
(`SearchDidNotEnd`) or with `idx > hist.size(0)` (`ProtocolBreach`; the base class documents idx in
[0, hist.size(0)]), so a search that would not end, or that hands the model a history shorter than
the step index, fails the contract instead of hanging or silently reading garbage.

Clauses: C04.adv.post (one step), C04.fwd.paths / .score / .order / .complete / .batch (the five
sentences of the statement), C04.fwd.stop (documented meaning of finish_all_paths unset).

The oracle never runs the LM module: it evaluates `row` on the reported token sequence directly
(`chain`), and enumerates complete sequences by brute force. Nothing in the oracle is derived from
`_decoding.py`.
"""
import itertools
import math
import random
import warnings
from functools import lru_cache
from typing import Optional

NEG = -math.inf
P31 = 2147483647
TOL = 1e-4

# ---------------------------------------------------------------------------------------------
# the seeded score table (pure python; shared by the test LM and the oracle - it is test data)


def _mix(x: int) -> int:
    for c in (12345, 48271, 69621):
        x = (x * x + c * (x + 1) + 7) % P31
    return x


@lru_cache(maxsize=200000)
def row(tab: tuple, b: int, h: int, depth: int):
    """logits (python floats, possibly -inf) of the next token given element b and history code h.
    tab = (seed, V, sparse, btok, force): sparse -> some entries are -inf (never all of a row);
    btok -> token whose logit gets an element-dependent bias (makes elements finish at different
    times when btok is the eos); force -> from this depth on btok gets +30 (so that a search without a
    step limit ends)."""
    seed, V, sparse, btok, force = tab
    r = _mix((seed * 1000003 + b * 7919 + 17) % P31)
    r = _mix((r * 31 + h % P31) % P31)
    out = []
    keep = r % V
    for v in range(V):
        e = _mix((r * 131 + v + 1) % P31)
        x = (e / P31) * 6.0 - 3.0
        if sparse and v != keep and e % 3 == 0:
            x = NEG
        out.append(x)
    if btok is not None:
        out[btok] += ((b * 2654435761) % 5 - 2) * 0.9
        if force is not None and depth >= force:
            out[btok] += 30.0
    return tuple(out)


def hcode(V: int, path) -> int:
    h = 0
    for tok in path:
        h = h * (V + 1) + tok + 1
    return h


def log_softmax(xs):
    m = max(xs)
    z = m + math.log(sum(math.exp(x - m) for x in xs if x != NEG))
    return [x - z if x != NEG else NEG for x in xs]


def chain(tab, b, path):
    """the model's own chained log-probability of exactly `path` (float64)"""
    V = tab[1]
    h, lp = 0, 0.0
    for d, tok in enumerate(path):
        lp += log_softmax(row(tab, b, h, d))[tok]
        h = h * (V + 1) + tok + 1
    return lp


def complete_sequences(V, eos, T):
    """all token sequences that are complete under step limit T: end at their first eos, or have
    length T without an eos before the last position"""
    out = []

    def rec(p):
        if len(p) == T or (eos is not None and p and p[-1] == eos):
            out.append(tuple(p))
            return
        for v in range(V):
            rec(p + [v])

    rec([])
    return out


def n_complete(V, eos, T):
    if T == 0:
        return 1
    if eos is None:
        return V ** T
    return sum((V - 1) ** (l - 1) for l in range(1, T)) + (V - 1) ** (T - 1) * V


# ---------------------------------------------------------------------------------------------
# the test LM


_LM_CACHE = {}


class SearchDidNotEnd(AssertionError):
    pass


class ProtocolBreach(AssertionError):
    pass


def _lm_class():
    if "cls" in _LM_CACHE:
        return _LM_CACHE["cls"]
    import torch
    from pydrobert.torch.modules import ExtractableSequentialLanguageModel

    class TableLM(ExtractableSequentialLanguageModel):
        def __init__(self, tab, mode, max_calls):
            super().__init__(tab[1])
            self.tab, self.mode, self.calls, self.max_calls = tab, mode, 0, max_calls

        def update_input(self, prev, hist):
            if "h" in prev:
                return prev
            n = hist.size(1)
            b = prev["b"] if "b" in prev else torch.zeros(n, dtype=torch.long)
            return {"h": torch.zeros(n, dtype=torch.long), "b": b}

        def calc_idx_log_probs(self, hist, prev, idx):
            V = self.vocab_size
            n = hist.size(1)
            self.calls += 1
            if self.calls > self.max_calls:
                raise SearchDidNotEnd("model asked for step %d: more steps than the step limit / forced end allows" % self.calls)
            b = prev["b"].tolist()
            assert len(b) == n, "state rows %d != history columns %d" % (len(b), n)
            t = int(idx) if idx.dim() == 0 else None
            idxs = [t] * n if t is not None else idx.tolist()
            if max(idxs, default=0) > hist.size(0) or min(idxs, default=0) < 0:
                # SequentialLanguageModel.calc_idx_log_probs: "idx ... values in the range [0, hist.size(0)]"
                raise ProtocolBreach("model called with idx=%s but the history has only %d rows" % (idx.tolist(), hist.size(0)))
            if self.mode == "state":
                h = prev["h"].tolist()
                for i in range(n):
                    if idxs[i] > 0:
                        h[i] = h[i] * (V + 1) + int(hist[idxs[i] - 1, i]) + 1
            else:
                cols = hist.t().tolist()
                h = [hcode(V, cols[i][: idxs[i]]) if hist.size(0) else 0 for i in range(n)]
            rows = [row(self.tab, b[i], h[i], idxs[i]) for i in range(n)]
            out = torch.tensor(rows, dtype=torch.float).reshape(n, V)
            return out, {"h": torch.tensor(h, dtype=torch.long), "b": prev["b"]}

        def extract_by_src(self, prev, src):
            return {k: v.index_select(0, src) for k, v in prev.items()}

    _LM_CACHE["cls"] = TableLM
    return TableLM


def _tab(case):
    eos = case["eos"]
    return (case["seed"], case["V"], bool(case.get("sparse")), eos if eos is not None else (0 if case.get("bias0") else None), case.get("force"))


def search(case, bids, batched=True):
    """run the real BeamSearch; returns per element a list of (path tuple, length, log prob) per slot"""
    import torch
    from pydrobert.torch.modules import BeamSearch

    warnings.simplefilter("ignore")
    max_calls = case["T"] if case["T"] is not None else case["force"] + 4 * case["W"] + 40
    lm = _lm_class()(_tab(case), case.get("mode", "state"), max_calls)
    bs = BeamSearch(lm, case["W"], case["eos"], bool(case["fin"]))
    init = {"b": torch.tensor(bids, dtype=torch.long)}
    with torch.no_grad():
        y, lens, lp = bs(init, len(bids) if batched else None, case["T"])
    W = case["W"]
    if not batched:
        if y.dim() != 2 or lens.shape != (W,) or lp.shape != (W,):
            raise AssertionError("unbatched shapes y%s lens%s lp%s" % (tuple(y.shape), tuple(lens.shape), tuple(lp.shape)))
        y, lens, lp = y.unsqueeze(1), lens.unsqueeze(0), lp.unsqueeze(0)
    n = len(bids)
    if y.dim() != 3 or y.shape[1:] != (n, W) or lens.shape != (n, W) or lp.shape != (n, W):
        raise AssertionError("shapes y%s lens%s lp%s for N=%d width=%d" % (tuple(y.shape), tuple(lens.shape), tuple(lp.shape), n, W))
    if int(lens.max()) > y.size(0) or int(lens.min()) < 0:
        raise AssertionError("length outside the returned token tensor: lens %s, S=%d" % (lens.tolist(), y.size(0)))
    yl, ll, pl = y.permute(1, 2, 0).tolist(), lens.tolist(), lp.tolist()
    return [[(tuple(yl[i][k][: ll[i][k]]), ll[i][k], pl[i][k]) for k in range(W)] for i in range(n)]


def _bids(case):
    """identities of the batch elements; N None -> one unbatched element"""
    if case.get("bids") is not None:
        return list(case["bids"])
    n = case["N"]
    return [case.get("b0", 0)] if n is None else [case.get("b0", 0) + i for i in range(n)]


def _run(case):
    bids = _bids(case)
    return bids, search(case, bids, batched=case["N"] is not None)


def _finite(beam):
    return [(p, l, s) for (p, l, s) in beam if s != NEG and s == s]


def _close(a, b):
    return abs(a - b) <= TOL * (1 + abs(b))


def _tag(case, i, b):
    return "element %d (id %d) of %s" % (i, b, {k: case[k] for k in ("V", "W", "eos", "fin", "T", "N")})


def finite_complete(tab, b, eos, T, limit):
    """complete sequences (step limit T) the model gives non-zero probability, or None when more than `limit`"""
    V = tab[1]
    out = []

    def rec(p, h):
        if len(p) == T or (eos is not None and p and p[-1] == eos):
            out.append(tuple(p))
            return len(out) <= limit
        r = row(tab, b, h, len(p))
        return all(rec(p + [v], h * (V + 1) + v + 1) for v in range(V) if r[v] != NEG)

    return out if rec([], 0) else None


def usable_paths_end_early(case):
    """class of KF-C04-2: finish_all_paths set and, for some element, the model supports fewer sequences
    than the beam is wide and every one of them ends with eos before the step limit (so that only
    unusable -inf slots are 'unfinished' while steps remain)"""
    if case["eos"] is None or not case["fin"] or not case.get("sparse") or case["T"] is None:
        return False
    tab = _tab(case)
    for b in set(_bids(case)):
        f = finite_complete(tab, b, case["eos"], case["T"], case["W"])
        if f is not None and len(f) < case["W"] and all(p and p[-1] == case["eos"] and len(p) < case["T"] for p in f):
            return True
    return False


# ---------------------------------------------------------------------------------------------
# checkers (one per clause of the statement)


def check_paths(case) -> Optional[str]:
    """every finite-score path is distinct within its beam, stops at its first eos (counted in its
    length), and is not longer than the step limit; unfinished paths have run for as many steps as the
    element did (the step limit, unless the element legitimately finished on an eos)"""
    V, eos, T, fin = case["V"], case["eos"], case["T"], case["fin"]
    bids, res = _run(case)
    for i, beam in enumerate(res):
        f = _finite(beam)
        seen = set()
        for p, l, s in f:
            if len(p) != l:
                return "%s: token tensor shorter than the reported length %d" % (_tag(case, i, bids[i]), l)
            if any(t < 0 or t >= V for t in p):
                return "%s: out-of-vocabulary token in valid part of path %s" % (_tag(case, i, bids[i]), p)
            if p in seen:
                return "%s: path %s returned twice with finite score" % (_tag(case, i, bids[i]), p)
            seen.add(p)
            if eos is not None and eos in p[:-1]:
                return "%s: path %s continues past its first eos" % (_tag(case, i, bids[i]), p)
            if T is not None and l > T:
                return "%s: path %s longer than the step limit %d" % (_tag(case, i, bids[i]), p, T)
        if not f:
            return "%s: no finite-score path at all (the model gives every row a finite token)" % _tag(case, i, bids[i])
        open_ = [l for p, l, s in f if eos is None or not (p and p[-1] == eos)]
        closed = [l for p, l, s in f if eos is not None and p and p[-1] == eos]
        if open_:
            if len(set(open_)) != 1:
                return "%s: unfinished paths of different lengths %s" % (_tag(case, i, bids[i]), sorted(set(open_)))
            L = open_[0]
            if closed and max(closed) > L:
                return "%s: a finished path (length %d) is longer than the unfinished ones (%d)" % (_tag(case, i, bids[i]), max(closed), L)
            top = f[0][0]
            may_stop_early = eos is not None and not fin and top and top[-1] == eos
            if L != T and not may_stop_early:
                return "%s: unfinished paths stop at length %d, step limit %s, and the element is not finished" % (_tag(case, i, bids[i]), L, T)
    return None


def check_score(case) -> Optional[str]:
    """reported log-probability of every finite-score path equals the model's own chained
    log-probability of exactly that token sequence (computed from the score table, not by the module)"""
    bids, res = _run(case)
    tab = _tab(case)
    for i, beam in enumerate(res):
        for k, (p, l, s) in enumerate(beam):
            if s != s:
                return "%s: slot %d has NaN score" % (_tag(case, i, bids[i]), k)
            if s == NEG:
                continue
            if s == math.inf:
                return "%s: slot %d has +inf score" % (_tag(case, i, bids[i]), k)
            c = chain(tab, bids[i], p)
            if not _close(s, c):
                return "%s: slot %d path %s reported %.6f, model chains to %.6f" % (_tag(case, i, bids[i]), k, p, s, c)
    return None


def check_order(case) -> Optional[str]:
    """scores non-increasing over the beam, -inf (unusable) slots last, no NaN; with a model that gives
    every token a finite score a slot is unusable only when there are fewer distinct paths than slots"""
    V, eos, W = case["V"], case["eos"], case["W"]
    bids, res = _run(case)
    for i, beam in enumerate(res):
        sc = [s for _, _, s in beam]
        if any(s != s for s in sc):
            return "%s: NaN score in %s" % (_tag(case, i, bids[i]), sc)
        for k in range(1, W):
            if sc[k] > sc[k - 1]:
                return "%s: slot %d (%.6f) better than slot %d (%.6f)" % (_tag(case, i, bids[i]), k, sc[k], k - 1, sc[k - 1])
        if not case.get("sparse"):
            f = _finite(beam)
            L = max([l for _, l, _ in f], default=0)
            want = min(W, n_complete(V, eos, L))
            if len(f) != want:
                return "%s: %d usable slots, expected %d (width %d, %d distinct paths exist after %d steps)" % (
                    _tag(case, i, bids[i]), len(f), want, W, n_complete(V, eos, L), L)
    return None


def applies_complete(case):
    return (case["eos"] is None or case["fin"]) and case["T"] is not None and case["W"] >= n_complete(case["V"], case["eos"], case["T"])


def check_complete(case) -> Optional[str]:
    """width >= number of complete sequences and all paths run to completion: the finite-score result
    is exactly the set of complete sequences (those the model gives non-zero probability), best first"""
    if not applies_complete(case):
        return None
    V, eos, T = case["V"], case["eos"], case["T"]
    bids, res = _run(case)
    tab = _tab(case)
    comp = complete_sequences(V, eos, T)
    for i, beam in enumerate(res):
        scored = [(chain(tab, bids[i], p), p) for p in comp]
        want = sorted([sp for sp in scored if sp[0] != NEG], key=lambda sp: -sp[0])
        got = _finite(beam)
        gs, ws = set(p for p, _, _ in got), set(p for _, p in want)
        if gs != ws or len(got) != len(want):
            return "%s: %d finite-score paths for %d complete sequences; missing %s, unexpected %s" % (_tag(case, i, bids[i]), len(got), len(want), sorted(ws - gs)[:4], sorted(gs - ws)[:4])
        for k, ((p, l, s), (c, q)) in enumerate(zip(got, want)):
            if p != q and not _close(s, c):
                return "%s: rank %d is %s (%.6f), brute force has %s (%.6f)" % (_tag(case, i, bids[i]), k, p, s, q, c)
    return None


def check_batch(case) -> Optional[str]:
    """what is returned for batch element n equals what searching that element alone returns (alone:
    batch of one, and no batch dimension at all), whatever the other elements do"""
    bids, res = _run(case)
    singles = {}
    for i, b in enumerate(bids):
        for batched in (True, False):
            key = (b, batched)
            if key not in singles:
                singles[key] = search(case, [b], batched=batched)[0]
            alone = singles[key]
            how = "batch of one" if batched else "unbatched"
            for k, ((p, l, s), (q, m, r)) in enumerate(zip(res[i], alone)):
                if (s == NEG) != (r == NEG) or s != s or r != r:
                    return "%s: slot %d score %s in the batch, %s %s" % (_tag(case, i, b), k, s, r, how)
                if s == NEG:
                    continue
                if p != q or l != m:
                    return "%s: slot %d is %s in the batch, %s %s" % (_tag(case, i, b), k, p, q, how)
                if not _close(s, r):
                    return "%s: slot %d scores %.6f in the batch, %.6f %s" % (_tag(case, i, b), k, s, r, how)
    return None


def check_stop(case) -> Optional[str]:
    """the documented meaning of finish_all_paths unset: an element is finished as soon as its best
    path ends with eos - from then on its result does not change with a larger step limit (so a
    finished element is frozen while the others go on); the model is never asked for more steps than
    the step limit"""
    eos, T = case["eos"], case["T"]
    bids, res = _run(case)
    if eos is None or case["fin"] or not T:
        return None
    _, before = _run(dict(case, T=T - 1))
    for i, (now, old) in enumerate(zip(res, before)):
        top = old[0][0]
        if not (top and top[-1] == eos and old[0][2] != NEG):
            continue
        for k, ((p, l, s), (q, m, r)) in enumerate(zip(now, old)):
            if (s == NEG) != (r == NEG):
                return "%s: best path %s had ended after %d steps, slot %d score went %s -> %s with one more step" % (_tag(case, i, bids[i]), top, T - 1, k, r, s)
            if s != NEG and (p != q or not _close(s, r)):
                return "%s: best path %s had ended after %d steps, yet slot %d changed from %s (%.6f) to %s (%.6f) with one more step" % (_tag(case, i, bids[i]), top, T - 1, k, q, r, p, s)
    return None


# ---- beam_search_advance: the single step ----------------------------------------------------


def check_advance(case) -> Optional[str]:
    """contract of one step (functional.beam_search_advance), N x Kp prefixes, V extensions:
    next score = prefix score + extension score of some (src, tok); returned path = that prefix +
    tok, length + 1; (src, tok) pairwise distinct; scores non-increasing and no unreturned candidate
    beats a returned one; slots beyond Kp*V carry -inf and length 0; next_src reports src"""
    import torch
    from pydrobert.torch.functional import beam_search_advance

    N, Kp, V, S, W = case["N"], case["Kp"], case["V"], case["S"], case["W"]
    rng = random.Random(case["vseed"])
    kind = case["kind"]

    def val():
        if kind == "ties":
            return float(-rng.randint(0, 2))
        x = -rng.random() * 4
        if kind == "inf" and rng.random() < 0.3:
            return NEG
        return x

    lpt = [[[val() for _ in range(V)] for _ in range(Kp)] for _ in range(N)]
    lpp = [[val() for _ in range(Kp)] for _ in range(N)]
    yp = [[[rng.randrange(V) for _ in range(Kp)] for _ in range(N)] for _ in range(S)]
    lm = case["lens"]
    if lm == "none":
        lens = None
    elif lm == "full":
        lens = [[S] * Kp for _ in range(N)]
    elif lm == "short":  # nobody reaches S: the token tensor need not grow
        lens = [[rng.randint(0, max(S - 1, 0)) for _ in range(Kp)] for _ in range(N)]
    else:  # ragged, at least one prefix fills the token tensor
        lens = [[rng.randint(0, S) for _ in range(Kp)] for _ in range(N)]
        lens[rng.randrange(N)][rng.randrange(Kp)] = S
    t_lpt = torch.tensor(lpt, dtype=torch.float).reshape(N, Kp, V)
    t_lpp = torch.tensor(lpp, dtype=torch.float).reshape(N, Kp)
    t_yp = torch.tensor(yp, dtype=torch.long).reshape(S, N, Kp)
    t_lens = None if lens is None else torch.tensor(lens, dtype=torch.long).reshape(N, Kp)
    yn, ln, lpn, src = beam_search_advance(t_lpt, W, t_lpp, t_yp, t_lens)
    if ln.shape != (N, W) or lpn.shape != (N, W) or src.shape != (N, W) or yn.dim() != 3 or yn.shape[1:] != (N, W):
        return "shapes y%s lens%s lp%s src%s" % (tuple(yn.shape), tuple(ln.shape), tuple(lpn.shape), tuple(src.shape))
    if yn.size(0) not in (S, S + 1):
        return "y_next has %d rows for S=%d" % (yn.size(0), S)
    if int(ln.max()) > yn.size(0):
        return "y_next_lens %s exceed y_next rows %d" % (ln.tolist(), yn.size(0))
    f32 = lambda x: torch.tensor(x, dtype=torch.float)
    K = min(W, Kp * V)
    ynl = yn.permute(1, 2, 0).tolist()
    for n in range(N):
        cand = {}
        for k in range(Kp):
            for v in range(V):
                cand[(k, v)] = float(f32(lpp[n][k]) + f32(lpt[n][k][v]))
        sc = lpn[n].tolist()
        if any(s != s for s in sc):
            return "NaN in log_probs_next %s" % sc
        used = set()
        for j in range(W):
            if j >= K:
                if sc[j] != NEG or int(ln[n, j]) != 0:
                    return "n=%d slot %d beyond the %d candidates: score %s length %d" % (n, j, K, sc[j], int(ln[n, j]))
                continue
            if j and sc[j] > sc[j - 1]:
                return "n=%d scores not non-increasing: %s" % (n, sc)
            s_ = int(src[n, j])
            if not 0 <= s_ < Kp:
                return "n=%d slot %d next_src %d out of range" % (n, j, s_)
            plen = S if lens is None else lens[n][s_]
            l = int(ln[n, j])
            if l != plen + 1:
                return "n=%d slot %d length %d, source prefix has %d" % (n, j, l, plen)
            path = ynl[n][j][:l]
            prefix = [yp[t][n][s_] for t in range(plen)]
            if path[:-1] != prefix:
                return "n=%d slot %d path %s does not extend source prefix %s (src %d)" % (n, j, path, prefix, s_)
            tok = path[-1]
            if not 0 <= tok < V:
                return "n=%d slot %d token %d" % (n, j, tok)
            if (s_, tok) in used:
                return "n=%d extension (src %d, tok %d) returned twice" % (n, s_, tok)
            used.add((s_, tok))
            if sc[j] != cand[(s_, tok)]:
                return "n=%d slot %d score %s, prefix+extension (src %d, tok %d) is %s" % (n, j, sc[j], s_, tok, cand[(s_, tok)])
        rest = [c for key, c in cand.items() if key not in used]
        if rest and K and max(rest) > sc[K - 1]:
            return "n=%d an unreturned candidate (%.6f) beats the last returned one (%.6f)" % (n, max(rest), sc[K - 1])
    return None


# ---------------------------------------------------------------------------------------------
# case generators

GRID = {  # tier -> (V -> largest step limit)
    "quick": {1: 3, 2: 4, 3: 3},
    "thorough": {1: 4, 2: 5, 3: 4, 4: 4},
}
ALL_WIDTHS_UPTO = 34  # V^T + 2 <= this: every width 1..V^T+2; beyond: 1..10 and around the counts of complete sequences


def _widths(V, T):
    full = V ** T
    if full + 2 <= ALL_WIDTHS_UPTO:
        return list(range(1, full + 3))
    ws = set(range(1, 11))
    for c in (full, n_complete(V, 0, T)):
        ws |= {c - 1, c, c + 1, c + 2}
    return sorted(ws)


def _grid(ctx):
    """the enumerated configurations (without batch / score table / LM flavour)"""
    for V, Tmax in GRID["quick" if ctx.quick else "thorough"].items():
        for T in range(Tmax + 1):
            for W in _widths(V, T):
                for eos in [None] + list(range(V)):
                    for fin in ([False] if eos is None else [False, True]):
                        yield {"V": V, "T": T, "W": W, "eos": eos, "fin": fin}


def _grid_text(ctx):
    g = GRID["quick" if ctx.quick else "thorough"]
    return ("(V, max_iters) with " + ", ".join("V=%d: 0..%d" % kv for kv in g.items())
            + "; width 1..V^T+2 (when V^T+2 > %d: 1..10 and the numbers of complete sequences -1..+2); eos in {unset, each token}; finish_all_paths both when eos set" % ALL_WIDTHS_UPTO)


NSEEDS = {"quick": {"paths": 3, "score": 3, "order": 3, "complete": 6, "batch": 2, "stop": 3},
          "thorough": {"paths": 8, "score": 8, "order": 8, "complete": 12, "batch": 4, "stop": 8}}
NS = {"quick": {"paths": [None, 1, 2, 3], "batch": [1, 2, 3], "complete": [None, 2], "stop": [None, 2, 3]},
      "thorough": {"paths": [None, 1, 2, 3, 5], "batch": [1, 2, 3, 5], "complete": [None, 1, 3], "stop": [None, 2, 4]}}
NRANDOM = {"paths": 30000, "score": 30000, "order": 30000, "complete": 4000, "batch": 8000, "stop": 15000}


def _random_case(rng):
    V = rng.randint(2, 6)
    eos = rng.choice([None] + list(range(V)))
    c = {"V": V, "eos": eos, "fin": bool(eos is not None and rng.random() < 0.5), "W": rng.randint(1, 24),
         "N": rng.choice([None, 1, 2, 3, 4, 6]), "seed": rng.randint(0, 10 ** 6), "mode": rng.choice(["state", "hist"]),
         "sparse": rng.random() < 0.25, "b0": rng.randint(0, 50)}
    if eos is not None and rng.random() < 0.3:
        # no step limit: the (dense) model is made to end by itself
        c["T"], c["force"], c["sparse"] = None, rng.randint(1, 6), False
    else:
        c["T"] = rng.randint(0, 8)
    if c["N"] not in (None, 1) and rng.random() < 0.3:
        c["bids"] = [rng.randint(0, 3) for _ in range(c["N"])]  # repeated identities inside one batch
    return c


def cases_fwd(ctx, what):
    """what in paths|score|order|complete|batch|stop"""
    tier = "quick" if ctx.quick else "thorough"
    key = what if what in NS[tier] else "paths"
    seeds = [1 + 101 * ctx.seed + j for j in range(NSEEDS[tier][what])]
    if what in ("paths", "score", "order"):
        yield dict(WITNESS_IDX)
    if what in ("paths", "score", "order", "batch"):
        yield dict(WITNESS_WHERE)
    if what == "complete":
        yield dict(WITNESS_COMPLETE)
    for base in _grid(ctx):
        if what == "complete" and not applies_complete(base):
            continue
        if what == "stop" and (base["eos"] is None or base["fin"] or base["T"] == 0):
            continue
        for N in NS[tier][key]:
            for j, seed in enumerate(seeds):
                for mode in ("state", "hist"):
                    # every other table of the threaded-state flavour has zero-probability tokens
                    yield dict(base, N=N, seed=seed, mode=mode, sparse=(j % 2 == 1 and mode == "state"), b0=j)
    if ctx.quick:
        return
    rng = random.Random(1000 + ctx.seed)
    n = 0
    while n < NRANDOM[what]:
        if what == "complete":
            V = rng.randint(2, 5)
            eos = rng.choice([None] + list(range(V)))
            T = rng.randint(0, 6 if V <= 3 else 4)
            nc = n_complete(V, eos, T)
            if nc > 800:
                continue
            c = {"V": V, "T": T, "eos": eos, "fin": True, "W": nc + rng.randint(0, 3), "N": rng.choice([None, 1, 3]), "seed": rng.randint(0, 10 ** 6),
                 "mode": rng.choice(["state", "hist"]), "sparse": rng.random() < 0.3, "b0": rng.randint(0, 50)}
        else:
            c = _random_case(rng)
            if what == "batch" and c["N"] is None:
                c["N"] = 2
            if what == "stop":
                if c["eos"] is None:
                    c["eos"] = rng.randrange(c["V"])
                if c["T"] is None:
                    c.pop("force")
                c["fin"], c["T"] = False, rng.randint(1, 8)
        n += 1
        yield c


def cases_advance(ctx):
    big = not ctx.quick
    top = 4 if big else 3
    for N in (1, 2):
        for Kp in range(1, top + 1):
            for V in range(1, top + 1):
                for S in range(0, top):
                    for lens in ("none", "full", "short", "ragged"):
                        if S == 0 and lens in ("short", "ragged"):
                            continue
                        for W in range(1, Kp * V + 3):
                            for kind in ("cont", "ties", "inf"):
                                for r in range(4 if big else 3):
                                    yield {"N": N, "Kp": Kp, "V": V, "S": S, "lens": lens, "W": W, "kind": kind, "vseed": 7 * ctx.seed + r}
    if big:
        rng = random.Random(2000 + ctx.seed)
        for _ in range(40000):
            Kp, V = rng.randint(1, 8), rng.randint(1, 8)
            S = rng.randint(0, 6)
            yield {"N": rng.randint(1, 5), "Kp": Kp, "V": V, "S": S, "lens": rng.choice(["none", "full"] + ([] if S == 0 else ["short", "ragged"])),
                   "W": rng.randint(1, Kp * V + 4), "kind": rng.choice(["cont", "ties", "inf"]), "vseed": rng.randint(0, 10 ** 9)}


# ---------------------------------------------------------------------------------------------

CHECKERS = {
    "C04.adv.post": check_advance,
    "C04.fwd.paths": check_paths,
    "C04.fwd.score": check_score,
    "C04.fwd.order": check_order,
    "C04.fwd.complete": check_complete,
    "C04.fwd.batch": check_batch,
    "C04.fwd.stop": check_stop,
}

FINDINGS = [
    {"id": "KF-C04-1", "property": "C04", "clause": "C04.adv.post",
     "what": "beam_search_advance raises RuntimeError (torch.cat size mismatch) instead of returning -inf filler slots when the beam is wider than the "
             "candidates and no prefix fills the token tensor",
     "class": "y_prev_lens given with max(y_prev_lens) < S = y_prev.size(0) (so y is not grown) and width > old_width * V (filler block is built with S+1 rows); "
              "not reachable from BeamSearch.forward, which only has width > old_width * V at S = 0",
     "witness": {"N": 1, "Kp": 1, "V": 1, "S": 1, "lens": "short", "W": 2, "kind": "cont", "vseed": 0}},
]
KNOWN_MATCH = {
    "KF-C04-1": lambda case, msg: case.get("lens") == "short" and case["S"] >= 1 and case["W"] > case["Kp"] * case["V"] and "Sizes of tensors must match" in msg,
}
# the smallest inputs on which the unchanged tree fails; enumerated in every tier
WITNESS_IDX = {"V": 2, "T": 4, "W": 4, "eos": 0, "fin": True, "N": None, "seed": 11, "mode": "state", "sparse": True, "b0": 0}
WITNESS_COMPLETE = dict(WITNESS_IDX, W=5)  # width = number of complete sequences of V=2, eos, max_iters=4
WITNESS_WHERE = {"V": 2, "T": 4, "W": 3, "eos": 1, "fin": True, "N": 2, "seed": 25, "mode": "hist", "sparse": True, "b0": 0}


def _kf2(case, msg):
    return ("raised" in msg and ("history has only" in msg or "must match the size of tensor b" in msg)) and usable_paths_end_early(case)


for _what in ("paths", "score", "order", "complete", "batch"):
    _id = "KF-C04-2" + ("" if _what == "paths" else "-" + _what)
    FINDINGS.append({
        "id": _id, "property": "C04", "clause": "C04.fwd." + _what,
        "what": "BeamSearch raises instead of returning when every usable path of an element has ended before the step limit but an unusable (-inf) slot has not: "
                "the search goes on with a token tensor that no longer grows, so the model is stepped with idx > hist.size(0) (breaching calc_idx_log_probs' contract; "
                "an LM reading hist[idx-1] raises IndexError) or, with another element already frozen, torch.where gets S+1 vs S rows",
        "class": "eos set, finish_all_paths=True, language model with zero-probability tokens such that for some batch element fewer sequences than the beam width have "
                 "non-zero probability and all of them end with eos before max_iters (unusable -inf slots are counted as unfinished paths)",
        "witness": {"batch": WITNESS_WHERE, "complete": WITNESS_COMPLETE}.get(_what, WITNESS_IDX)})
    KNOWN_MATCH[_id] = _kf2

FWD = ["_decoding.BeamSearch.forward", "_decoding.BeamSearch._to_width", "_decoding.beam_search_advance"]
TEXT = {
    "paths": "finite-score paths are distinct within the beam, end at their first eos (counted in the length), stay within the step limit; unfinished ones are as long as the steps the element ran",
    "score": "reported log-probability = chained log-probability of exactly the returned tokens, evaluated on the score table (model state must have followed the surviving path)",
    "order": "scores non-increasing, -inf slots last, no NaN; dense tables: number of usable slots = min(width, number of distinct paths after the steps taken)",
    "complete": "width >= number of complete sequences and all paths run to completion (eos unset or finish_all_paths): result = brute-force set of complete sequences, best first",
    "batch": "each batch element's slots equal the search of that element alone (as a batch of one and without batch dimension); per-element eos bias makes elements finish at different steps",
    "stop": "finish_all_paths unset: once an element's best path ends with eos, a larger step limit does not change its result; the model is never stepped beyond the step limit",
}
NONTRIVIAL = {
    "paths": lambda c: c["W"] > 1 and (c["T"] is None or c["T"] > 1),
    "score": lambda c: c["W"] > 1 and (c["T"] is None or c["T"] > 1),
    "order": lambda c: c["W"] > 1 and c["T"] != 0,
    "complete": lambda c: c["T"] > 0,
    "batch": lambda c: c["N"] not in (None, 1) and c["eos"] is not None and (c["T"] is None or c["T"] > 1),
    "stop": lambda c: c["T"] > 1 and c["W"] > 1,
}


def run_bounded(ctx):
    ctx.known_match.update(KNOWN_MATCH)
    tier = "quick" if ctx.quick else "thorough"
    # import (and TorchScript-compile) the library once in the parent so that the forked workers of
    # every clause inherit it instead of each paying for it again
    import torch
    import pydrobert.torch.functional  # noqa: F401

    torch.set_num_threads(1)
    _lm_class()
    only = getattr(ctx, "only", None)

    def want(name):
        return not only or any(name.startswith(p) for p in only)

    if want("C04.adv.post"):
        top = 3 if ctx.quick else 4
        ctx.bounded("C04.adv.post", check_advance, cases_advance(ctx),
                    bound="every shape with N in {1,2}, old width 1..%d, V 1..%d, S 0..%d, y_prev_lens in {unset, all S, all < S, ragged with one = S}, width 1..old_width*V+2; "
                          "values: %d seeded draws of each kind {continuous, small integers (ties), 30%% -inf}%s"
                          % (top, top, top - 1, 3 if ctx.quick else 4, "" if ctx.quick else "; plus 40000 seeded random shapes N<=5, old width<=8, V<=8, S<=6"),
                    text="one step: score = prefix + extension score of a (src,tok) pair, pairs distinct; path = source prefix + tok, length + 1; sorted and top-k optimal; slots beyond the candidates -inf / length 0",
                    nontrivial=lambda c: c["Kp"] > 1 and c["W"] < c["Kp"] * c["V"], chunk=256, functions=["_decoding.beam_search_advance"])
    for what in ("paths", "score", "order", "complete", "batch", "stop"):
        name = "C04.fwd." + what
        if not want(name):
            continue
        key = what if what in NS[tier] else "paths"
        bound = _grid_text(ctx)
        if what == "complete":
            bound += ", restricted to width >= number of complete sequences and (eos unset or finish_all_paths)"
        if what == "stop":
            bound += ", restricted to eos set, finish_all_paths unset, max_iters >= 1 (compared with max_iters - 1)"
        bound += "; N in {%s}" % ",".join("unset" if n is None else str(n) for n in NS[tier][key])
        bound += "; table LMs: %d seeded score tables x {threaded-state, history-recomputing}, every other threaded-state table with zero-probability tokens" % NSEEDS[tier][what]
        if what != "stop":
            bound += "; plus the recorded witness(es) of KF-C04-2"
        if not ctx.quick:
            bound += ("; plus %d seeded random cases: " % NRANDOM[what]) + (
                "V<=5, max_iters<=6, <=800 complete sequences, width = their number + 0..3" if what == "complete" else
                "V 2..6, width<=24, max_iters<=8%s, N in {unset,1,2,3,4,6}, element ids distinct or repeated" % ("" if what == "stop" else " or unset (dense model forced to end at depth<=6)"))
        ctx.bounded(name, CHECKERS[name], cases_fwd(ctx, what), bound=bound, text=TEXT[what], nontrivial=NONTRIVIAL[what],
                    chunk=32 if what in ("batch", "complete") else 64, functions=FWD)
    ctx.replay_known_witnesses()
    ctx.not_applicable.append("C04 'histories': prune/extend interleavings are reached only through the enumerated/seeded score tables (bounded), not all search trajectories")
    ctx.not_applicable.append("C04 'every sequential language model': only table LMs (threaded-state and history-recomputing) on CPU are exercised; "
                              "termination without a step limit is exercised only for models that give every token non-zero probability")
    ctx.assume("float32 scores compared with the float64 chained score at tolerance 1e-4*(1+|x|); order, -inf placement and single-step scores compared exactly",
               "the test LM obeys the ExtractableSequentialLanguageModel protocol (update_input idempotent, extract_by_src = index_select on every state tensor)",
               "score tables have no exact ties between finite scores (continuous seeded values); ties are exercised only at the single-step clause",
               "with a model that gives every token non-zero probability a slot is 'unusable' only when fewer distinct paths than slots exist",
               "finish_all_paths unset means what the class documents: an element's search ends when its highest-probability path ends with eos")
