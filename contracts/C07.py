"""C07 - sequence scores, random walks, the distribution wrapper and greedy CTC decoding.

Bounded run-time contracts only so far (contracts/C07_rt.py); the deductive obligations of DESIGN.md
par. 3 (C07.slp.tensor, C07.greedy.post) are added here when engine A's tensor layer reaches them.
"""
from contracts import C07_rt

CHECKERS = dict(C07_rt.CHECKERS)


def run(ctx):
    C07_rt.run_bounded(ctx)
