"""C07 - sequence scores, random walks and greedy CTC decoding match their definitions."""
from contracts import C07_rt, C07_vc
from vf.pyvc import api

CHECKERS = dict(C07_rt.CHECKERS)


def run(ctx):
    from contracts import wrap_vc

    api.run_vcs(ctx, wrap_vc.wrapper_vcs("C07.P.module_forwards_parameters", ['CTCGreedySearch']), {"C07.P.module_forwards_parameters": wrap_vc.TEXT % "CTCGreedySearch"})
    from vf.pyvc import crosscheck_sym

    crosscheck_sym.guard(ctx)  # the symbolic-shape tensor layer against real torch, before the clauses that rest on it
    from contracts import C07_loop

    api.run_vcs(ctx, C07_loop.loop_p_vcs(ctx), {"C07.P.walk_loop": "real RandomWalk.forward source, end-of-sequence set or unset, SYMBOLIC batch size, vocabulary and step limit, ANY language model, random_walk_advance under its proved contract: loop invariant - end flag, length and score of every element are those of the recorded walk (score = sum of the model's normalised scores of its own labels up to and including the first eos); exits only at the step limit or when every element has ended: every path ends at its FIRST eos or at the limit; the model is asked about exactly the paths so far with the current state"})
    api.run_vcs(ctx, C07_vc.walk_p_vcs(ctx), {"C07.P.walk_step": "real random_walk_advance source (prefix lengths given) for a SYMBOLIC batch size, vocabulary and number of prefix rows, torch.multinomial under contract: the drawn label has a finite step score, is written at the element's length, the score grows by that step score, the path tensor grows exactly when some prefix is full"})
    api.run_vcs(ctx, C07_vc.greedy_p_vcs(ctx), {"C07.P.greedy": "real ctc_greedy_search source (log domain, lengths given) for a SYMBOLIC batch size, number of frames, vocabulary and blank index, both layouts: the frame label has maximal normalised score, the path keeps - in order - exactly the frames inside the length whose label is neither blank nor a repeat of the previous frame's, the reported length is their number, the score is the sum of the frame maxima inside the length"})
    api.run_vcs(ctx, C07_vc.p_vcs(ctx), {"C07.P.slp_summand": "real sequence_log_probs (tensor input) source for SYMBOLIC sequence length, batch size and vocabulary: the result is the sum over the sequence of log_softmax(logits)[t, b, hyp[t, b]] for in-vocabulary tokens up to and including the first eos, 0 elsewhere"})
    api.run_vcs(ctx, C07_vc.vcs(ctx), {"C07.S.greedy_ctc": "real ctc_greedy_search source (is_probs): kept labels = frame-wise best labels within the valid length, blanks and repeats removed, in order; out_lens; score = product of frame maxima; all contents, lengths, blank indices"},
                bounded="shapes (N,T,V) up to (2,3,2)/(1,3,3), both layouts, in_lens given/omitted; ALL probabilities, lengths and legal blank indices")
    C07_rt.run_bounded(ctx)
