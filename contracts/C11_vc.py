"""C11, engine A part.

C11.dispatch.forward_all - for every path-or-file function of _parsing.py the `isinstance(x, str)` branch is
executed symbolically: the function is entered with a path string and an opaque, pairwise distinct sentinel for
every other parameter; `open` is an assumed contract returning a handle; the recursive call is replaced by the
function's own contract (modular reasoning) which records its arguments. Post: the callee receives the handle
opened on that path in the right mode and EVERY other formal parameter unchanged (so a dropped option is a
refuted obligation). Parameters that provably cannot affect the output are exempted by name, with the reason.

C11.tok.roundtrip - transcript_to_token then token_to_transcript on one generic timed token: ids preserved,
start/end recovered to within one frame shift (real arithmetic with floor).
"""
import ast

import z3

from vf.pyvc import api, interp as ip, source
from vf.pyvc.api import VC

M = "pydrobert.torch._parsing"
# function -> (file parameter, open mode)
DISPATCH = {
    "parse_arpa_lm": ("file_", "r"), "read_trn_iter": ("trn", "r"), "write_trn": ("trn", "w"), "read_ctm": ("ctm", "r"),
    "write_ctm": ("ctm", "w"), "read_textgrid": ("tg", "r"), "write_textgrid": ("tg", "w"),
}
# output-irrelevant parameters (performance only), with the justification that is assumed
EXEMPT = {("read_trn_iter", "chunk_size"): "only forwarded to Pool.imap(chunksize=...), which is documented not to change results or their order"}


class Sentinel(ip.Opaque):
    pass


class Handle:
    def __init__(self, path, mode):
        self.path, self.mode = path, mode

    def __vc_enter__(self, I):
        return self


def open_contract(I, path, mode="r", *a, **k):
    return Handle(path, mode)


def dispatch_vcs():
    out = []
    for fn, (fparam, mode) in DISPATCH.items():
        def thunk(I, fn=fn, fparam=fparam):
            fdef, mod = I.get_function(M, fn)
            params = [a.arg for a in fdef.args.posonlyargs + fdef.args.args + fdef.args.kwonlyargs]
            sent = {p: Sentinel("arg:" + p) for p in params}
            sent[fparam] = "/some/path"
            I.ex.ghost.update(sent=sent, calls=[])

            def self_contract(I2, args, kwargs, fdef=fdef):
                fr = ip.Frame(mod)
                I2.bind_args(fdef, fr, list(args), dict(kwargs))
                I2.ex.ghost["calls"].append(dict(fr.locals))
                return []

            I.contracts["%s.%s" % (M, fn)] = self_contract
            return I.call_def(fdef, mod, [], dict(sent))

        def post(p, fn=fn, fparam=fparam, mode=mode):
            calls, sent = p.ghost["calls"], p.ghost["sent"]
            if p.outcome != "return" or len(calls) != 1:
                return False
            got = calls[0]
            h = got.get(fparam)
            if not isinstance(h, Handle) or h.path != "/some/path" or h.mode != mode:
                return False
            goals = [("handle", True)]
            for name, s in sorted(sent.items()):
                if name == fparam or (fn, name) in EXEMPT:
                    continue
                goals.append(("param:" + name, got.get(name) is s))
            return goals

        out.append(VC("C11.dispatch.forward_all", fn, M, fn, thunk, posts=[("path_branch_forwards_every_parameter", post)],
                      stubs={"builtins.open": open_contract, "_io.open": open_contract, "io.open": open_contract},
                      inputs={}, replay=lambda m, fn=fn: replay_dispatch(fn),
                      assumptions=["open(path, mode) returns a handle on that path (assumed contract); the recursive call is replaced by the function's own contract",
                                   "exempt (output-irrelevant) parameters: %s" % EXEMPT]))
    return out


def replay_dispatch(fn):
    """native differential: path vs open file under non-default options"""
    import io
    import os
    import tempfile
    import pydrobert.torch.data as data

    with tempfile.TemporaryDirectory() as tmp:
        pth = os.path.join(tmp, "f")
        if fn == "write_textgrid":
            tr = [("a", 0.0, 0.123456), ("b", 0.123456, 0.5)]
            for kw in (dict(precision=2), dict(point_tier=False), dict(tier_name="zz"), dict(start_time=0.0, end_time=1.0)):
                data.write_textgrid(tr, pth, **kw)
                buf = io.StringIO()
                data.write_textgrid(tr, buf, **kw)
                if open(pth).read() != buf.getvalue():
                    return "write_textgrid(path, %s) differs from write_textgrid(open file, %s)" % (kw, kw)
        elif fn == "parse_arpa_lm":
            txt = "\\data\\\nngram 1=2\n\n\\1-grams:\n-1.0 a\n-0.5 b\n\n\\end\\\n"
            open(pth, "w").write(txt)
            for kw in (dict(to_base_e=True), dict(to_base_e=False), dict(token2id={"a": 0, "b": 1}, to_base_e=False)):
                a = data.parse_arpa_lm(pth, **kw)
                b = data.parse_arpa_lm(io.StringIO(txt), **kw)
                if a != b:
                    return "parse_arpa_lm(path, %s) = %s differs from parse_arpa_lm(open file) = %s" % (kw, a, b)
        elif fn == "write_ctm":
            tr = [("u1", [("a", 0.0, 0.5)]), ("u2", [("b", 0.25, 0.5)])]
            for kw in (dict(utt2wc={"u1": ("w1", "B"), "u2": ("w2", "A")}), dict(utt2wc="X")):
                data.write_ctm(tr, pth, **kw)
                buf = io.StringIO()
                data.write_ctm(tr, buf, **kw)
                if open(pth).read() != buf.getvalue():
                    return "write_ctm(path, %s) differs from write_ctm(open file)" % (kw,)
        elif fn == "read_ctm":
            txt = "w1 A 0.0 0.5 a\nw1 A 0.5 0.5 b\n"
            open(pth, "w").write(txt)
            kw = dict(wc2utt={("w1", "A"): "u9"})
            if data.read_ctm(pth, **kw) != data.read_ctm(io.StringIO(txt), **kw):
                return "read_ctm(path, wc2utt) differs from read_ctm(open file, wc2utt)"
        elif fn == "read_textgrid":
            buf = io.StringIO()
            data.write_textgrid([("a", 0.0, 0.4), ("b", 0.6, 1.0)], buf, tier_name="t2")
            open(pth, "w").write(buf.getvalue())
            for kw in (dict(tier_id="t2", fill_token="sil"), dict(tier_id=0)):
                if data.read_textgrid(pth, **kw) != data.read_textgrid(io.StringIO(buf.getvalue()), **kw):
                    return "read_textgrid(path, %s) differs from read_textgrid(open file)" % (kw,)
        elif fn in ("read_trn_iter", "write_trn"):
            tr = [("u1", ["a", ([["b"], ["c", "d"]],), "e"]), ("u2", [])]
            data.write_trn(tr, pth)
            buf = io.StringIO()
            data.write_trn(tr, buf)
            if open(pth).read() != buf.getvalue():
                return "write_trn(path) differs from write_trn(open file)"
            for kw in (dict(warn=False), dict(warn=False, processes=1)):
                if list(data.read_trn_iter(pth, **kw)) != list(data.read_trn_iter(io.StringIO(buf.getvalue()), **kw)):
                    return "read_trn_iter(path, %s) differs from the open-file result" % (kw,)
    return None


# ---- token <-> transcript on one generic timed element -------------------------------------------------------------------------
S, E, FS = z3.Reals("start_s end_s frame_shift_ms")
TOKID = z3.Int("token_id")


def tok_vcs():
    import pydrobert.torch._parsing as P
    from vf.pyvc import ctensor as ct

    def thunk(I):
        tr = [(TOKID, S, E)]
        tok = I.call(P.transcript_to_token, [tr], dict(token2id=None, frame_shift_ms=FS))
        I.ex.ghost["tok"] = tok
        back = I.call(P.token_to_transcript, [tok], dict(id2token=None, frame_shift_ms=FS))
        return back

    def post(p):
        if not api.returns(p):
            return False
        back = p.value
        if not isinstance(back, list) or len(back) != 1 or not isinstance(back[0], tuple) or len(back[0]) != 3:
            return False
        t, s2, e2 = back[0]
        shift = FS / 1000
        s2, e2 = ip.to_z3(s2), ip.to_z3(e2)
        return [ip.to_z3(t) == TOKID, z3.And(s2 <= S, S - s2 < shift), z3.And(e2 - E <= shift, E - e2 <= shift), s2 <= e2]

    stubs = {"numpy.isreal": lambda I, x: True}
    return [VC("C11.P.tok_roundtrip", "transcript_to_token;token_to_transcript", M, "transcript_to_token", thunk, pre=[S >= 0, E >= S, FS > 0],
               posts=[("id_preserved_times_within_one_frame_shift", post)], stubs=stubs,
               twins=[("times_exact", lambda p: ip.to_z3(p.value[0][2]) == E if api.returns(p) and isinstance(p.value, list) and p.value and isinstance(p.value[0], tuple) else None)],
               inputs={"start": S, "end": E, "frame_shift_ms": FS, "token": TOKID}, replay=replay_tok,
               assumptions=["one generic timed token (both functions are element-wise over the transcript)", "float arithmetic treated as real arithmetic (floor division on reals)",
                            "token ids used directly (token2id=None); the dictionary look-ups are covered by the bounded driver"], timeout_ms=60000)]


def replay_tok(m):
    from pydrobert.torch.data import token_to_transcript, transcript_to_token

    s, e, fs, t = float(m["start"]), float(m["end"]), float(m["frame_shift_ms"]), int(m["token"])
    if not (0 <= s <= e <= 1e5 and 1e-3 <= fs <= 1e4):
        return None
    back = token_to_transcript(transcript_to_token([(t, s, e)], None, fs), None, fs)
    if len(back) != 1 or not isinstance(back[0], tuple):
        return "round trip of (%d, %g, %g) at %g ms returned %r" % (t, s, e, fs, back)
    t2, s2, e2 = back[0]
    tol = fs / 1000 * (1 + 1e-6) + 1e-9
    if t2 != t or not (s2 <= s + 1e-9 and s - s2 < tol) or abs(e2 - e) > tol:
        return "round trip of (%d, %g, %g) at %g ms returned (%r, %g, %g)" % (t, s, e, fs, t2, s2, e2)
    return None


def vcs(ctx):
    return dispatch_vcs() + tok_vcs()
