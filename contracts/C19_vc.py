"""C19, engine A part (value-level contracts; gradients are decided by the bounded driver only).

C19.srswor.cardinality - loop invariant on the real `simple_random_sampling_without_replacement` for one
  generic batch element and a SYMBOLIC vector size: with torch.bernoulli's assumed contract
  (result in {0,1}; 1 if p = 1; 0 if p = 0; requires 0 <= p <= 1 - itself an obligation) the sample has
  exactly `given` ones, all at positions below `total`.
C19.lb.threshold_csample - LogisticBernoulli: threshold(csample(b)) = b for every probability, noise and b,
  using only sign axioms of log (log x > 0 iff x > 1).
"""
import z3

from vf.pyvc import api, ctensor as ct, interp as ip
from vf.pyvc.api import VC
from vf.pyvc.interp import LoopSpec

TOTAL, GIVEN, OUT = z3.Ints("total given out_size")
LOG = z3.Function("log", z3.RealSort(), z3.RealSort())


class GhostVector:
    """the output buffer b[t] (t symbolic): only the number of ones and 'a one beyond total' are tracked"""

    def __init__(self):
        self.count = z3.RealVal(0)
        self.bad = z3.BoolVal(False)
        self.nonbinary = z3.BoolVal(False)

    def __vc_setitem__(self, I, t, v):
        x = v.a.reshape(-1)[0] if isinstance(v, ct.CT) else v
        x = ip.to_z3(x)
        if z3.is_int(x):
            x = z3.ToReal(x)
        self.count = self.count + x
        self.bad = z3.Or(self.bad, z3.And(ip.to_z3(t) >= TOTAL, x != 0))
        self.nonbinary = z3.Or(self.nonbinary, z3.And(x != 0, x != 1))

    def __vc_getattr__(self, I, name):
        me = self

        class M:
            def __vc_call__(s, I, a, k):
                return me

        if name in ("view", "reshape"):
            return M()
        if name == "T":
            return me
        raise ip.Unsupported("ghost vector .%s" % name)


def srswor_vc():
    import pydrobert.torch._combinatorics as C

    def thunk(I):
        gv = GhostVector()
        I.ex.ghost["gv"] = gv

        def bernoulli(I2, p):
            pv = ip.to_z3(p.a.reshape(-1)[0])
            I2.ex.oblige("bernoulli.probability_in_unit_interval", z3.And(pv >= 0, pv <= 1))
            b = I2.ex.fresh("real", "bern")
            I2.ex.assume(z3.And(z3.Or(b == 0, b == 1), z3.Implies(pv == 1, b == 1), z3.Implies(pv == 0, b == 0)))
            return ct.CT(ct.obj_array(b, (1,)), "float")

        I.stubs["torch.bernoulli"] = bernoulli
        I.stubs["torch.functional.broadcast_tensors"] = lambda I2, *ts: tuple(ts)
        I.stubs["torch.Size"] = lambda I2, x=(): tuple(x)
        I.stubs["torch.empty"] = lambda I2, *a, **k: gv
        tot = ct.CT(ct.obj_array(TOTAL, (1,)), "long")
        giv = ct.CT(ct.obj_array(GIVEN, (1,)), "long")
        return I.call(C.simple_random_sampling_without_replacement, [tot, giv, OUT], {})

    def scalar(v):
        x = v.a.reshape(-1)[0] if isinstance(v, ct.CT) else v
        x = ip.to_z3(x)
        return z3.ToReal(x) if z3.is_int(x) else x

    def inv(I, f, k):
        gv = I.ex.ghost["gv"]
        ell, rem = scalar(ip.local(f, "remainder_ell")), scalar(ip.local(f, "remainder_t"))  # renamed locals: contract not applicable (exit 2)
        m = TOTAL - k  # positions of the population still ahead: an INTEGER term (bounds stated over the integers keep the solver
        # out of branch-and-bound over an unbounded real relaxation)
        left = z3.ToReal(z3.If(m > 0, m, 0))
        return z3.And(ell == z3.ToReal(GIVEN) - gv.count, ell == z3.ToReal(z3.ToInt(ell)), 0 <= ell, ell <= left, rem == z3.ToReal(z3.If(m > 1, m, 1)),
                      z3.Not(gv.bad), z3.Not(gv.nonbinary))

    def havoc_state(name, integer=False):
        def mk(I):
            # `integer`: the invariant says the value is a whole number, i.e. it is ToReal(e) for SOME integer e - havoc it in that
            # form (equivalent hypothesis; keeps the solver in linear integer arithmetic instead of IsInt / ToInt over the reals)
            v = z3.ToReal(I.ex.fresh("int", "havoc_" + name)) if integer else I.ex.fresh("real", "havoc_" + name)
            return ct.CT(ct.obj_array(v, (1,)), "float")
        return mk

    class Loop(LoopSpec):
        def run(self, I, s, f):
            gv = I.ex.ghost["gv"]
            # the ghost buffer is loop-modified state too: havoc it (after the init obligation, which LoopSpec.run emits first)
            I.ex.oblige(self.name + ".init", self.inv(I, f, z3.IntVal(0)))
            gv.count, gv.bad, gv.nonbinary = I.ex.fresh("real", "havoc_count"), I.ex.fresh("bool", "havoc_bad"), I.ex.fresh("bool", "havoc_nonbin")
            return LoopSpec.run(self, I, s, f, emit_init=False)

    loop = Loop("srswor.loop", inv, length=lambda I, f, it: ip.to_z3(OUT), item=lambda I, f, it, k: k,
                modifies={"remainder_ell": havoc_state("ell", integer=True), "remainder_t": havoc_state("rem"), "p": havoc_state("p"), "b_t": havoc_state("b")})

    def post(p):
        if not api.returns(p):
            return False
        gv = p.ghost["gv"]
        return [("exactly_given_ones", gv.count == z3.ToReal(GIVEN)), ("no_ones_beyond_total", z3.Not(gv.bad)), ("binary", z3.Not(gv.nonbinary))]

    return VC("C19.P.srswor_cardinality", "simple_random_sampling_without_replacement", "pydrobert.torch._combinatorics",
              "simple_random_sampling_without_replacement", thunk, pre=[TOTAL >= 0, GIVEN >= 0, GIVEN <= TOTAL, OUT >= TOTAL],
              posts=[("cardinality", post)], loops={("simple_random_sampling_without_replacement", 0): loop},
              twins=[("one_more_than_given", lambda p: p.ghost["gv"].count == z3.ToReal(GIVEN) + 1 if api.returns(p) else None)],
              inputs={"total": TOTAL, "given": GIVEN, "out_size": OUT},
              assumptions=["torch.bernoulli(p) in {0,1}, =1 if p=1, =0 if p=0 (assumed contract; its precondition 0<=p<=1 is proved)",
                           "one generic batch element (the function is element-wise over the batch); the output buffer is a ghost vector tracking the number of ones and their positions",
                           "float arithmetic treated as real arithmetic (counts are small integers, exact in floats)"])


def lb_vc():
    import pydrobert.torch._straight_through as ST

    P, V, B, EPSC = z3.Reals("probs v b clamp_eps")

    def logm(I, t):
        def f(x):
            x = ip.to_z3(x)
            r = LOG(x)
            I.ex.assume(z3.And(z3.Implies(x > 1, r > 0), z3.Implies(x == 1, r == 0), z3.Implies(z3.And(x > 0, x < 1), r < 0)))
            return r
        return ct.CT.ew(f, t, dtype="float")

    def thunk(I):
        ct.METHODS["log"] = logm  # assumed contract of log: sign only
        I.stubs["torch.rand_like"] = lambda I2, t, **k: ct.CT(ct.obj_array(V, t.shape), "float")
        I.stubs["torch.distributions.utils.clamp_probs"] = lambda I2, t: ct.METHODS["clamp"](I2, t, min=EPSC, max=1 - EPSC)
        obj = ip.SObj(ST.LogisticBernoulli, {"probs": ct.CT(ct.obj_array(P, (1,)), "float"), "_validate_args": False}, "self")
        b = ct.CT(ct.obj_array(B, (1,)), "float")
        z = I.call(I.getattr(obj, "csample"), [b], {})
        return I.call(I.getattr(obj, "threshold"), [z], {})

    def post(p):
        if not api.returns(p) or not isinstance(p.value, ct.CT):
            return False
        out = ip.to_z3(p.value.a.reshape(-1)[0])
        return [("threshold_of_conditional_sample_is_b", out == B)]

    return VC("C19.P.lb_threshold_csample", "LogisticBernoulli.threshold(csample(b))", "pydrobert.torch._straight_through", "LogisticBernoulli.csample", thunk,
              pre=[P >= 0, P <= 1, V >= 0, V < 1, z3.Or(B == 0, B == 1), EPSC > 0, EPSC < z3.RealVal(1) / 1000],
              posts=[("inverse", post)], twins=[("always_one", lambda p: ip.to_z3(p.value.a.reshape(-1)[0]) == 1 if api.returns(p) else None)],
              inputs={"probs": P, "v": V, "b": B},
              assumptions=["log is an uninterpreted function with the sign axioms log x > 0 iff x > 1", "clamp_probs clamps to [eps, 1 - eps]; torch.rand_like in [0,1)",
                           "float arithmetic treated as real arithmetic; the rounding cases near v -> 1 are the bounded driver's"])


def vcs(ctx):
    return [srswor_vc(), lb_vc()]
