"""C04 - beam search returns distinct, correctly scored, best-first paths per element.

Bounded run-time contracts (engine B) live in contracts/C04_rt.py; the deductive part
(C04.adv.post over the source of beam_search_advance) is added here when available.
"""
from contracts import C04_rt

CHECKERS = dict(C04_rt.CHECKERS)


def run(ctx):
    C04_rt.run_bounded(ctx)
