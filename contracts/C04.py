"""C04 - beam search returns distinct, correctly scored, best-first paths per element."""
from contracts import C04_rt, C04_vc
from vf.pyvc import api

CHECKERS = dict(C04_rt.CHECKERS)


def run(ctx):
    from vf.pyvc import crosscheck_sym

    crosscheck_sym.guard(ctx)  # the symbolic-shape tensor layer against real torch, before the clauses that rest on it
    api.run_vcs(ctx, C04_vc.p_vcs(ctx), {"C04.P.advance_step": "real beam_search_advance source for SYMBOLIC batch size, old width, vocabulary, prefix length and beam width (full-length prefixes): slot = source + token with the chained score and the grown path, distinct candidates, best-first, optimal among candidates, fillers beyond min(width, K' V); also with prefix lengths given and previous scores that may be -inf (the form BeamSearch.forward uses): token at the source's length, length + 1, -inf exactly when the source is"})
    api.run_vcs(ctx, C04_vc.loop_p_vcs(ctx), {"C04.P.search_loop": "real BeamSearch.forward source, end-of-sequence unset, SYMBOLIC batch size, width, vocabulary and step limit, ANY language model, beam_search_advance under its proved contract: loop invariant - a slot is -inf exactly when it holds no path; a path has one token per step, the score chained along its own genealogy from the model's normalised scores, and differs from every other path of its beam; the model is asked about exactly the current paths with the current state, and the next state is the model's new state re-indexed by the global source index"})
    api.run_vcs(ctx, C04_vc.vcs(ctx), {"C04.S.advance_step": "real beam_search_advance source: new score = source score + extension score; new path = source prefix + token; (source, token) pairs distinct; best-first and optimal among candidates; filler slots -inf / length 0; all contents"},
                bounded="shapes (N,old_width,V,S,width) up to (1,3,2,1,6)/(2,2,2,1,3); ALL scores and prefixes; y_prev_lens omitted")
    C04_rt.run_bounded(ctx)
