"""C17 (bounded part) - the real command-line entry points on generated corpora.

Engine B: every checker builds a tiny corpus in a TemporaryDirectory, calls the REAL entry points of
pydrobert.torch.command_line as Python functions (each takes an argv list) and compares what they
wrote / printed with an oracle written from the property text and the commands' documentation:

  C17.cli.roundtrip   trn / ctm / TextGrid-directory -> token directory -> back gives the original
                      transcripts (times within one frame); ali -> token segments -> ali is the identity
                      (and token partition -> ali -> tokens merges equal neighbours only); for every file
                      prefix and suffix in the bound, with distractor files that match only one of them.
  C17.cli.error_rate  printed figure = total Levenshtein edits / total reference length (or the
                      per-utterance figures) whatever --batch-size, --replace, --ignore, --id2token.
  C17.cli.subset      subsetting selects exactly the requested utterances, files byte-identical,
                      source untouched.
  C17.cli.moments     length-moment commands and the mvn command report the pooled moments (exact
                      rational recount).
  C17.cli.workers     every command with --num-workers gives the same files and printed figures with
                      0, 1 and 2 workers (thorough: also --mp-chunk-size 1, 2).

None of the oracles below calls into pydrobert.torch: files are written and parsed with the small
writers/parsers of this module (trn, ctm, TextGrid short+long text formats, torch.save/torch.load).
"""
import contextlib
import io
import itertools
import math
import os
import random
import re
import tempfile
import warnings
from fractions import Fraction

VOCAB = {"a": 0, "b": 1, "sil": 2, "c": 3, "<unk>": 4}
ID2TOK = {v: k for k, v in VOCAB.items()}
PREFIXES = ["", "p_", "a", "x.y-"]
SUFFIXES = [".pt", "", "a", "_s.bin"]
UTT_IDS = ["u1", "a", "x.pt", "p_2", "utt-3", "aa"]
GARBAGE = b"this is not a torch file\n"


class CmdFailed(Exception):
    pass


# ---------------------------------------------------------------------------------------------------
# plumbing


def _call(name, args):
    """run the real console entry point `name` with argv `args`; returns what it printed on stdout"""
    import pydrobert.torch.command_line as cl

    out, err = io.StringIO(), io.StringIO()
    with warnings.catch_warnings():
        warnings.simplefilter("ignore")
        with contextlib.redirect_stdout(out), contextlib.redirect_stderr(err):
            rc = getattr(cl, name)([str(a) for a in args])
    if rc not in (None, 0):
        raise CmdFailed("%s%s returned %r; stderr: %s" % (name, list(map(str, args)), rc, err.getvalue()[-300:]))
    return out.getvalue()


def _sel(name, prefix, suffix):
    return name.startswith(prefix) and name.endswith(suffix)


def _distractors(prefix, suffix):
    """file names that match the prefix only / the suffix only / neither (never both)"""
    return sorted({n for n in (prefix + "zzQ", "Qzz" + suffix, "Qzz.Q") if not _sel(n, prefix, suffix)})


def _add_distractors(dir_, prefix, suffix):
    for n in _distractors(prefix, suffix):
        with open(os.path.join(dir_, n), "wb") as f:
            f.write(GARBAGE)


def _affix_args(prefix, suffix):
    out = []
    if prefix != "":
        out.append("--file-prefix=" + prefix)
    if suffix != ".pt":
        out.append("--file-suffix=" + suffix)
    return out


def _listing(dir_):
    return sorted(os.listdir(dir_)) if os.path.isdir(dir_) else None


def _expect_files(dir_, want, what, ignore=()):
    got = [x for x in (_listing(dir_) or []) if x not in ignore]
    if _listing(dir_) is None:
        return "%s: directory was not created" % what
    if got != sorted(want):
        return "%s: files %s, expected %s" % (what, got, sorted(want))
    return None


def _load(path):
    import torch

    return torch.load(path)


def _save_long(values, path):
    import torch

    torch.save(torch.tensor(values, dtype=torch.long), path)


def _write(path, text):
    with open(path, "w") as f:
        f.write(text)


def _write_map(path, swap):
    """token <-> id table. swap=False: '<token> <id>' lines, swap=True: '<id> <token>' lines"""
    _write(path, "".join(("%d %s\n" % (i, t)) if swap else ("%s %d\n" % (t, i)) for t, i in VOCAB.items()))


def _tok_id(tok, unk):
    if tok in VOCAB:
        return VOCAB[tok]
    if unk:
        return VOCAB["<unk>"]
    raise KeyError(tok)


def _close(a, b, tol):
    return abs(a - b) <= tol


# ---------------------------------------------------------------------------------------------------
# text formats (independent writers / parsers)


def _trn_text(utts):
    return "".join("%s(%s)\n" % ("".join(t + " " for t in toks), utt) for utt, toks in utts)


def _parse_trn(text):
    out = []
    for line in text.splitlines():
        line = line.strip()
        if not line:
            continue
        i, j = line.rindex("("), line.rindex(")")
        out.append([line[i + 1:j], line[:i].split()])
    return out


def _sec(ms):
    return "%.8f" % (ms / 1000.0)


def _q(ms):
    """the time (ms) that _sec(ms) actually writes"""
    return float(_sec(ms)) * 1000.0


def _tg_text(tiers, total_ms, fmt):
    """tiers: list of [class, name, entries]; entries [[tok, start_ms, end_ms]] (point tiers use start_ms)"""
    if fmt == "short":
        s = 'File type = "ooTextFile"\nObject class = "TextGrid"\n\n0\n%s\n<exists>\n%d\n' % (_sec(total_ms), len(tiers))
        for cls, name, ent in tiers:
            s += '"%s"\n"%s"\n0\n%s\n%d\n' % (cls, name, _sec(total_ms), len(ent))
            for tok, a, b in ent:
                s += ("%s\n" % _sec(a)) + ("" if cls == "TextTier" else "%s\n" % _sec(b)) + '"%s"\n' % tok
        return s
    s = 'File type = "ooTextFile"\nObject class = "TextGrid"\n\nxmin = 0\nxmax = %s\ntiers? <exists>\nsize = %d\nitem []:\n' % (_sec(total_ms), len(tiers))
    for k, (cls, name, ent) in enumerate(tiers):
        s += '    item [%d]:\n        class = "%s"\n        name = "%s"\n        xmin = 0\n        xmax = %s\n' % (k + 1, cls, name, _sec(total_ms))
        if cls == "TextTier":
            s += "        points: size = %d\n" % len(ent)
            for i, (tok, a, b) in enumerate(ent):
                s += '        points [%d]:\n            number = %s\n            mark = "%s"\n' % (i + 1, _sec(a), tok)
        else:
            s += "        intervals: size = %d\n" % len(ent)
            for i, (tok, a, b) in enumerate(ent):
                s += '        intervals [%d]:\n            xmin = %s\n            xmax = %s\n            text = "%s"\n' % (i + 1, _sec(a), _sec(b), tok)
    return s


_NUM = re.compile(r"^-?\d+(\.\d*)?([eE][-+]?\d+)?$")


def _parse_tg(text):
    """values of a Praat text file (short or long form) -> (xmin, xmax, [[class, name, xmin, xmax, entries]])"""
    vals = []
    for line in text.splitlines():
        line = line.strip()
        if not line:
            continue
        v = line.split("=", 1)[1].strip() if ("=" in line and not line.startswith('"')) else line
        if v.startswith('"') and v.endswith('"') and len(v) >= 2:
            vals.append(v[1:-1])
        elif _NUM.match(v):
            vals.append(float(v))
        elif v.endswith("<exists>"):
            vals.append("<exists>")
    if vals[:2] != ["ooTextFile", "TextGrid"]:
        raise ValueError("not a TextGrid header: %r" % vals[:2])
    xmin, xmax, ex, n = vals[2:6]
    pos, tiers = 6, []
    for _ in range(int(n)):
        cls, name, tmin, tmax, cnt = vals[pos:pos + 5]
        pos += 5
        ent = []
        for _ in range(int(cnt)):
            if cls == "TextTier":
                a, tok = vals[pos:pos + 2]
                pos += 2
                ent.append([tok, a, a])
            else:
                a, b, tok = vals[pos:pos + 3]
                pos += 3
                ent.append([tok, a, b])
        tiers.append([cls, name, tmin, tmax, ent])
    if pos != len(vals):
        raise ValueError("trailing values in TextGrid")
    return xmin, xmax, tiers


# ---------------------------------------------------------------------------------------------------
# C17.cli.roundtrip


def _check_tok_tensor(t, ids, times_ms, shift, what, size="full", point=False):
    """intermediate token tensor against the documented layout; times_ms None -> unknown (-1) boundaries"""
    import torch

    if t.dtype != torch.long:
        return "%s: dtype %s" % (what, t.dtype)
    shape = {"full": (len(ids), 3), "skip": (len(ids),), "feat": (len(ids), 1)}[size]
    if tuple(t.shape) != shape:
        return "%s: shape %s, expected %s" % (what, tuple(t.shape), shape)
    got = t.reshape(len(ids), -1)[:, 0].tolist() if len(ids) else []
    if got != ids:
        return "%s: token ids %s, expected %s" % (what, got, ids)
    if size != "full":
        return None
    for r, row in enumerate(t.tolist()):
        if times_ms is None:
            if row[1:] != [-1, -1]:
                return "%s: boundaries %s of token %d, expected unknown (-1, -1)" % (what, row[1:], r)
            continue
        a, b = times_ms[r]
        if not (_close(row[1] * shift, a, shift * (1 + 1e-6)) and _close(row[2] * shift, b, shift * (1 + 1e-6))):
            return "%s: token %d frames %s (shift %s ms) are more than one frame from %s ms" % (what, r, row[1:], shift, [a, b])
        if row[1] < 0 or row[2] < row[1] or (point and row[1] != row[2]):
            return "%s: token %d has ill-formed frames %s" % (what, r, row[1:])
    return None


def _rt_trn(case, tmp):
    p, s, utts = case["prefix"], case["suffix"], case["utts"]
    size, unk = case.get("size", "full"), case.get("unk", False)
    trn, t2i, i2t, d, back = (os.path.join(tmp, x) for x in ("in.trn", "t2i", "i2t", "tok", "out.trn"))
    _write(trn, _trn_text(utts))
    _write_map(t2i, case.get("swap_in", False))
    _write_map(i2t, not case.get("swap_out", False))
    args = [trn, t2i, d] + _affix_args(p, s) + (["--swap"] if case.get("swap_in") else [])
    args += {"full": [], "skip": ["--skip-frame-times"], "feat": ["--feat-sizing"]}[size]
    args += ["--unk-symbol=<unk>"] if unk else []
    _call("trn_to_torch_token_data_dir", args + ["--num-workers=0"])
    m = _expect_files(d, [p + u + s for u, _ in utts], "token dir after trn-to-torch-token-data-dir")
    if m:
        return m
    want = []
    for u, toks in utts:
        ids = [_tok_id(t, unk) for t in toks]
        m = _check_tok_tensor(_load(os.path.join(d, p + u + s)), ids, None, None, "utt %r" % u, size)
        if m:
            return m
        want.append([u, [ID2TOK[i] for i in ids]])
    _add_distractors(d, p, s)
    _call("torch_token_data_dir_to_trn", [d, i2t, back] + _affix_args(p, s) + (["--swap"] if case.get("swap_out") else []) + ["--num-workers=0"])
    got = _parse_trn(open(back).read())
    if sorted(got) != sorted(want):
        return "trn after the round trip %s, original %s" % (sorted(got), sorted(want))
    return None


def _rt_ctm(case, tmp):
    p, s = case["prefix"], case["suffix"]
    utts = [[u, [[tok, _q(a), _q(dur)] for tok, a, dur in segs]] for u, segs in case["utts"]]  # the times actually written
    shift = case.get("shift") or 10.0
    mode, chan = case.get("chan_mode", "plain"), case.get("channel")
    ctm, t2i, i2t, d, back, mp = (os.path.join(tmp, x) for x in ("in.ctm", "t2i", "i2t", "tok", "out.ctm", "map"))
    _write_map(t2i, False)
    _write_map(i2t, True)
    key = {}
    for k, (u, segs) in enumerate(utts):
        key[u] = (u, chan or "A") if mode == "plain" else ("w%d" % (len(utts) - k), "AB"[k % 2])
    if mode == "wc2utt":
        _write(mp, "".join("%s %s %s\n" % (key[u][0], key[u][1], u) for u, _ in utts))
    elif mode == "utt2wc":
        _write(mp, "".join("%s %s %s\n" % (u, key[u][0], key[u][1]) for u, _ in utts))
    lines = []
    for u, segs in utts:
        for tok, a, dur in segs:
            lines.append("%s %s %s %s %s\n" % (key[u][0], key[u][1], _sec(a), _sec(dur), tok))
    if case.get("interleave"):
        lines = lines[::2] + lines[1::2]
    _write(ctm, "".join(lines))
    size = case.get("size", "full")
    fs = ["--frame-shift-ms=%s" % case["shift"]] if case.get("shift") else []
    maparg = ["--%s=%s" % (mode, mp)] if mode != "plain" else []
    args = [ctm, t2i, d] + _affix_args(p, s) + maparg + ["--num-workers=0"]
    args += {"full": fs, "skip": ["--skip-frame-times"], "feat": ["--feat-sizing"]}[size]
    _call("ctm_to_torch_token_data_dir", args)
    m = _expect_files(d, [p + u + s for u, _ in utts], "token dir after ctm-to-torch-token-data-dir")
    if m:
        return m
    for u, segs in utts:
        ordered = sorted(segs, key=lambda x: x[1])
        m = _check_tok_tensor(_load(os.path.join(d, p + u + s)), [VOCAB[x[0]] for x in ordered], [[x[1], x[1] + x[2]] for x in ordered], shift, "utt %r" % u, size)
        if m:
            return m
    if size != "full":
        return None
    _add_distractors(d, p, s)
    args = [d, i2t, back] + _affix_args(p, s) + fs + maparg
    if mode == "plain" and chan:
        args.append("--channel=" + chan)
    _call("torch_token_data_dir_to_ctm", args)
    got = {}
    for line in open(back).read().splitlines():
        f = line.split()
        if len(f) != 5:
            return "ctm line %r does not have 5 fields" % line
        got.setdefault((f[0], f[1]), []).append([f[4], float(f[2]) * 1000, float(f[3]) * 1000])
    if sorted(got) != sorted(key.values()):
        return "ctm after the round trip has recordings %s, expected %s" % (sorted(got), sorted(key.values()))
    tol = shift * (1 + 1e-6)
    for u, segs in utts:
        g, w = got[key[u]], sorted(segs, key=lambda x: x[1])
        if [x[0] for x in g] != [x[0] for x in w]:
            return "utt %r tokens after the round trip %s, original %s" % (u, [x[0] for x in g], [x[0] for x in w])
        for (tok, a, dur), (_, a0, dur0) in zip(g, w):
            if not (_close(a, a0, tol) and _close(a + dur, a0 + dur0, tol)) or dur < 0:
                return "utt %r token %r came back as start %s ms, end %s ms; original %s, %s (frame %s ms)" % (u, tok, a, a + dur, a0, a0 + dur0, shift)
    return None


def _fill(ent, total_ms, fill):
    out, cur = [], 0
    for tok, a, b in ent:
        if cur < a:
            out.append([fill, cur, a])
        out.append([tok, a, b])
        cur = b
    if cur < total_ms:
        out.append([fill, cur, total_ms])
    return out


def _rt_tg(case, tmp):
    p, s = case["prefix"], case["suffix"]
    utts = [[u, cls, [[tok, _q(a), _q(b)] for tok, a, b in ent], _q(total)] for u, cls, ent, total in case["utts"]]  # the times actually written
    shift = case.get("shift") or 10.0
    tgs, fmt, fill = case.get("tg_suffix") or ".TextGrid", case.get("fmt", "short"), case.get("fill", False)
    sel, prec = case.get("tier_sel"), case.get("precision")
    t2i, i2t, tin, d, tout, fd = (os.path.join(tmp, x) for x in ("t2i", "i2t", "tg_in", "tok", "tg_out", "feat"))
    _write_map(t2i, False)
    _write_map(i2t, True)
    os.makedirs(tin)
    for u, cls, ent, total in utts:
        decoy = ["IntervalTier", "decoy", [["c", 0, total]]]
        real = [cls, "words", ent]
        tiers = [real] if sel is None else ([decoy, real] if sel[1] in ("words", 1) else [real, decoy])
        _write(os.path.join(tin, p + u + tgs), _tg_text(tiers, total, fmt))
    for n in _distractors(p, tgs):
        with open(os.path.join(tin, n), "wb") as f:
            f.write(GARBAGE)
    fs = ["--frame-shift-ms=%s" % case["shift"]] if case.get("shift") else []
    tga = ["--textgrid-suffix=" + tgs] if case.get("tg_suffix") else []
    args = [tin, t2i, d] + _affix_args(p, s) + fs + tga + ["--num-workers=0"]
    if sel is not None:
        args.append("--tier-%s=%s" % (sel[0], sel[1]))
    if fill:
        args.append("--fill-symbol=sil")
    _call("textgrids_to_torch_token_data_dir", args)
    m = _expect_files(d, [p + u[0] + s for u in utts], "token dir after textgrids-to-torch-token-data-dir")
    if m:
        return m
    want = {}
    for u, cls, ent, total in utts:
        w = _fill(ent, total, "sil") if (fill and cls == "IntervalTier") else [list(x) for x in ent]
        want[u] = w
        m = _check_tok_tensor(_load(os.path.join(d, p + u + s)), [VOCAB[x[0]] for x in w], [[x[1], x[2]] for x in w], shift, "utt %r" % u, "full", cls == "TextTier")
        if m:
            return m
    _add_distractors(d, p, s)
    if case.get("length") == "feat":
        import torch

        os.makedirs(fd)
        for u, cls, ent, total in utts:
            torch.save(torch.zeros(int(math.ceil(total / shift)) + 1, 2), os.path.join(fd, p + u + s))
        la = ["--feat-dir=" + fd]
    else:
        la = ["--infer"]
    args = [d, i2t, tout] + la + _affix_args(p, s) + fs + tga + ["--num-workers=0", "--tier-name=back"]
    if prec is not None:
        args.append("--precision=%d" % prec)
    _call("torch_token_data_dir_to_textgrids", args)
    m = _expect_files(tout, [p + u[0] + tgs for u in utts], "TextGrid dir after torch-token-data-dir-to-textgrids")
    if m:
        return m
    tol = shift * (1 + 1e-6) + 0.5 * 10.0 ** (3 - (3 if prec is None else prec))  # ms; printed with `prec` decimals of a second
    for u, cls, ent, total in utts:
        xmin, xmax, tiers = _parse_tg(open(os.path.join(tout, p + u + tgs)).read())
        if len(tiers) != 1:
            return "utt %r: %d tiers written" % (u, len(tiers))
        gcls, name, tmin, tmax, gent = tiers[0]
        w = want[u]
        if gcls != cls or name != "back":
            return "utt %r: tier %r of class %s, expected 'back' of class %s" % (u, name, gcls, cls)
        if [x[0] for x in gent] != [x[0] for x in w]:
            return "utt %r: labels after the round trip %s, original %s" % (u, [x[0] for x in gent], [x[0] for x in w])
        for (tok, a, b), (_, a0, b0) in zip(gent, w):
            if not (_close(a * 1000, a0, tol) and _close(b * 1000, b0, tol)):
                return "utt %r label %r came back at [%s, %s] s; original [%s, %s] ms (frame %s ms)" % (u, tok, a, b, a0, b0, shift)
        if xmin != 0 or xmax * 1000 < max([x[2] for x in w] + [0]) - tol:
            return "utt %r: file spans [%s, %s] s but holds an entry ending at %s ms" % (u, xmin, xmax, max(x[2] for x in w))
    return None


def _runs(labels):
    out = []
    for x in labels:
        if out and out[-1][0] == x:
            out[-1][1] += 1
        else:
            out.append([x, 1])
    return out


def _segments(runs):
    out, t = [], 0
    for tok, n in runs:
        out.append([tok, t, t + n])
        t += n
    return out


def _rt_ali(case, tmp):
    """ali -> token segments -> ali"""
    import torch

    p, s, utts = case["prefix"], case["suffix"], case["utts"]
    a, r, b, fd = (os.path.join(tmp, x) for x in ("ali", "ref", "ali2", "feat"))
    os.makedirs(a)
    for u, lab in utts:
        _save_long(lab, os.path.join(a, p + u + s))
    _add_distractors(a, p, s)
    extra = ["--num-workers=0"] + _affix_args(p, s)
    _call("torch_ali_data_dir_to_torch_token_data_dir", [a, r] + extra)
    names = [p + u + s for u, _ in utts]
    m = _expect_files(r, names, "token dir after torch-ali-data-dir-to-torch-token-data-dir")
    if m:
        return m
    for u, lab in utts:
        t = _load(os.path.join(r, p + u + s))
        want = _segments(_runs(lab))
        if t.dtype != torch.long or t.tolist() != want:
            return "utt %r: alignment %s became segments %s (%s), expected maximal runs %s" % (u, lab, t.tolist(), t.dtype, want)
    _add_distractors(r, p, s)
    if case.get("feat"):
        os.makedirs(fd)
        for u, lab in utts:
            torch.save(torch.zeros(len(lab), 2), os.path.join(fd, p + u + s))
        extra = extra + ["--feat-dir=" + fd]
    _call("torch_token_data_dir_to_torch_ali_data_dir", [r, b] + extra)
    m = _expect_files(b, names, "ali dir after torch-token-data-dir-to-torch-ali-data-dir")
    if m:
        return m
    for u, lab in utts:
        t = _load(os.path.join(b, p + u + s))
        if t.dtype != torch.long or t.tolist() != lab:
            return "utt %r: alignment %s came back as %s (%s)" % (u, lab, t.tolist(), t.dtype)
    return None


def _rt_tok(case, tmp):
    """token partition -> ali (documented: ali[t] = tok for start <= t < end) -> token segments (equal neighbours merge)"""
    import torch

    p, s, utts = case["prefix"], case["suffix"], case["utts"]  # utts: [utt, [[tok, n_frames >= 1], ...]]
    r, a, r2 = (os.path.join(tmp, x) for x in ("ref", "ali", "ref2"))
    os.makedirs(r)
    for u, runs in utts:
        _save_long(_segments(runs), os.path.join(r, p + u + s))
    _add_distractors(r, p, s)
    extra = ["--num-workers=0"] + _affix_args(p, s)
    _call("torch_token_data_dir_to_torch_ali_data_dir", [r, a] + extra)
    names = [p + u + s for u, _ in utts]
    m = _expect_files(a, names, "ali dir")
    if m:
        return m
    for u, runs in utts:
        want = [tok for tok, n in runs for _ in range(n)]
        t = _load(os.path.join(a, p + u + s))
        if t.dtype != torch.long or t.tolist() != want:
            return "utt %r: segments %s became alignment %s, expected %s" % (u, _segments(runs), t.tolist(), want)
    _call("torch_ali_data_dir_to_torch_token_data_dir", [a, r2] + extra)
    m = _expect_files(r2, names, "token dir")
    if m:
        return m
    for u, runs in utts:
        want = _segments(_runs([tok for tok, n in runs for _ in range(n)]))
        t = _load(os.path.join(r2, p + u + s))
        if t.tolist() != want:
            return "utt %r: segments %s came back as %s, expected %s" % (u, _segments(runs), t.tolist(), want)
    return None


_RT = {"trn": _rt_trn, "ctm": _rt_ctm, "tg": _rt_tg, "ali": _rt_ali, "tok": _rt_tok}


def check_roundtrip(case):
    with tempfile.TemporaryDirectory(prefix="c17rt") as tmp:
        return _RT[case["kind"]](case, tmp)


def _affixes(ctx_quick=True):
    return [(p, s) for p in PREFIXES for s in SUFFIXES]


def _name_utts(items, k):
    """pair each item with a distinct utterance id; rotate the id pool by k so that all ids get used"""
    pool = UTT_IDS + ["v%d" % i for i in range(max(0, len(items) - len(UTT_IDS)))]
    n = len(pool)
    return [[pool[(k + i) % n]] + (list(it) if isinstance(it, tuple) else [it]) for i, it in enumerate(items)]


def _tok_lists(alphabet, maxlen):
    out = []
    for n in range(maxlen + 1):
        out.extend(list(x) for x in itertools.product(alphabet, repeat=n))
    return out


def _ctm_seg_lists(shift, rich):
    """segment lists [[tok, start_ms, dur_ms]] whose starts are at least one frame apart, ends not beyond the next start"""
    starts0 = [0, 0.3 * shift, shift] if rich else [0, 0.3 * shift]
    durs = [0, 0.4 * shift, shift, 2.6 * shift] if rich else [0, 0.4 * shift, 2.6 * shift]
    out = []
    for a in starts0:
        for d in durs:
            out.append([["a", a, d]])
            for gap in ([0, 0.5 * shift] if rich else [0.5 * shift]):
                for d2 in [0, 1.4 * shift]:
                    a2 = max(a + d, a + shift) + gap
                    out.append([["b", a, d], ["a", a2, d2]])
    return out


def _tg_entry_lists(shift):
    iv = [
        [["a", 0, 2 * shift]],
        [["a", 0, 1.3 * shift], ["b", 1.3 * shift, 4 * shift]],
        [["b", 0.4 * shift, 2 * shift], ["a", 3.5 * shift, 5.1 * shift]],  # gaps before, between, after
        [["c", 0, shift], ["c", shift, 2 * shift], ["a", 2 * shift, 9.5 * shift]],
    ]
    pt = [[["a", 0, 0]], [["a", 1.2 * shift, 1.2 * shift], ["b", 3 * shift, 3 * shift]], [["b", 0.5 * shift, 0.5 * shift], ["b", 2 * shift, 2 * shift], ["c", 10 * shift, 10 * shift]]]
    return [["IntervalTier", e, e[-1][2] + (0.7 * shift if k == 2 else 0)] for k, e in enumerate(iv)] + [["TextTier", e, e[-1][2] + shift] for e in pt]


def _rand_tokens(rng, maxlen, alphabet=("a", "b", "sil", "c")):
    return [rng.choice(alphabet) for _ in range(rng.randint(0, maxlen))]


def cases_roundtrip(ctx):
    quick = ctx.quick
    k = 0
    # ---- trn: all corpora of <= 2 utterances with <= 2 tokens over {a, b}; all sizes; swap variants
    lists = _tok_lists(["a", "b"], 2)
    corpora = [[]] + [[x] for x in lists] + [[x, y] for x in lists for y in lists]
    if not quick:
        lists3 = _tok_lists(["a", "b", "sil"], 3)
        corpora += [[x, y, z] for x in lists3[::3] for y in lists3[1::5] for z in lists[::4]]
    for (p, s) in _affixes():
        for c in corpora:
            for size in ((("full", "skip", "feat")[(k // 4) % 3],) if quick else ("full", "skip", "feat")):
                k += 1
                sw = k % 4
                yield {"kind": "trn", "prefix": p, "suffix": s, "utts": _name_utts(c, k), "size": size, "swap_in": bool(sw & 1), "swap_out": bool(sw & 2)}
        for c in ([["a", "zz"]], [["zz"], ["b", "zz", "a"]]):  # out-of-vocabulary tokens with --unk-symbol
            k += 1
            yield {"kind": "trn", "prefix": p, "suffix": s, "utts": _name_utts(c, k), "unk": True}
    # ---- ctm
    for (p, s) in _affixes():
        for shift in ([None, 25.0] if quick else [None, 25.0, 2.5, 0.0625]):
            segl = _ctm_seg_lists(shift or 10.0, not quick)
            for i, segs in enumerate(segl):
                k += 1
                mode = ["plain", "plain", "wc2utt", "utt2wc"][k % 4]
                c = {"kind": "ctm", "prefix": p, "suffix": s, "shift": shift, "chan_mode": mode,
                     "utts": _name_utts([(segs,), (segl[(i * 7 + 3) % len(segl)],)][: 1 + k % 2], k), "interleave": bool(k % 3 == 0)}
                if mode == "plain" and k % 8 >= 4:
                    c["channel"] = "Q"
                yield c
        for size in ("skip", "feat"):
            k += 1
            yield {"kind": "ctm", "prefix": p, "suffix": s, "size": size, "utts": _name_utts([([["a", 0, 10], ["b", 30, 5]],)], k)}
    # ---- TextGrid directories
    for (p, s) in _affixes():
        for shift in ([None, 25.0] if quick else [None, 25.0, 2.5]):
            ents = _tg_entry_lists(shift or 10.0)
            for i, (cls, e, total) in enumerate(ents):
                for fmt in ("short", "long"):
                    for fill in ([False, True] if cls == "IntervalTier" else [False]):
                        k += 1
                        other = ents[(i + 1 + k % 3) % len(ents)]
                        if fill and other[0] != "IntervalTier":  # --fill-symbol is documented for interval tiers
                            other = ents[(i + 1) % 4]
                        us = [(cls, e, total)] + ([tuple(other)] if k % 2 else [])
                        yield {"kind": "tg", "prefix": p, "suffix": s, "shift": shift, "fmt": fmt, "fill": fill,
                               "tg_suffix": [None, ".tg", "a"][k % 3], "tier_sel": [None, ["name", "words"], ["idx", 1], ["idx", 0]][k % 4],
                               "length": ["infer", "feat"][(k // 2) % 2], "utts": _name_utts(us, k)}
    # raw-sample frame shift (documented: frame-shift-ms = 1000 / sample rate) with a matching print precision
    for (p, s) in [("", ".pt"), ("p_", "_s.bin")]:
        for cls, e, total in _tg_entry_lists(0.0625):
            k += 1
            yield {"kind": "tg", "prefix": p, "suffix": s, "shift": 0.0625, "precision": 6, "fmt": "short", "utts": _name_utts([(cls, e, total)], k)}
    # ---- alignments: every label sequence over {0, 1, 2} of length 1..L, four per corpus
    L = 4 if quick else 6
    seqs = [list(x) for n in range(1, L + 1) for x in itertools.product([0, 1, 2], repeat=n)]
    for (p, s) in _affixes():
        for i in range(0, len(seqs), 4):
            k += 1
            yield {"kind": "ali", "prefix": p, "suffix": s, "feat": bool(k % 2), "utts": _name_utts(seqs[i:i + 4], k)}
        k += 1
        yield {"kind": "ali", "prefix": p, "suffix": s, "utts": []}
    # ---- token partitions: every run list over tokens {0, 1} x lengths {1, 2} with <= 3 runs
    runs = [[list(r) for r in x] for n in range(1, 4) for x in itertools.product([(0, 1), (0, 2), (1, 1), (1, 3)], repeat=n)]
    for (p, s) in _affixes():
        for i in range(0, len(runs), 4):
            k += 1
            yield {"kind": "tok", "prefix": p, "suffix": s, "utts": _name_utts([(r,) for r in runs[i:i + 4]], k)}
    if quick:
        return
    rng = random.Random(ctx.seed * 7919 + 17)
    for _ in range(4000):
        p, s = rng.choice(PREFIXES), rng.choice(SUFFIXES)
        kind = rng.choice(["trn", "ctm", "tg", "ali", "tok"])
        ids = rng.sample(UTT_IDS + ["w%d" % i for i in range(4)], rng.randint(1, 4))
        if kind == "trn":
            yield {"kind": "trn", "prefix": p, "suffix": s, "utts": [[u, _rand_tokens(rng, 6)] for u in ids], "size": rng.choice(["full", "skip", "feat"]),
                   "swap_in": rng.random() < .5, "swap_out": rng.random() < .5}
        elif kind in ("ctm", "tg"):
            shift = rng.choice([None, 20.0, 12.5, 1.0])
            sh = shift or 10.0
            us = []
            for u in ids:
                t, segs = rng.randint(0, 40) * sh / 8, []
                for _ in range(rng.randint(1, 5)):
                    d = rng.choice([0, rng.randint(1, 40) * sh / 8])
                    segs.append([rng.choice(["a", "b", "c"]), t, d])
                    t = max(t + d, t + sh) + rng.choice([0, rng.randint(0, 24) * sh / 8])
                us.append([u, segs])
            if kind == "ctm":
                yield {"kind": "ctm", "prefix": p, "suffix": s, "shift": shift, "chan_mode": rng.choice(["plain", "wc2utt", "utt2wc"]), "utts": us, "interleave": rng.random() < .5}
            else:
                point = rng.random() < .4
                tg = []
                for u, segs in us:
                    if point:
                        tg.append([u, "TextTier", [[x[0], x[1], x[1]] for x in segs], segs[-1][1] + sh])
                    else:
                        ent = [[x[0], x[1], x[1] + x[2]] for x in segs if x[2] > 0] or [["a", 0, sh]]
                        tg.append([u, "IntervalTier", ent, ent[-1][2] + rng.choice([0, sh])])
                yield {"kind": "tg", "prefix": p, "suffix": s, "shift": shift, "fmt": rng.choice(["short", "long"]), "fill": (not point) and rng.random() < .5,
                       "tg_suffix": rng.choice([None, ".tg"]), "length": rng.choice(["infer", "feat"]), "precision": 4 if shift == 12.5 else None, "utts": tg}
        elif kind == "ali":
            yield {"kind": "ali", "prefix": p, "suffix": s, "feat": rng.random() < .5, "utts": [[u, [rng.randint(0, 3) for _ in range(rng.randint(1, 12))]] for u in ids]}
        else:
            yield {"kind": "tok", "prefix": p, "suffix": s, "utts": [[u, [[rng.randint(0, 2), rng.randint(1, 4)] for _ in range(rng.randint(1, 6))]] for u in ids]}


# ---------------------------------------------------------------------------------------------------
# C17.cli.error_rate


def _lev(a, b):
    prev = list(range(len(b) + 1))
    for i, x in enumerate(a, 1):
        cur = [i]
        for j, y in enumerate(b, 1):
            cur.append(min(prev[j] + 1, cur[j - 1] + 1, prev[j - 1] + (x != y)))
        prev = cur
    return prev[-1]


def check_error_rate(case):
    """case: utts [[utt, ref ids, hyp ids]], batch, replace [[from, to]], ignore [ids], id2token, mode, layout, shape"""
    import torch

    p, s, utts = case["prefix"], case["suffix"], case["utts"]
    mode, use_map = case.get("mode", "total"), case.get("id2token", False)
    with tempfile.TemporaryDirectory(prefix="c17er") as tmp:
        root = os.path.join(tmp, "data")
        rd, hd = (os.path.join(root, "ref"), os.path.join(root, "hyp")) if case.get("layout", "parent") == "parent" else (os.path.join(tmp, "R"), os.path.join(tmp, "H"))
        os.makedirs(rd), os.makedirs(hd)
        for k, (u, r, h) in enumerate(utts):
            for d_, ids in ((rd, r), (hd, h)):
                if case.get("shape", 1) == 3:
                    v = torch.tensor([[x, 2 * i, 2 * i + 1] if (i + k) % 2 else [x, -1, -1] for i, x in enumerate(ids)], dtype=torch.long).reshape(len(ids), 3)
                else:
                    v = torch.tensor(ids, dtype=torch.long)
                torch.save(v, os.path.join(d_, p + u + s))
        miss = case.get("missing")  # [utt, "ref"|"hyp"]: an utterance present on one side only, to be skipped with --warn-missing
        if miss:
            _save_long([0, 1], os.path.join(rd if miss[1] == "ref" else hd, p + miss[0] + s))
        _add_distractors(rd, p, s), _add_distractors(hd, p, s)
        out = os.path.join(tmp, "out.txt")
        args = ([root] if case.get("layout", "parent") == "parent" else [rd, hd, out]) + _affix_args(p, s) + ["--batch-size=%d" % case["batch"], "--quiet"]
        name = (lambda i: ID2TOK[i]) if use_map else str
        if use_map:
            _write_map(os.path.join(tmp, "i2t"), True)
            args.append("--id2token=" + os.path.join(tmp, "i2t"))
        if case.get("replace"):
            _write(os.path.join(tmp, "rep"), "".join("%s %s\n" % (name(a), name(b)) for a, b in case["replace"]))
            args.append("--replace=" + os.path.join(tmp, "rep"))
        if case.get("ignore"):
            _write(os.path.join(tmp, "ign"), " ".join(name(a) for a in case["ignore"]) + "\n")
            args.append("--ignore=" + os.path.join(tmp, "ign"))
        args += {"total": [], "per_utt": ["--per-utt"], "dist": ["--distances"], "per_utt_dist": ["--per-utt", "--distances"]}[mode]
        if miss:
            args.append("--warn-missing")
        printed = _call("compute_torch_token_data_dir_error_rates", args)
        if case.get("layout", "parent") != "parent":
            import gc

            gc.collect()
            printed = open(out).read()
    rep = {a: b for a, b in case.get("replace") or []}
    ign = set(case.get("ignore") or [])
    norm = lambda ids: [rep.get(x, x) for x in ids if rep.get(x, x) not in ign]
    per = [(u, _lev(norm(r), norm(h)), len(norm(r))) for u, r, h in utts]
    tot_e, tot_r = sum(x[1] for x in per), sum(x[2] for x in per)
    lines = printed.strip().splitlines()
    if mode in ("total", "dist"):
        want = Fraction(tot_e, tot_r) if mode == "total" else Fraction(tot_e, len(per))
        if len(lines) != 1:
            return "printed %r, expected one figure" % printed
        if not _close(float(lines[0]), float(want), 1e-9):
            return "printed %s, expected %d edits / %s = %.10g" % (lines[0], tot_e, tot_r if mode == "total" else "%d utterances" % len(per), float(want))
        return None
    got = {}
    for ln in lines:
        u, v = ln.rsplit(" ", 1)
        got[u] = float(v)
    want = {u: float(Fraction(e, n if mode == "per_utt" else 1)) for u, e, n in per}
    if sorted(got) != sorted(want) or any(not _close(got[u], want[u], 1e-9) for u in want):
        return "per-utterance figures %s, expected %s" % (sorted(got.items()), sorted(want.items()))
    return None


ER_RULES = [
    {},
    {"ignore": [2]},
    {"replace": [[1, 0]]},
    {"replace": [[1, 0]], "ignore": [0]},      # replaced first, then ignored: 0 and 1 both vanish
    {"replace": [[3, 2], [1, 0]], "ignore": [2, 3]},
    {"replace": [[2, 1]], "ignore": [2]},      # 2 is replaced before the ignore list is consulted: nothing vanishes
]


def _er_ok(case):
    """within the clause's domain: divisor non-zero (per utterance for --per-utt)"""
    rep = {a: b for a, b in case.get("replace") or []}
    ign = set(case.get("ignore") or [])
    lens = [len([x for x in r if rep.get(x, x) not in ign]) for _, r, _ in case["utts"]]
    if not lens:
        return False
    if case.get("mode") == "per_utt":
        return all(lens)
    return sum(lens) > 0 or case.get("mode") in ("dist", "per_utt_dist")


def cases_error_rate(ctx):
    pool = [([0], [0]), ([0, 1], [1]), ([0, 1, 2], [0, 2, 1]), ([1, 2, 0, 3], [1, 0, 3, 3, 2]), ([2, 0], []), ([3, 1, 1], [2, 3, 1, 1, 2]), ([0, 2, 2, 1], [0, 1])]
    corpora = [[x] for x in pool[:3]] + [[pool[1], pool[2]], [pool[4], pool[3]], [pool[6], pool[4], pool[3]], [pool[5], pool[6], pool[1], pool[2]]]
    if not ctx.quick:
        corpora += [list(c) for c in itertools.permutations(pool, 3)][::10] + [pool[:5], pool[2:], pool + pool[::-1][:2]]
    affixes = [("", ".pt"), ("p_", ".pt"), ("a", "a"), ("x.y-", "")] if ctx.quick else _affixes()
    combos = [(m, mode) for m in (False, True) for mode in ("total", "per_utt", "dist", "per_utt_dist")]
    k = 0
    for c in corpora:
        for batch in range(1, len(c) + 2):
            for rule in ER_RULES:
                for (use_map, mode) in combos:
                    for (p, s) in ([affixes[k % 4]] if ctx.quick else [affixes[(k * 7 + k // 16) % 16]]):
                        k += 1
                        case = dict(prefix=p, suffix=s, utts=_name_utts(c, k), batch=batch, id2token=use_map, mode=mode,
                                    layout=["parent", "two"][k % 2], shape=[1, 3][(k // 2) % 2], **rule)
                        if k % 11 == 0:
                            case["missing"] = ["zz-only", ["ref", "hyp"][k % 2]]
                        if _er_ok(case):
                            yield case
    if ctx.quick:
        return
    rng = random.Random(ctx.seed * 104729 + 5)
    for _ in range(6000):
        n = rng.randint(1, 7)
        ids = rng.sample(UTT_IDS + ["w%d" % i for i in range(6)], n)
        utts = [[u, [rng.randint(0, 3) for _ in range(rng.randint(0, 7))], [rng.randint(0, 3) for _ in range(rng.randint(0, 7))]] for u in ids]
        case = dict(prefix=rng.choice(PREFIXES), suffix=rng.choice(SUFFIXES), utts=utts, batch=rng.randint(1, n + 1), id2token=rng.random() < .5,
                    mode=rng.choice(["total", "per_utt", "dist", "per_utt_dist"]), layout=rng.choice(["parent", "two"]), shape=rng.choice([1, 3]), **rng.choice(ER_RULES))
        if _er_ok(case):
            yield case


# ---------------------------------------------------------------------------------------------------
# C17.cli.subset


def _subset_want(case):
    ids = sorted(u for u, _ in case["feats"])
    lens = dict((u, t) for u, t in case["feats"])
    name, val = case["crit"]
    if name in ("utt-list", "utt-list-file"):
        return sorted(set(val) & set(ids)), None
    kind, unit = name.rsplit("-", 1)
    n = int(val) if unit == "n" else int(Fraction(str(val)) * len(ids))  # ratios are rounded down
    n = min(n, len(ids))
    if kind == "rand":
        return None, n
    order = {"first": ids, "last": ids[::-1], "shortest": sorted(ids, key=lambda u: (lens[u], u)), "longest": sorted(ids, key=lambda u: (-lens[u], u))}[kind]
    return sorted(order[:n]), None


def _snapshot_bytes(root):
    out = {}
    for dp, dn, fn in os.walk(root):
        for f in fn:
            pth = os.path.join(dp, f)
            out[os.path.relpath(pth, root)] = open(pth, "rb").read()
    return out


def check_subset(case):
    """case: feats [[utt, T]], ali [utts], ref [utts], crit [flag, value], style link|copy|symlink, only, subdirs"""
    import torch

    p, s = case["prefix"], case["suffix"]
    only, style = case.get("only", False), case.get("style", "link")
    sub = case.get("subdirs") or ["feat", "ali", "ref"]
    with tempfile.TemporaryDirectory(prefix="c17ss") as tmp:
        src, dst = os.path.join(tmp, "src"), os.path.join(tmp, "dst")
        fdir = src if only else os.path.join(src, sub[0])
        os.makedirs(fdir)
        for u, t in case["feats"]:
            torch.save(torch.arange(t * 2, dtype=torch.float).reshape(t, 2) + len(u), os.path.join(fdir, p + u + s))
        _add_distractors(fdir, p, s)
        present = {sub[0]: [u for u, _ in case["feats"]]}
        if not only:
            for name, key in ((sub[1], "ali"), (sub[2], "ref")):
                if case.get(key) is None:
                    continue
                os.makedirs(os.path.join(src, name))
                present[name] = list(case[key])
                for u in case[key]:
                    _save_long([len(u), 1, 2], os.path.join(src, name, p + u + s))
        before = _snapshot_bytes(src)
        name, val = case["crit"]
        args = [src, dst] + _affix_args(p, s) + ["--num-workers=0"]
        if name == "utt-list-file":
            _write(os.path.join(tmp, "list.txt"), "".join(u + "\n" for u in val))
            args += ["--utt-list-file", os.path.join(tmp, "list.txt")]
        elif name == "utt-list":
            args += ["--utt-list"] + list(val)
        else:
            args += ["--" + name, str(val)]
        if style != "link":
            args.append("--" + style)
        if only:
            args.append("--only")
        elif case.get("subdirs"):
            args += ["--feat-subdir=" + sub[0], "--ali-subdir=" + sub[1], "--ref-subdir=" + sub[2]]
        if name.startswith("rand"):
            args += ["--seed", str(case.get("seed", 1))]
        _call("subset_torch_spect_data_dir", args)
        want, n_rand = _subset_want(case)
        ddir = dst if only else os.path.join(dst, sub[0])
        if want is None:  # --rand-*: the count and membership are determined, the choice is not
            got = _listing(ddir)
            allowed = [p + u + s for u, _ in case["feats"]]
            if got is None or len(got) != n_rand or len(set(got)) != len(got) or not set(got) <= set(allowed):
                return "random subset %s: expected %d distinct files out of %s" % (got, n_rand, sorted(allowed))
            want = sorted(x[len(p):len(x) - len(s)] for x in got)
            dst2 = os.path.join(tmp, "dst2")
            _call("subset_torch_spect_data_dir", [dst2 if a == dst else a for a in args])
            if _listing(dst2 if only else os.path.join(dst2, sub[0])) != got:
                return "same --seed, different random subsets: %s vs %s" % (got, _listing(dst2 if only else os.path.join(dst2, sub[0])))
        exp = {}
        for d_, us in present.items():
            for u in us:
                if u in want:
                    exp[(p + u + s) if only else os.path.join(d_, p + u + s)] = before[(p + u + s) if only else os.path.join(d_, p + u + s)]
        got = _snapshot_bytes(dst)
        if sorted(got) != sorted(exp):
            return "subset %s holds %s, expected exactly %s" % (case["crit"], sorted(got), sorted(exp))
        for rel in exp:
            if got[rel] != exp[rel]:
                return "file %s differs from its source" % rel
            pth, sp = os.path.join(dst, rel), os.path.join(src, rel)
            if style == "symlink" and not (os.path.islink(pth) and not os.path.isabs(os.readlink(pth)) and os.path.realpath(pth) == os.path.realpath(sp)):
                return "file %s is not a relative symlink to its source" % rel
            if style == "link" and not os.path.samefile(pth, sp):
                return "file %s is not a hard link to its source" % rel
            if style == "copy" and (os.path.islink(pth) or os.path.samefile(pth, sp)):
                return "file %s is not a copy" % rel
        if _snapshot_bytes(src) != before:
            return "the source directory was modified"
    return None


def cases_subset(ctx):
    corpora = [
        {"feats": [["u1", 3], ["a", 1], ["x.pt", 2]], "ali": ["u1", "a", "x.pt"], "ref": ["u1", "a", "x.pt"]},
        {"feats": [["b", 2], ["a", 2], ["c", 1], ["aa", 4]], "ali": ["a", "c", "zz"], "ref": None},     # ties in length; ali misses b, aa and has an extra
        {"feats": [["p_2", 5]], "ali": None, "ref": ["p_2", "q"]},
        {"feats": [["u%d" % i, (i * 3) % 5 + 1] for i in range(6)], "ali": ["u0", "u5"], "ref": ["u%d" % i for i in range(6)]},
        {"feats": [], "ali": [], "ref": []},
        # ids one of which is a prefix of another, followed by a character that sorts before the suffix's first character:
        # the order of the ids differs from the order of the file names
        {"feats": [["u1", 2], ["u1-a", 3], ["u1-b", 1], ["u10", 4]], "ali": ["u1", "u1-a"], "ref": ["u1", "u1-a", "u1-b", "u10"]},
    ]
    if not ctx.quick:
        corpora.append({"feats": [["u%02d" % i, (i * 7) % 6 + 1] for i in range(11)], "ali": ["u%02d" % i for i in range(0, 11, 2)], "ref": ["u%02d" % i for i in range(11)]})
    ratios = ["0", "0.34", "0.5", "0.75", "1"] if ctx.quick else ["0", "0.1", "0.2", "0.25", "0.3", "0.34", "0.4", "0.5", "0.6", "0.67", "0.7", "0.75", "0.8", "0.9", "1", "1.0"]
    affixes = [("", ".pt"), ("p_", ".pt"), ("a", "a"), ("x.y-", "_s.bin")] if ctx.quick else _affixes()
    k = 0
    for (p, s) in affixes:
        for c in corpora:
            ids = [u for u, _ in c["feats"]]
            n = len(ids)
            crits = []
            for kind in ("first", "last", "shortest", "longest", "rand"):
                crits += [[kind + "-n", m] for m in range(n + 2)] + [[kind + "-ratio", r] for r in ratios]
            lists = [[]] if not ids else [ids[:1], ids[::-1], ids[1:] + ["nope"], ["nope"], ids[::2], ids[:2] + ids[:1]]  # the last one names an utterance twice
            crits += [["utt-list", l] for l in lists if l] + [["utt-list-file", l] for l in lists]
            for crit in crits:
                for only in (False, True):
                    k += 1
                    yield dict(prefix=p, suffix=s, crit=crit, only=only, style=["link", "copy", "symlink"][k % 3], subdirs=[None, ["F", "al", "r.d"]][(k // 3) % 2], seed=k % 5, **c)
    if ctx.quick:
        return
    rng = random.Random(ctx.seed * 31337 + 3)
    for _ in range(3000):
        n = rng.randint(0, 8)
        ids = rng.sample(UTT_IDS + ["w%d" % i for i in range(8)], n)
        c = {"feats": [[u, rng.randint(1, 5)] for u in ids], "ali": rng.choice([None, rng.sample(ids, rng.randint(0, n))]), "ref": rng.choice([None, ids])}
        kind = rng.choice(["first", "last", "shortest", "longest", "rand", "list", "list-file"])
        if kind.startswith("list"):
            crit = ["utt-" + kind, rng.sample(ids + ["nope", "zz"], rng.randint(0 if kind == "list-file" else 1, n + 1)) + (ids[:1] if rng.random() < .1 else [])]
        elif rng.random() < .5:
            crit = [kind + "-n", rng.randint(0, n + 2)]
        else:
            crit = [kind + "-ratio", "%.2f" % (rng.randint(0, 100) / 100)]
        yield dict(prefix=rng.choice(PREFIXES), suffix=rng.choice(SUFFIXES), crit=crit, only=rng.random() < .3, style=rng.choice(["link", "copy", "symlink"]),
                   subdirs=rng.choice([None, ["F", "al", "r.d"]]), seed=rng.randint(0, 9), **c)


# ---------------------------------------------------------------------------------------------------
# C17.cli.moments


def _moments(lens, bessel, std):
    """exact pooled mean and (variance | None when undefined) of a list of integers"""
    c = len(lens)
    if c == 0:
        return None, None
    mean = Fraction(sum(lens), c)
    var = Fraction(sum(x * x for x in lens), c) - mean * mean
    if bessel:
        if c == 1:
            return mean, None
        var = var * c / (c - 1)
    return mean, (math.sqrt(var) if std else var)


def _check_printed(printed, mean, var, prec, what):
    m = re.fullmatch(r"(\S+) \((\S+)\)\n", printed)
    if not m:
        return "%s: printed %r, expected '<mean> (<var>)'" % (what, printed)
    tol = 0.5 * 10.0 ** -prec * (1 + 1e-6)
    for got, want, nm in ((m.group(1), mean, "mean"), (m.group(2), var, "spread")):
        if want is None:
            if got != "n/a":
                return "%s: printed %s %s, expected n/a" % (what, nm, got)
            continue
        if got == "n/a" or "." in got and len(got.split(".")[1]) != prec or not _close(float(got), float(want), tol + 1e-9 * (1 + abs(float(want)))):
            return "%s: printed %s %s, pooled recount gives %.6f (precision %d)" % (what, nm, got, float(want), prec)
    return None


def check_moments(case):
    import torch

    p, s, kind = case["prefix"], case["suffix"], case["kind"]
    bessel, std, excl, prec = case.get("bessel", False), case.get("std", False), case.get("exclude"), case.get("precision")
    with tempfile.TemporaryDirectory(prefix="c17mo") as tmp:
        d, out = os.path.join(tmp, "d"), os.path.join(tmp, "out")
        os.makedirs(d)
        if kind in ("ali", "ref"):
            lens, bad = [], False
            for u, v in case["utts"]:
                if kind == "ali":
                    _save_long(v, os.path.join(d, p + u + s))
                    lens += [n for tok, n in _runs(v) if not (excl and tok in excl)]
                elif v and not isinstance(v[0], list):  # (R,) token sequence without boundaries: discarded
                    _save_long(v, os.path.join(d, p + u + s))
                    bad = True
                else:
                    torch.save(torch.tensor(v, dtype=torch.long).reshape(len(v), 3), os.path.join(d, p + u + s))
                    for tok, a, b in v:
                        if excl and tok in excl:
                            continue
                        if 0 <= a <= b:
                            lens.append(b - a)
                        else:
                            bad = True
            _add_distractors(d, p, s)
            args = [d] + ([out] if case.get("to_file") else []) + _affix_args(p, s) + ["--num-workers=0"]
            args += (["--bessel"] if bessel else []) + (["--std"] if std else []) + (["--precision=%d" % prec] if prec is not None else [])
            if case.get("strict"):
                args.append("--strict")
            if excl:  # nargs='+': keep it last so that it cannot swallow a positional
                args += ["--exclude-ids"] + [str(x) for x in excl]
            cmd = "print_torch_%s_data_dir_length_moments" % kind
            if case.get("strict") and bad:
                try:
                    _call(cmd, args)
                except ValueError:
                    return None
                return "--strict did not raise on missing boundary information"
            printed = _call(cmd, args)
            if case.get("to_file"):
                import gc

                gc.collect()
                printed = open(out).read()
            mean, var = _moments(lens, bessel, std)
            return _check_printed(printed, mean, var, 3 if prec is None else prec, "%s lengths %s" % (kind, lens))
        # mvn: utts [[utt, gid, rows]] rows = T x F integers
        groups = {}
        for u, g, rows in case["utts"]:
            torch.save(torch.tensor(rows, dtype=torch.float), os.path.join(d, p + u + s))
            groups.setdefault(g if case.get("id2gid") else None, []).extend(rows)
        _add_distractors(d, p, s)
        args = [d, out] + _affix_args(p, s) + ["--num-workers=0"] + (["--bessel"] if bessel else [])
        if case.get("id2gid"):
            _write(os.path.join(tmp, "i2g"), "".join("%s %s\n" % (u, g) for u, g, _ in case["utts"]))
            args.append("--id2gid=" + os.path.join(tmp, "i2g"))
        _call("compute_mvn_stats_for_torch_feat_data_dir", args)
        got = torch.load(out)
        if not case.get("id2gid"):
            got = {None: got}
        if sorted(map(str, got)) != sorted(map(str, groups)):
            return "statistics for groups %s, expected %s" % (sorted(map(str, got)), sorted(map(str, groups)))
        for g, rows in groups.items():
            if sorted(got[g]) != ["mean", "std"]:
                return "group %r has keys %s" % (g, sorted(got[g]))
            for f in range(len(rows[0])):
                mean, sd = _moments([r[f] for r in rows], bessel, True)
                gm, gs = float(got[g]["mean"][f]), float(got[g]["std"][f])
                if not (_close(gm, float(mean), 1e-4 * (1 + abs(mean))) and _close(gs, sd, 1e-4 * (1 + sd))):
                    return "group %r coefficient %d: mean %s std %s, pooled recount %.6f %.6f" % (g, f, gm, gs, float(mean), sd)
    return None


def cases_moments(ctx):
    quick = ctx.quick
    L = 4 if quick else 5
    seqs = [list(x) for n in range(1, L + 1) for x in itertools.product([0, 1, 2], repeat=n)]
    affixes = [("", ".pt"), ("p_", ".pt"), ("a", "a"), ("x.y-", "_s.bin"), ("", "")] if quick else _affixes()
    k = 0
    for rot in range(1 if quick else 4):
        # ali: every label sequence over {0,1,2} up to length L, pooled three at a time, all flag combinations
        for i in range(0, len(seqs), 3):
            for bessel in (False, True):
                for std in (False, True):
                    for excl in (None, [1], [0, 2]):
                        k += 1
                        yield dict(kind="ali", prefix=affixes[(k + rot) % len(affixes)][0], suffix=affixes[(k + rot) % len(affixes)][1], utts=_name_utts(seqs[i:i + 3], k), bessel=bessel, std=std, exclude=excl,
                                   precision=[None, 0, 5][k % 3], to_file=bool(k % 2))
        # ref: segments with valid, zero-length, missing (-1) and inverted boundaries, plus boundary-less utterances
        segs = [[0, 0, 2], [1, 2, 2], [2, 3, 7], [1, -1, -1], [0, 5, 4], [2, 0, 1], [0, -1, 3]]
        refs = [list(c) for n in (1, 2, 3) for c in itertools.combinations(segs, n)]
        for i, r in enumerate(refs):
            for bessel in (False, True):
                for std in (False, True):
                    for excl in (None, [1], [0, 2]):
                        k += 1
                        us = [(r,), (refs[(i * 5 + 2) % len(refs)],)] + ([([0, 1, 1],)] if k % 4 == 0 else [])
                        yield dict(kind="ref", prefix=affixes[(k + rot) % len(affixes)][0], suffix=affixes[(k + rot) % len(affixes)][1], utts=_name_utts(us, k), bessel=bessel, std=std, exclude=excl, precision=[None, 1, 4][k % 3],
                                   to_file=bool(k % 2), strict=bool(k % 5 == 0))
        # mvn: integer features, >= 2 frames per group
        tabs = [[[0, 1], [2, 5]], [[1, 1], [1, 4], [7, 0]], [[3, -2]], [[0, 0], [0, 9], [4, 4], [2, 1]], [[5, 5], [5, 5]]]
        for i in range(len(tabs)):
            for j in range(len(tabs)):
                for bessel in (False, True):
                    for gid in (False, True):
                        k += 1
                        us = [("g1", tabs[i]), ("g1" if k % 2 else "g2", tabs[j]), ("g1", tabs[(i + j) % len(tabs)])]
                        frames = {}
                        for g, r in us:
                            frames[g if gid else None] = frames.get(g if gid else None, 0) + len(r)
                        if min(frames.values()) < 2:
                            continue
                        yield dict(kind="mvn", prefix=affixes[(k + rot) % len(affixes)][0], suffix=affixes[(k + rot) % len(affixes)][1], utts=_name_utts(us, k), bessel=bessel, id2gid=gid)
    if quick:
        return
    rng = random.Random(ctx.seed * 613 + 1)
    for _ in range(4000):
        p, s = rng.choice(PREFIXES), rng.choice(SUFFIXES)
        ids = rng.sample(UTT_IDS + ["w%d" % i for i in range(5)], rng.randint(1, 5))
        kind = rng.choice(["ali", "ref"])
        if kind == "ali":
            us = [[u, [rng.randint(0, 3) for _ in range(rng.randint(1, 15))]] for u in ids]
        else:
            us = []
            for u in ids:
                r = []
                for _ in range(rng.randint(1, 6)):
                    a = rng.randint(-1, 9)
                    r.append([rng.randint(0, 3), a, a + rng.randint(-1, 6)])
                us.append([u, r])
        yield dict(kind=kind, prefix=p, suffix=s, utts=us, bessel=rng.random() < .5, std=rng.random() < .5, exclude=rng.choice([None, [1], [0, 3], [2, 2]]),
                   precision=rng.choice([None, 0, 2, 6]), to_file=rng.random() < .5)


# ---------------------------------------------------------------------------------------------------
# C17.cli.workers


@contextlib.contextmanager
def _allow_children():
    """the framework's pool workers are daemonic; the commands start their own pools / loader workers"""
    import multiprocessing as mp

    cfg = mp.current_process()._config
    had, old = "daemon" in cfg, cfg.get("daemon")
    cfg["daemon"] = False
    oldw = os.environ.get("PYTHONWARNINGS")
    os.environ["PYTHONWARNINGS"] = "ignore"
    try:
        yield
    finally:
        if had:
            cfg["daemon"] = old
        else:
            cfg.pop("daemon", None)
        if oldw is None:
            os.environ.pop("PYTHONWARNINGS", None)
        else:
            os.environ["PYTHONWARNINGS"] = oldw


def _snapshot(root):
    """relative path -> comparable content (tensors by dtype/shape/values, everything else by bytes)"""
    import torch

    out = {}
    for dp, dn, fn in os.walk(root):
        for f in fn:
            pth = os.path.join(dp, f)
            rel = os.path.relpath(pth, root)
            raw = open(pth, "rb").read()
            try:
                v = torch.load(pth)
            except Exception:
                out[rel] = raw
                continue
            out[rel] = _plain(v)
    return out


def _plain(v):
    import torch

    if isinstance(v, torch.Tensor):
        return ["tensor", str(v.dtype), list(v.shape), v.tolist()]
    if isinstance(v, dict):
        return {str(k): _plain(x) for k, x in v.items()}
    return repr(v)


W_UTTS = [["u1", ["a", "b", "a"]], ["a", ["b"]], ["x.pt", ["c", "c", "sil", "a"]], ["p_2", []], ["utt-3", ["a", "a"]]]
W_ALI = [["u1", [0, 0, 1, 2, 2, 2]], ["a", [1]], ["x.pt", [2, 1, 1, 0]], ["p_2", [0, 0, 0, 0, 0]], ["utt-3", [1, 2, 1, 2]]]


def _w_build(cmd, tmp, p, s, n):
    """input files for command `cmd`; returns a function (out_dir, nw_args) -> argv"""
    import torch

    utts, alis = W_UTTS[:n], W_ALI[:n]
    t2i, i2t = os.path.join(tmp, "t2i"), os.path.join(tmp, "i2t")
    _write_map(t2i, False), _write_map(i2t, True)
    aff = _affix_args(p, s)
    ind = os.path.join(tmp, "in")
    os.makedirs(ind)

    def tokdir(times):
        for u, lab in alis:
            v = _segments(_runs(lab))
            _save_long(v if times else [x[0] for x in v], os.path.join(ind, p + u + s))
        _add_distractors(ind, p, s)

    if cmd == "trn_to_torch_token_data_dir":
        _write(os.path.join(tmp, "in.trn"), _trn_text(utts))
        return lambda o, w: [os.path.join(tmp, "in.trn"), t2i, os.path.join(o, "tok")] + aff + w
    if cmd == "ctm_to_torch_token_data_dir":
        _write(os.path.join(tmp, "in.ctm"), "".join("%s A %s %s %s\n" % (u, _sec(30 * i), _sec(20), t) for u, toks in utts for i, t in enumerate(toks)))
        return lambda o, w: [os.path.join(tmp, "in.ctm"), t2i, os.path.join(o, "tok")] + aff + w
    if cmd == "textgrids_to_torch_token_data_dir":
        for u, toks in utts:
            ent = [[t, 30 * i, 30 * i + 20] for i, t in enumerate(toks)] or [["a", 0, 10]]
            _write(os.path.join(ind, p + u + ".TextGrid"), _tg_text([["IntervalTier", "w", ent]], ent[-1][2], "long"))
        return lambda o, w: [ind, t2i, os.path.join(o, "tok")] + aff + w
    if cmd == "torch_token_data_dir_to_trn":
        tokdir(False)
        return lambda o, w: [ind, i2t, os.path.join(o, "out.trn")] + aff + [x for x in w if not x.startswith("--mp-chunk")]
    if cmd == "torch_token_data_dir_to_textgrids":
        tokdir(True)
        return lambda o, w: [ind, i2t, os.path.join(o, "tg"), "--infer"] + aff + w
    if cmd == "torch_token_data_dir_to_torch_ali_data_dir":
        tokdir(True)
        return lambda o, w: [ind, os.path.join(o, "ali")] + aff + w
    if cmd in ("torch_ali_data_dir_to_torch_token_data_dir", "print_torch_ali_data_dir_length_moments"):
        for u, lab in alis:
            _save_long(lab, os.path.join(ind, p + u + s))
        _add_distractors(ind, p, s)
        if cmd.startswith("print"):
            return lambda o, w: [ind, os.path.join(o, "figures.txt")] + aff + w
        return lambda o, w: [ind, os.path.join(o, "tok")] + aff + w
    if cmd == "print_torch_ref_data_dir_length_moments":
        tokdir(True)
        return lambda o, w: [ind, os.path.join(o, "figures.txt"), "--quiet"] + aff + w
    if cmd == "compute_mvn_stats_for_torch_feat_data_dir":
        for k, (u, lab) in enumerate(alis):
            torch.save(torch.tensor([[x, k, x * x - k] for x in lab + [3]], dtype=torch.float), os.path.join(ind, p + u + s))
        _add_distractors(ind, p, s)
        return lambda o, w: [ind, os.path.join(o, "stats.pt")] + aff + [x for x in w if not x.startswith("--mp-chunk")]
    # whole SpectDataSet directories
    for sub in ("feat", "ali", "ref"):
        os.makedirs(os.path.join(ind, sub))
    for k, (u, lab) in enumerate(alis):
        torch.save(torch.tensor([[x, k] for x in lab], dtype=torch.float), os.path.join(ind, "feat", p + u + s))
        _save_long(lab, os.path.join(ind, "ali", p + u + s))
        _save_long(_segments(_runs(lab)), os.path.join(ind, "ref", p + u + s))
    if cmd == "subset_torch_spect_data_dir":
        return lambda o, w: [ind, os.path.join(o, "sub"), "--shortest-n", str(max(n - 1, 1)), "--copy"] + aff + w
    if cmd == "chunk_torch_spect_data_dir":
        return lambda o, w: [ind, os.path.join(o, "chunks"), "--lobe-size=1", "--quiet"] + aff + w
    raise KeyError(cmd)


W_CMDS = ["trn_to_torch_token_data_dir", "ctm_to_torch_token_data_dir", "textgrids_to_torch_token_data_dir", "torch_token_data_dir_to_trn",
          "torch_token_data_dir_to_textgrids", "torch_token_data_dir_to_torch_ali_data_dir", "torch_ali_data_dir_to_torch_token_data_dir",
          "print_torch_ali_data_dir_length_moments", "print_torch_ref_data_dir_length_moments", "compute_mvn_stats_for_torch_feat_data_dir",
          "subset_torch_spect_data_dir", "chunk_torch_spect_data_dir"]


def check_workers(case):
    """case: cmd, prefix, suffix, n (utterances), workers [..], chunk (mp-chunk-size or None)"""
    cmd, p, s = case["cmd"], case["prefix"], case["suffix"]
    with tempfile.TemporaryDirectory(prefix="c17wk") as tmp, _allow_children():
        argv = _w_build(cmd, tmp, p, s, case["n"])
        base = None
        for nw in case["workers"]:
            o = os.path.join(tmp, "out%d" % nw)
            os.makedirs(o)
            w = ["--num-workers=%d" % nw] + (["--mp-chunk-size=%d" % case["chunk"]] if case.get("chunk") else [])
            printed = _call(cmd, argv(o, w))
            import gc

            gc.collect()
            snap = (printed, _snapshot(o))
            if not snap[1] and not printed:
                return "%s wrote nothing with %d workers" % (cmd, nw)
            if base is None:
                base = (nw, snap)
            elif snap != base[1]:
                diff = sorted(k for k in set(snap[1]) | set(base[1][1]) if snap[1].get(k) != base[1][1].get(k))
                return "%s: output with %d workers differs from %d workers (printed %r vs %r; files that differ: %s)" % (cmd, nw, base[0], printed[:80], base[1][0][:80], diff[:6])
    return None


def cases_workers(ctx):
    if ctx.quick:
        for i, cmd in enumerate(W_CMDS):
            p, s = [("", ".pt"), ("p_", "_s.bin"), ("a", "a"), ("x.y-", "")][i % 4]
            yield dict(cmd=cmd, prefix=p, suffix=s, n=5, workers=[0, 1, 2], chunk=None)
        return
    for i, cmd in enumerate(W_CMDS):
        for j, n in enumerate((1, 5)):
            for chunk in (None, 1, 2):
                for (p, s) in [[("", ".pt"), ("p_", "_s.bin"), ("a", "a"), ("x.y-", "")][(i + j + q) % 4] for q in (0, 1)]:
                    yield dict(cmd=cmd, prefix=p, suffix=s, n=n, workers=[0, 1, 3], chunk=chunk)


# ---------------------------------------------------------------------------------------------------

def _stable(fn):
    """an exception escaping a command is a contract failure; report it without the random temp-dir name so that
    the same failure always produces the same message (and the same replay file)"""
    import functools
    import traceback

    @functools.wraps(fn)
    def wrapped(case):
        try:
            return fn(case)
        except Exception as e:
            tb = " | ".join(l.strip() for l in traceback.format_exc(limit=-3).splitlines()[1:-1])
            msg = "checker raised %s: %s | %s" % (type(e).__name__, e, tb)
            return re.sub(re.escape(tempfile.gettempdir()) + r"/c17\w+", "<tmp>", msg)[:1500]

    return wrapped


check_roundtrip, check_error_rate, check_subset = _stable(check_roundtrip), _stable(check_error_rate), _stable(check_subset)
check_moments, check_workers = _stable(check_moments), _stable(check_workers)
CHECKERS = {
    "C17.cli.roundtrip": check_roundtrip,
    "C17.cli.error_rate": check_error_rate,
    "C17.cli.subset": check_subset,
    "C17.cli.moments": check_moments,
    "C17.cli.workers": check_workers,
}


FINDINGS = [
    {"id": "KF-C17-1", "property": "C17", "clause": "C17.cli.roundtrip",
     "what": "torch-token-data-dir-to-textgrids ignores --precision (and its own tier-type decision): it calls write_textgrid with a path, which re-enters without point_tier/precision "
             "(same root as KF-C11-1); with a raw-sample frame shift (< 1 ms) times are rounded to 1 ms = many frames and interval tiers come back as point tiers",
     "class": "TextGrid round trip with --precision other than 3 and --frame-shift-ms below 1 (three decimals of a second cannot resolve one frame)",
     "witness": {"kind": "tg", "prefix": "", "suffix": ".pt", "shift": 0.0625, "precision": 6, "fmt": "short", "utts": [["a", "IntervalTier", [["a", 0, 0.125]], 0.125]]}},
]
KNOWN_MATCH = {
    "KF-C17-1": lambda c, msg: c.get("kind") == "tg" and c.get("precision") not in (None, 3) and (c.get("shift") or 10.0) < 1.0 and ("of class TextTier, expected" in msg or "came back at" in msg),
}

# witnesses of defects that have since been repaired in /repo (8cb04f8, eb0e919, 2dd0a81); enumerated first in every tier as regression cases
REGRESSIONS = {
    "C17.cli.roundtrip": [  # multi-tier short-form TextGrid, extracted tier not the last one
        {"kind": "tg", "prefix": "", "suffix": ".pt", "shift": None, "fmt": "short", "fill": False, "tg_suffix": None, "tier_sel": ["idx", 0], "length": "infer",
         "utts": [["a", "IntervalTier", [["a", 0, 20.0]], 20.0]]}],
    "C17.cli.error_rate": [  # total rate with one empty reference
        {"prefix": "", "suffix": ".pt", "utts": [["a", [], [0]], ["u1", [0], [0]]], "batch": 1, "id2token": False, "mode": "total", "layout": "parent", "shape": 1}],
    "C17.cli.subset": [  # an utterance listed twice
        {"prefix": "", "suffix": ".pt", "crit": ["utt-list", ["u1", "u1"]], "only": True, "style": "link", "feats": [["u1", 1]], "ali": None, "ref": None}],
}

M = "command_line."


def run_bounded(ctx):
    import torch  # noqa: F401  (imported before the pool forks)
    import pydrobert.torch  # noqa: F401
    import pydrobert.torch.command_line  # noqa: F401

    ctx.known_match.update(KNOWN_MATCH)
    only = getattr(ctx, "only", None)
    want = lambda name: not only or any(name.startswith(o) for o in only)
    q = ctx.quick
    if want("C17.cli.roundtrip"):
        ctx.bounded("C17.cli.roundtrip", check_roundtrip, itertools.chain(REGRESSIONS["C17.cli.roundtrip"], cases_roundtrip(ctx)),
                    bound=("prefix in %s x suffix in %s, distractor files matching one of them only; trn: all corpora of <=2 utterances x <=2 tokens over {a,b} (+OOV with --unk-symbol), "
                           "3 tensor layouts, --swap on either side; ctm: 1-2 utterances, <=2 segments on a sub-frame grid (starts >= 1 frame apart), frame shifts %s, --wc2utt/--utt2wc/--channel; "
                           "TextGrid dirs: 7 tiers (interval with gaps / point), short+long text form, --fill-symbol, tier selection, 3 TextGrid suffixes, --infer/--feat-dir, raw-sample shift 0.0625 ms; "
                           "ali: all label sequences over {0,1,2} of length 1..%d; token partitions: <=3 runs over 4 (token,length) pairs%s")
                    % (PREFIXES, SUFFIXES, "{10,25}" if q else "{10,25,2.5,0.0625}", 4 if q else 6, "" if q else "; plus 4000 seeded random corpora (<=4 utterances)"),
                    text="file -> token dir -> file gives the original transcripts (times within one frame), ali -> segments -> ali is the identity; intermediate dirs hold exactly prefix+utt+suffix with the documented tensors",
                    nontrivial=lambda c: (c["prefix"], c["suffix"]) != ("", ".pt") and len(c["utts"]) > 0, chunk=32, budget_s=None if q else 200,
                    functions=[M + x for x in ("trn_to_torch_token_data_dir", "torch_token_data_dir_to_trn", "ctm_to_torch_token_data_dir", "torch_token_data_dir_to_ctm",
                                               "textgrids_to_torch_token_data_dir", "torch_token_data_dir_to_textgrids", "torch_ali_data_dir_to_torch_token_data_dir",
                                               "torch_token_data_dir_to_torch_ali_data_dir", "_DirectoryDataset.__init__", "_save_transcripts_to_dir_do_work")])
    if want("C17.cli.error_rate"):
        ctx.bounded("C17.cli.error_rate", check_error_rate, itertools.chain(REGRESSIONS["C17.cli.error_rate"], cases_error_rate(ctx)),
                    bound="%d affix pairs (rotated over the enumeration), %d corpora of 1..%d utterances over ids {0..3}, every --batch-size 1..n+1, 6 replace/ignore rule sets, with/without --id2token, total/--per-utt/--distances, "
                          "ref+hyp under one parent or as two dirs, (R,) and (R,3) tensors, a one-sided utterance with --warn-missing; unit costs; divisor non-zero%s"
                          % ((4, 7, 4, "") if q else (16, 31, 9, "; plus 6000 seeded random corpora (<=7 utterances, lengths <=7)")),
                    text="printed figure = sum of Levenshtein distances / sum of reference lengths after replace-then-ignore on both sides (or the per-utterance figures), independent of the batch size",
                    nontrivial=lambda c: c["batch"] < len(c["utts"]) or bool(c.get("replace") or c.get("ignore")), chunk=32, budget_s=None if q else 200,
                    functions=[M + "compute_torch_token_data_dir_error_rates", M + "_load_transcripts_from_data_dir"])
    if want("C17.cli.subset"):
        ctx.bounded("C17.cli.subset", check_subset, itertools.chain(REGRESSIONS["C17.cli.subset"], cases_subset(ctx)),
                    bound="%d affix pairs, %d directories of 0..%d utterances (length ties, ali/ref missing or with extras), all 12 selection flags with n in 0..N+1 and %d ratios, lists with unknown ids, "
                          "--only, hard link/--copy/--symlink, custom sub-directory names%s" % ((4, 5, 6, 5, "") if q else (16, 6, 11, 16, "; plus 3000 seeded random directories")),
                    text="destination holds exactly the files of the requested utterances (documented order rules), byte-identical to the source, source untouched; --rand-* by count and seed-determinism",
                    nontrivial=lambda c: len(c["feats"]) > 1, chunk=32, budget_s=None if q else 200, functions=[M + "subset_torch_spect_data_dir", M + "_copy_spect_data_dir_do_work"])
    if want("C17.cli.moments"):
        ctx.bounded("C17.cli.moments", check_moments, cases_moments(ctx),
                    bound="%d affix pairs (rotated over the enumeration); ali: all label sequences over {0,1,2} up to length %d pooled in threes; ref: all 1..3-subsets of 7 segments (valid, empty, missing, inverted) + boundary-less files; "
                          "--bessel x --std x --exclude-ids x --precision, stdout or file, --strict; mvn: 25 integer tables pooled, --bessel, --id2gid%s" % ((5, 4, "") if q else (16, 5, "; plus 4000 seeded random directories")),
                    text="printed mean (variance|std) and stored mean/std equal the exact rational recount over all selected files",
                    chunk=32, budget_s=None if q else 200, functions=[M + "print_torch_ali_data_dir_length_moments", M + "print_torch_ref_data_dir_length_moments", M + "_do_mv_printing",
                                         M + "compute_mvn_stats_for_torch_feat_data_dir"])
    if want("C17.cli.workers"):
        ctx.bounded("C17.cli.workers", check_workers, cases_workers(ctx),
                    bound=("the 12 commands that take --num-workers, 5 utterances, num-workers {0,1,2}, default chunking, one affix pair each" if q else
                           "the 12 commands that take --num-workers, 1 and 5 utterances, 2 affix pairs each, num-workers {0,1,3}, --mp-chunk-size {default,1,2}"),
                    text="identical output files (tensor-wise) and printed figures for every worker count", chunk=1, budget_s=None if q else 200,
                    functions=[M + "_multiprocessor_pattern_generator", M + "_worker_func", M + "_load_transcripts_from_data_dir", M + "chunk_torch_spect_data_dir"])
    ctx.replay_known_witnesses()
    ctx.assume("times compare within one frame (frame-shift-ms) plus half a unit of the last printed decimal; float tolerance 1e-6 relative on the frame",
               "error-rate figures compare within 1e-9; printed moments within half a unit of the last printed decimal; mvn statistics within 1e-4*(1+|x|) (float32)",
               "ctm/TextGrid corpora keep consecutive segment starts at least one frame apart (two tokens quantised to the same frame have no defined order in a ctm)",
               "alignments have at least one frame (the token->ali command documents R >= 1); error-rate divisors are non-zero",
               "worker pools are real (spawned) processes; only the schedules that actually happened are observed")
