"""C08 - SpecAugment draws stay within bounds and masking touches only masked cells.

Minimal wrapper: the bounded run-time contracts live in contracts/C08_rt.py (the deductive part, when
it exists, is added here).
"""
from contracts import C08_rt

CHECKERS = dict(C08_rt.CHECKERS)


def run(ctx):
    C08_rt.run_bounded(ctx)
