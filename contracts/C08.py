"""C08 - SpecAugment draws stay within bounds and masking touches only masked cells."""
from contracts import C08_rt, C08_vc
from vf.pyvc import api

CHECKERS = dict(C08_rt.CHECKERS)


def run(ctx):
    from vf.pyvc import crosscheck

    crosscheck.guard(ctx)  # the concrete-shape tensor layer (used by the scalar / batch-1 contracts here) against real torch
    from vf.pyvc import crosscheck_sym

    crosscheck_sym.guard(ctx)  # the symbolic-shape tensor layer against real torch, before the clauses that rest on it
    api.run_vcs(ctx, C08_vc.vcs(ctx), {"C08.P.draw_bounds": "spec_augment_draw_parameters: every drawn width/count/start/centre/shift respects the absolute and length-proportional limits, for all lengths, T, F, limits and uniform draws in [0,1)"})
    api.run_vcs(ctx, C08_vc.forward_vcs(ctx), {"C08.P.forward_composes": "real SpecAugment.forward source with draw_parameters / apply_parameters under contract, SYMBOLIC batch size and frames: training mode returns apply_parameters(feats, draw_parameters(feats, lengths), lengths) on the very tensors given (omitted lengths = every frame of every element), evaluation mode returns the input and draws nothing"})
    api.run_vcs(ctx, C08_vc.apply_vcs(ctx), {"C08.P.apply_masks": "spec_augment_apply_parameters without warps for SYMBOLIC batch size, frames, coefficients and numbers of masks: an entry is zeroed exactly when a time mask covers its frame or a frequency mask covers its coefficient, every other entry is the input's; shape preserved"})
    C08_rt.run_bounded(ctx)
