"""C02 - error rate counts the edits of some minimum-cost alignment; MER loss."""
from contracts import C02_rt, C02_vc
from vf.pyvc import api

CHECKERS = dict(C02_rt.CHECKERS)


def run(ctx):
    from contracts import wrap_vc

    api.run_vcs(ctx, wrap_vc.wrapper_vcs("C02.P.module_forwards_parameters", ['ErrorRate', 'PrefixErrorRates']), {"C02.P.module_forwards_parameters": wrap_vc.TEXT % "ErrorRate, PrefixErrorRates"})
    from vf.pyvc import crosscheck_sym

    crosscheck_sym.guard(ctx)  # the symbolic-shape tensor layer against real torch, before the clauses that rest on it
    api.run_vcs(ctx, C02_vc.p_vcs(ctx), {"C02.P.edits_between_fewest_and_most": "real error_rate -> _string_matching(return_mistakes) source for SYMBOLIC shapes R, H, N: the count returned lies between the fewest and the most edits of minimum-cost alignments (nested invariants: hypothesis loop and the sequential deletion pass), norm and empty-reference convention; 4 flag configurations, unequal costs"})
    api.run_vcs(ctx, C02_vc.vcs(ctx), {"C02.S.edits_of_min_cost_alignment": "real error_rate/prefix_error_rates source: result within [fewest, most] edits of minimum-cost alignments; = unit Levenshtein for equal costs; norm and empty-reference convention; padding"},
                bounded="shapes R,H in 0..%d (N=2 when R+H<=1 else 1), flag grid; ALL token values, eos values, positive real cost triples, padding values" % (2 if ctx.quick else 3))
    api.run_vcs(ctx, C02_vc.mer_vcs(ctx), {"C02.mer.formula_vc": "real minimum_error_rate_loss source with error_rate replaced by its contract: every option forwarded, each column pairs reference n with sample (n,m), loss = softmax(log_probs)[n,m] * (er - mean) reduced as requested"},
                bounded="(N,M,R,H) = (2,2,2,1) [(1,3,1,2) thorough], 2-D / 3-D references, both layouts, sub_avg, 3 reductions, norm; ALL contents")
    C02_rt.run_bounded(ctx)
