from contracts import C02_rt
CHECKERS = dict(C02_rt.CHECKERS)
def run(ctx):
    C02_rt.run_bounded(ctx)
