"""C18, engine A part (S rung): discounted returns satisfy R_t = r_t + gamma * R_(t+1), R beyond the horizon = 0.

The real `time_distributed_return` source (index-difference matrix, masked power, matrix product) is executed over
symbolic rewards and a symbolic discount factor for concrete horizons; the recurrence is proved as a polynomial identity."""
import z3

from vf.pyvc import api, ctensor as ct, interp as ip
from vf.pyvc.api import VC

M = "pydrobert.torch._rl"
G = z3.Real("gamma")


def ret_vc(T, N, batch_first, gamma_zero):
    import pydrobert.torch._rl as RL

    name = "T%dN%d[bf=%s,%s]" % (T, N, batch_first, "gamma=0" if gamma_zero else "gamma symbolic")

    def thunk(I):
        r = ct.CT.symbolic("r", (T, N), "float")
        I.ex.ghost["r"] = r
        x = ct.CT(r.a.T.copy(), "float") if batch_first else r
        return I.call(RL.time_distributed_return, [x, 0.0 if gamma_zero else G, batch_first], {})

    def post(p):
        if not api.returns(p) or not isinstance(p.value, ct.CT):
            return False
        R = p.value.a.T if batch_first else p.value.a
        r = p.ghost["r"].a
        g = z3.RealVal(0) if gamma_zero else G
        if R.shape != (T, N):
            return False
        goals = []
        for n in range(N):
            for t in range(T):
                nxt = ip.to_z3(R[t + 1, n]) if t + 1 < T else z3.RealVal(0)
                goals.append(("n%d.t%d" % (n, t), ip.to_z3(R[t, n]) == r[t, n] + g * nxt))
        return goals

    return VC("C18.S.return_recurrence", name, M, "time_distributed_return", thunk, posts=[("bellman_recurrence", post)], inputs={"gamma": G},
              twins=[("undiscounted", lambda p: ip.to_z3((p.value.a.T if batch_first else p.value.a)[0, 0]) == z3.Sum([p.ghost["r"].a[t, 0] for t in range(T)]) if api.returns(p) and T > 1 and not gamma_zero else None)] if (T > 1 and not gamma_zero) else [],
              assumptions=["float arithmetic treated as real arithmetic (under/overflow of the discount factors is the bounded driver's: KF-C18-2)",
                           "torch.pow with concrete non-negative integer exponents = repeated product; matmul = sums of products"])


def ret_p_vc(batch_first):
    """P rung: horizon T and batch size N SYMBOLIC. The matrix product has the assumed partial-sum contract of
    vf/pyvc/symtensor.py; torch.pow the assumed contract pow(g, 0) = 1, pow(g, e + 1) = g * pow(g, e). Two inductions over the
    summation index (base / step obligations each, applied outside the solver):
      Z(i, j):  j <= i          ->  S_i(j) = 0                      (the discount matrix is triangular)
      C(j):     i0 < T - 1 and i0 + 1 <= j <= T ->  S_i0(j) = r[i0] + g * S_(i0+1)(j)
    give R[i0] = r[i0] + g * R[i0 + 1] for every i0 < T - 1 and R[T - 1] = r[T - 1], for a skolem batch element."""
    import pydrobert.torch._rl as RL
    from vf.pyvc import symtensor as stn

    T, N, I0, I1, J0, N0 = z3.Ints("T N i0 i1 j0 n0")
    RW = z3.Function("r", z3.IntSort(), z3.IntSort(), z3.RealSort())  # r(t, n)
    name = "time_distributed_return[symbolic T, N; batch_first=%s]" % batch_first

    def thunk(I):
        I.stubs.update(stn.stubs())
        r = stn.ST((N, T), lambda b, a: RW(ip.to_z3(a), ip.to_z3(b)), "float") if batch_first else stn.ST((T, N), lambda a, b: RW(ip.to_z3(a), ip.to_z3(b)), "float")
        out = I.call(RL.time_distributed_return, [r, G, batch_first], {})
        sums = I.ex.ghost.get("sums", [])
        if not sums:
            return out  # gamma = 0: the rewards themselves
        sm = sums[-1]
        PS = (lambda i, j: sm["S"](N0, i, j)) if batch_first else (lambda i, j: sm["S"](i, N0, j))
        step = (lambda i, j: sm["step"](N0, i, j)) if batch_first else (lambda i, j: sm["step"](i, N0, j))
        base = (lambda i: sm["base"](N0, i)) if batch_first else (lambda i: sm["base"](i, N0))
        I.ex.oblige("matmul.sums_over_the_horizon", sm["T"] == T)
        # Z: zero prefix, by induction over j for a skolem row i1
        zfml = lambda i, j: z3.Implies(z3.And(0 <= j, j <= i, i < T), PS(i, j) == 0)
        I.ex.instance(base(I1))
        I.ex.instance(step(I1, J0))
        I.ex.oblige("Z.base", zfml(I1, z3.IntVal(0)))
        I.ex.oblige("Z.step", z3.Implies(z3.And(0 <= J0, J0 + 1 <= I1, I1 < T, zfml(I1, J0)), zfml(I1, J0 + 1)))
        ii, jj = z3.Ints("i_z j_z")
        I.ex.assume(z3.ForAll([ii, jj], zfml(ii, jj)))
        for i in (I0, I0 + 1, T - 1):
            I.ex.instance(zfml(i, i))
        # C: the recurrence on partial sums, by induction over j for the skolem row i0
        cfml = lambda j: z3.Implies(z3.And(0 <= I0, I0 < T - 1, I0 + 1 <= j, j <= T), PS(I0, j) == RW(I0, N0) + G * PS(I0 + 1, j))
        I.ex.instance(step(I0, I0))
        for j in (J0,):
            I.ex.instance(step(I0, j))
            I.ex.instance(step(I0 + 1, j))
        for x in stn.pow_instances(I, J0 - I0 - 1):
            I.ex.instance(x)
        I.ex.oblige("C.base", z3.Implies(I0 + 1 <= T, cfml(I0 + 1)))
        I.ex.oblige("C.step", z3.Implies(z3.And(I0 + 1 <= J0, J0 < T, cfml(J0)), cfml(J0 + 1)))
        I.ex.assume(z3.ForAll([jj], cfml(jj)))
        I.ex.instance(cfml(T))
        I.ex.instance(step(T - 1, T - 1))
        return out

    def post(p):
        if not api.returns(p) or not hasattr(p.value, "elem"):
            return False
        at = (lambda i: ip.to_z3(p.value.elem(N0, i))) if batch_first else (lambda i: ip.to_z3(p.value.elem(i, N0)))
        shape = tuple(p.value.shape)
        want = (N, T) if batch_first else (T, N)
        return [("result_shape", z3.And(ip.to_z3(shape[0]) == want[0], ip.to_z3(shape[1]) == want[1])),
                ("bellman_recurrence", z3.Implies(z3.And(0 <= I0, I0 < T - 1), at(I0) == RW(I0, N0) + G * at(I0 + 1))),
                ("last_step_is_its_reward", z3.Implies(T >= 1, at(T - 1) == RW(T - 1, N0)))]

    return VC("C18.P.return_recurrence", name, M, "time_distributed_return", thunk, pre=[T >= 0, N >= 1, 0 <= N0, N0 < N], posts=[("bellman", post)],
              inputs={"T": T, "N": N, "gamma": G}, timeout_ms=30000,
              assumptions=["matrix product over a symbolic inner extent = partial sums S(0) = 0, S(j + 1) = S(j) + a[i, j] * b[j, n] (assumed contract); torch.pow(g, e) for integer-valued e >= 0: pow(g, 0) = 1, pow(g, e + 1) = g * pow(g, e) (assumed contract)",
                           "two inductions over the summation index are applied outside the solver (their base and step are obligations)",
                           "float arithmetic treated as real arithmetic (under/overflow of the discount factors is the bounded driver's: KF-C18-2)", "one skolem batch element; tensors as index functions (vf/pyvc/symtensor.py)"])


def p_vcs(ctx):
    return [ret_p_vc(False), ret_p_vc(True)]


def vcs(ctx):
    out = []
    for T in ((1, 2, 3, 4) if ctx.quick else (1, 2, 3, 4, 5, 6)):
        for bf in (False, True):
            out.append(ret_vc(T, 1 if T > 2 else 2, bf, False))
    out.append(ret_vc(3, 1, False, True))
    return out
