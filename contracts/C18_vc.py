"""C18, engine A part (S rung): discounted returns satisfy R_t = r_t + gamma * R_(t+1), R beyond the horizon = 0.

The real `time_distributed_return` source (index-difference matrix, masked power, matrix product) is executed over
symbolic rewards and a symbolic discount factor for concrete horizons; the recurrence is proved as a polynomial identity."""
import z3

from vf.pyvc import api, ctensor as ct, interp as ip
from vf.pyvc.api import VC

M = "pydrobert.torch._rl"
G = z3.Real("gamma")


def ret_vc(T, N, batch_first, gamma_zero):
    import pydrobert.torch._rl as RL

    name = "T%dN%d[bf=%s,%s]" % (T, N, batch_first, "gamma=0" if gamma_zero else "gamma symbolic")

    def thunk(I):
        r = ct.CT.symbolic("r", (T, N), "float")
        I.ex.ghost["r"] = r
        x = ct.CT(r.a.T.copy(), "float") if batch_first else r
        return I.call(RL.time_distributed_return, [x, 0.0 if gamma_zero else G, batch_first], {})

    def post(p):
        if not api.returns(p) or not isinstance(p.value, ct.CT):
            return False
        R = p.value.a.T if batch_first else p.value.a
        r = p.ghost["r"].a
        g = z3.RealVal(0) if gamma_zero else G
        if R.shape != (T, N):
            return False
        goals = []
        for n in range(N):
            for t in range(T):
                nxt = ip.to_z3(R[t + 1, n]) if t + 1 < T else z3.RealVal(0)
                goals.append(("n%d.t%d" % (n, t), ip.to_z3(R[t, n]) == r[t, n] + g * nxt))
        return goals

    return VC("C18.S.return_recurrence", name, M, "time_distributed_return", thunk, posts=[("bellman_recurrence", post)], inputs={"gamma": G},
              twins=[("undiscounted", lambda p: ip.to_z3((p.value.a.T if batch_first else p.value.a)[0, 0]) == z3.Sum([p.ghost["r"].a[t, 0] for t in range(T)]) if api.returns(p) and T > 1 and not gamma_zero else None)] if (T > 1 and not gamma_zero) else [],
              assumptions=["float arithmetic treated as real arithmetic (under/overflow of the discount factors is the bounded driver's: KF-C18-2)",
                           "torch.pow with concrete non-negative integer exponents = repeated product; matmul = sums of products"])


def ret_p_vc(batch_first):
    """P rung: horizon T and batch size N SYMBOLIC. The matrix product has the assumed partial-sum contract of
    vf/pyvc/symtensor.py; torch.pow the assumed contract pow(g, 0) = 1, pow(g, e + 1) = g * pow(g, e). Two inductions over the
    summation index (base / step obligations each, applied outside the solver):
      Z(i, j):  j <= i          ->  S_i(j) = 0                      (the discount matrix is triangular)
      C(j):     i0 < T - 1 and i0 + 1 <= j <= T ->  S_i0(j) = r[i0] + g * S_(i0+1)(j)
    give R[i0] = r[i0] + g * R[i0 + 1] for every i0 < T - 1 and R[T - 1] = r[T - 1], for a skolem batch element."""
    import pydrobert.torch._rl as RL
    from vf.pyvc import symtensor as stn

    T, N, I0, I1, J0, N0 = z3.Ints("T N i0 i1 j0 n0")
    RW = z3.Function("r", z3.IntSort(), z3.IntSort(), z3.RealSort())  # r(t, n)
    name = "time_distributed_return[symbolic T, N; batch_first=%s]" % batch_first

    def thunk(I):
        I.stubs.update(stn.stubs())
        r = stn.ST((N, T), lambda b, a: RW(ip.to_z3(a), ip.to_z3(b)), "float") if batch_first else stn.ST((T, N), lambda a, b: RW(ip.to_z3(a), ip.to_z3(b)), "float")
        out = I.call(RL.time_distributed_return, [r, G, batch_first], {})
        sums = I.ex.ghost.get("sums", [])
        if not sums:
            return out  # gamma = 0: the rewards themselves
        sm = sums[-1]
        PS = (lambda i, j: sm["S"](N0, i, j)) if batch_first else (lambda i, j: sm["S"](i, N0, j))
        step = (lambda i, j: sm["step"](N0, i, j)) if batch_first else (lambda i, j: sm["step"](i, N0, j))
        base = (lambda i: sm["base"](N0, i)) if batch_first else (lambda i: sm["base"](i, N0))
        I.ex.oblige("matmul.sums_over_the_horizon", sm["T"] == T)
        # Z: zero prefix, by induction over j for a skolem row i1
        zfml = lambda i, j: z3.Implies(z3.And(0 <= j, j <= i, i < T), PS(i, j) == 0)
        I.ex.instance(base(I1))
        I.ex.instance(step(I1, J0))
        I.ex.oblige("Z.base", zfml(I1, z3.IntVal(0)))
        I.ex.oblige("Z.step", z3.Implies(z3.And(0 <= J0, J0 + 1 <= I1, I1 < T, zfml(I1, J0)), zfml(I1, J0 + 1)))
        ii, jj = z3.Ints("i_z j_z")
        I.ex.assume(z3.ForAll([ii, jj], zfml(ii, jj)))
        for i in (I0, I0 + 1, T - 1):
            I.ex.instance(zfml(i, i))
        # C: the recurrence on partial sums, by induction over j for the skolem row i0
        cfml = lambda j: z3.Implies(z3.And(0 <= I0, I0 < T - 1, I0 + 1 <= j, j <= T), PS(I0, j) == RW(I0, N0) + G * PS(I0 + 1, j))
        I.ex.instance(step(I0, I0))
        for j in (J0,):
            I.ex.instance(step(I0, j))
            I.ex.instance(step(I0 + 1, j))
        for x in stn.pow_instances(I, J0 - I0 - 1):
            I.ex.instance(x)
        I.ex.oblige("C.base", z3.Implies(I0 + 1 <= T, cfml(I0 + 1)))
        I.ex.oblige("C.step", z3.Implies(z3.And(I0 + 1 <= J0, J0 < T, cfml(J0)), cfml(J0 + 1)))
        I.ex.assume(z3.ForAll([jj], cfml(jj)))
        I.ex.instance(cfml(T))
        I.ex.instance(step(T - 1, T - 1))
        return out

    def post(p):
        if not api.returns(p) or not hasattr(p.value, "elem"):
            return False
        at = (lambda i: ip.to_z3(p.value.elem(N0, i))) if batch_first else (lambda i: ip.to_z3(p.value.elem(i, N0)))
        shape = tuple(p.value.shape)
        want = (N, T) if batch_first else (T, N)
        return [("result_shape", z3.And(ip.to_z3(shape[0]) == want[0], ip.to_z3(shape[1]) == want[1])),
                ("bellman_recurrence", z3.Implies(z3.And(0 <= I0, I0 < T - 1), at(I0) == RW(I0, N0) + G * at(I0 + 1))),
                ("last_step_is_its_reward", z3.Implies(T >= 1, at(T - 1) == RW(T - 1, N0)))]

    return VC("C18.P.return_recurrence", name, M, "time_distributed_return", thunk, pre=[T >= 0, N >= 1, 0 <= N0, N0 < N], posts=[("bellman", post)],
              inputs={"T": T, "N": N, "gamma": G}, timeout_ms=30000,
              assumptions=["matrix product over a symbolic inner extent = partial sums S(0) = 0, S(j + 1) = S(j) + a[i, j] * b[j, n] (assumed contract); torch.pow(g, e) for integer-valued e >= 0: pow(g, 0) = 1, pow(g, e + 1) = g * pow(g, e) (assumed contract)",
                           "two inductions over the summation index are applied outside the solver (their base and step are obligations)",
                           "float arithmetic treated as real arithmetic (under/overflow of the discount factors is the bounded driver's: KF-C18-2)", "one skolem batch element; tensors as index functions (vf/pyvc/symtensor.py)"])


def mvn_accumulate_vc(first):
    """P rung: MeanVarianceNormalization.accumulate for a SYMBOLIC number of frames T and coefficients X (feature dimension last):
    the state is additive - count += T, sum[i] += SUM_t x[t, i], sumsq[i] += SUM_t x[t, i]^2 - whatever was accumulated before
    (first call: starts from zero). Statistics over any partition, in any order, are therefore those of the pooled sums."""
    import pydrobert.torch._feats as FT
    from vf.pyvc import symtensor as stn

    T, X, I0 = z3.Ints("T X i0")
    XF = z3.Function("x", z3.IntSort(), z3.IntSort(), z3.RealSort())
    C0 = z3.Real("count_before")
    S0 = z3.Function("sum_before", z3.IntSort(), z3.RealSort())
    Q0 = z3.Function("sumsq_before", z3.IntSort(), z3.RealSort())
    name = "MeanVarianceNormalization.accumulate[symbolic T, X; %s]" % ("first call" if first else "later call")

    def thunk(I):
        I.stubs.update(stn.stubs())
        fields = {"dim": -1, "eps": 1e-5, "mean": None, "std": None}
        if first:
            fields.update(count=None, sum=None, sumsq=None)
        else:
            fields.update(count=stn.ST((1,), lambda a: C0, "float"), sum=stn.ST((X,), lambda a: S0(ip.to_z3(a)), "float"), sumsq=stn.ST((X,), lambda a: Q0(ip.to_z3(a)), "float"))
        obj = ip.SObj(FT.MeanVarianceNormalization, fields, "mvn")
        x = stn.ST((T, X), lambda a, b: XF(ip.to_z3(a), ip.to_z3(b)), "float")
        I.call(I.getattr(obj, "accumulate"), [x], {})
        I.ex.ghost["obj"] = obj
        return obj

    def post(p):
        if not api.returns(p):
            return False
        f, sums = p.ghost["obj"].fields, [x for x in p.ghost.get("sums", []) if x.get("kind") == "sum"]
        if len(sums) != 2 or not all(hasattr(f.get(k), "elem") for k in ("sum", "sumsq")) or not (hasattr(f.get("count"), "elem") or isinstance(f.get("count"), ct.CT)):
            return [("two_reductions_and_three_statistics", z3.BoolVal(False))]
        s1, s2 = sums
        c0, a0, q0 = (z3.RealVal(0), z3.RealVal(0), z3.RealVal(0)) if first else (C0, S0(I0), Q0(I0))
        cnt = ip.to_z3(f["count"].elem(0) if hasattr(f["count"], "elem") else f["count"].a.reshape(-1)[0])
        cnt = z3.ToReal(cnt) if z3.is_int(cnt) else cnt
        return [("count_grows_by_the_number_of_frames", cnt == c0 + z3.ToReal(T)),
                ("sum_grows_by_the_sum_over_the_frames", z3.And(s1["T"] == T, ip.to_z3(f["sum"].elem(I0)) == a0 + s1["S"](I0, T), ip.to_z3(s1["val"]([I0], z3.Int("t_q"))) == XF(z3.Int("t_q"), I0))),
                ("sumsq_grows_by_the_sum_of_squares", z3.And(s2["T"] == T, ip.to_z3(f["sumsq"].elem(I0)) == q0 + s2["S"](I0, T), ip.to_z3(s2["val"]([I0], z3.Int("t_q"))) == XF(z3.Int("t_q"), I0) * XF(z3.Int("t_q"), I0))),
                ("shapes", z3.And(z3.BoolVal(len(f["sum"].shape) == 1 and len(f["sumsq"].shape) == 1), ip.to_z3(f["sum"].shape[0]) == X, ip.to_z3(f["sumsq"].shape[0]) == X))]

    return VC("C18.P.mvn_state_is_additive", name, "pydrobert.torch._feats", "MeanVarianceNormalization.accumulate", thunk, pre=[T >= 0, X >= 1, 0 <= I0, I0 < X], posts=[("additive_state", post)],
              inputs={"T": T, "X": X}, timeout_ms=30000,
              assumptions=["sum over a symbolic extent = partial sums (assumed contract); tensors as index functions with in-place arithmetic as functional updates (vf/pyvc/symtensor.py)",
                           "input of shape (T, X) with the feature dimension last; other layouts: bounded driver; float64 arithmetic treated as real arithmetic"])


def mvn_store_vc(bessel, delete_stats):
    """P rung: MeanVarianceNormalization.store for symbolic accumulated statistics: raises iff fewer than 1 (2 with Bessel's
    correction) frames were counted; otherwise mean = sum / count and std = sqrt(max(sumsq / count - mean^2 [* count / (count - 1)], 0));
    the accumulated statistics are dropped iff asked."""
    import pydrobert.torch._feats as FT
    from vf.pyvc import symtensor as stn

    X, I0 = z3.Ints("X i0")
    C = z3.Real("count")
    SM = z3.Function("sum", z3.IntSort(), z3.RealSort())
    SQ = z3.Function("sumsq", z3.IntSort(), z3.RealSort())
    name = "MeanVarianceNormalization.store[symbolic X and statistics; bessel=%s, delete_stats=%s]" % (bessel, delete_stats)

    def thunk(I):
        I.stubs.update(stn.stubs())
        obj = ip.SObj(FT.MeanVarianceNormalization, {"dim": -1, "eps": 1e-5, "mean": None, "std": None, "count": stn.ST((1,), lambda a: C, "float"),
                                                    "sum": stn.ST((X,), lambda a: SM(ip.to_z3(a)), "float"), "sumsq": stn.ST((X,), lambda a: SQ(ip.to_z3(a)), "float")}, "mvn")
        I.ex.ghost["obj"] = obj
        I.call(I.getattr(obj, "store"), [], {"delete_stats": delete_stats, "bessel": bessel})
        return obj

    need = 2 if bessel else 1

    def post(p):
        f = p.ghost["obj"].fields
        if api.raises(p, "RuntimeError"):
            return [("raises_only_with_too_few_frames", C < need)]
        if not api.returns(p):
            return False
        if not (hasattr(f.get("mean"), "elem") and hasattr(f.get("std"), "elem")):
            return [("mean_and_std_stored", z3.BoolVal(False))]
        mean, std = ip.to_z3(f["mean"].elem(I0)), ip.to_z3(f["std"].elem(I0))
        var = SQ(I0) / C - (SM(I0) / C) * (SM(I0) / C)
        if bessel:
            var = var * (C / (C - 1))
        # the stored value is sqrt(argument): the assumed contract of sqrt at that argument, then the argument is the clamped variance
        is_sqrt = z3.is_app(std) and std.decl().eq(stn.SQRT)
        arg = std.arg(0) if is_sqrt else z3.RealVal(0)
        sqrt_contract = z3.Implies(arg >= 0, z3.And(std >= 0, std * std == arg))
        goals = [("returns_only_with_enough_frames", C >= need), ("mean_is_sum_over_count", mean == SM(I0) / C),
                 ("std_is_a_square_root", z3.BoolVal(bool(is_sqrt))), ("its_argument_is_the_clamped_variance", arg == z3.If(var >= 0, var, 0)),
                 ("std_is_the_root_of_the_clamped_variance", z3.Implies(z3.And(sqrt_contract, arg == z3.If(var >= 0, var, 0)), z3.And(std >= 0, std * std == z3.If(var >= 0, var, 0)))),
                 ("statistics_dropped_iff_asked", z3.BoolVal(all((f.get(k) is None) == delete_stats for k in ("count", "sum", "sumsq"))))]
        if not delete_stats and all(hasattr(f.get(k), "elem") for k in ("count", "sum", "sumsq")):
            goals.append(("kept_statistics_are_unchanged", z3.And(ip.to_z3(f["count"].elem(0)) == C, ip.to_z3(f["sum"].elem(I0)) == SM(I0), ip.to_z3(f["sumsq"].elem(I0)) == SQ(I0))))
        return goals

    return VC("C18.P.mvn_store_formula", name, "pydrobert.torch._feats", "MeanVarianceNormalization.store", thunk, pre=[X >= 1, 0 <= I0, I0 < X, C >= 0], posts=[("population_moments", post)],
              inputs={"X": X, "count": C}, timeout_ms=30000,
              assumptions=["sqrt on non-negative reals: sqrt(x) >= 0 and sqrt(x)^2 = x (assumed contract); float64 arithmetic treated as real arithmetic", "tensors as index functions (vf/pyvc/symtensor.py)"])


def p_vcs(ctx):
    return [ret_p_vc(False), ret_p_vc(True)]


def mvn_p_vcs(ctx):
    return [mvn_accumulate_vc(True), mvn_accumulate_vc(False)] + [mvn_store_vc(b, d) for b in (False, True) for d in (True, False)]


def vcs(ctx):
    out = []
    for T in ((1, 2, 3, 4) if ctx.quick else (1, 2, 3, 4, 5, 6)):
        for bf in (False, True):
            out.append(ret_vc(T, 1 if T > 2 else 2, bf, False))
    out.append(ret_vc(3, 1, False, True))
    return out
