"""C18, engine A part (S rung): discounted returns satisfy R_t = r_t + gamma * R_(t+1), R beyond the horizon = 0.

The real `time_distributed_return` source (index-difference matrix, masked power, matrix product) is executed over
symbolic rewards and a symbolic discount factor for concrete horizons; the recurrence is proved as a polynomial identity."""
import z3

from vf.pyvc import api, ctensor as ct, interp as ip
from vf.pyvc.api import VC

M = "pydrobert.torch._rl"
G = z3.Real("gamma")


def ret_vc(T, N, batch_first, gamma_zero):
    import pydrobert.torch._rl as RL

    name = "T%dN%d[bf=%s,%s]" % (T, N, batch_first, "gamma=0" if gamma_zero else "gamma symbolic")

    def thunk(I):
        r = ct.CT.symbolic("r", (T, N), "float")
        I.ex.ghost["r"] = r
        x = ct.CT(r.a.T.copy(), "float") if batch_first else r
        return I.call(RL.time_distributed_return, [x, 0.0 if gamma_zero else G, batch_first], {})

    def post(p):
        if not api.returns(p) or not isinstance(p.value, ct.CT):
            return False
        R = p.value.a.T if batch_first else p.value.a
        r = p.ghost["r"].a
        g = z3.RealVal(0) if gamma_zero else G
        if R.shape != (T, N):
            return False
        goals = []
        for n in range(N):
            for t in range(T):
                nxt = ip.to_z3(R[t + 1, n]) if t + 1 < T else z3.RealVal(0)
                goals.append(("n%d.t%d" % (n, t), ip.to_z3(R[t, n]) == r[t, n] + g * nxt))
        return goals

    return VC("C18.S.return_recurrence", name, M, "time_distributed_return", thunk, posts=[("bellman_recurrence", post)], inputs={"gamma": G},
              twins=[("undiscounted", lambda p: ip.to_z3((p.value.a.T if batch_first else p.value.a)[0, 0]) == z3.Sum([p.ghost["r"].a[t, 0] for t in range(T)]) if api.returns(p) and T > 1 and not gamma_zero else None)] if (T > 1 and not gamma_zero) else [],
              assumptions=["float arithmetic treated as real arithmetic (under/overflow of the discount factors is the bounded driver's: KF-C18-2)",
                           "torch.pow with concrete non-negative integer exponents = repeated product; matmul = sums of products"])


def vcs(ctx):
    out = []
    for T in ((1, 2, 3, 4) if ctx.quick else (1, 2, 3, 4, 5, 6)):
        for bf in (False, True):
            out.append(ret_vc(T, 1 if T > 2 else 2, bf, False))
    out.append(ret_vc(3, 1, False, True))
    return out
