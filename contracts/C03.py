"""C03 - optimal-completion targets are exactly the distance-preserving next tokens."""
from contracts import C03_rt, C03_vc
from vf.pyvc import api

CHECKERS = dict(C03_rt.CHECKERS)


def run(ctx):
    from contracts import wrap_vc

    api.run_vcs(ctx, wrap_vc.wrapper_vcs("C03.P.module_forwards_parameters", ['OptimalCompletion', 'HardOptimalCompletionDistillationLoss', 'MinimumErrorRateLoss']), {"C03.P.module_forwards_parameters": wrap_vc.TEXT % "OptimalCompletion, HardOptimalCompletionDistillationLoss, MinimumErrorRateLoss"})
    from vf.pyvc import crosscheck_sym

    crosscheck_sym.guard(ctx)  # the symbolic-shape tensor layer against real torch, before the clauses that rest on it
    api.run_vcs(ctx, C03_vc.targets_p_vcs(ctx), {"C03.P.targets_list": "real optimal_completion source for SYMBOLIC numbers of prefixes, reference positions and batch elements, with _string_matching(return_mask=True) under contract: the list of a prefix holds exactly the tokens the mask flags, each once, in ascending order, then only the padding value"})
    api.run_vcs(ctx, C03_vc.p_vcs(ctx), {"C03.P.mask_row_minima": "real _string_matching(return_mask=True) source for SYMBOLIC shapes R, H, N: mask[j,r,n] <=> r < ref_len and prefix j exists and D(n,r,j) = min over r' <= ref_len (row invariant by induction over r, list-of-masks invariant, code minimum = spec minimum), 4 flag configurations"})
    api.run_vcs(ctx, C03_vc.vcs(ctx), {"C03.S.mask_row_minima": "real _string_matching(return_mask=True) source: mask[j,r,n] <=> r < ref_len and prefix j exists and D(r,j) is minimal over r' <= ref_len, for all contents/costs/eos"},
                bounded="shapes R in 1..%d, H in 0..%d (N=2 when R+H<=2 else 1), flag grid; ALL token values, eos values, positive real cost triples" % ((2, 2) if ctx.quick else (3, 3)))
    C03_rt.run_bounded(ctx)
