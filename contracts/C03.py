"""C03 - optimal-completion targets are exactly the distance-preserving next tokens.

Bounded part (engine B): contracts/C03_rt.py. The deductive obligations of DESIGN.md section 3 (C03.mask.row_minima,
C03.loss.formula) are added here when they exist.
"""
from contracts import C03_rt

CHECKERS = dict(C03_rt.CHECKERS)


def run(ctx):
    C03_rt.run_bounded(ctx)
