"""C17 - command-line conversions invert each other and ignore worker count.

Deductive part: every `os.listdir` filter in command_line.py selects exactly the files named
prefix+...+suffix and extracts the id the command documents (string VCs, z3 + cvc5).
Bounded part (contracts/C17_rt.py): the real entry points on generated corpora.
"""
import ast

import z3

from vf.pyvc import api, interp as ip, source
from vf.pyvc.api import VC
from vf.pyvc.values import OpenObj

M = "pydrobert.torch.command_line"
X, P, S = z3.Strings("x file_prefix file_suffix")
SEL = z3.And(z3.PrefixOf(P, X), z3.SuffixOf(S, X))
LONG = z3.Length(X) >= z3.Length(P) + z3.Length(S)

# what each command documents as the element it derives from a selected file name x
FORMS = {
    "torch_token_data_dir_to_torch_ali_data_dir": lambda e: e == X,
    "torch_ali_data_dir_to_torch_token_data_dir": lambda e: e == X,
    "torch_token_data_dir_to_textgrids": lambda e: z3.Concat(e, S) == X,  # id keeps the prefix by design (TextGrid files are prefix+id+tg_suffix)
    "print_torch_ref_data_dir_length_moments": lambda e: z3.Implies(LONG, z3.Concat(P, e, S) == X),
    "print_torch_ali_data_dir_length_moments": lambda e: e == X,  # (joined with the directory)
    "_DirectoryDataset.__init__": lambda e: z3.Implies(LONG, z3.Concat(P, e, S) == X),
}


def sites():
    tree = source.module_ast(M)
    out = []

    def visit(node, qual):
        for ch in ast.iter_child_nodes(node):
            if isinstance(ch, (ast.FunctionDef, ast.ClassDef)):
                visit(ch, qual + [ch.name])
            else:
                visit(ch, qual)
        if isinstance(node, (ast.GeneratorExp, ast.ListComp, ast.SetComp)) and isinstance(node.generators[0].iter, ast.Call) \
                and ast.unparse(node.generators[0].iter.func) == "os.listdir":
            out.append((".".join(qual), node))

    visit(tree, [])
    return out


class Joined:
    def __init__(self, parts):
        self.parts = parts


STUBS = {"posix.listdir": lambda I, d: [X], "posixpath.join": lambda I, *a: Joined(a),
         "builtins.sorted": lambda I, it, **k: list(I.iterate(it))}


def vcs():
    import pydrobert.torch.command_line as cl
    out = []
    found = sites()
    for qual, node in found:
        def thunk(I, node=node, qual=qual):
            fr = ip.Frame(cl)
            fr.fname = qual
            fr.locals.update(options=OpenObj({"file_prefix": P, "file_suffix": S}, "options"), file_prefix=P, file_suffix=S, dir_="d",
                             fpl=z3.Length(P), fsl=z3.Length(S))
            return I.eval(node, fr)

        def post(p, qual=qual):
            if not api.returns(p):
                return False
            v = p.value
            if len(v) == 0:
                return z3.Not(SEL)
            e = v[0]
            if isinstance(e, Joined):
                e = e.parts[-1]
            form = FORMS.get(qual.split(".")[-1] if qual not in FORMS else qual, FORMS.get(qual))
            g = SEL
            if form is not None and ip.is_z3(e):
                g = z3.And(g, form(e))
            elif form is not None:
                return False
            return g

        out.append(VC("C17.select.prefix_suffix", "listdir@%s:%d" % (qual, node.lineno), M, qual, thunk, pre=[], stubs=STUBS,
                      fragment=lambda fdef, node=node: [ast.Expr(value=node)],
                      posts=[("selected_iff_startswith_prefix_and_endswith_suffix_and_documented_id", post)],
                      twins=[("prefix_only", lambda p: (z3.PrefixOf(P, X) if len(p.value) else z3.Not(z3.PrefixOf(P, X))) if api.returns(p) else False)],
                      inputs={"x": X, "prefix": P, "suffix": S}, replay=lambda m, qual=qual: replay_select(m, qual), timeout_ms=60000,
                      assumptions=["os.listdir abstracted to one generic file name (comprehensions are element-wise); local names fpl/fsl bound to len(prefix)/len(suffix) as assigned two lines above the comprehension in _DirectoryDataset.__init__"]))
    return out, len(found)


def replay_select(m, qual):
    """run the real command-line filter on a directory holding one file named x"""
    import os
    import tempfile
    import torch
    import pydrobert.torch.command_line as cl

    x, p, s = m["x"], m["prefix"], m["suffix"]
    if not x or "/" in x or any(ord(c) > 126 or ord(c) < 33 for c in x + p + s) or len(x) > 60 or x.startswith("-") or p.startswith("-") or s.startswith("-"):
        return None
    sel = x.startswith(p) and x.endswith(s)
    with tempfile.TemporaryDirectory() as tmp:
        d, o = os.path.join(tmp, "in"), os.path.join(tmp, "out")
        os.makedirs(d)
        name = qual.split(".")[0]
        try:
            if name == "_DirectoryDataset":
                torch.save(torch.zeros(1), os.path.join(d, x))
                ds = cl._DirectoryDataset(d, p, s)
                got = len(ds.utt_ids) == 1
                if got and len(x) >= len(p) + len(s) and p + ds.utt_ids[0] + s != x:
                    return "file %r prefix %r suffix %r: id %r does not reassemble" % (x, p, s, ds.utt_ids[0])
            elif name == "torch_ali_data_dir_to_torch_token_data_dir":
                torch.save(torch.tensor([0, 0, 1]), os.path.join(d, x))
                rc = cl.torch_ali_data_dir_to_torch_token_data_dir([d, o, "--file-prefix=" + p, "--file-suffix=" + s])
                got = os.path.isdir(o) and len(os.listdir(o)) == 1
            elif name == "torch_token_data_dir_to_torch_ali_data_dir":
                torch.save(torch.tensor([[0, 0, 2], [1, 2, 3]]), os.path.join(d, x))
                rc = cl.torch_token_data_dir_to_torch_ali_data_dir([d, o, "--file-prefix=" + p, "--file-suffix=" + s])
                got = os.path.isdir(o) and len(os.listdir(o)) == 1
            else:
                return None
        except SystemExit:
            return None
    if got != sel:
        return "%s: file %r with prefix %r suffix %r: selected=%s, expected=%s" % (name, x, p, s, got, sel)
    return None


try:
    from contracts import C17_rt
except ImportError:
    C17_rt = None
CHECKERS = dict(C17_rt.CHECKERS) if C17_rt else {}


def run(ctx):
    v, n = vcs()
    if n < 6:
        ctx.errors.append("expected at least 6 os.listdir filter sites in command_line.py, found %d" % n)
        ctx.log("ERROR: only %d listdir filter sites located (vacuity guard)" % n)
    api.run_vcs(ctx, v, {"C17.select.prefix_suffix": "every os.listdir filter selects exactly startswith(prefix) and endswith(suffix) and derives the documented id (%d sites)" % n})
    if C17_rt:
        C17_rt.run_bounded(ctx)
    ctx.not_applicable.append("'every completion order of the worker pool' (schedules): contracts are sequential; only the worker counts actually run are compared")
