"""C17 - command-line conversions invert each other and ignore worker count.

Deductive part: every `os.listdir` filter in command_line.py selects exactly the files named
prefix+...+suffix and extracts the id the command documents (string VCs, z3 + cvc5).
Bounded part (contracts/C17_rt.py): the real entry points on generated corpora.
"""
import ast

import z3

from vf.pyvc import api, interp as ip, source
from vf.pyvc.api import VC
from vf.pyvc.values import OpenObj

M = "pydrobert.torch.command_line"
X, P, S = z3.Strings("x file_prefix file_suffix")
SEL = z3.And(z3.PrefixOf(P, X), z3.SuffixOf(S, X))
LONG = z3.Length(X) >= z3.Length(P) + z3.Length(S)

# what each command documents as the element it derives from a selected file name x
FORMS = {
    "torch_token_data_dir_to_torch_ali_data_dir": lambda e: e == X,
    "torch_ali_data_dir_to_torch_token_data_dir": lambda e: e == X,
    "torch_token_data_dir_to_textgrids": lambda e: z3.Concat(e, S) == X,  # id keeps the prefix by design (TextGrid files are prefix+id+tg_suffix)
    "print_torch_ref_data_dir_length_moments": lambda e: z3.Implies(LONG, z3.Concat(P, e, S) == X),
    "print_torch_ali_data_dir_length_moments": lambda e: e == X,  # (joined with the directory)
    "_DirectoryDataset.__init__": lambda e: z3.Implies(LONG, z3.Concat(P, e, S) == X),
}


def sites():
    tree = source.module_ast(M)
    out = []

    def visit(node, qual):
        for ch in ast.iter_child_nodes(node):
            if isinstance(ch, (ast.FunctionDef, ast.ClassDef)):
                visit(ch, qual + [ch.name])
            else:
                visit(ch, qual)
        # a comprehension over os.listdir(...), possibly through an order-only wrapper such as sorted(os.listdir(...))
        if isinstance(node, (ast.GeneratorExp, ast.ListComp, ast.SetComp)) and any(
                isinstance(c, ast.Call) and ast.unparse(c.func) == "os.listdir" for c in ast.walk(node.generators[0].iter)):
            out.append((".".join(qual), node))

    visit(tree, [])
    return out


class Joined:
    def __init__(self, parts):
        self.parts = parts


STUBS = {"posix.listdir": lambda I, d: [X], "posixpath.join": lambda I, *a: Joined(a),
         "builtins.sorted": lambda I, it, **k: list(I.iterate(it))}


def vcs():
    import pydrobert.torch.command_line as cl
    out = []
    found = sites()
    for qual, node in found:
        def thunk(I, node=node, qual=qual):
            fr = ip.Frame(cl)
            fr.fname = qual
            fr.locals.update(options=OpenObj({"file_prefix": P, "file_suffix": S}, "options"), file_prefix=P, file_suffix=S, dir_="d",
                             fpl=z3.Length(P), fsl=z3.Length(S))
            return I.eval(node, fr)

        def post(p, qual=qual):
            if not api.returns(p):
                return False
            v = p.value
            if len(v) == 0:
                return z3.Not(SEL)
            e = v[0]
            if isinstance(e, Joined):
                e = e.parts[-1]
            form = FORMS.get(qual.split(".")[-1] if qual not in FORMS else qual, FORMS.get(qual))
            g = SEL
            if form is not None and ip.is_z3(e):
                g = z3.And(g, form(e))
            elif form is not None:
                return False
            return g

        out.append(VC("C17.select.prefix_suffix", "listdir@%s:%d" % (qual, node.lineno), M, qual, thunk, pre=[], stubs=STUBS,
                      fragment=lambda fdef, node=node: [ast.Expr(value=node)],
                      posts=[("selected_iff_startswith_prefix_and_endswith_suffix_and_documented_id", post)],
                      twins=[("prefix_only", lambda p: (z3.PrefixOf(P, X) if len(p.value) else z3.Not(z3.PrefixOf(P, X))) if api.returns(p) else False)],
                      inputs={"x": X, "prefix": P, "suffix": S}, replay=lambda m, qual=qual: replay_select(m, qual), timeout_ms=60000,
                      assumptions=["os.listdir abstracted to one generic file name (comprehensions are element-wise); local names fpl/fsl bound to len(prefix)/len(suffix) as assigned two lines above the comprehension in _DirectoryDataset.__init__"]))
    out.append(order_vc())
    return out, len(found)


X1, X2 = z3.Strings("x1 x2")


def order_vc():
    """_DirectoryDataset lists its utterances sorted BY ID (the subset command's --first-n / --first-ratio and the error-rate
    command's ref/hyp pairing rely on it): real __init__ on a directory of two arbitrary file names."""
    import pydrobert.torch.command_line as cl

    def sorted_contract(I, it, **k):
        if k:
            raise ip.Unsupported("sorted with key/reverse")
        xs = list(I.iterate(it))
        if len(xs) <= 1:
            return xs
        if len(xs) != 2:
            raise ip.Unsupported("sorted of more than two symbolic items")
        a, b = xs
        # assumed contract of sorted on two strings: ascending in python's (code point) string order, stable
        return [a, b] if I.ex.branch(a <= b) else [b, a]

    def thunk(I):
        I.stubs["posix.listdir"] = lambda I2, d: [X1, X2]
        I.stubs["builtins.sorted"] = sorted_contract
        obj = ip.SObj(cl._DirectoryDataset, {}, "self")
        I.call(I.getattr(obj, "__init__"), ["d", P, S], {})
        return obj

    sel = lambda x: z3.And(z3.PrefixOf(P, x), z3.SuffixOf(S, x))
    uid = lambda x: z3.SubString(x, z3.Length(P), z3.Length(x) - z3.Length(P) - z3.Length(S))

    def post(p):
        if not api.returns(p):
            return False
        v = p.value.fields.get("utt_ids") if hasattr(p.value, "fields") else None
        if not isinstance(v, list):
            return False
        n_sel = z3.If(sel(X1), 1, 0) + z3.If(sel(X2), 1, 0)
        goals = [("one_id_per_selected_file", n_sel == len(v))]
        if len(v) == 2:
            goals.append(("ascending_by_id", v[0] <= v[1]))
            goals.append(("ids_of_the_two_files", z3.Or(z3.And(v[0] == uid(X1), v[1] == uid(X2)), z3.And(v[0] == uid(X2), v[1] == uid(X1)))))
        return goals

    long_ = lambda x: z3.Length(x) >= z3.Length(P) + z3.Length(S)
    return VC("C17.P.ids_sorted", "_DirectoryDataset.__init__[two files]", M, "_DirectoryDataset.__init__", thunk, pre=[long_(X1), long_(X2), X1 != X2],
              posts=[("utterances_listed_in_id_order", post)], inputs={"x1": X1, "x2": X2, "prefix": P, "suffix": S}, replay=replay_order, timeout_ms=60000,
              twins=[("descending", lambda p: (p.value.fields["utt_ids"][0] > p.value.fields["utt_ids"][1]) if api.returns(p) and len(p.value.fields.get("utt_ids", [])) == 2 else None)],
              assumptions=["os.listdir abstracted to two arbitrary distinct file names in arbitrary order (the order property is pairwise); sorted on two strings = ascending code-point order",
                           "domain: file names at least as long as prefix+suffix"])


def replay_order(m):
    import os
    import tempfile
    import torch
    import pydrobert.torch.command_line as cl

    x1, x2, p, s = (m.get(k) or "" for k in ("x1", "x2", "prefix", "suffix"))
    ok = lambda x: x and "/" not in x and "\x00" not in x and x not in (".", "..") and len(x.encode("utf8", "replace")) < 200 and all(ord(c) < 0xD800 for c in x)
    if not (ok(x1) and ok(x2)) or x1 == x2:
        return None
    with tempfile.TemporaryDirectory() as d:
        for x in (x1, x2):
            torch.save(torch.zeros(1), os.path.join(d, x))
        ds = cl._DirectoryDataset(d, p, s)
        want = sorted(x[len(p):len(x) - len(s)] for x in (x1, x2) if x.startswith(p) and x.endswith(s))
        if list(ds.utt_ids) != want:
            return "files %r, %r with prefix %r suffix %r: utterances listed as %r, by id they are %r" % (x1, x2, p, s, list(ds.utt_ids), want)
    return None


def replay_select(m, qual):
    """run the real command-line filter on a directory holding one file named x"""
    import os
    import tempfile
    import torch
    import pydrobert.torch.command_line as cl

    x, p, s = m["x"], m["prefix"], m["suffix"]
    if not x or "/" in x or any(ord(c) > 126 or ord(c) < 33 for c in x + p + s) or len(x) > 60 or x.startswith("-") or p.startswith("-") or s.startswith("-"):
        return None
    sel = x.startswith(p) and x.endswith(s)
    with tempfile.TemporaryDirectory() as tmp:
        d, o = os.path.join(tmp, "in"), os.path.join(tmp, "out")
        os.makedirs(d)
        name = qual.split(".")[0]
        try:
            if name == "_DirectoryDataset":
                torch.save(torch.zeros(1), os.path.join(d, x))
                ds = cl._DirectoryDataset(d, p, s)
                got = len(ds.utt_ids) == 1
                if got and len(x) >= len(p) + len(s) and p + ds.utt_ids[0] + s != x:
                    return "file %r prefix %r suffix %r: id %r does not reassemble" % (x, p, s, ds.utt_ids[0])
            elif name == "torch_ali_data_dir_to_torch_token_data_dir":
                torch.save(torch.tensor([0, 0, 1]), os.path.join(d, x))
                rc = cl.torch_ali_data_dir_to_torch_token_data_dir([d, o, "--file-prefix=" + p, "--file-suffix=" + s])
                got = os.path.isdir(o) and len(os.listdir(o)) == 1
            elif name == "torch_token_data_dir_to_torch_ali_data_dir":
                torch.save(torch.tensor([[0, 0, 2], [1, 2, 3]]), os.path.join(d, x))
                rc = cl.torch_token_data_dir_to_torch_ali_data_dir([d, o, "--file-prefix=" + p, "--file-suffix=" + s])
                got = os.path.isdir(o) and len(os.listdir(o)) == 1
            else:
                return None
        except SystemExit:
            return None
    if got != sel:
        return "%s: file %r with prefix %r suffix %r: selected=%s, expected=%s" % (name, x, p, s, got, sel)
    return None


try:
    from contracts import C17_rt
except ImportError:
    C17_rt = None
CHECKERS = dict(C17_rt.CHECKERS) if C17_rt else {}


def run(ctx):
    v, n = vcs()
    if n < 6:
        ctx.errors.append("expected at least 6 os.listdir filter sites in command_line.py, found %d" % n)
        ctx.log("ERROR: only %d listdir filter sites located (vacuity guard)" % n)
    api.run_vcs(ctx, v, {"C17.select.prefix_suffix": "every os.listdir filter selects exactly startswith(prefix) and endswith(suffix) and derives the documented id (%d sites)" % n,
                         "C17.P.ids_sorted": "_DirectoryDataset lists exactly the selected files' ids in ascending id order (what --first-n / --first-ratio and the ref/hyp pairing of the error-rate command rely on), for any two file names, prefix and suffix"})
    if C17_rt:
        C17_rt.run_bounded(ctx)
    ctx.not_applicable.append("'every completion order of the worker pool' (schedules): contracts are sequential; only the worker counts actually run are compared")
