"""C20 - bounded run-time contracts (engine B) for the attention layers of pydrobert.torch._attn.

Every checker builds a REAL attention module (DotProductSoftAttention, GeneralizedDotProductSoftAttention,
ConcatSoftAttention, MultiHeadedAttention) with seeded arbitrary parameters from a small JSON case, calls it,
and compares with what the property's wording demands. The clauses are relations between executions of the
real module (masked content replaced, positions permuted, query expanded, negative vs non-negative sequence
dimension) or a bound / composition computed from the inputs with plain tensor primitives (min/max over kept
positions, x @ W.T + b, slicing, concatenation); none of them re-uses a formula of the implementation.

Readings of the property text (author's reading, DESIGN.md par. 5.8):
  * shapes (class docstring of GlobalSoftAttention): key (B*, T, C*, key_size), value (B*, T, C*, D),
    query (A*, query_size) with A* broadcasting against (B*, C*), mask (B*, T, C*) (broadcastable), result
    (E*, D) with E* the broadcast of A* and (B*, C*). `dim` is the position of T in key. "Legal" sequence
    dimensions are the ones check_input itself names: -key.dim()+1 .. key.dim()-2 except -1; a negative dim
    counts from the end OF KEY (dim -2 = the axis just before the feature axis). MultiHeadedAttention refuses
    negative dims at construction, so its legal dims are 0 .. key.dim()-2.
  * "kept": mask True, or every position when no mask is given. Every enumerated mask keeps at least one
    position of every sequence.
  * convex: min over kept t of value[.., t, .., j] <= out[.., j] <= max over kept t, for every output
    coordinate j. For the multi-headed flavour the output lives in the space of W^C, so the clause is
    instantiated with the parameter choice W^V = W^C = identity, no bias on them (then out coordinate j is
    head j // d_v's combination of value coordinate j); the other projections and the wrapped attention keep
    arbitrary parameters.
  * blind: replacing key and/or value at masked positions by zeros, large finite numbers, noise or shifted
    copies of kept content leaves the output unchanged (finite replacements only: 0 * inf is NaN in floats and
    is outside the claim, DESIGN.md par. 3 C20.soft.blind).
  * permute: applying one permutation of the T positions to key, value and mask leaves the output unchanged.
  * broadcast: giving query (or, by the same documented rule, key / value / mask) size 1 along a batch
    dimension gives the result of explicitly expanding it to the full size first.
  * multi-head composition: out = cat_h single_head(Q[.., h], K[.., h], V[.., h], mask) @ W^C.T (+ b^C) with
    Q = query @ W^Q.T (+ b^Q) etc. and head h owning the h-th contiguous block of d_q / d_k / d_v projected
    features; the wrapped single-head module itself is run per head on tensors without a head axis. The
    projections' parameters are read from the module (attributes WQ, WK, WV, WC). "a bias exactly on the
    projections for which one was requested" is its own clause (C20.mha.bias): the projection named by
    bias_WX has a bias parameter, and maps the zero input to a non-zero vector, iff bias_WX was requested.
Test inputs: all tensors and parameters are drawn from torch.Generator(seed of the case) in float64 and cast,
masks are enumerated (see the bounds), so a case is a deterministic function of its JSON.
"""
import itertools
import random

_KINDS = ["zero", "rand", "big", "roll"]
_WHICH = ["kv", "k", "v"]
_VMODES = ["rand", "const", "offset"]
_BC_OPTS = ["f", "q", "k", "v", "kv", "m", "qm"]  # per batch dim: which operands have size 1 there


def _torch():
    import warnings

    warnings.simplefilter("ignore")
    import torch

    return torch


def _prod(xs):
    p = 1
    for x in xs:
        p *= x
    return p


# ---------------------------------------------------------------------------------------------
# building modules and inputs from a case


def _randn(g, shape, dt, scale=1.0):
    torch = _torch()
    return (torch.randn(list(shape), generator=g, dtype=torch.float64) * scale).to(dt)


def _make_single(spec, dim):
    from pydrobert.torch.modules import ConcatSoftAttention, DotProductSoftAttention, GeneralizedDotProductSoftAttention

    fl = spec["fl"]
    if fl == "dot":
        return DotProductSoftAttention(spec["qs"], dim, spec.get("scale", 1.0))
    if fl == "gen":
        return GeneralizedDotProductSoftAttention(spec["qs"], spec["ks"], dim, spec["bias"])
    if fl == "cat":
        return ConcatSoftAttention(spec["qs"], spec["ks"], dim, spec["bias"], spec["hidden"])
    raise ValueError(fl)


def _make(spec, dim, g, dt):
    """spec: single-head {"fl": dot|gen|cat, qs, ks, vs, scale|bias|hidden} or
    {"fl": "mha", qs, ks, vs, "H", "inner": single-head spec (qs/ks = d_q/d_k), "bias": [q,k,v,c], "d_v", "out", "ident"}"""
    torch = _torch()
    if spec["fl"] == "mha":
        from pydrobert.torch.modules import MultiHeadedAttention

        bq, bk, bv, bc = spec["bias"]
        att = MultiHeadedAttention(spec["qs"], spec["ks"], spec["vs"], spec["H"], _make_single(spec["inner"], dim), spec.get("out"), spec.get("d_v"),
                                   bias_WQ=bq, bias_WK=bk, bias_WV=bv, bias_WC=bc)
    else:
        att = _make_single(spec, dim)
    att = att.to(dt)
    with torch.no_grad():
        for _, p in sorted(att.named_parameters()):
            p.copy_(_randn(g, p.shape, dt, 0.8))
        if spec.get("ident"):
            att.WV.weight.copy_(torch.eye(att.WV.weight.size(0), att.WV.weight.size(1), dtype=dt))
            att.WC.weight.copy_(torch.eye(att.WC.weight.size(0), att.WC.weight.size(1), dtype=dt))
            for layer in (att.WV, att.WC):  # the parameter choice is W = identity, b = 0 whether or not a bias parameter exists
                if layer.bias is not None:
                    layer.bias.zero_()
    return att


def _geom(case):
    bat, T, dim = list(case["bat"]), case["T"], case["dim"]
    r = len(bat) + 2
    p = dim if dim >= 0 else dim + r
    full = bat[:p] + [T] + bat[p:]
    return bat, T, p, full


def _mask(case):
    """column j of the batch (row-major over the batch dims) keeps the positions given by the bits of
    ((start + j) mod (2^T - 1)) + 1 (never empty); None = no mask"""
    torch = _torch()
    start = case.get("mask")
    if start is None:
        return None
    bat, T, p, full = _geom(case)
    npat = 2 ** T - 1
    rows = []
    for j in range(_prod(bat)):
        pat = ((start + j) % npat) + 1
        rows.append([bool(pat >> t & 1) for t in range(T)])
    m = torch.tensor(rows, dtype=torch.bool).view(*(bat + [T]))
    return m.movedim(-1, p).contiguous()


def _build(case, dim=None):
    torch = _torch()
    import pydrobert.torch.modules  # noqa: F401

    spec = case["att"]
    dt = torch.float64 if case.get("f64") else torch.float32
    g = torch.Generator()
    g.manual_seed(case["seed"])
    att = _make(spec, case["dim"] if dim is None else dim, g, dt)
    bat, T, p, full = _geom(case)
    q = _randn(g, bat + [spec["qs"]], dt)
    k = _randn(g, full + [spec["ks"]], dt)
    v = _randn(g, full + [spec["vs"]], dt)
    return att, q, k, v, _mask(case), p, full, dt, g


def _tol(dt):
    return 1e-11 if dt == _torch().float64 else 2e-5


def _differs(a, b, dt, what):
    """None when a == b up to the tolerance of the dtype, else a message"""
    torch = _torch()
    if list(a.shape) != list(b.shape):
        return "%s: shapes %s vs %s" % (what, list(a.shape), list(b.shape))
    if not bool(torch.isfinite(a).all()) or not bool(torch.isfinite(b).all()):
        return "%s: non-finite output %s vs %s" % (what, a.reshape(-1).tolist()[:6], b.reshape(-1).tolist()[:6])
    bad = (a - b).abs() > _tol(dt) * (1.0 + b.abs())
    if bool(bad.any()):
        i = int(bad.reshape(-1).nonzero()[0])
        return "%s: outputs differ at flat index %d: %r vs %r (max |diff| %.3g)" % (
            what, i, a.reshape(-1)[i].item(), b.reshape(-1)[i].item(), (a - b).abs().max().item())
    return None


def _want_shape(case):
    spec = case["att"]
    last = spec["vs"]
    if spec["fl"] == "mha":
        last = spec["out"] if spec.get("out") is not None else spec["vs"]
    return list(case["bat"]) + [last]


# ---------------------------------------------------------------------------------------------
# C20.soft.convex


def check_convex(case):
    """case: {att, bat: sizes of the non-sequence dims of key in order, T, dim, mask: start|None, seed, f64, vmode}
    vmode rand: arbitrary values; const: every kept value of a coordinate is the same number (output must be that
    number: weights sum to one); offset: values 100 + noise. Masked positions hold values ~1000 times larger."""
    torch = _torch()
    att, q, k, v, mask, p, full, dt, g = _build(case)
    vm = case.get("vmode", "rand")
    if vm == "const":
        v = _randn(g, [v.size(-1)], dt).expand_as(v).contiguous()
    elif vm == "offset":
        v = v + 100.0
    if mask is not None:
        v = torch.where(mask.unsqueeze(-1), v, _randn(g, v.shape, dt, 1000.0))
    out = att(q, k, v, mask)
    if list(out.shape) != _want_shape(case):
        return "result shape %s, expected %s" % (list(out.shape), _want_shape(case))
    if not bool(torch.isfinite(out).all()):
        return "non-finite output %s" % out.reshape(-1).tolist()[:6]
    kept = torch.ones(full, dtype=torch.bool) if mask is None else mask.expand(full)
    inf = torch.tensor(float("inf"), dtype=dt)
    lo = torch.where(kept.unsqueeze(-1), v, inf).amin(p)
    hi = torch.where(kept.unsqueeze(-1), v, -inf).amax(p)
    tol = _tol(dt)
    bad = (out < lo - tol * (1 + lo.abs())) | (out > hi + tol * (1 + hi.abs()))
    if bool(bad.any()):
        i = int(bad.reshape(-1).nonzero()[0])
        return "output coordinate (flat %d) = %r outside the kept values' range [%r, %r]" % (
            i, out.reshape(-1)[i].item(), lo.reshape(-1)[i].item(), hi.reshape(-1)[i].item())
    return None


# ---------------------------------------------------------------------------------------------
# C20.soft.blind


def check_blind(case):
    """case: as convex plus {kind: zero|rand|big|roll, which: kv|k|v}: masked positions of key and/or value replaced"""
    torch = _torch()
    att, q, k, v, mask, p, full, dt, g = _build(case)
    if mask is None:
        return None
    out = att(q, k, v, mask)
    if list(out.shape) != _want_shape(case):
        return "result shape %s, expected %s" % (list(out.shape), _want_shape(case))
    kind, which = case["kind"], case.get("which", "kv")
    big = 1e4 if case["att"]["fl"] == "mha" else (1e30 if dt == torch.float32 else 1e100)

    def repl(x):
        if kind == "zero":
            r = torch.zeros_like(x)
        elif kind == "rand":
            r = _randn(g, x.shape, dt, 100.0)
        elif kind == "nonfinite":  # +inf / nan at the masked positions (known finding KF-C20-4 for values)
            r = torch.where(_randn(g, x.shape, dt) > 0, torch.tensor(float("inf"), dtype=dt), torch.tensor(float("nan"), dtype=dt))
        elif kind == "big":
            r = torch.where(_randn(g, x.shape, dt) > 0, torch.tensor(big, dtype=dt), torch.tensor(-big, dtype=dt))
        else:
            r = x.roll(1, p) * 3.0 + 1.0
        return torch.where(mask.unsqueeze(-1), x, r)

    k2 = repl(k) if "k" in which else k
    v2 = repl(v) if "v" in which else v
    out2 = att(q, k2, v2, mask)
    return _differs(out2, out, dt, "masked %s replaced by %s" % (which, kind))


# ---------------------------------------------------------------------------------------------
# C20.soft.permute


def _perm(T, i):
    return list(list(itertools.permutations(range(T)))[i])


def check_permute(case):
    """case: as convex plus {perm: index into itertools.permutations(range(T))}"""
    torch = _torch()
    att, q, k, v, mask, p, full, dt, g = _build(case)
    pi = torch.tensor(_perm(case["T"], case["perm"]), dtype=torch.long)
    out = att(q, k, v, mask)
    if list(out.shape) != _want_shape(case):
        return "result shape %s, expected %s" % (list(out.shape), _want_shape(case))
    out2 = att(q, k.index_select(p, pi), v.index_select(p, pi), None if mask is None else mask.index_select(p, pi))
    return _differs(out2, out, dt, "positions permuted by %s" % pi.tolist())


# ---------------------------------------------------------------------------------------------
# C20.soft.broadcast


def _bc_tensors(case):
    torch = _torch()
    att, q, k, v, mask, p, full, dt, g = _build(case)
    q2, k2, v2, m2 = q, k, v, mask
    for i, opt in enumerate(case["bc"]):
        ax = i if i < p else i + 1  # axis of batch dim i in key / value / mask
        if "q" in opt:
            q2 = q2.narrow(i, 0, 1)
        if "k" in opt:
            k2 = k2.narrow(ax, 0, 1)
        if "v" in opt:
            v2 = v2.narrow(ax, 0, 1)
        if "m" in opt and m2 is not None:
            m2 = m2.narrow(ax, 0, 1)
    return att, (q, k, v, mask), (q2, k2, v2, m2), dt


def check_broadcast(case):
    """case: as convex plus {bc: per batch dim one of f (all full), q, k, v, kv, m, qm: the named operands have size 1
    along that dim}. Reference: the same operands explicitly expanded to the full shape (contiguous copies)."""
    att, (q, k, v, mask), (q2, k2, v2, m2), dt = _bc_tensors(case)
    ref = att(q2.expand_as(q).contiguous(), k2.expand_as(k).contiguous(), v2.expand_as(v).contiguous(),
              None if mask is None else m2.expand_as(mask).contiguous())
    if list(ref.shape) != _want_shape(case):
        return "result shape %s on expanded operands, expected %s" % (list(ref.shape), _want_shape(case))
    got = att(q2, k2, v2, m2)
    return _differs(got, ref, dt, "broadcast %s vs explicitly expanded" % case["bc"])


# ---------------------------------------------------------------------------------------------
# C20.soft.negdim


def check_negdim(case):
    """case: as convex with dim < 0: same parameters and inputs through the module built with dim + key.dim()"""
    att, q, k, v, mask, p, full, dt, g = _build(case)
    att2 = _build(case, dim=p)[0]
    out = att(q, k, v, mask)
    ref = att2(q, k, v, mask)
    if list(ref.shape) != _want_shape(case):
        return "result shape %s with dim=%d, expected %s" % (list(ref.shape), p, _want_shape(case))
    return _differs(out, ref, dt, "dim=%d vs dim=%d (key of rank %d)" % (case["dim"], p, k.dim()))


# ---------------------------------------------------------------------------------------------
# C20.mha.compose / C20.mha.bias


def _lin(x, layer):
    y = x @ layer.weight.t()
    if layer.bias is not None:
        y = y + layer.bias
    return y


def check_compose(case):
    torch = _torch()
    att, q, k, v, mask, p, full, dt, g = _build(case)
    spec = case["att"]
    H, dq, dk = spec["H"], spec["inner"]["qs"], spec["inner"]["ks"]
    dv = spec["d_v"] if spec.get("d_v") is not None else max(1, spec["vs"] // H)
    with torch.no_grad():
        out = att(q, k, v, mask)
        if list(out.shape) != _want_shape(case):
            return "result shape %s, expected %s" % (list(out.shape), _want_shape(case))
        Q, K, V = _lin(q, att.WQ), _lin(k, att.WK), _lin(v, att.WV)
        if [Q.size(-1), K.size(-1), V.size(-1)] != [H * dq, H * dk, H * dv]:
            return "projection widths %s, expected heads x (d_q, d_k, d_v) = %s" % ([Q.size(-1), K.size(-1), V.size(-1)], [H * dq, H * dk, H * dv])
        sha = att.single_head_attention
        heads = [sha(Q[..., h * dq:(h + 1) * dq], K[..., h * dk:(h + 1) * dk], V[..., h * dv:(h + 1) * dv], mask) for h in range(H)]
        ref = _lin(torch.cat(heads, -1), att.WC)
    return _differs(out, ref, dt, "multi-head output vs project / per-head single-head / concatenate / project")


def check_bias(case):
    """case: {att: mha spec, seed}: presence of each projection's bias == request (parameter and zero-input behaviour)"""
    torch = _torch()
    spec = case["att"]
    g = torch.Generator()
    g.manual_seed(case["seed"])
    att = _make(spec, 0, g, torch.float32)
    names = set(n for n, _ in att.named_parameters())
    for name, want in zip(("WQ", "WK", "WV", "WC"), spec["bias"]):
        layer = getattr(att, name)
        has = (name + ".bias") in names and layer.bias is not None
        if has != bool(want):
            return "bias flags %s: projection %s %s a bias parameter" % (spec["bias"], name, "has" if has else "lacks")
        y = layer(torch.zeros(2, layer.weight.size(1)))
        if bool((y != 0).any()) != bool(want):
            return "bias flags %s: projection %s maps zero to %s" % (spec["bias"], name, y[0].tolist())
    return None


# ---------------------------------------------------------------------------------------------
# enumeration


def _single_cfgs(ctx):
    cfgs = [
        {"fl": "dot", "qs": 2, "ks": 2, "vs": 2, "scale": 1.0},
        {"fl": "dot", "qs": 1, "ks": 1, "vs": 1, "scale": -2.5},
        {"fl": "gen", "qs": 2, "ks": 3, "vs": 1, "bias": False},
        {"fl": "gen", "qs": 1, "ks": 2, "vs": 2, "bias": True},
        {"fl": "cat", "qs": 2, "ks": 1, "vs": 2, "bias": False, "hidden": 2},
        {"fl": "cat", "qs": 1, "ks": 2, "vs": 1, "bias": True, "hidden": 3},
    ]
    if not ctx.quick:
        cfgs += [
            {"fl": "dot", "qs": 3, "ks": 3, "vs": 3, "scale": 0.5},
            {"fl": "gen", "qs": 3, "ks": 1, "vs": 3, "bias": True},
            {"fl": "cat", "qs": 3, "ks": 3, "vs": 2, "bias": True, "hidden": 1},
        ]
    return cfgs


def _inner_cfgs():
    return [
        {"fl": "dot", "qs": 2, "ks": 2, "scale": 0.7},
        {"fl": "gen", "qs": 1, "ks": 2, "bias": True},
        {"fl": "cat", "qs": 2, "ks": 1, "bias": False, "hidden": 2},
    ]


def _bias_bits(i):
    return [bool(i >> b & 1) for b in range(4)]


def _mha_cfgs(ctx, ident=False, full=False):
    """multi-headed specs. ident: W^V = W^C = identity (convex). full: every (H, d_v, out) option (compose / bias);
    otherwise a small rotation of them. The bias flags are filled in by the caller."""
    out = []
    hs = (1, 2, 3) if (full or not ctx.quick) else (1, 2)
    n = 0
    for inner in _inner_cfgs():
        for H in hs:
            if ident:
                out.append({"fl": "mha", "qs": 2, "ks": 3, "vs": H * 2 if H < 3 else 3, "H": H, "inner": dict(inner), "d_v": 2 if H < 3 else 1, "out": None, "ident": True})
                continue
            opts = [(None, None), (2, None), (None, 3), (1, 1)] if full else [[(None, None), (2, 3), (1, None)][n % 3]]
            for d_v, o in opts:
                n += 1
                out.append({"fl": "mha", "qs": 2, "ks": 3, "vs": 2 + (n % 2), "H": H, "inner": dict(inner), "d_v": d_v, "out": o})
    return out


def _geoms(ctx, neg=True, min_rank=2):
    """(bat, dim): key ranks 2..4 (thorough: ..5), every legal dim"""
    sizes = {3: [[1], [2], [3]], 4: [[1, 1], [1, 2], [2, 1], [2, 2], [2, 3], [3, 2]]}
    if not ctx.quick:
        sizes[3] += [[4]]
        sizes[4] += [[1, 3], [3, 1], [3, 3]]
        sizes[5] = [[2, 1, 2], [1, 2, 3], [2, 2, 2]]
    sizes[2] = [[]]
    for r in sorted(sizes):
        if r < min_rank:
            continue
        for bat in sizes[r]:
            for dim in range(-r + 1, r - 1):
                if dim == -1 or (dim < 0 and not neg):
                    continue
                yield bat, dim


def _tmax(ctx):
    return 3 if ctx.quick else 4


class _Counter:
    def __init__(self, ctx, salt):
        self.n, self.base = 0, ctx.seed * 7919 + salt * 1000003

    def __call__(self):
        self.n += 1
        return self.n

    def seed(self):
        return self.base + self.n


def _flavours(ctx, mha=True):
    """all attention specs for the relational clauses; multi-headed ones get rotating bias flags"""
    specs = [dict(s) for s in _single_cfgs(ctx)]
    if mha:
        for i, s in enumerate(_mha_cfgs(ctx)):
            s["bias"] = _bias_bits((i * 7 + 5) % 16)
            specs.append(s)
    return specs


def _mask_starts(T, none=True):
    return ([None] if none else []) + list(range(2 ** T - 1))


def _rand_case(rng, ctx, i, mha_ok=True, neg_ok=True, need_mask=False, mha_only=False, rmin=2):
    """seeded random case beyond the exhaustive bound (thorough tier): ranks <= 5, sizes <= 4, T <= 6, feature sizes <= 4"""
    r = rng.randint(rmin, 5)
    bat = [rng.randint(1, 4) for _ in range(r - 2)]
    T = rng.randint(1, 6)
    fl = "mha" if mha_only else rng.choice(["dot", "gen", "cat"] + (["mha"] if mha_ok else []))

    def single(qs=None, ks=None):
        f = rng.choice(["dot", "gen", "cat"]) if fl == "mha" else fl
        qs = qs or rng.randint(1, 4)
        ks = qs if f == "dot" else (ks or rng.randint(1, 4))
        s = {"fl": f, "qs": qs, "ks": ks}
        if f == "dot":
            s["scale"] = rng.choice([1.0, 0.5, -1.0, 3.0, 0.0])
        else:
            s["bias"] = rng.random() < 0.5
        if f == "cat":
            s["hidden"] = rng.randint(1, 4)
        return s

    if fl == "mha":
        spec = {"fl": "mha", "qs": rng.randint(1, 4), "ks": rng.randint(1, 4), "vs": rng.randint(1, 4), "H": rng.randint(1, 4), "inner": single(),
                "bias": [rng.random() < 0.5 for _ in range(4)], "d_v": rng.choice([None, 1, 2, 3]), "out": rng.choice([None, 1, 2, 4])}
    else:
        spec = single()
        spec["vs"] = rng.randint(1, 4)
    dims = [d for d in range(-r + 1, r - 1) if d != -1 and (d >= 0 or (neg_ok and fl != "mha"))]
    mask = rng.randrange(2 ** T - 1) if (need_mask or rng.random() < 0.8) else None
    return {"att": spec, "bat": bat, "T": T, "dim": rng.choice(dims), "mask": mask, "seed": ctx.seed * 31 + i + 17, "f64": rng.random() < 0.5}


def cases_convex(ctx):
    c = _Counter(ctx, 1)
    specs = _flavours(ctx, mha=False)
    for i, s in enumerate(_mha_cfgs(ctx, ident=True)):
        s["bias"] = [bool(i & 1), bool(i & 2), False, False]
        specs.append(s)
    for spec in specs:
        for bat, dim in _geoms(ctx, neg=spec["fl"] != "mha"):
            for T in range(1, _tmax(ctx) + 1):
                for ms in _mask_starts(T):
                    for vm in _VMODES:
                        n = c()
                        yield {"att": spec, "bat": bat, "T": T, "dim": dim, "mask": ms, "seed": c.seed(), "f64": n % 2 == 0, "vmode": vm}
    if not ctx.quick:
        rng = random.Random(ctx.seed + 2001)
        for i in range(6000):
            case = _rand_case(rng, ctx, i, mha_ok=False)
            case["vmode"] = rng.choice(_VMODES)
            yield case


def cases_blind(ctx):
    c = _Counter(ctx, 2)
    for spec in _flavours(ctx):
        for bat, dim in _geoms(ctx, neg=spec["fl"] != "mha"):
            for T in range(1, _tmax(ctx) + 1):
                for ms in _mask_starts(T, none=False):
                    for kind in _KINDS:
                        n = c()
                        m = (n - 1) // len(_KINDS)  # kinds cycle fastest; (which, dtype) rotate through their 6 combinations per mask pattern
                        yield {"att": spec, "bat": bat, "T": T, "dim": dim, "mask": ms, "seed": c.seed(), "f64": m % 2 == 0, "kind": kind, "which": _WHICH[m % 3]}
    # non-finite replacements: masked KEYS must not matter at all; masked VALUES are the known finding KF-C20-4
    for spec in _flavours(ctx):
        if spec["fl"] == "mha":
            continue
        for T in (2, 3):
            for ms in _mask_starts(T, none=False)[:2]:
                for which in ("k", "v"):
                    yield {"att": spec, "bat": [2], "T": T, "dim": 0, "mask": ms, "seed": c.seed(), "f64": True, "kind": "nonfinite", "which": which}
    if not ctx.quick:
        rng = random.Random(ctx.seed + 2002)
        for i in range(6000):
            case = _rand_case(rng, ctx, i, need_mask=True)
            case.update(kind=rng.choice(_KINDS), which=rng.choice(_WHICH))
            yield case


def cases_permute(ctx):
    c = _Counter(ctx, 3)
    for spec in _flavours(ctx):
        for bat, dim in _geoms(ctx, neg=spec["fl"] != "mha"):
            for T in range(1, _tmax(ctx) + 1):
                nperm = len(list(itertools.permutations(range(T))))
                for ms in _mask_starts(T):
                    for pi in range(nperm):
                        if T > 1 and pi == 0:
                            continue  # identity
                        if T == 4 and (pi + (ms or 0)) % 4:
                            continue  # T = 4: every permutation and every mask pattern, a quarter of the pairs
                        n = c()
                        yield {"att": spec, "bat": bat, "T": T, "dim": dim, "mask": ms, "seed": c.seed(), "f64": n % 2 == 0, "perm": pi}
    if not ctx.quick:
        rng = random.Random(ctx.seed + 2003)
        for i in range(6000):
            case = _rand_case(rng, ctx, i)
            case["perm"] = rng.randrange(len(list(itertools.permutations(range(case["T"])))))
            yield case


def _bc_choices(bat):
    per = [(_BC_OPTS if b > 1 else ["f"]) for b in bat]
    for combo in itertools.product(*per):
        if any(o != "f" for o in combo):
            yield list(combo)


def cases_broadcast(ctx):
    c = _Counter(ctx, 4)
    for spec in _flavours(ctx):
        for bat, dim in _geoms(ctx, neg=spec["fl"] != "mha", min_rank=3):
            if not ctx.quick and len(bat) == 3 and spec["fl"] == "mha" and spec["H"] == 3:
                continue
            for bc in _bc_choices(bat):
                for T in ((1, 3) if ctx.quick else (2, 4)):
                    n = c()
                    uses_mask = any("m" in o for o in bc)
                    ms = (n % (2 ** T - 1)) if (uses_mask or n % 3) else None
                    yield {"att": spec, "bat": bat, "T": T, "dim": dim, "mask": ms, "seed": c.seed(), "f64": n % 2 == 0, "bc": bc}
    if not ctx.quick:
        rng = random.Random(ctx.seed + 2004)
        for i in range(6000):
            case = _rand_case(rng, ctx, i, rmin=3)
            case["bc"] = [rng.choice(_BC_OPTS) if b > 1 else "f" for b in case["bat"]]
            yield case


def cases_negdim(ctx):
    c = _Counter(ctx, 5)
    for spec in _flavours(ctx, mha=False):
        for bat, dim in _geoms(ctx):
            if dim >= 0:
                continue
            for T in range(1, _tmax(ctx) + 1):
                for ms in _mask_starts(T):
                    for f64 in (False, True):
                        c()
                        yield {"att": spec, "bat": bat, "T": T, "dim": dim, "mask": ms, "seed": c.seed(), "f64": f64}
    if not ctx.quick:
        rng = random.Random(ctx.seed + 2005)
        i = 0
        while i < 4000:
            case = _rand_case(rng, ctx, i, mha_ok=False, rmin=3)
            if case["dim"] < 0:
                i += 1
                yield case


def cases_compose(ctx):
    c = _Counter(ctx, 6)
    for spec in _mha_cfgs(ctx, full=True):
        for bat, dim in _geoms(ctx, neg=False):
            if len(bat) == 3 and (spec["H"] != 2 or spec["d_v"] is not None):
                continue
            for T in range(1, _tmax(ctx) + 1):
                for ms in _mask_starts(T):
                    n = c()
                    s = dict(spec)
                    s["bias"] = _bias_bits(n % 16)
                    yield {"att": s, "bat": bat, "T": T, "dim": dim, "mask": ms, "seed": c.seed(), "f64": n % 2 == 0}
    if not ctx.quick:
        rng = random.Random(ctx.seed + 2006)
        for i in range(6000):
            yield _rand_case(rng, ctx, i, mha_only=True)


def cases_bias(ctx):
    c = _Counter(ctx, 7)
    for spec in _mha_cfgs(ctx, full=True):
        for bits in range(16):
            c()
            s = dict(spec)
            s["bias"] = _bias_bits(bits)
            yield {"att": s, "seed": c.seed()}


# ---------------------------------------------------------------------------------------------
# known-finding classes (genuine defects of the unchanged tree, see FINDINGS)


def _negdim_class(case, msg=""):
    """dim < 0 and the axis softmax normalises over (one to the left of the sequence axis) is not interchangeable with it"""
    if case.get("dim", 0) >= 0:
        return False
    bat, T, p, full = _geom(case)
    return T > 1 or full[p - 1] > 1


def _misplaced(mask, full, H):
    torch = _torch()
    target = list(full) + [H]
    b = torch.broadcast_to(mask.unsqueeze(-1), target)
    try:
        a = torch.broadcast_to(mask.unsqueeze(-2), target)
    except RuntimeError:
        return True
    return not bool((a == b).all())


def _mha_mask_class(case, msg=""):
    """multi-headed, mask given, and mask.unsqueeze(-2) does not broadcast to the per-head scores the way
    mask.unsqueeze(-1) (the mask repeated over heads) does"""
    spec = case.get("att", {})
    if spec.get("fl") != "mha" or case.get("mask") is None:
        return False
    bat, T, p, full = _geom(case)
    masks = [_mask(case)]
    if "bc" in case:
        masks.append(_bc_tensors(case)[2][3])
    return any(_misplaced(m, full, spec["H"]) for m in masks)


def _bias_class(case, msg=""):
    flags = case.get("att", {}).get("bias")
    return case["att"].get("fl") == "mha" and (flags[1] != flags[0] or flags[2] != flags[0]) and "bias flags" in msg


_NEG = ("sequence dimension given as a negative number (legal per check_input: -key.dim()+1 .. -2): forward() normalises the scores with "
        "softmax(e, self.dim) although e has one axis fewer than key, i.e. over the axis to the LEFT of the sequence axis; the weights do not "
        "sum to one over the sequence and the result differs from the equivalent non-negative dim")
_NEG_CLASS = "single-head attention constructed with dim < 0, and (T > 1 or the broadcast score tensor has size > 1 on the axis before the sequence axis)"
_MSK = ("MultiHeadedAttention.forward gives the wrapped attention mask.unsqueeze(-2); the head axis of the per-head scores is the LAST axis, so the mask is "
        "applied along the wrong axes (RuntimeError on broadcasting, or heads/batch elements masked by each other's pattern) instead of being repeated over heads")
_MSK_CLASS = ("MultiHeadedAttention called with a mask for which mask.unsqueeze(-2) broadcast to (E*, T, F*, num_heads) is impossible or differs from "
              "mask.unsqueeze(-1) broadcast (any mask whose last axis is larger than 1 and not constant along it, or whose last axis does not match num_heads)")
_W_NEG = {"att": {"fl": "dot", "qs": 1, "ks": 1, "vs": 1, "scale": 1.0}, "bat": [1], "T": 2, "dim": -2, "mask": None, "seed": 1, "f64": True}
_W_MSK = {"att": {"fl": "mha", "qs": 1, "ks": 1, "vs": 1, "H": 1, "inner": {"fl": "dot", "qs": 1, "ks": 1, "scale": 1.0}, "bias": [False, False, False, False],
                  "d_v": None, "out": None}, "bat": [], "T": 2, "dim": 0, "mask": 0, "seed": 1, "f64": True}

FINDINGS = [
    {"id": "KF-C20-1", "property": "C20", "clause": "C20.soft.negdim", "what": _NEG, "class": _NEG_CLASS, "witness": _W_NEG},
    {"id": "KF-C20-2", "property": "C20", "clause": "C20.mha.bias",
     "what": "MultiHeadedAttention.__init__ derives bias_WK and bias_WV from bias_WQ (argcheck.is_bool(bias_WQ, 'bias_WK') / (bias_WQ, 'bias_WV')): "
             "the key and value projections get a bias iff the QUERY projection was asked to have one",
     "class": "bias_WK != bias_WQ or bias_WV != bias_WQ",
     "witness": {"att": {"fl": "mha", "qs": 1, "ks": 1, "vs": 1, "H": 1, "inner": {"fl": "dot", "qs": 1, "ks": 1, "scale": 1.0},
                         "bias": [False, True, False, False], "d_v": None, "out": None}, "seed": 1}},
    {"id": "KF-C20-3", "property": "C20", "clause": "C20.mha.compose", "what": _MSK, "class": _MSK_CLASS, "witness": _W_MSK},
]
def _nonfinite_value_class(case, msg=""):
    """masked positions of the VALUE hold inf / nan (single-head flavours: the weights there are exact zeros, 0 * inf = nan)"""
    return case.get("kind") == "nonfinite" and "v" in case.get("which", "kv") and _masked_somewhere(case)


FINDINGS.append({"id": "KF-C20-4", "property": "C20", "clause": "C20.soft.blind",
                 "what": "a non-finite VALUE (inf, nan) at a masked position turns the output into nan: the masked weights are exact zeros but are multiplied into the values (0 * inf = nan); "
                         "masked keys are handled (their scores are overwritten with -inf)",
                 "class": "values at masked positions replaced by inf / nan",
                 "witness": {"att": {"fl": "dot", "qs": 1, "ks": 1, "vs": 1, "scale": 1.0}, "bat": [1], "T": 2, "dim": 0, "mask": 0, "seed": 1, "f64": True, "kind": "nonfinite", "which": "v"}})
KNOWN_MATCH = {"KF-C20-1": _negdim_class, "KF-C20-2": _bias_class, "KF-C20-3": _mha_mask_class, "KF-C20-4": _nonfinite_value_class}
# the same two defects seen through the other clauses (one record per clause because a known finding names one clause;
# the relational clauses only see them when a wrongly normalised / wrongly masked score column is all -inf, i.e. NaN, or an exception)
_W_MSK_ID = dict(_W_MSK, att=dict(_W_MSK["att"], vs=2, d_v=2, ident=True))
for _id, _what, _class, _fn, _wits in (
        ("KF-C20-1", _NEG, _NEG_CLASS, _negdim_class, {
            "convex": dict(_W_NEG, vmode="const"),
            "blind": dict(_W_NEG, mask=0, kind="zero", which="kv"),
            "permute": dict(_W_NEG, mask=0, perm=1),
            "broadcast": dict(_W_NEG, bat=[2], mask=1, bc=["m"])}),
        ("KF-C20-3", _MSK, _MSK_CLASS, _mha_mask_class, {
            "convex": dict(_W_MSK_ID, vmode="rand"),
            "blind": dict(_W_MSK, kind="zero", which="kv"),
            "permute": dict(_W_MSK, perm=1),
            "broadcast": dict(_W_MSK, bat=[2], bc=["q"])})):
    for _cl, _w in _wits.items():
        FINDINGS.append({"id": "%s/%s" % (_id, _cl), "property": "C20", "clause": "C20.soft." + _cl, "what": "(same defect as %s, seen through this clause) %s" % (_id, _what),
                         "class": _class, "witness": _w})
        KNOWN_MATCH["%s/%s" % (_id, _cl)] = _fn

CHECKERS = {
    "C20.soft.convex": check_convex,
    "C20.soft.blind": check_blind,
    "C20.soft.permute": check_permute,
    "C20.soft.broadcast": check_broadcast,
    "C20.soft.negdim": check_negdim,
    "C20.mha.compose": check_compose,
    "C20.mha.bias": check_bias,
}


def _masked_somewhere(case):
    ms, T = case.get("mask"), case["T"]
    if ms is None or T < 2:
        return False
    npat = 2 ** T - 1
    return any(((ms + j) % npat) + 1 != npat for j in range(_prod(case["bat"])))


def run_bounded(ctx):
    ctx.known_match.update(KNOWN_MATCH)
    _torch()  # import torch and the library once, before the worker pools fork
    import pydrobert.torch  # noqa: F401
    import pydrobert.torch.modules  # noqa: F401

    q = ctx.quick
    only = getattr(ctx, "only", None)

    def want(name):
        return not only or any(name.startswith(p) for p in only)

    geo = ("key ranks 2..4 with batch sizes [], [1],[2],[3], [1,1],[1,2],[2,1],[2,2],[2,3],[3,2] and EVERY legal sequence dim (negative ones for the single-head flavours; "
           "multi-headed attention refuses them), T in 1..3" if q else
           "key ranks 2..5 with batch sizes [], [1]..[4], ten rank-4 and three rank-5 batch shapes with sizes <= 3 and EVERY legal sequence dim (negative ones for the single-head "
           "flavours), T in 1..4")
    msk = "EVERY non-empty keep pattern of the T positions at every batch column (column j gets pattern (start + j) mod (2^T - 1), start enumerated), and no mask"
    fl1 = "dot-product (2 scale factors), generalised (with/without bias), concat (with/without bias, hidden 2/3)" + ("" if q else " and 3 more size configurations")
    flm = "multi-headed around each of the three (%s heads, rotating d_v/out_size options and bias flags)" % ("1..2" if q else "1..3")
    par = "parameters and inputs drawn from torch.Generator(case seed), float32 and float64 alternating"
    rnd = "" if q else "; plus %d seeded random cases (rank <= 5, sizes <= 4, T <= 6, feature sizes <= 4, heads <= 4)"
    soft = ["_attn.GlobalSoftAttention.forward", "_attn.GlobalSoftAttention.check_input", "_attn.DotProductSoftAttention.score",
            "_attn.GeneralizedDotProductSoftAttention.score", "_attn._concat_soft_attention"]
    mha = ["_attn.MultiHeadedAttention.forward", "_attn.MultiHeadedAttention.__init__", "_attn.MultiHeadedAttention.check_input"]

    if want("C20.soft.convex"):
        ctx.bounded("C20.soft.convex", check_convex, cases_convex(ctx),
                    bound="flavours: %s, and multi-headed with W^V = W^C = identity around each of the three; %s; masks: %s; values arbitrary / constant over kept positions / 100 + noise, "
                          "masked positions hold values ~1000x larger; %s%s" % (fl1, geo, msk, par, rnd % 6000 if rnd else ""),
                    text="every output coordinate lies in [min, max] of the kept values at that coordinate (constant kept values => output is that constant); result shape (E*, D)",
                    nontrivial=lambda c: c["T"] >= 2, chunk=128, functions=soft + mha[:1])
    if want("C20.soft.blind"):
        ctx.bounded("C20.soft.blind", check_blind, cases_blind(ctx),
                    bound="flavours: %s; %s; %s; masks: %s (a mask always given); masked key and/or value content replaced by zeros / noise x100 / +-1e30 (+-1e4 multi-headed) / shifted kept "
                          "content; %s%s" % (fl1, flm, geo, msk, par, rnd % 6000 if rnd else ""),
                    text="output unchanged when keys and/or values at masked positions are replaced by other finite content",
                    nontrivial=_masked_somewhere, chunk=128, functions=soft + mha[:1])
    if want("C20.soft.permute"):
        ctx.bounded("C20.soft.permute", check_permute, cases_permute(ctx),
                    bound="flavours: %s; %s; %s; masks: %s; EVERY non-identity permutation of the T positions (T = 4: every permutation with a quarter of the mask patterns each); %s%s" % (
                        fl1, flm, geo, msk, par, rnd % 6000 if rnd else ""),
                    text="output unchanged when key, value and mask are permuted by the same permutation along the sequence dimension",
                    nontrivial=lambda c: c["T"] >= 2, chunk=128, functions=soft + mha[:1])
    if want("C20.soft.broadcast"):
        ctx.bounded("C20.soft.broadcast", check_broadcast, cases_broadcast(ctx),
                    bound="flavours: %s; %s; key ranks 3..%d, batch shapes and dims as in the other clauses; per batch dim of size > 1 EVERY choice of which operands have size 1 there "
                          "(none / query / key / value / key+value / mask / query+mask), at least one dim reduced; T in %s; one mask pattern or no mask per case; %s%s" % (
                              fl1, flm, 4 if q else 5, "{1,3}" if q else "{2,4}", par, rnd % 6000 if rnd else ""),
                    text="result with size-1 (broadcast) query / key / value / mask dims == result on the explicitly expanded contiguous operands, for every legal sequence dim",
                    nontrivial=lambda c: any("q" in o for o in c["bc"]), chunk=128, functions=soft + mha[:1])
    if want("C20.soft.negdim"):
        ctx.bounded("C20.soft.negdim", check_negdim, cases_negdim(ctx),
                    bound="single-head flavours: %s; key ranks 3..%d, EVERY legal negative dim, batch shapes as in the other clauses, T in 1..%d; masks: %s; float32 and float64%s" % (
                        fl1, 4 if q else 5, _tmax(ctx), msk, rnd % 4000 if rnd else ""),
                    text="a legal negative sequence dim gives the result of the equivalent non-negative one (same parameters, same inputs)",
                    nontrivial=lambda c: c["T"] >= 2, chunk=128, functions=soft)
    if want("C20.mha.compose"):
        ctx.bounded("C20.mha.compose", check_compose, cases_compose(ctx),
                    bound="wrapped attention: dot-product (d 2), generalised with bias (d_q 1, d_k 2), concat (d_q 2, d_k 1); heads 1..3; (d_v, out_size) in {(default, default), (2, default), "
                          "(default, 3), (1, 1)}; value_size 2..3; all 16 bias-flag combinations in rotation; %s (non-negative dims); masks: %s; %s%s" % (geo, msk, par, rnd % 6000 if rnd else ""),
                    text="MultiHeadedAttention(query, key, value, mask) == W^C applied to the concatenation over heads h of the wrapped single-head attention run on the h-th blocks of "
                         "W^Q query, W^K key, W^V value (biases as present in the module) with the same mask",
                    nontrivial=lambda c: c["att"]["H"] >= 2 and c["T"] >= 2, chunk=128, functions=mha + soft[:1])
    if want("C20.mha.bias"):
        ctx.bounded("C20.mha.bias", check_bias, cases_bias(ctx),
                    bound="EVERY combination of the four bias flags x wrapped attention (3) x heads 1..3 x the four (d_v, out_size) options",
                    text="projection W^X has a bias parameter, and maps the zero vector to a non-zero vector, iff bias_WX was requested (X in Q, K, V, C)",
                    nontrivial=lambda c: len(set(c["att"]["bias"][:3])) > 1, chunk=16, functions=mha[1:2])
    ctx.replay_known_witnesses()
    ctx.not_applicable.append("C20: 'arbitrary parameters' and real-valued inputs are reached only through seeded draws (the enumeration is exhaustive over flavours, shapes, dims, "
                              "mask patterns, permutations and broadcast patterns within the stated bound, not over tensor contents)")
    ctx.not_applicable.append("C20: replacement content that is infinite or NaN (0 * inf is NaN in floats; the claim is over finite content), all-masked sequences, "
                              "integer masks, TorchScript/traced variants, CUDA")
    ctx.assume("floats compared with tolerance 2e-5*(1+|x|) (float32) / 1e-11*(1+|x|) (float64); a non-finite output is always a failure",
               "convexity for the multi-headed flavour is checked for W^V = W^C = identity (the statement cannot hold literally after an arbitrary output projection); "
               "for arbitrary projections it follows from C20.mha.compose and the single-head clause",
               "C20.mha.compose reads the projections' weights and biases from the module's attributes WQ, WK, WV, WC and assigns head h the h-th contiguous block of projected features; "
               "whether a bias is present where requested is C20.mha.bias",
               "the bounds min/max over kept positions, x @ W.T + b, slicing, concatenation, index_select, expand are torch primitives trusted as specified")
