"""Shared run-time of every check: clause bookkeeping, bounded drivers, known findings,
evidence, verdicts.

Vocabulary
----------
clause      a named part of a property. kind 'proved' (engine A: obligations discharged by an SMT
            solver over the real source, no bound), 'bounded' (engine B: run-time contract on the
            real function over an enumerated input space; never counted as proved) or 'guard'
            (vacuity / cross-check of the machinery itself).
case        a JSON-serialisable input of a bounded clause; `checker(case)` returns None when the
            contract holds and a message when it does not. Replays re-run the same checker.
"""
from __future__ import annotations

import hashlib
import json
import multiprocessing as mp
import os
import sys
import time
import traceback
from dataclasses import dataclass, field
from typing import Any, Callable, Dict, Iterable, List, Optional

ROOT = os.path.dirname(os.path.dirname(os.path.abspath(__file__)))
REPO = os.environ.get("VERIF_REPO", "/repo")
EXIT_OK, EXIT_VIOLATION, EXIT_UNDECIDED, EXIT_ERROR = 0, 1, 2, 3


def jdump(o) -> str:
    return json.dumps(o, sort_keys=True, default=_json_default)


def _json_default(o):
    try:
        import torch

        if isinstance(o, torch.Tensor):
            return o.tolist()
    except Exception:
        pass
    try:
        import numpy as np

        if isinstance(o, np.generic):
            return o.item()
        if isinstance(o, np.ndarray):
            return o.tolist()
    except Exception:
        pass
    if isinstance(o, (set, frozenset)):
        return sorted(o)
    if isinstance(o, tuple):
        return list(o)
    return repr(o)


@dataclass
class Clause:
    name: str
    kind: str  # proved | bounded | guard
    status: str = "ok"  # ok | violation | undecided | error | known
    text: str = ""
    bound: str = ""
    backend: str = ""
    solver_ms: float = 0.0
    obligations: int = 0
    discharged: int = 0
    evaluations: int = 0
    nontrivial: int = 0
    exhaustive: Optional[bool] = None
    samples: list = field(default_factory=list)
    detail: str = ""
    functions: list = field(default_factory=list)
    assumptions: list = field(default_factory=list)

    def as_dict(self):
        d = {k: v for k, v in self.__dict__.items() if not k.startswith("_") and (v not in ("", None, [], 0, 0.0) or k in ("status",))}
        return d


# ---------------------------------------------------------------------------------------------
# known findings


def load_known(prop: str):
    path = os.path.join(ROOT, "known_findings.jsonl")
    out = []
    if os.path.exists(path):
        for line in open(path):
            line = line.strip()
            if not line or line.startswith("#"):
                continue
            rec = json.loads(line)
            if "fixed" in rec:
                continue  # fixed entries suppress nothing
            if rec.get("property") == prop:
                out.append(rec)
    return out


# ---------------------------------------------------------------------------------------------
# bounded driver pool

_CHECKERS: Dict[str, Callable] = {}


def _worker(args):
    name, chunk = args
    fn, nontriv = _CHECKERS[name]
    fails, nt = [], 0
    for case in chunk:
        try:
            msg = fn(case)
        except Exception as e:  # the contract says the function must not raise on this case
            tb = traceback.format_exc(limit=6)
            msg = "checker raised %s: %s\n%s" % (type(e).__name__, e, tb)
        if msg:
            fails.append((case, str(msg)))
        if nontriv is not None:
            try:
                nt += 1 if nontriv(case) else 0
            except Exception:
                pass
    return len(chunk), nt, fails


def _init_worker():
    try:
        import torch

        torch.set_num_threads(1)
    except Exception:
        pass


class Ctx:
    def __init__(self, prop: str, tier: str, seed: int):
        self.prop, self.tier, self.seed = prop, tier, seed
        self.t0 = time.time()
        self.clauses: List[Clause] = []
        self.violations: List[dict] = []
        self.known_printed: List[str] = []
        self.undecided: List[str] = []
        self.errors: List[str] = []
        self.assumptions: List[str] = []
        self.trusted_base: List[str] = []
        self.functions: Dict[str, str] = {}  # qualname -> sha of verified source segment
        self.notes: List[str] = []
        self.known = load_known(prop)
        self.known_match: Dict[str, Callable] = {}
        self.jobs = int(os.environ.get("VERIF_JOBS", "16"))
        self.explanation = ""
        self.not_applicable: List[str] = []

    quick = property(lambda self: self.tier == "quick")

    # -- generic helpers ---------------------------------------------------------------------
    def assume(self, *texts):
        for t in texts:
            if t not in self.assumptions:
                self.assumptions.append(t)

    def trust(self, *texts):
        for t in texts:
            if t not in self.trusted_base:
                self.trusted_base.append(t)

    def log(self, *a):
        print(*a, flush=True)

    def add_clause(self, c: Clause):
        self.clauses.append(c)
        tag = {"ok": "ok", "known": "KNOWN", "violation": "VIOLATION", "undecided": "UNDECIDED", "error": "ERROR"}[c.status]
        extra = ""
        if c.kind == "proved":
            extra = " obligations=%d discharged=%d backend=%s solver_ms=%.0f" % (c.obligations, c.discharged, c.backend, c.solver_ms)
        elif c.kind in ("bounded", "crosscheck"):
            extra = " evaluations=%d nontrivial=%d exhaustive=%s" % (c.evaluations, c.nontrivial, c.exhaustive)
        self.log("[%s] %-9s %-7s %s%s %s" % (self.prop, tag, c.kind, c.name, extra, c.detail[:300].replace("\n", " | ")))
        return c

    def write_replay(self, clause: str, payload: dict) -> str:
        os.makedirs(os.path.join(ROOT, "replays"), exist_ok=True)
        body = jdump({"property": self.prop, "clause": clause, **payload})
        h = hashlib.sha256(body.encode()).hexdigest()[:10]
        rel = "replays/%s%s_%s_%s.json" % ("scratch_" if "VERIF_REPO" in os.environ else "", self.prop, clause.replace("/", "_"), h)
        with open(os.path.join(ROOT, rel), "w") as f:
            f.write(body + "\n")
        return rel

    def violation(self, clause: str, payload: dict, no_input: bool = False, msg: str = ""):
        rel = self.write_replay(clause, payload)
        self.violations.append({"clause": clause, "replay": rel, "no_input": no_input, "msg": msg[:500]})
        self.log("VIOLATION property=%s replay=%s%s" % (self.prop, rel, " no-failing-input-found" if no_input else ""))
        if msg:
            self.log("   clause=%s %s" % (clause, msg[:600].replace("\n", " | ")))
        return rel

    def known_finding(self, kid: str, what: str):
        if kid not in self.known_printed:
            self.known_printed.append(kid)
            self.log("KNOWN-FINDING: property=%s %s [%s]" % (self.prop, what, kid))

    def match_known(self, clause: str, case, msg: str) -> Optional[dict]:
        for rec in self.known:
            cl = rec.get("clauses") or ([rec["clause"]] if rec.get("clause") else None)
            if cl is not None and clause not in cl:
                continue
            fn = self.known_match.get(rec["id"])
            try:
                if fn is not None and fn(case, msg):
                    return rec
            except Exception:
                continue
        return None

    # -- engine B ----------------------------------------------------------------------------
    def bounded(
        self,
        name: str,
        checker: Callable[[Any], Optional[str]],
        cases: Iterable,
        bound: str,
        text: str = "",
        nontrivial: Optional[Callable[[Any], bool]] = None,
        budget_s: Optional[float] = None,
        chunk: int = 64,
        parallel: bool = True,
        max_report: int = 3,
        functions: Optional[List[str]] = None,
        crosscheck: bool = False,
    ) -> Clause:
        """Run `checker` on every case. `cases` may be lazy; when `budget_s` elapses before it is
        exhausted the clause is recorded as not exhaustive."""
        _CHECKERS[name] = (checker, nontrivial)
        # crosscheck=True: a run-time re-check of clauses that are already proved (replay oracle / engine sanity);
        # it does not carry any clause of the property on its own and so does not demote a proof-level claim
        c = Clause(name=name, kind="crosscheck" if crosscheck else "bounded", bound=bound, text=text, functions=functions or [])
        t0 = time.time()
        fails: List = []
        exhausted = True

        def chunks():
            nonlocal exhausted
            buf = []
            for case in cases:
                buf.append(case)
                if len(c.samples) < 2:
                    c.samples.append(case)
                if len(buf) >= chunk:
                    yield (name, buf)
                    buf = []
                if budget_s is not None and time.time() - t0 > budget_s:
                    exhausted = False
                    break
            if buf:
                yield (name, buf)

        try:
            if parallel and self.jobs > 1:
                with mp.get_context("fork").Pool(self.jobs, initializer=_init_worker) as pool:
                    for n, nt, fl in pool.imap_unordered(_worker, chunks()):
                        c.evaluations += n
                        c.nontrivial += nt
                        fails.extend(fl)
            else:
                for job in chunks():
                    n, nt, fl = _worker(job)
                    c.evaluations += n
                    c.nontrivial += nt
                    fails.extend(fl)
        except Exception as e:
            c.status = "error"
            c.detail = "driver crashed: %s" % traceback.format_exc(limit=4)
            self.errors.append(name)
            return self.add_clause(c)
        if nontrivial is None:
            c.nontrivial = c.evaluations
        c.exhaustive = exhausted
        c.solver_ms = 0.0
        c.detail = "%.1fs" % (time.time() - t0)
        # triage failures: known class vs new violation
        new = []
        known_hits: Dict[str, int] = {}
        for case, msg in fails:
            rec = self.match_known(name, case, msg)
            if rec is not None:
                known_hits[rec["id"]] = known_hits.get(rec["id"], 0) + 1
            else:
                new.append((case, msg))
        for kid, n in known_hits.items():
            rec = next(r for r in self.known if r["id"] == kid)
            self.known_finding(kid, rec["what"])
            c.detail += " known[%s]=%d" % (kid, n)
        if new:
            c.status = "violation"
            new.sort(key=lambda cm: len(jdump(cm[0])))
            for case, msg in new[:max_report]:
                self.violation(name, {"case": case, "message": msg}, msg=msg)
            c.detail += " failures=%d (first: %s)" % (len(new), new[0][1][:200])
        elif known_hits:
            c.status = "known"
        return self.add_clause(c)

    def replay_known_witnesses(self):
        """Each listed finding's witness must still fail in its recorded way; otherwise say so
        (the finding is stale, which is not an alarm)."""
        for rec in self.known:
            w = rec.get("witness")
            wc = rec.get("witness_clause") or rec.get("clause")
            if w is None or wc not in _CHECKERS:
                continue
            fn, _ = _CHECKERS[wc]
            try:
                msg = fn(w)
            except Exception as e:
                msg = "raised %s: %s" % (type(e).__name__, e)
            if msg:
                self.known_finding(rec["id"], rec["what"])
            else:
                self.log("[%s] note: known finding %s no longer reproduces on its witness (stale entry)" % (self.prop, rec["id"]))
                self.notes.append("known finding %s no longer reproduces" % rec["id"])

    # -- verdict / evidence -----------------------------------------------------------------------
    def finish(self) -> int:
        wall = time.time() - self.t0
        proved = [c for c in self.clauses if c.kind == "proved"]
        bounded = [c for c in self.clauses if c.kind == "bounded"]
        cross = [c for c in self.clauses if c.kind == "crosscheck"]
        n_obl = sum(c.obligations for c in proved)
        n_dis = sum(c.discharged for c in proved)
        all_proved = bool(proved) and not bounded and not self.not_applicable and all(c.status == "ok" for c in proved)
        level = "proof" if all_proved else "other"
        statuses = [c.status for c in self.clauses]
        if self.violations:
            code = EXIT_VIOLATION
        elif "error" in statuses or self.errors:
            code = EXIT_ERROR
        elif "undecided" in statuses or self.undecided:
            code = EXIT_UNDECIDED
        else:
            code = EXIT_OK
        expl = self.explanation or ""
        expl += " PROVED clauses (unbounded, z3/cvc5 over VCs generated from the real source): %s." % (
            ", ".join("%s[%d/%d %s %.0fms]" % (c.name, c.discharged, c.obligations, c.backend, c.solver_ms) for c in proved) or "none")
        expl += " BOUNDED clauses (run-time contract on the real function, never counted as proved): %s." % (
            ", ".join("%s[%s; evals=%d; exhaustive=%s]" % (c.name, c.bound, c.evaluations, c.exhaustive) for c in bounded) or "none")
        if cross:
            expl += " Run-time cross-checks of proved clauses (replay oracle, not part of the claim): %s." % ", ".join("%s[%s; evals=%d]" % (c.name, c.bound, c.evaluations) for c in cross)
        if self.not_applicable:
            expl += " NOT DECIDED by this technique: %s." % "; ".join(self.not_applicable)
        if self.known_printed:
            expl += " Known findings printed: %s." % ", ".join(self.known_printed)
        samples = []
        for c in self.clauses:
            for s in c.samples[:2]:
                samples.append({"clause": c.name, "case": s})
        ev = {
            "property_id": self.prop,
            "tier": self.tier,
            "seed": self.seed,
            "level": level,
            "coverage": {
                "obligations": n_obl,
                "discharged": n_dis,
                "checker_cmd": "./check %s --tier %s" % (self.prop, self.tier),
                "trusted_base": self.trusted_base,
                "evaluations": sum(c.evaluations for c in bounded + cross),
                "distinct_nontrivial": sum(c.nontrivial for c in bounded + cross),
                "rule": "bounded clauses: cases enumerated by the generator named in each clause's bound; distinct by construction; "
                "non-trivial per the clause's own predicate (default: every case)",
                "samples": samples[:12] or [{"note": "no bounded cases in this run"}],
                "exhaustive": bool(bounded) and all(bool(c.exhaustive) for c in bounded),
                "explanation": expl.strip(),
                "clauses": [c.as_dict() for c in self.clauses],
                "functions_under_contract": self.functions,
                "solver_ms": sum(c.solver_ms for c in proved),
                "not_decided": self.not_applicable,
                "known_findings_printed": self.known_printed,
                "notes": self.notes,
                "exit_code": code,
            },
            "assumptions": self.assumptions,
            "wall_s": round(wall, 2),
            "violations": len(self.violations),
        }
        # runs against a scratch copy (VERIF_REPO, development / seeded-change runs) must not overwrite the evidence of /repo
        # ... and neither must a partial run (--only <clauses>, a development aid): its record would not describe the whole check
        evdir = "evidence" if ("VERIF_REPO" not in os.environ and not getattr(self, "only", None)) else ".scratch_evidence"
        os.makedirs(os.path.join(ROOT, evdir), exist_ok=True)
        with open(os.path.join(ROOT, evdir, "%s.json" % self.prop), "w") as f:
            json.dump(ev, f, indent=1, default=_json_default)
            f.write("\n")
        self.log("[%s] tier=%s level=%s obligations=%d discharged=%d bounded_evals=%d violations=%d known=%d wall=%.1fs exit=%d" % (
            self.prop, self.tier, level, n_obl, n_dis, ev["coverage"]["evaluations"], len(self.violations), len(self.known_printed), wall, code))
        return code
