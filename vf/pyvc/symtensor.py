"""Symbolic-SHAPE tensors (the "P" rung for vectorised code): shape = tuple of python ints / SMT Ints, element = function of
the index tuple returning a scalar (python number, SMT term, or ctensor.Guarded for possibly-+inf values).

Shape-only operations rewrite the index function, element-wise operations compose it, slice stores build functional updates.
A reduction over a symbolic extent introduces a fresh uninterpreted function constrained by the primitive's ASSUMED contract
(quantified axioms recorded in the path condition), e.g. min(dim): a lower bound of every finite entry along the dimension
that is attained at some finite entry (no tie rule). The obligations of a sidecar contract are then proved from those axioms
with explicit induction (base / step obligations) - the solver is not asked to do induction.

Abstraction used for products `integer-valued * symbolic real constant` (e.g. arange(R + 1) * del_cost): they are represented
by an uninterpreted function lin_c(i) with the axioms lin_c(0) = 0, lin_c(i + 1) = lin_c(i) + c - a weakening of i * c that keeps
the obligations linear. Only what follows from the axioms is ever proved, so the abstraction is sound.
"""
from __future__ import annotations

import ast

import z3

from . import ctensor as ct
from .ctensor import Guarded, sc_add_g, sc_cmp_g, sc_min_g, sc_where
from .interp import PyRaise, Unsupported, is_z3, to_z3

_ctr = [0]
_LIN = {}


def _fresh(name, *sorts):
    _ctr[0] += 1
    return z3.Function("%s!%d" % (name, _ctr[0]), *sorts)


def as_int_term(t):
    """Int term i with t == ToReal(i), for terms built from ToReal / numerals / + / - ; else None"""
    if isinstance(t, int) and not isinstance(t, bool):
        return z3.IntVal(t)
    if not is_z3(t):
        return None
    if z3.is_int(t):
        return t
    if z3.is_app_of(t, z3.Z3_OP_TO_REAL):
        return t.arg(0)
    if z3.is_rational_value(t) and t.denominator_as_long() == 1:
        return z3.IntVal(t.numerator_as_long())
    if z3.is_add(t) or z3.is_sub(t):
        parts = [as_int_term(c) for c in t.children()]
        if any(p is None for p in parts):
            return None
        r = parts[0]
        for p in parts[1:]:
            r = r + p if z3.is_add(t) else r - p
        return r
    if z3.is_app_of(t, z3.Z3_OP_UMINUS):
        p = as_int_term(t.arg(0))
        return None if p is None else -p
    if z3.is_app_of(t, z3.Z3_OP_ITE):
        a, b = as_int_term(t.arg(1)), as_int_term(t.arg(2))
        return None if a is None or b is None else z3.If(t.arg(0), a, b)
    return None


def lin(I, c, i):
    """i * c for an Int term i and a symbolic real constant c, as lin_c(i) with its recurrence axioms"""
    key = str(c)
    if key not in _LIN:
        _LIN[key] = z3.Function("lin_%s" % key, z3.IntSort(), z3.RealSort())
    f = _LIN[key]
    if not I.ex.ghost.get("lin_ax_" + key):
        j = z3.Int("j_lin")
        I.ex.assume(f(0) == 0)
        I.ex.assume(z3.ForAll([j], f(j + 1) == f(j) + c))
        I.ex.ghost["lin_ax_" + key] = True
        I.ex.ghost.setdefault("lin", {})[key] = (f, c)
    return f(i)


def lin_instances(I, j):
    """instances f(j + 1) = f(j) + c of every lin_c recurrence assumed on this path"""
    return [f(j + 1) == f(j) + c for f, c in I.ex.ghost.get("lin", {}).values()]


def s_mul(I, a, b):
    """scalar product with the abstractions described in the module docstring"""
    for x, y in ((a, b), (b, a)):
        if is_z3(y) and z3.is_real(y) and z3.is_const(y) and y.decl().kind() == z3.Z3_OP_UNINTERPRETED:
            if is_z3(x) and z3.is_app_of(x, z3.Z3_OP_ITE) and _is01(x):  # {0,1}-valued mask times a constant
                return z3.If(x.arg(0), y if _one(x.arg(1)) else z3.RealVal(0), y if _one(x.arg(2)) else z3.RealVal(0))
            i = as_int_term(x)
            if i is not None and not z3.is_int_value(z3.simplify(i)):
                return lin(I, y, i)
    if isinstance(a, Guarded) or isinstance(b, Guarded):
        g, o = (a, b) if isinstance(a, Guarded) else (b, a)
        if not is_z3(o) and o == 1:
            return g
        raise Unsupported("product with a possibly-infinite value")
    return ct.sc_mul(a, b)


def _one(t):
    t = z3.simplify(t)
    return z3.is_rational_value(t) and t.numerator_as_long() == 1 and t.denominator_as_long() == 1 or (z3.is_int_value(t) and t.as_long() == 1)


def _is01(t):
    def z(v):
        v = z3.simplify(v)
        return (z3.is_rational_value(v) or z3.is_int_value(v)) and str(v) in ("0", "1")
    return z(t.arg(1)) and z(t.arg(2))


def dim_eq(a, b):
    if isinstance(a, int) and isinstance(b, int):
        return a == b
    return z3.simplify(to_z3(a) - to_z3(b)).eq(z3.IntVal(0)) or str(z3.simplify(to_z3(a))) == str(z3.simplify(to_z3(b)))


class ST:
    def __init__(self, shape, elem, dtype):
        self.shape, self.elem, self.dtype = tuple(shape), elem, dtype

    @staticmethod
    def symbolic(name, shape, dtype):
        rng = {"long": z3.IntSort(), "float": z3.RealSort(), "bool": z3.BoolSort()}[dtype]
        f = z3.Function(name, *([z3.IntSort()] * len(shape) + [rng]))
        return ST(shape, lambda *idx: f(*[to_z3(i) for i in idx]), dtype)

    @staticmethod
    def const(shape, v, dtype):
        return ST(shape, lambda *idx: v, dtype)

    def __repr__(self):
        return "ST(%s,%s)" % (self.dtype, self.shape)

    # ---- broadcasting element-wise
    @staticmethod
    def ew(I, f, *xs, dtype):
        ts = [x for x in xs if isinstance(x, ST)]
        rank = max(len(t.shape) for t in ts)
        shape = []
        for d in range(rank):
            dims = []
            for t in ts:
                off = rank - len(t.shape)
                if d >= off:
                    dims.append(t.shape[d - off])
            big = [x for x in dims if not (isinstance(x, int) and x == 1)]
            pick = big[0] if big else 1
            for x in big[1:]:
                if not dim_eq(x, pick):
                    I.ex.oblige("broadcast.shapes_agree", to_z3(x) == to_z3(pick))
            shape.append(pick)

        # results are materialised tensors: capture the operands' element functions NOW (a later in-place store into an
        # operand must not change this result)
        snap = [(x.elem, x.shape) if isinstance(x, ST) else None for x in xs]

        def elem(*idx):
            args = []
            for x, sn in zip(xs, snap):
                if sn is not None:
                    e_, shp = sn
                    off = rank - len(shp)
                    sub = [0 if (isinstance(shp[d - off], int) and shp[d - off] == 1) else idx[d] for d in range(off, rank)]
                    args.append(e_(*sub))
                else:
                    args.append(x)
            return f(*args)

        return ST(shape, elem, dtype)

    def _bin(self, I, op, other, reflected):
        a, b = (other, self) if reflected else (self, other)
        dt = "float" if "float" in (getattr(a, "dtype", None), getattr(b, "dtype", None)) or isinstance(other, float) or (is_z3(other) and z3.is_real(other)) else self.dtype
        def num(x):  # a Boolean operand of an arithmetic operation counts as 0 / 1
            if isinstance(x, bool):
                return int(x)
            return z3.If(x, 1, 0) if (is_z3(x) and z3.is_bool(x)) else x
        if isinstance(op, ast.Mult) and getattr(a, "dtype", None) == "bool" and getattr(b, "dtype", None) == "bool":
            return ST.ew(I, ct.sc_and, a, b, dtype="bool")  # torch: bool * bool is the conjunction, dtype bool
        if isinstance(op, (ast.Add, ast.Sub, ast.Mult)) and ("bool" in (getattr(a, "dtype", None), getattr(b, "dtype", None))):
            f_ = {ast.Add: sc_add_g, ast.Sub: (lambda x, y: sc_add_g(x, ct.sc_neg(y))), ast.Mult: (lambda x, y: s_mul(I, x, y))}[type(op)]
            other_dt = [getattr(x, "dtype", None) for x in (a, b) if getattr(x, "dtype", None) not in (None, "bool")]
            return ST.ew(I, lambda x, y: f_(num(x), num(y)), a, b, dtype=(other_dt[0] if other_dt else "long"))
        if isinstance(op, ast.Add):
            return ST.ew(I, sc_add_g, a, b, dtype=dt)
        if isinstance(op, ast.Sub):
            return ST.ew(I, lambda x, y: sc_add_g(x, ct.sc_neg(y)), a, b, dtype=dt)
        if isinstance(op, ast.Mult):
            return ST.ew(I, lambda x, y: s_mul(I, x, y), a, b, dtype=dt)
        if isinstance(op, ast.Div):
            return ST.ew(I, ct.sc_div, a, b, dtype="float")
        if isinstance(op, ast.Mod):
            return ST.ew(I, lambda x, y: to_z3(x) % to_z3(y), a, b, dtype=self.dtype)
        if isinstance(op, ast.FloorDiv):
            return ST.ew(I, lambda x, y: to_z3(x) / to_z3(y), a, b, dtype=self.dtype)
        if isinstance(op, ast.BitAnd):
            return ST.ew(I, ct.sc_and, a, b, dtype="bool")
        if isinstance(op, ast.BitOr):
            return ST.ew(I, ct.sc_or, a, b, dtype="bool")
        if isinstance(op, ast.MatMult) and isinstance(a, ST) and isinstance(b, ST):  # a @ b = torch.matmul(a, b)
            return _matmul(I, a, b)
        raise Unsupported("symbolic-shape tensor op %s" % type(op).__name__)

    def __vc_binop__(self, I, op, other, reflected):
        if isinstance(other, (ST, int, float, bool)) or is_z3(other):
            return self._bin(I, op, other, reflected)
        return NotImplemented

    def __vc_compare__(self, I, op, other, reflected):
        name = {ast.Lt: "lt", ast.LtE: "le", ast.Gt: "gt", ast.GtE: "ge", ast.Eq: "eq", ast.NotEq: "ne"}.get(type(op))
        if name is None or not (isinstance(other, (ST, int, float, bool)) or is_z3(other)):
            return NotImplemented
        a, b = (other, self) if reflected else (self, other)
        return ST.ew(I, lambda x, y: sc_cmp_g(name, x, y), a, b, dtype="bool")

    def __vc_unop__(self, I, op):
        if isinstance(op, ast.Invert):
            return ST.ew(I, ct.sc_not, self, dtype="bool")
        if isinstance(op, ast.USub):
            return ST.ew(I, ct.sc_neg, self, dtype=self.dtype)
        raise Unsupported("unary op on a symbolic-shape tensor")

    def __vc_truth__(self, I):
        if all(isinstance(d, int) and d == 1 for d in self.shape):  # a one-element tensor: its element decides
            e = self.elem(*([0] * len(self.shape)))
            return I.ex.branch(e if not isinstance(e, bool) else e) if self.dtype == "bool" else I.ex.branch(to_z3(e) != 0)
        raise Unsupported("truth value of a symbolic-shape tensor")

    def __vc_iop__(self, I, op, v):
        """in-place arithmetic (x += y ...): the object keeps its identity, its element function is replaced (aliases made by plain
        assignment see the update, like torch tensors sharing storage)"""
        new = self._bin(I, op, v, False)
        if len(new.shape) != len(self.shape) or not all(dim_eq(a, b) for a, b in zip(new.shape, self.shape)):
            raise PyRaise("RuntimeError", "output with shape %s doesn't match the broadcast shape %s" % (list(self.shape), list(new.shape)))
        self.elem = new.elem
        if new.dtype == "float":
            self.dtype = "float" if self.dtype == "float" else self.dtype
        return self

    # ---- indexing
    def _norm_idx(self, idx):
        if not isinstance(idx, tuple):
            idx = (idx,)
        if any(i is Ellipsis for i in idx):
            k = idx.index(Ellipsis)
            idx = idx[:k] + (slice(None),) * (len(self.shape) - len(idx) + 1) + idx[k + 1:]
        return idx + (slice(None),) * (len(self.shape) - len(idx))

    def __vc_int__(self, I):
        return _item(I, self)

    def __vc_index__(self, I):
        return _item(I, self)

    def __vc_getitem__(self, I, idx):
        if isinstance(idx, ST) and idx.dtype == "long" and len(idx.shape) > 0:
            return _index_by_tensor(I, self, idx)
        if isinstance(idx, ST) and idx.dtype == "bool" and len(idx.shape) == len(self.shape):  # t[mask] = t.masked_select(mask)
            return _masked_select(I, self, idx)
        if (idx is None) or (isinstance(idx, tuple) and any(k is None for k in idx)):
            # t[:, None], t[..., None], t[None]: the positions of None become new axes of extent 1 (unsqueeze), the rest indexes as usual
            items = idx if isinstance(idx, tuple) else (idx,)
            rest = tuple(k for k in items if k is not None)
            n_named = sum(1 for k in rest if k is not Ellipsis)
            if any(isinstance(k, ST) and len(k.shape) > 0 for k in rest):
                raise Unsupported("None together with a tensor index")
            base = self.__vc_getitem__(I, rest) if rest else self
            full = []  # per item of `items`: 'new' | 'kept' (slice -> output axis) | 'dropped' (integer)
            for k in items:
                if k is None:
                    full.append("new")
                elif k is Ellipsis:
                    full.extend(["kept"] * (len(self.shape) - n_named))
                elif isinstance(k, slice):
                    full.append("kept")
                else:
                    full.append("dropped")
            out, pos = base, 0
            for kind in full:
                if kind == "new":
                    out = _unsqueeze(I, out, pos)
                    pos += 1
                elif kind == "kept":
                    pos += 1
            return out
        idx = self._norm_idx(idx)
        # a 0-dim integer tensor used as an index or slice bound stands for its element (torch's __index__)
        sc = lambda v: v.elem() if (isinstance(v, ST) and len(v.shape) == 0) else v
        idx = tuple(slice(sc(k.start), sc(k.stop), sc(k.step)) if isinstance(k, slice) else sc(k) for k in idx)
        shape, maps = [], []
        for d, k in enumerate(idx):
            n = self.shape[d]
            if isinstance(k, slice):
                if k.step not in (None, 1):
                    raise Unsupported("strided slice")
                lo = 0 if k.start is None else k.start
                hi = n if k.stop is None else k.stop
                if (isinstance(lo, int) and lo < 0) or (isinstance(hi, int) and hi < 0):
                    lo = lo if not (isinstance(lo, int) and lo < 0) else n + lo
                    hi = hi if not (isinstance(hi, int) and hi < 0) else n + hi
                size = hi - lo if not (isinstance(hi, int) and isinstance(lo, int)) else hi - lo
                size = z3.simplify(size) if is_z3(size) else size
                if is_z3(lo) or is_z3(hi) or (is_z3(n) and not (isinstance(lo, int) and lo == 0 and hi is n)):
                    # python / torch clamp slice bounds to the extent; the index-function model does not, so the bounds must lie inside
                    # (a `structure.` obligation: when it fails the MODEL does not apply - undecided, never a violation)
                    I.ex.oblige("structure.slice.bounds_within_the_extent", z3.And(to_z3(lo) >= 0, to_z3(lo) <= to_z3(hi), to_z3(hi) <= to_z3(n)))
                shape.append(size)
                maps.append(("s", lo))
            else:
                k2 = to_z3(k) if not isinstance(k, int) else k
                if isinstance(k2, int) and k2 < 0:
                    k2 = n + k2
                elif is_z3(k2) and not z3.is_int_value(k2):  # python semantics of a possibly negative symbolic index: counted from the end
                    neg = z3.simplify(k2 < 0)
                    k2 = k2 if z3.is_false(neg) else (z3.simplify(k2 + to_z3(n)) if z3.is_true(neg) else z3.If(k2 < 0, k2 + to_z3(n), k2))
                I.ex.oblige("index.in_bounds", z3.And(to_z3(k2) >= 0, to_z3(k2) < to_z3(n)))
                maps.append(("i", k2))

        base = self.elem  # snapshot (see ew); the verified functions never write through a slice view after taking it

        def elem(*sub):
            full, j = [], 0
            for kind, v in maps:
                if kind == "i":
                    full.append(v)
                else:
                    full.append(sub[j] + v if not (isinstance(v, int) and v == 0) else sub[j])
                    j += 1
            return base(*full)

        return ST(shape, elem, self.dtype)

    def __vc_setitem__(self, I, idx, value):
        """functional update (the interpreter rebinds nothing: the object's elem is replaced; aliases made by plain assignment
        see the update, like torch views of the same storage - expanded views are never written in the verified functions)"""
        idx = self._norm_idx(idx)
        old = self.elem
        conds_maps = []
        for d, k in enumerate(idx):
            n = self.shape[d]
            if isinstance(k, slice):
                lo = 0 if k.start is None else k.start
                hi = n if k.stop is None else k.stop
                if isinstance(lo, int) and lo < 0:
                    lo = n + lo
                if isinstance(hi, int) and hi < 0:
                    hi = n + hi
                conds_maps.append(("s", lo, hi))
            else:
                k2 = k if not (isinstance(k, int) and k < 0) else n + k
                I.ex.oblige("store.index_in_bounds", z3.And(to_z3(k2) >= 0, to_z3(k2) < to_z3(n)))
                conds_maps.append(("i", k2, None))
        val = value
        val_elem, val_shape = (value.elem, value.shape) if isinstance(value, ST) else (None, None)

        def elem(*full):
            cs, sub = [], []
            for (kind, a, b), x in zip(conds_maps, full):
                if kind == "i":
                    cs.append(to_z3(x) == to_z3(a))
                else:
                    cs.append(z3.And(to_z3(x) >= to_z3(a), to_z3(x) < to_z3(b)))
                    sub.append(x - a if not (isinstance(a, int) and a == 0) else x)
            c = z3.simplify(z3.And(cs))
            if val_elem is not None:
                off = len(sub) - len(val_shape)
                v = val_elem(*[0 if (isinstance(val_shape[j], int) and val_shape[j] == 1) else sub[off + j] for j in range(len(val_shape))])
            else:
                v = val
            return sc_where(c, v, old(*full))

        self.elem = elem

    # ---- attributes / methods
    def __vc_getattr__(self, I, name):
        import torch

        t = self
        if name == "shape":
            return self.shape
        if name == "ndim":
            return len(self.shape)
        if name == "T" and len(self.shape) == 2:
            return _t(I, self)
        if name == "device":
            return torch.device("cpu")
        if name == "dtype":
            return {"long": torch.long, "float": torch.float, "bool": torch.bool}[self.dtype]
        ov = I.ex.ghost.get("method_overrides", {}).get(name)
        if ov is not None:  # a sidecar's contract for this tensor method (e.g. softmax over a dimension the model does not cover)
            class O_:
                def __vc_call__(s, I, a, k):
                    return ov(I, t, *a, **k)
            return O_()
        if name in METH:
            class M_:
                def __vc_call__(s, I, a, k):
                    return ct.call_modelled(METH[name], "." + name, name, I, t, a, k)
            return M_()
        raise Unsupported("symbolic-shape tensor .%s" % name)

    def __vc_len__(self, I):
        return self.shape[0]

    def __vc_isinstance__(self, I, ts):
        import torch

        return any(k is torch.Tensor or (k is torch.LongTensor and self.dtype == "long") or (k is torch.FloatTensor and self.dtype == "float") for k in ts)

    def __vc_unpack__(self, I, n):
        raise Unsupported("unpacking a symbolic-shape tensor")


METH = {}
FUNCS = {}


def meth(*names):
    def deco(f):
        for n in names:
            METH[n] = f
        return f
    return deco


@meth("dim")
def _dim_(I, t):
    return len(t.shape)


@meth("size")
def _size(I, t, d=None):
    return t.shape if d is None else t.shape[d]


@meth("detach", "contiguous", "clone")
def _detach(I, t, *a, **k):
    return t if True else None


@meth("t")
def _t(I, t):
    if len(t.shape) != 2:
        raise Unsupported("t() on a non-matrix")
    e = t.elem
    return ST((t.shape[1], t.shape[0]), lambda i, j: e(j, i), t.dtype)


@meth("transpose")
def _transpose(I, t, d0, d1):
    n = len(t.shape)
    d0, d1 = d0 % n, d1 % n
    perm = list(range(n))
    perm[d0], perm[d1] = perm[d1], perm[d0]
    e = t.elem
    return ST(tuple(t.shape[i] for i in perm), lambda *idx: e(*[idx[perm.index(i)] for i in range(n)]), t.dtype)


@meth("flatten")
def _flatten(I, t, start_dim=0, end_dim=-1):
    """merge dims start..end: unit dimensions vanish; two non-unit dimensions (A, B) become A * B with the row-major index split
    i -> (i div B, i mod B)"""
    n = len(t.shape)
    a, b = start_dim % n, end_dim % n
    dims = t.shape[a:b + 1]
    big = [(i, d) for i, d in enumerate(dims) if not (isinstance(d, int) and d == 1)]
    if len(big) > 2:
        raise Unsupported("flatten that merges more than two non-unit dimensions")
    e = t.elem
    if len(big) == 2:
        (p0, d0), (p1, d1) = big
        size = to_z3(d0) * to_z3(d1)
        new_shape = t.shape[:a] + (size,) + t.shape[b + 1:]
        d1z = to_z3(d1)

        def elem2(*idx):
            mid = [0] * len(dims)
            i = to_z3(idx[a])
            mid[p0], mid[p1] = i / d1z, i % d1z
            return e(*(list(idx[:a]) + mid + list(idx[a + 1:])))

        return ST(new_shape, elem2, t.dtype)
    keep = big[0][0] if big else 0
    new_shape = t.shape[:a] + ((big[0][1] if big else 1),) + t.shape[b + 1:]

    def elem(*idx):
        mid = [0] * len(dims)
        mid[keep] = idx[a]
        return e(*(list(idx[:a]) + mid + list(idx[a + 1:])))

    return ST(new_shape, elem, t.dtype)


@meth("topk")
def _topk(I, t, k, dim=-1, largest=True, sorted=True):
    """assumed contract of topk along the last dimension of a matrix for a symbolic k: indices in range and pairwise distinct, the
    value is the element at the index, values non-increasing, every element that was not selected is <= the last selected value
    (no tie rule). Instance builders recorded in ghost['topks']."""
    if len(t.shape) != 2 or dim % 2 != 1 or not largest:
        raise Unsupported("topk other than along the last dimension of a matrix")
    Mx, K = to_z3(t.shape[1]), to_z3(k)
    IDX = _fresh("topk_index", z3.IntSort(), z3.IntSort(), z3.IntSort())
    VALV = _fresh("topk_value", z3.IntSort(), z3.IntSort(), z3.RealSort())
    VALF = _fresh("topk_value_is_minus_inf", z3.IntSort(), z3.IntSort(), z3.BoolSort())
    te = t.elem
    probe = te(z3.Int("n_probe"), z3.Int("j_probe"))
    ninf_aware = isinstance(probe, ct.NegGuarded) or ct._is_ninf(probe)
    VAL = (lambda nn, kk: ct.NegGuarded(VALF(nn, kk), VALV(nn, kk))) if ninf_aware else (lambda nn, kk: VALV(nn, kk))
    I.ex.oblige("topk.k_at_most_the_extent", z3.And(K >= 0, K <= Mx))
    n_, k_, k2_, j_ = z3.Ints("n_tk k_tk k2_tk j_tk")
    rows = lambda nn: z3.And(nn >= 0, nn < to_z3(t.shape[0]))
    B_ = lambda c: z3.BoolVal(c) if isinstance(c, bool) else c
    same = (lambda x, y: B_(ct.ng_cmp("eq", x, y))) if ninf_aware else (lambda x, y: to_z3(x) == to_z3(y))
    ge = (lambda x, y: B_(ct.ng_cmp("ge", x, y))) if ninf_aware else (lambda x, y: to_z3(x) >= to_z3(y))
    at = lambda nn, kk: z3.Implies(z3.And(rows(nn), 0 <= kk, kk < K), z3.And(0 <= IDX(nn, kk), IDX(nn, kk) < Mx, same(VAL(nn, kk), te(nn, IDX(nn, kk)))))
    distinct = lambda nn, kk, kk2: z3.Implies(z3.And(rows(nn), 0 <= kk, kk < kk2, kk2 < K), IDX(nn, kk) != IDX(nn, kk2))
    ordered = lambda nn, kk, kk2: z3.Implies(z3.And(rows(nn), 0 <= kk, kk <= kk2, kk2 < K), ge(VAL(nn, kk), VAL(nn, kk2)))
    notsel = lambda nn, jj: z3.ForAll([k_], z3.Implies(z3.And(0 <= k_, k_ < K), IDX(nn, k_) != jj))
    optimal = lambda nn, jj: z3.Implies(z3.And(rows(nn), 0 <= jj, jj < Mx, K >= 1, notsel(nn, jj)), ge(VAL(nn, K - 1), te(nn, jj)))
    I.ex.assume(z3.ForAll([n_, k_], at(n_, k_)))
    I.ex.assume(z3.ForAll([n_, k_, k2_], distinct(n_, k_, k2_)))
    I.ex.assume(z3.ForAll([n_, k_, k2_], ordered(n_, k_, k2_)))
    I.ex.assume(z3.ForAll([n_, j_], optimal(n_, j_)))
    I.ex.ghost.setdefault("topks", []).append({"IDX": IDX, "VAL": VAL, "at": at, "distinct": distinct, "ordered": ordered, "optimal": optimal, "notsel": notsel, "K": K, "M": Mx})
    shape = (t.shape[0], k)
    return ct.MinMaxResult(ST(shape, lambda a, b: VAL(to_z3(a), to_z3(b)), "float"), ST(shape, lambda a, b: IDX(to_z3(a), to_z3(b)), "long"))


def f_cat(I, ts, dim=0):
    """concatenation of two tensors along one dimension"""
    ts = list(ts)
    if len(ts) != 2 or not all(isinstance(x, ST) for x in ts):
        raise Unsupported("cat other than of two symbolic-shape tensors")
    a, b = ts
    d = dim % len(a.shape)
    for i, (x, y) in enumerate(zip(a.shape, b.shape)):
        if i != d and not dim_eq(x, y):
            I.ex.oblige("cat.other_dimensions_agree", to_z3(x) == to_z3(y))
    ae, be, na = a.elem, b.elem, to_z3(a.shape[d])
    size = a.shape[d] + b.shape[d]
    size = z3.simplify(size) if is_z3(size) else size

    def elem(*idx):
        i = to_z3(idx[d])
        return sc_where(i < na, ae(*idx), be(*(list(idx[:d]) + [i - na] + list(idx[d + 1:]))))

    return ST(a.shape[:d] + (size,) + a.shape[d + 1:], elem, a.dtype if a.dtype == b.dtype else "float")


@meth("new_full")
def _new_full(I, t, size, v, **k):
    return ST.const(tuple(size), v, ct.dtype_tag(k.get("dtype"), t.dtype))


@meth("new_zeros")
def _new_zeros(I, t, *size, **k):
    if len(size) == 1 and isinstance(size[0], (tuple, list)):
        size = tuple(size[0])
    return ST.const(tuple(size), False if t.dtype == "bool" else 0, ct.dtype_tag(k.get("dtype"), t.dtype))


@meth("new_empty")
def _new_empty(I, t, *size, **k):
    if len(size) == 1 and isinstance(size[0], (tuple, list)):
        size = tuple(size[0])
    return f_empty(I, *size, dtype=ct.dtype_tag(k.get("dtype"), t.dtype))


@meth("square")
def _square(I, t):
    return ST.ew(I, lambda x: s_mul(I, x, x), t, dtype=t.dtype)


SQRT = z3.Function("sqrt", z3.RealSort(), z3.RealSort())


def _sqrt(I, t):
    """assumed contract of sqrt on non-negative reals: sqrt(x) >= 0 and sqrt(x) * sqrt(x) = x (instances at the arguments used)"""
    e = t.elem

    def elem(*idx):
        x = to_z3(e(*idx))
        y = SQRT(x)
        I.ex.assume(z3.Implies(x >= 0, z3.And(y >= 0, y * y == x)))
        return y

    return ST(t.shape, elem, "float")


METH["sqrt"] = _sqrt


def _inplace(fn):
    def f(I, t, *a, **k):
        r = fn(I, t, *a, **k)
        t.elem, t.dtype = r.elem, r.dtype
        return t
    return f


METH["sqrt_"] = _inplace(_sqrt)


@meth("clamp", "clip")
def _clamp(I, t, min=None, max=None):
    r = t
    if min is not None:
        r = ST.ew(I, lambda x: ct.sc_max(x, min), r, dtype=t.dtype)
    if max is not None:
        r = ST.ew(I, lambda x: ct.sc_min(x, max), r, dtype=t.dtype)
    return r


METH["clamp_max"] = lambda I, t, m: _clamp(I, t, max=m)
METH["clamp_"] = _inplace(_clamp)


def f_one_hot(I, t, num_classes=-1):
    if not isinstance(num_classes, int) and not is_z3(num_classes):
        raise Unsupported("one_hot without num_classes")
    e = t.elem
    for pt in I.ex.ghost.get("one_hot_points", {}).get(len(t.shape), []):
        x = to_z3(e(*pt))
        I.ex.oblige("one_hot.class_in_range", z3.And(x >= 0, x < to_z3(num_classes)))
    return ST(t.shape + (num_classes,), lambda *idx: sc_where(to_z3(e(*idx[:-1])) == to_z3(idx[-1]), 1, 0), "long")


@meth("scatter")
def _scatter(I, t, dim, index, src):
    """scatter along `dim` with an index tensor of extent 1 there (one write per line): out = src where position = index, else self"""
    d = dim % len(t.shape)
    if not (isinstance(index.shape[d], int) and index.shape[d] == 1):
        raise Unsupported("scatter with more than one index per line on symbolic shapes")
    te, ie = t.elem, index.elem
    se = src.elem if isinstance(src, ST) else None

    def elem(*idx):
        at = list(idx[:d]) + [0] + list(idx[d + 1:])
        v = se(*at) if se is not None else src
        return sc_where(to_z3(idx[d]) == to_z3(ie(*at)), v, te(*idx))

    return ST(t.shape, elem, t.dtype)
for _nm, _op in (("add", ast.Add()), ("sub", ast.Sub()), ("mul", ast.Mult()), ("div", ast.Div())):
    METH[_nm] = (lambda op: lambda I, t, o, **k: t._bin(I, op, o, False))(_op)
    METH[_nm + "_"] = (lambda op: lambda I, t, o, **k: t.__vc_iop__(I, op, o))(_op)
METH["clamp_min"] = lambda I, t, m: ST.ew(I, lambda x: ct.sc_max(x, m), t, dtype=t.dtype)
METH["clamp_min_"] = _inplace(METH["clamp_min"])


@meth("unsqueeze")
def _unsqueeze(I, t, d):
    n = len(t.shape) + 1
    d = d % n
    shape = t.shape[:d] + (1,) + t.shape[d:]
    e = t.elem
    return ST(shape, lambda *idx: e(*(idx[:d] + idx[d + 1:])), t.dtype)


@meth("squeeze")
def _squeeze(I, t, d):
    d = d % len(t.shape)
    if not (isinstance(t.shape[d], int) and t.shape[d] == 1):
        return t
    e = t.elem
    return ST(t.shape[:d] + t.shape[d + 1:], lambda *idx: e(*(idx[:d] + (0,) + idx[d:])), t.dtype)


@meth("expand")
def _expand(I, t, *sizes):
    if len(sizes) == 1 and isinstance(sizes[0], (tuple, list)):
        sizes = tuple(sizes[0])
    sizes = tuple(x.elem() if (isinstance(x, ST) and len(x.shape) == 0) else x for x in sizes)
    off = len(sizes) - len(t.shape)
    e = t.elem

    def elem(*idx):
        sub = [0 if (isinstance(t.shape[j], int) and t.shape[j] == 1) else idx[off + j] for j in range(len(t.shape))]
        return e(*sub)
    shape = [t.shape[j - off] if (j >= off and isinstance(s, int) and s == -1) else s for j, s in enumerate(sizes)]
    return ST(shape, elem, t.dtype)


@meth("expand_as")
def _expand_as(I, t, o):
    return _expand(I, t, *o.shape)


@meth("float", "double")
def _float(I, t):
    def conv(x):
        if isinstance(x, bool):
            return 1 if x else 0
        if is_z3(x) and z3.is_bool(x):
            return z3.If(x, z3.RealVal(1), z3.RealVal(0))
        if is_z3(x) and z3.is_int(x):
            return z3.ToReal(x)
        return x
    e = t.elem
    return ST(t.shape, lambda *idx: conv(e(*idx)), "float")


@meth("long")
def _long(I, t):
    def conv(x):
        if is_z3(x) and z3.is_bool(x):
            return z3.If(x, 1, 0)
        return x
    e = t.elem
    return ST(t.shape, lambda *idx: conv(e(*idx)), "long")


@meth("to")
def _to(I, t, *a, **k):
    import torch

    d = k.get("dtype")
    for x in a:
        if isinstance(x, torch.dtype):
            d = x
    if d is None:
        return t
    tag = ct.dtype_tag(d)
    if tag == "bool" and t.dtype != "bool":
        e = t.elem
        return ST(t.shape, lambda *idx: to_z3(e(*idx)) != 0, "bool")
    return _float(I, t) if tag == "float" else (_long(I, t) if tag == "long" else t)


@meth("triu")
def _triu(I, t, diagonal=0):
    zero = False if t.dtype == "bool" else 0
    e = t.elem
    return ST(t.shape, lambda *idx: sc_where(to_z3(idx[-1]) - to_z3(idx[-2]) >= diagonal, e(*idx), zero), t.dtype)


@meth("tril")
def _tril(I, t, diagonal=0):
    zero = False if t.dtype == "bool" else 0
    e = t.elem
    return ST(t.shape, lambda *idx: sc_where(to_z3(idx[-1]) - to_z3(idx[-2]) <= diagonal, e(*idx), zero), t.dtype)


POW = z3.Function("pow", z3.RealSort(), z3.IntSort(), z3.RealSort())


def pow_axioms(I, base):
    """assumed contract of torch.pow(base, e) for integer-valued e >= 0: pow(b, 0) = 1, pow(b, e + 1) = b * pow(b, e)"""
    key = "pow_ax_" + str(base)
    if not I.ex.ghost.get(key):
        e = z3.Int("e_pow")
        I.ex.assume(POW(base, 0) == 1)
        I.ex.assume(z3.ForAll([e], z3.Implies(e >= 0, POW(base, e + 1) == base * POW(base, e))))
        I.ex.ghost[key] = True
        I.ex.ghost.setdefault("pows", []).append(base)


def pow_instances(I, e):
    return [z3.Implies(e >= 0, POW(b, e + 1) == b * POW(b, e)) for b in I.ex.ghost.get("pows", [])]


def f_pow(I, base, exp):
    if not isinstance(exp, ST) or isinstance(base, ST):
        raise Unsupported("pow other than scalar ** tensor on symbolic shapes")
    base = to_z3(base)
    if z3.is_int(base):
        base = z3.ToReal(base)
    pow_axioms(I, base)
    e_ = exp.elem

    def elem(*idx):
        x = e_(*idx)
        i = as_int_term(to_z3(x) if not isinstance(x, (int, float)) else x) if not isinstance(x, float) else (z3.IntVal(int(x)) if x == int(x) else None)
        if i is None:
            raise Unsupported("pow with an exponent that is not integer-valued")
        return POW(base, z3.simplify(i))

    return ST(exp.shape, elem, "float")


@meth("matmul", "mm")
def _matmul(I, a, b):
    """assumed contract of a matrix product over a symbolic inner extent T: out[i, n] = S(i, n, T) for the partial sums
    S(i, n, 0) = 0, S(i, n, j + 1) = S(i, n, j) + a[i, j] * b[j, n]  (quantified; instance builder recorded in ghost['sums'])"""
    if not (isinstance(a, ST) and isinstance(b, ST) and len(a.shape) == 2 and len(b.shape) == 2):
        raise Unsupported("matmul other than matrix x matrix on symbolic shapes")
    if not dim_eq(a.shape[1], b.shape[0]):
        I.ex.oblige("matmul.inner_dimensions_agree", to_z3(a.shape[1]) == to_z3(b.shape[0]))
    T = to_z3(a.shape[1])
    S = _fresh("partial_sum", z3.IntSort(), z3.IntSort(), z3.IntSort(), z3.RealSort())
    ae, be = a.elem, b.elem
    term = lambda i, n, j: s_mul(I, ae(i, j), be(j, n))
    step = lambda i, n, j: z3.Implies(j >= 0, S(i, n, j + 1) == S(i, n, j) + to_z3(term(i, n, j)))
    base = lambda i, n: S(i, n, 0) == 0
    i_, n_, j_ = z3.Ints("i_mm n_mm j_mm")
    I.ex.assume(z3.ForAll([i_, n_], base(i_, n_)))
    I.ex.assume(z3.ForAll([i_, n_, j_], step(i_, n_, j_)))
    I.ex.ghost.setdefault("sums", []).append({"S": S, "base": base, "step": step, "T": T, "term": term})
    return ST((a.shape[0], b.shape[1]), lambda i, n: S(to_z3(i), to_z3(n), T), "float")


@meth("view", "reshape")
def _view(I, t, *shape):
    """only the re-shapes that insert / drop unit dimensions (what the verified functions use on symbolic shapes)"""
    if len(shape) == 1 and isinstance(shape[0], (tuple, list)):
        shape = tuple(shape[0])
    nonunit_old = [(i, d) for i, d in enumerate(t.shape) if not (isinstance(d, int) and d == 1)]
    new = list(shape)
    if sum(1 for d in new if isinstance(d, int) and d == -1) > 1:
        raise PyRaise("RuntimeError", "only one dimension can be inferred")
    nonunit_new = [(i, d) for i, d in enumerate(new) if not (isinstance(d, int) and d == 1)]
    if len(nonunit_new) + 1 == len(nonunit_old) and len(new) + 1 == len(t.shape):
        # one pair of adjacent dimensions merged (row-major): find it
        for a_ in range(len(new)):
            if all(dim_eq(new[i], t.shape[i]) for i in range(a_)) and all(dim_eq(new[i], t.shape[i + 1]) for i in range(a_ + 1, len(new))):
                r = _flatten(I, t, a_, a_ + 1)
                if not (isinstance(new[a_], int) and new[a_] == -1) and not dim_eq(new[a_], r.shape[a_]):
                    I.ex.oblige("view.sizes_agree", to_z3(new[a_]) == to_z3(r.shape[a_]))
                return r
    if len(t.shape) == 1 and len(new) == 2 and len(nonunit_new) == 2 and not any(isinstance(d, int) and d == -1 for d in new):
        # a vector split into a matrix (row-major): out[a, b] = t[a * B + b]
        a_, b_ = to_z3(new[0]), to_z3(new[1])
        if not dim_eq(a_ * b_, t.shape[0]):
            I.ex.oblige("view.sizes_agree", a_ * b_ == to_z3(t.shape[0]))
        e = t.elem
        return ST(tuple(new), lambda i, j: e(to_z3(i) * b_ + to_z3(j)), t.dtype)
    if len(new) == len(t.shape) + 1 and not any(isinstance(d, int) and d == -1 for d in new):
        # one dimension split into two adjacent ones (row-major), the others unchanged: out[.., a, b, ..] = t[.., a * B + b, ..]
        for a_ in range(len(t.shape)):
            if all(dim_eq(new[i], t.shape[i]) for i in range(a_)) and all(dim_eq(new[i + 1], t.shape[i]) for i in range(a_ + 1, len(t.shape))):
                A_, B_ = to_z3(new[a_]), to_z3(new[a_ + 1])
                if not dim_eq(A_ * B_, t.shape[a_]):
                    I.ex.oblige("view.sizes_agree", A_ * B_ == to_z3(t.shape[a_]))
                e = t.elem
                return ST(tuple(new), lambda *idx, a_=a_, B_=B_, e=e: e(*(list(idx[:a_]) + [to_z3(idx[a_]) * B_ + to_z3(idx[a_ + 1])] + list(idx[a_ + 2:]))), t.dtype)
    if len(nonunit_new) != len(nonunit_old):
        raise Unsupported("view that merges or splits symbolic dimensions")
    for (i, d), (i2, d2) in zip(nonunit_new, nonunit_old):
        if isinstance(d, int) and d == -1:
            new[i] = d2
        elif not dim_eq(d, d2):
            I.ex.oblige("view.sizes_agree", to_z3(d) == to_z3(d2))
    e = t.elem
    old_pos = [i2 for i2, _ in nonunit_old]
    new_pos = [i for i, _ in nonunit_new]

    def elem(*idx):
        full = [0] * len(t.shape)
        for a_, b_ in zip(new_pos, old_pos):
            full[b_] = idx[a_]
        return e(*full)

    return ST(tuple(new), elem, t.dtype)


@meth("view_as")
def _view_as(I, t, o):
    return _view(I, t, *o.shape)


@meth("sum")
def _sum(I, t, dim=None, keepdim=False, **k):
    """assumed contract of sum over one (symbolic) dimension: out[o] = S(o, n) for the partial sums S(o, 0) = 0,
    S(o, j + 1) = S(o, j) + t[o with j at dim]  (quantified; instance builders recorded in ghost['sums'])"""
    if dim is None or keepdim:
        raise Unsupported("sum without a single dim / keepdim on symbolic shapes")
    d = dim % len(t.shape)
    out_shape = t.shape[:d] + t.shape[d + 1:]
    if I.ex.ghost.get("unroll_small_sums") and isinstance(t.shape[d], int) and 0 <= t.shape[d] <= 8 and not isinstance(t.elem(*([0] * len(t.shape))), (ct.NegGuarded, Guarded)):
        # a small concrete extent, and the sidecar asked for it: the sum written out (no contract needed)
        te_, ext = t.elem, t.shape[d]
        integral_ = t.dtype in ("long", "bool")

        def unrolled(*idx):
            tot = z3.IntVal(0) if integral_ else z3.RealVal(0)
            for j in range(ext):
                x = te_(*(list(idx[:d]) + [j] + list(idx[d:])))
                x = int(x) if isinstance(x, bool) else x
                x = to_z3(x)
                x = z3.If(x, 1, 0) if z3.is_bool(x) else x
                tot = tot + (z3.ToReal(x) if (not integral_ and z3.is_int(x)) else x)
            return tot

        return ST(out_shape, unrolled, "long" if integral_ else "float")
    n = to_z3(t.shape[d])
    integral = t.dtype in ("long", "bool")  # torch sums integer and Boolean tensors into int64
    S = _fresh("partial_sum", *([z3.IntSort()] * (len(out_shape) + 1) + [z3.IntSort() if integral else z3.RealSort()]))
    te = t.elem

    def val(o, j):
        x = te(*(list(o[:d]) + [j] + list(o[d:])))
        if isinstance(x, (ct.NegGuarded, Guarded)):
            raise Unsupported("sum over possibly-infinite entries")
        if isinstance(x, bool):
            x = int(x)
        x = to_z3(x)
        if z3.is_bool(x):
            x = z3.If(x, 1, 0)
        if integral:
            return x
        return z3.ToReal(x) if z3.is_int(x) else x

    base = lambda *o: S(*([to_z3(x) for x in o] + [z3.IntVal(0)])) == 0
    step = lambda *oj: z3.Implies(to_z3(oj[-1]) >= 0, S(*([to_z3(x) for x in oj[:-1]] + [to_z3(oj[-1]) + 1])) == S(*[to_z3(x) for x in oj]) + val([to_z3(x) for x in oj[:-1]], to_z3(oj[-1])))
    ov = [z3.Int("o_sum%d" % i) for i in range(len(out_shape))]
    jv = z3.Int("j_sum")
    I.ex.assume(z3.ForAll(ov, base(*ov)) if ov else base())
    I.ex.assume(z3.ForAll(ov + [jv], step(*(ov + [jv]))))
    rec = {"S": S, "base": base, "step": step, "T": n, "kind": "sum", "val": val, "out_shape": out_shape}
    I.ex.ghost.setdefault("sums", []).append(rec)
    for hook in I.ex.ghost.get("sum_hooks", []):  # a sidecar may prove and record a lemma about this sum (e.g. by induction) right here
        hook(rec)
    return ST(out_shape, lambda *idx: S(*([to_z3(i) for i in idx] + [n])), "long" if integral else "float")


def f_softmax(I, t, dim=-1, **k):
    """assumed contract of softmax over one (symbolic) dimension of a rank-1 score vector with possibly -inf entries:
    weights a(t) >= 0, a(t) = 0 where the score is -inf, partial sums W(0) = 0, W(j + 1) = W(j) + a(j), and W(n) = 1 when some
    score in range is finite. Instance builders recorded in ghost['softmaxes']."""
    if len(t.shape) != 1:
        raise Unsupported("softmax of a tensor of rank > 1 on symbolic shapes")
    n = to_z3(t.shape[0])
    A = _fresh("softmax", z3.IntSort(), z3.RealSort())
    W = _fresh("softmax_partial_sum", z3.IntSort(), z3.RealSort())
    te = t.elem

    def ninf(i):
        f, _ = ct.ng_split(te(i))
        return z3.BoolVal(f) if isinstance(f, bool) else f

    rng = lambda i: z3.And(i >= 0, i < n)
    weight = lambda i: z3.Implies(rng(i), z3.And(A(i) >= 0, z3.Implies(ninf(i), A(i) == 0)))
    wstep = lambda j: z3.Implies(j >= 0, W(j + 1) == W(j) + A(j))
    total_if_finite_at = lambda i: z3.Implies(z3.And(rng(i), z3.Not(ninf(i))), W(n) == 1)
    iv = z3.Int("i_sm")
    I.ex.assume(W(0) == 0)
    I.ex.assume(z3.ForAll([iv], weight(iv)))
    I.ex.assume(z3.ForAll([iv], wstep(iv)))
    I.ex.assume(z3.ForAll([iv], total_if_finite_at(iv)))
    I.ex.ghost.setdefault("softmaxes", []).append({"A": A, "W": W, "weight": weight, "wstep": wstep, "total_if_finite_at": total_if_finite_at, "n": n, "ninf": ninf, "score": lambda i: te(i)})
    return ST(t.shape, lambda i: A(to_z3(i)), "float")


@meth("masked_fill")
def _masked_fill(I, t, mask, value):
    return ST.ew(I, lambda m, x: sc_where(m, value, x), mask, t, dtype=t.dtype)


@meth("eq")
def _eq(I, t, o):
    return ST.ew(I, lambda x, y: sc_cmp_g("eq", x, y), t, o, dtype="bool")


def _cmp_meth(name):
    def f(I, t, o):
        return ST.ew(I, lambda x, y: sc_cmp_g(name, x, y), t, o, dtype="bool")
    return f


for _n in ("ne", "lt", "le", "gt", "ge"):
    METH[_n] = _cmp_meth(_n)


@meth("numel")
def _numel(I, t):
    n = 1
    for d in t.shape:
        n = n * d
    return n


def _any_dim(I, t, dim, keepdim=False):
    """any over one (symbolic) dimension: a fresh Boolean function B of the remaining indices with the assumed contract
    B(o) <=> exists j in range. t[o with j at dim]"""
    d = dim % len(t.shape)
    out_shape = t.shape[:d] + t.shape[d + 1:]
    n = to_z3(t.shape[d])
    Bf = _fresh("any", *([z3.IntSort()] * len(out_shape) + [z3.BoolSort()]))
    te = t.elem
    ov = [z3.Int("o_any%d" % i) for i in range(len(out_shape))]
    jv = z3.Int("j_any")

    def el(o, j_):
        e_ = te(*(list(o[:d]) + [j_] + list(o[d:])))
        return z3.BoolVal(e_) if isinstance(e_, bool) else e_

    rng_o = z3.And([z3.And(i >= 0, i < to_z3(m)) for i, m in zip(ov, out_shape)] or [z3.BoolVal(True)])
    ax1 = z3.ForAll(ov, z3.Implies(z3.And(rng_o, Bf(*ov)), z3.Exists([jv], z3.And(jv >= 0, jv < n, el(ov, jv))))) if ov else z3.Implies(Bf(), z3.Exists([jv], z3.And(jv >= 0, jv < n, el(ov, jv))))
    ax2 = z3.ForAll(ov + [jv], z3.Implies(z3.And(rng_o, jv >= 0, jv < n, el(ov, jv)), Bf(*ov)))
    I.ex.assume(ax1)
    I.ex.assume(ax2)
    # instance builders: `witness` is ax1 skolemised (a fresh function naming the position that exists), `intro` is ax2 at one position
    Wf = _fresh("any_witness", *([z3.IntSort()] * len(out_shape) + [z3.IntSort()]))
    rng_at = lambda o: z3.And([z3.And(to_z3(i) >= 0, to_z3(i) < to_z3(m)) for i, m in zip(o, out_shape)] or [z3.BoolVal(True)])
    witness = lambda o: z3.Implies(z3.And(rng_at(o), Bf(*o)), z3.And(Wf(*o) >= 0, Wf(*o) < n, el(list(o), Wf(*o))))
    intro = lambda o, j: z3.Implies(z3.And(rng_at(o), j >= 0, j < n, el(list(o), j)), Bf(*o))
    if ov:
        I.ex.assume(z3.ForAll(ov, witness(ov)))
    else:
        I.ex.assume(witness([]))
    I.ex.ghost.setdefault("anys", []).append({"B": Bf, "n": n, "el": el, "W": Wf, "witness": witness, "intro": intro})
    r = ST(out_shape, lambda *idx: Bf(*[to_z3(i) for i in idx]), "bool")
    return _unsqueeze(I, r, d) if keepdim else r


@meth("any")
def _any(I, t, *a, **k):
    if a or "dim" in k:
        return _any_dim(I, t, a[0] if a else k["dim"], k.get("keepdim", a[1] if len(a) > 1 else False))
    b = I.ex.fresh("bool", "any")
    idx = [z3.Int("i_any%d" % j) for j in range(len(t.shape))]
    telem = t.elem

    def rng_of(ix):
        return z3.And([z3.And(to_z3(i) >= 0, to_z3(i) < to_z3(n)) for i, n in zip(ix, t.shape)])

    def el(ix):
        e_ = telem(*ix)
        return z3.BoolVal(e_) if isinstance(e_, bool) else e_

    fa = lambda ix: z3.Implies(z3.And(rng_of(ix), el(ix)), b)  # instance builder of the universal half
    ax = z3.And(z3.Implies(b, z3.Exists(idx, z3.And(rng_of(idx), el(idx)))), z3.ForAll(idx, fa(idx)))
    I.ex.assume(ax)
    I.ex.ghost.setdefault("any_axioms", []).append(ax)
    # the sidecar may name index points at which every any() contract is instantiated (FORALL-elimination), by rank
    for pt in I.ex.ghost.get("any_points", {}).get(len(t.shape), []):
        I.ex.instance(fa(list(pt)))
    return b


@meth("min")
def _min(I, t, other=None, keepdim=False, dim=None):
    if isinstance(other, ST):
        return ST.ew(I, sc_min_g, t, other, dtype=t.dtype)
    if other is None and dim is None:
        if all(isinstance(x, int) and x == 1 for x in t.shape):  # one element: the minimum is that element
            e1 = t.elem(*([0] * len(t.shape)))
            return ST((), lambda: e1, t.dtype)
        # min over all elements: a fresh scalar with the assumed contract `a lower bound of every entry, attained at some entry`
        # (instance builders in ghost['mins_all']); entries are plain integers / reals here
        te0 = t.elem
        dims0 = [to_z3(d_) for d_ in t.shape]
        mn0 = I.ex.fresh("int" if t.dtype == "long" else "real", "min")
        ws0 = [I.ex.fresh("int", "argmin") for _ in dims0]
        inr0 = lambda idx: z3.And([z3.And(to_z3(i) >= 0, to_z3(i) < d_) for i, d_ in zip(idx, dims0)])
        lb0 = lambda *idx: z3.Implies(inr0(idx), mn0 <= to_z3(te0(*idx)))
        iv0 = [z3.Int("i%d_min" % j) for j in range(len(dims0))]
        I.ex.oblige("min.tensor_not_empty", z3.And([d_ >= 1 for d_ in dims0]))
        I.ex.assume(z3.ForAll(iv0, lb0(*iv0)))
        att0 = z3.And(inr0(ws0), to_z3(te0(*ws0)) == mn0)
        I.ex.assume(att0)
        I.ex.ghost.setdefault("mins_all", []).append({"min": mn0, "argmin": ws0, "lb": lb0, "att": att0})
        return ST((), lambda: mn0, t.dtype)
    d = (other if dim is None else dim) % len(t.shape)
    rank = len(t.shape)
    out_rank = rank - 1
    m = _fresh("min", *([z3.IntSort()] * out_rank + [z3.RealSort()]))
    w = _fresh("argmin", *([z3.IntSort()] * out_rank + [z3.IntSort()]))
    oi = [z3.Int("o_min%d" % j) for j in range(out_rank)]
    k = z3.Int("k_min")
    full = lambda kk: oi[:d] + [kk] + oi[d:]
    orng = z3.And([z3.And(i >= 0, i < to_z3(n)) for i, n in zip(oi, t.shape[:d] + t.shape[d + 1:])])
    n = to_z3(t.shape[d])

    def fin_le(x, bound):  # bound <= x for a possibly +inf x
        p, v = Guarded.split(x)
        c = bound <= to_z3(v)
        return c if p is False else z3.Or(p if not isinstance(p, bool) else z3.BoolVal(p), c)

    def fin_eq(x, val):
        p, v = Guarded.split(x)
        c = val == to_z3(v)
        return c if p is False else z3.And(z3.Not(p) if not isinstance(p, bool) else z3.BoolVal(not p), c)

    # assumed contract of min over a (non-empty) dimension: a lower bound of every entry, attained at some finite entry
    def lb(o, kk):  # instance builder: the minimum at output index o is a lower bound of the entry at position kk
        o = [to_z3(x) for x in o]
        rng_ = z3.And([z3.And(i >= 0, i < to_z3(nn)) for i, nn in zip(o, t.shape[:d] + t.shape[d + 1:])])
        return z3.Implies(z3.And(rng_, kk >= 0, kk < n), fin_le(telem(*(o[:d] + [kk] + o[d:])), m(*o)))

    def att(o):  # instance builder: the minimum at output index o is attained at the finite entry at position w(o)
        o = [to_z3(x) for x in o]
        rng_ = z3.And([z3.And(i >= 0, i < to_z3(nn)) for i, nn in zip(o, t.shape[:d] + t.shape[d + 1:])])
        wk_ = w(*o)
        return z3.Implies(rng_, z3.And(wk_ >= 0, wk_ < n, fin_eq(telem(*(o[:d] + [wk_] + o[d:])), m(*o))))

    telem = t.elem
    I.ex.assume(z3.ForAll(oi + [k], lb(oi, k)))
    I.ex.assume(z3.ForAll(oi, att(oi)))
    I.ex.oblige("min.reduced_dimension_not_empty", n >= 1)
    vals = ST(t.shape[:d] + t.shape[d + 1:], lambda *idx: m(*[to_z3(i) for i in idx]), "float")
    idxs = ST(t.shape[:d] + t.shape[d + 1:], lambda *idx: w(*[to_z3(i) for i in idx]), "long")
    I.ex.ghost.setdefault("mins", []).append({"m": m, "w": w, "t": t, "d": d, "lb": lb, "att": att})
    if keepdim:
        vals, idxs = _unsqueeze(I, vals, d), _unsqueeze(I, idxs, d)
    return ct.MinMaxResult(vals, idxs)


@meth("gather")
def _gather(I, t, dim, index):
    d = dim % len(t.shape)
    te, ie = t.elem, index.elem

    def elem(*idx):
        k = ie(*idx)
        return te(*(list(idx[:d]) + [k] + list(idx[d + 1:])))
    # in-bounds at an arbitrary position: fresh skolem constants (FORALL-introduction), so the goal is quantifier-free; recorded
    # top-k contracts are instantiated at the skolem position (pairs of adjacent coordinates), which is where indices come from
    ii = [I.ex.fresh("int", "gather_pos") for _ in range(len(index.shape))]
    rng = z3.And([z3.And(i >= 0, i < to_z3(n)) for i, n in zip(ii, index.shape)])
    kk = to_z3(index.elem(*ii))
    for tk in I.ex.ghost.get("topks", []):
        for a_ in range(len(ii)):
            for b_ in range(len(ii)):
                if a_ != b_:
                    I.ex.instance(tk["at"](ii[a_], ii[b_]))
    for hook in I.ex.ghost.get("skolem_hooks", []):  # the sidecar's own quantified preconditions, instantiated at the new position
        for x in hook(ii):
            I.ex.instance(x)
    I.ex.oblige("gather.index_in_bounds", z3.Implies(rng, z3.And(kk >= 0, kk < to_z3(t.shape[d]))))
    return ST(index.shape, elem, t.dtype)


def f_arange(I, *a, dtype=None, device=None, **k):
    """arange(n) / arange(start, stop[, step]) with symbolic bounds and a positive step: ceil((stop - start) / step) elements
    start + i * step (none when stop <= start)"""
    dt = ct.dtype_tag(dtype, "long")
    if len(a) == 1:
        start, stop, step = 0, a[0], 1
    elif len(a) in (2, 3):
        start, stop, step = a[0], a[1], (a[2] if len(a) == 3 else 1)
    else:
        raise Unsupported("arange arguments")
    if len(a) == 1:
        n = stop
        val = lambda i: to_z3(i)
    else:
        st_ = to_z3(step)
        if not (z3.is_int_value(z3.simplify(st_)) and z3.simplify(st_).as_long() >= 1):
            I.ex.oblige("arange.step_is_positive", st_ >= 1)
        span = to_z3(stop) - to_z3(start)
        n = z3.simplify(z3.If(span > 0, (span + st_ - 1) / st_, 0))
        val = lambda i: to_z3(start) + to_z3(i) * st_
    return ST((n,), (lambda i: z3.ToReal(val(i))) if dt == "float" else (lambda i: val(i)), dt)


def f_stack(I, ts, dim=0):
    """stack of tensors of one shape along a new dimension"""
    ts = list(ts)
    if not ts or not all(isinstance(x, ST) for x in ts):
        raise Unsupported("stack other than of symbolic-shape tensors")
    r = len(ts[0].shape) + 1
    d = dim % r
    for x in ts[1:]:
        for p_, q_ in zip(x.shape, ts[0].shape):
            if not dim_eq(p_, q_):
                I.ex.oblige("stack.shapes_agree", to_z3(p_) == to_z3(q_))
    es = [x.elem for x in ts]

    def elem(*idx):
        c = idx[d]
        rest = list(idx[:d]) + list(idx[d + 1:])
        if isinstance(c, int):
            return es[c](*rest)
        out = es[-1](*rest)
        for j in range(len(es) - 2, -1, -1):
            out = sc_where(to_z3(c) == j, es[j](*rest), out)
        return out

    return ST(ts[0].shape[:d] + (len(ts),) + ts[0].shape[d:], elem, ts[0].dtype)


def f_empty(I, *size, dtype=None, device=None, **k):
    """torch.empty: arbitrary contents (a fresh uninterpreted function of the index)"""
    if len(size) == 1 and isinstance(size[0], (tuple, list)):
        size = tuple(size[0])
    dt = ct.dtype_tag(dtype, "float")
    f = _fresh("empty", *([z3.IntSort()] * len(size) + [{"long": z3.IntSort(), "float": z3.RealSort(), "bool": z3.BoolSort()}[dt]]))
    return ST(tuple(size), lambda *idx: f(*[to_z3(i) for i in idx]), dt)


def f_full(I, size, v, dtype=None, device=None, **k):
    return ST.const(tuple(size), v if not (isinstance(v, int) and ct.dtype_tag(dtype, "long") == "float") else v, ct.dtype_tag(dtype, ct.scalar_dtype(v)))


def f_zeros(I, *size, dtype=None, device=None, **k):
    if len(size) == 1 and isinstance(size[0], (tuple, list)):
        size = tuple(size[0])
    dt = ct.dtype_tag(dtype, "float")
    return ST.const(tuple(size), False if dt == "bool" else 0, dt)


def f_ones(I, *size, dtype=None, device=None, **k):
    if len(size) == 1 and isinstance(size[0], (tuple, list)):
        size = tuple(size[0])
    dt = ct.dtype_tag(dtype, "float")
    return ST.const(tuple(size), True if dt == "bool" else 1, dt)


def f_full_like(I, t, v, **k):
    return ST.const(t.shape, v, t.dtype)


def f_where(I, c, a, b):
    return ST.ew(I, sc_where, c, a, b, dtype=(a if isinstance(a, ST) else b).dtype)


def f_min(I, a, b=None, **k):
    return _min(I, a, b, **k)


def dispatch(name, ct_fn):
    """route a torch.* function to the symbolic-shape implementation when an argument is an ST (or a symbolic size)"""
    st_fn = FUNCS[name]

    def f(I, *a, **k):
        def sym(x):
            return isinstance(x, ST) or (is_z3(x) and not z3.is_int_value(z3.simplify(x))) or (isinstance(x, (tuple, list)) and any(sym(y) for y in x))
        if any(sym(x) for x in a) or any(sym(x) for x in k.values()):
            return st_fn(I, *a, **k)
        if ct_fn is None:
            raise Unsupported("%s on concrete arguments" % name)
        return ct_fn(I, *a, **k)
    return f



def _skolem_in_bounds(I, name, index, extent):
    """obligation `0 <= index[ii] < extent` at an arbitrary position ii of the index tensor: fresh skolem constants
    (FORALL-introduction); the sidecar's hooks instantiate its quantified preconditions at the new position"""
    ii = [I.ex.fresh("int", "index_pos") for _ in range(len(index.shape))]
    rng = z3.And([z3.And(i >= 0, i < to_z3(n)) for i, n in zip(ii, index.shape)] or [z3.BoolVal(True)])
    kk = to_z3(index.elem(*ii))
    for hook in I.ex.ghost.get("skolem_hooks", []):
        for x in hook(ii):
            I.ex.instance(x)
    I.ex.oblige(name, z3.Implies(rng, z3.And(kk >= 0, kk < to_z3(extent))))


def _index_by_tensor(I, t, index):
    """t[index] for a rank-1 t and an integer index tensor of any rank: out[i...] = t[index[i...]]; every index in bounds (torch
    raises otherwise - negative indices are not modelled, they are refused by the obligation)"""
    if len(t.shape) != 1:
        raise Unsupported("indexing a tensor of rank > 1 by an index tensor")
    te, ie = t.elem, index.elem
    _skolem_in_bounds(I, "index.tensor_index_in_bounds", index, t.shape[0])
    return ST(index.shape, lambda *idx: te(ie(*idx)), t.dtype)


@meth("repeat")
def _repeat(I, t, *reps):
    """repeat of a rank-1 tensor: r copies one after the other, out[i] = t[i mod n]"""
    if len(reps) == 1 and isinstance(reps[0], (tuple, list)):
        reps = tuple(reps[0])
    if len(reps) != len(t.shape):
        raise Unsupported("repeat with a number of counts other than the rank")
    if len(t.shape) != 1:
        # general form: along every dimension the copies follow each other, out[i...] = t[i_j mod n_j ...]; a count of 1 leaves the
        # dimension alone
        e, dims_r = t.elem, []
        for n_j, r_j in zip(t.shape, reps):
            if isinstance(r_j, int) and r_j == 1:
                dims_r.append((n_j, None))
            else:
                I.ex.oblige("repeat.count_not_negative", to_z3(r_j) >= 0)
                dims_r.append((z3.simplify(to_z3(r_j) * to_z3(n_j)), to_z3(n_j)))
        return ST(tuple(d for d, _ in dims_r), lambda *idx: e(*[(i if m is None else to_z3(i) % m) for i, (_, m) in zip(idx, dims_r)]), t.dtype)
    n, e = to_z3(t.shape[0]), t.elem
    I.ex.oblige("repeat.count_not_negative", to_z3(reps[0]) >= 0)
    return ST((to_z3(reps[0]) * n,), lambda i: e(to_z3(i) % n), t.dtype)


@meth("repeat_interleave")
def _repeat_interleave(I, t, r, dim=None):
    """repeat_interleave of a rank-1 tensor by a scalar count: every element r times in a row, out[i] = t[i div r]"""
    if len(t.shape) != 1 or isinstance(r, ST):
        raise Unsupported("repeat_interleave other than of a rank-1 tensor by a scalar count")
    rz, e = to_z3(r), t.elem
    I.ex.oblige("repeat_interleave.count_not_negative", rz >= 0)
    return ST((to_z3(t.shape[0]) * rz,), lambda i: e(to_z3(i) / rz), t.dtype)


@meth("item")
def _item(I, t):
    if not all(isinstance(d, int) and d == 1 for d in t.shape):
        raise Unsupported("item() of a tensor that is not known to hold one element")
    return t.elem(*([0] * len(t.shape)))


def f_isfinite(I, t):
    def fin(x):
        if isinstance(x, ct.NegGuarded):
            f = x.ninf
            return z3.Not(f) if is_z3(f) else (not f)
        if isinstance(x, Guarded):
            p, _ = Guarded.split(x)
            return z3.Not(p) if is_z3(p) else (not p)
        if isinstance(x, ct.NaNValue) or ct.is_inf(x):
            return False
        return True
    return ST.ew(I, fin, t, dtype="bool")


def f_zeros_like(I, t, **k):
    dt = ct.dtype_tag(k.get("dtype"), t.dtype)
    return ST.const(t.shape, False if dt == "bool" else 0, dt)


def f_tensor(I, v, dtype=None, device=None, **k):
    """torch.tensor(symbolic scalar): a 0-dim tensor holding it"""
    if isinstance(v, ST):
        return _to(I, v, dtype=dtype) if dtype is not None else v
    if isinstance(v, (list, tuple)):
        raise Unsupported("torch.tensor of a sequence with symbolic entries")
    tag = ct.dtype_tag(dtype, "float" if (isinstance(v, float) or (is_z3(v) and z3.is_real(v))) else ("bool" if isinstance(v, bool) or (is_z3(v) and z3.is_bool(v)) else "long"))
    val = v
    if tag == "float" and is_z3(v) and z3.is_int(v):
        val = z3.ToReal(v)
    if tag == "long" and is_z3(v) and z3.is_real(v):
        val = as_int_term(v)
        if val is None:
            val = z3.If(v >= 0, z3.ToInt(v), -z3.ToInt(-v))  # conversion to an integer type truncates toward zero
    return ST((), lambda: val, tag)


def f_as_tensor(I, t, *a, **k):
    return _to(I, t, *a, **{kk: v for kk, v in k.items() if kk == "dtype"})


def compaction(I, mask):
    """row-major counting of the True entries of a Boolean tensor of symbolic shape - the ghost state behind masked_select /
    masked_scatter. One counter per dimension: CNT[j](i_0 .. i_{j-1}, i) = number of True entries whose first j coordinates are
    i_0 .. i_{j-1} and whose j-th coordinate is below i (deeper coordinates free), defined by the recurrences
        CNT[j](p, 0) = 0,   CNT[j](p, i + 1) = CNT[j](p, i) + (mask[p, i] ? 1 : 0           for the last dimension
                                                               CNT[j+1](p, i, extent_{j+1})   otherwise)
    rank(idx) = SUM_j CNT[j](idx[:j], idx[j]) = number of True entries before idx in row-major order; total = CNT[0](extent_0).
    The recurrences are definitions (conservative); instance builders `base(j, prefix)` / `step(j, prefix, i)`."""
    r = len(mask.shape)
    dims = [to_z3(d) for d in mask.shape]
    Iz = z3.IntSort()
    CNT = [_fresh("true_before_dim%d" % j, *([Iz] * (j + 1) + [Iz])) for j in range(r)]
    me = mask.elem

    def mval(idx):
        e = me(*idx)
        return z3.BoolVal(e) if isinstance(e, bool) else e

    def base(j, prefix):
        return CNT[j](*(list(prefix) + [z3.IntVal(0)])) == 0

    def step(j, prefix, i):
        prefix = list(prefix)
        inc = z3.If(mval(prefix + [i]), 1, 0) if j == r - 1 else CNT[j + 1](*(prefix + [i, dims[j + 1]]))
        return z3.Implies(i >= 0, CNT[j](*(prefix + [i + 1])) == CNT[j](*(prefix + [i])) + inc)

    for j in range(r):
        pv = [z3.Int("p%d_cmp%d" % (a, j)) for a in range(j)]
        iv = z3.Int("i_cmp%d" % j)
        I.ex.assume(z3.ForAll(pv, base(j, pv)) if pv else base(j, pv))
        I.ex.assume(z3.ForAll(pv + [iv], step(j, pv, iv)))
    rank = lambda idx: z3.Sum([CNT[j](*[to_z3(x) for x in idx[:j + 1]]) for j in range(r)]) if r > 1 else CNT[0](to_z3(idx[0]))
    inrange = lambda idx: z3.And([z3.And(to_z3(x) >= 0, to_z3(x) < d) for x, d in zip(idx, dims)])
    rec = {"CNT": CNT, "base": base, "step": step, "rank": rank, "total": CNT[0](dims[0]), "mask": mval, "dims": dims, "inrange": inrange, "rank_": r}
    I.ex.ghost.setdefault("compactions", []).append(rec)
    return rec


def _bool_like(I, mask, t):
    """the mask broadcast to the shape of t"""
    if len(mask.shape) == len(t.shape) and all(dim_eq(a, b) for a, b in zip(mask.shape, t.shape)):
        return mask
    return ST.ew(I, lambda m, x: m, mask, t, dtype="bool")


@meth("masked_select")
def _masked_select(I, t, mask):
    """assumed contract of masked_select: the selected entries in row-major order. out has `total` elements; out[k] = t[POS(k)] where
    POS(k) is in range, masked, and has exactly k masked entries before it; conversely every masked position idx is POS(rank(idx)).
    Instance builders `sel(k)` / `inj(idx)` in the compaction record (attached to the result as `.compaction`)."""
    mask = _bool_like(I, mask, t)
    rec = compaction(I, mask)
    r = len(t.shape)
    POS = [_fresh("selected_index_dim%d" % j, z3.IntSort(), z3.IntSort()) for j in range(r)]
    pos = lambda k: [P(to_z3(k)) for P in POS]
    sel = lambda k: z3.Implies(z3.And(k >= 0, k < rec["total"]), z3.And(rec["inrange"](pos(k)), rec["mask"](pos(k)), rec["rank"](pos(k)) == k))
    inj = lambda idx: z3.Implies(z3.And(rec["inrange"](idx), rec["mask"]([to_z3(x) for x in idx])), z3.And([P(rec["rank"](idx)) == to_z3(x) for P, x in zip(POS, idx)]))
    kv = z3.Int("k_sel")
    iv = [z3.Int("i%d_sel" % j) for j in range(r)]
    I.ex.assume(z3.ForAll([kv], sel(kv)))
    I.ex.assume(z3.ForAll(iv, inj(iv)))
    rec.update(POS=POS, sel=sel, inj=inj, kind="select")
    te = t.elem
    out = ST((rec["total"],), lambda k: te(*pos(k)), t.dtype)
    out.compaction = rec
    for hook in I.ex.ghost.get("select_hooks", []):  # a sidecar may prove facts about this counting right here (before the result is used)
        hook(rec, out)
    return out


@meth("masked_scatter")
def _masked_scatter(I, t, mask, src):
    """assumed contract of masked_scatter with a rank-1 source: out[idx] = src[rank(idx)] where the mask holds, t[idx] elsewhere; the
    source must hold at least `total` elements (torch raises otherwise). A sidecar may prove facts about the two countings right
    before that obligation (`scatter_hooks`)."""
    if not isinstance(src, ST) or len(src.shape) != 1:
        raise Unsupported("masked_scatter with a source that is not a rank-1 symbolic-shape tensor")
    mask = _bool_like(I, mask, t)
    rec = compaction(I, mask)
    rec.update(kind="scatter", source=src)
    for hook in I.ex.ghost.get("scatter_hooks", []):
        hook(rec, src)
    I.ex.oblige("masked_scatter.source_has_enough_elements", rec["total"] <= to_z3(src.shape[0]))
    te, se = t.elem, src.elem
    return ST(t.shape, lambda *idx: sc_where(rec["mask"]([to_z3(x) for x in idx]), se(rec["rank"](idx)), te(*idx)), t.dtype if t.dtype == src.dtype else "float")


@meth("max")
def _max(I, t, dim=None, keepdim=False):
    """max over all elements of a rank-1 tensor (no dim): a fresh scalar with the assumed contract `upper bound of every entry, attained
    at some entry` (instance builders in ghost['maxes']); max of a one-element tensor is that element"""
    if dim is not None:
        # max along one dimension: values and indices with the assumed contract `an upper bound of every entry along the dimension,
        # attained at the reported index` (no tie rule); instance builders in ghost['dim_maxes']
        d = dim % len(t.shape)
        out_shape = t.shape[:d] + t.shape[d + 1:]
        n_, te_ = to_z3(t.shape[d]), t.elem
        MX = _fresh("max", *([z3.IntSort()] * len(out_shape) + [z3.IntSort() if t.dtype == "long" else z3.RealSort()]))
        AR = _fresh("argmax", *([z3.IntSort()] * len(out_shape) + [z3.IntSort()]))
        rng_ = lambda o: z3.And([z3.And(to_z3(i) >= 0, to_z3(i) < to_z3(m)) for i, m in zip(o, out_shape)] or [z3.BoolVal(True)])
        full = lambda o, j: list(o[:d]) + [j] + list(o[d:])
        ubd = lambda o, j: z3.Implies(z3.And(rng_(o), j >= 0, j < n_), to_z3(te_(*full(o, j))) <= MX(*o))
        attd = lambda o: z3.Implies(rng_(o), z3.And(AR(*o) >= 0, AR(*o) < n_, to_z3(te_(*full(o, AR(*o)))) == MX(*o)))
        ov = [z3.Int("o_max%d" % i) for i in range(len(out_shape))]
        jv = z3.Int("j_max")
        I.ex.oblige("max.reduced_dimension_not_empty", n_ >= 1)
        I.ex.assume(z3.ForAll(ov + [jv], ubd(ov, jv)))
        I.ex.assume(z3.ForAll(ov, attd(ov)) if ov else attd(ov))
        I.ex.ghost.setdefault("dim_maxes", []).append({"MX": MX, "AR": AR, "ub": ubd, "att": attd, "n": n_})
        vals = ST(out_shape, lambda *idx: MX(*[to_z3(i) for i in idx]), t.dtype)
        idxs = ST(out_shape, lambda *idx: AR(*[to_z3(i) for i in idx]), "long")
        if keepdim:
            vals, idxs = _unsqueeze(I, vals, d), _unsqueeze(I, idxs, d)
        return ct.MinMaxResult(vals, idxs)
    if all(isinstance(x, int) and x == 1 for x in t.shape):
        e1 = t.elem(*([0] * len(t.shape)))
        return ST((), lambda: e1, t.dtype)
    te = t.elem
    dims_ = [to_z3(d_) for d_ in t.shape]
    mx = I.ex.fresh("int" if t.dtype == "long" else "real", "max")
    ws = [I.ex.fresh("int", "argmax") for _ in dims_]
    inr = lambda idx: z3.And([z3.And(to_z3(i) >= 0, to_z3(i) < d_) for i, d_ in zip(idx, dims_)])
    # instance builder: one argument per coordinate (a rank-1 tensor: ub(i))
    ub = lambda *idx: z3.Implies(inr(idx), to_z3(te(*idx)) <= mx)
    iv = [z3.Int("i%d_max" % j) for j in range(len(dims_))]
    I.ex.oblige("max.tensor_not_empty", z3.And([d_ >= 1 for d_ in dims_]))
    I.ex.assume(z3.ForAll(iv, ub(*iv)))
    att = z3.And(inr(ws), to_z3(te(*ws)) == mx)
    I.ex.assume(att)
    I.ex.ghost.setdefault("maxes", []).append({"max": mx, "argmax": ws[0] if len(ws) == 1 else ws, "ub": ub, "att": att, "rank": len(dims_)})
    return ST((), lambda: mx, t.dtype)

METH["masked_fill_"] = _inplace(_masked_fill)
METH["masked_scatter_"] = _inplace(_masked_scatter)


@meth("sort")
def _sort(I, t, dim=-1, descending=False, stable=False):
    """assumed contract of sort along the last dimension of a matrix (ascending): values[n, r] = t[n, src[n, r]], src[n, .] a
    permutation of the positions (given with its inverse), values non-decreasing along the dimension (no rule for ties). Instance
    builders in ghost['sorts']."""
    if len(t.shape) != 2 or dim % 2 != 1 or descending:
        raise Unsupported("sort other than ascending along the last dimension of a matrix")
    n_, r_ = to_z3(t.shape[0]), to_z3(t.shape[1])
    Iz = z3.IntSort()
    SRC, INV = _fresh("sort_index", Iz, Iz, Iz), _fresh("sort_position_of", Iz, Iz, Iz)
    te = t.elem
    rows = lambda n: z3.And(n >= 0, n < n_)
    col = lambda r: z3.And(r >= 0, r < r_)
    val = lambda n, r: to_z3(te(n, SRC(n, r)))
    fwd = lambda n, r: z3.Implies(z3.And(rows(n), col(r)), z3.And(col(SRC(n, r)), INV(n, SRC(n, r)) == r))
    bwd = lambda n, r: z3.Implies(z3.And(rows(n), col(r)), z3.And(col(INV(n, r)), SRC(n, INV(n, r)) == r))
    srt = lambda n, a, b: z3.Implies(z3.And(rows(n), 0 <= a, a <= b, b < r_), val(n, a) <= val(n, b))
    nv, av, bv = z3.Ints("n_srt a_srt b_srt")
    I.ex.assume(z3.ForAll([nv, av], fwd(nv, av)))
    I.ex.assume(z3.ForAll([nv, av], bwd(nv, av)))
    I.ex.assume(z3.ForAll([nv, av, bv], srt(nv, av, bv)))
    I.ex.ghost.setdefault("sorts", []).append({"SRC": SRC, "INV": INV, "val": val, "fwd": fwd, "bwd": bwd, "sorted": srt, "of": t})
    return ct.MinMaxResult(ST(t.shape, lambda a, b: te(to_z3(a), SRC(to_z3(a), to_z3(b))), t.dtype), ST(t.shape, lambda a, b: SRC(to_z3(a), to_z3(b)), "long"))


@meth("log_softmax")
def _log_softmax(I, t, dim=-1, **k):
    """log_softmax as an UNINTERPRETED element function of the position (arbitrary real values; recorded in ghost['log_softmaxes']):
    for code whose specification is stated over the normalised scores themselves"""
    LS = _fresh("log_softmax", *([z3.IntSort()] * len(t.shape) + [z3.RealSort()]))
    I.ex.ghost.setdefault("log_softmaxes", []).append({"LS": LS, "of": t, "dim": dim % len(t.shape)})
    return ST(t.shape, lambda *idx: LS(*[to_z3(i) for i in idx]), "float")


@meth("all")
def _all(I, t, dim=None, keepdim=False):
    """all along a dimension of small concrete extent (written out); other forms are not modelled"""
    if dim is None and not keepdim:
        # all over every element: a fresh Boolean with the assumed contract `true iff every element is` - the universal half
        # quantified (instance builder `elim`), the other half with a witness position (ghost['alls'])
        te0 = t.elem
        dims0 = [to_z3(d_) for d_ in t.shape]
        b0 = I.ex.fresh("bool", "all")
        ws0 = [I.ex.fresh("int", "all_counterexample") for _ in dims0]
        inr0 = lambda idx: z3.And([z3.And(to_z3(i) >= 0, to_z3(i) < d_) for i, d_ in zip(idx, dims0)] or [z3.BoolVal(True)])
        tv = lambda idx: (lambda e_: z3.BoolVal(e_) if isinstance(e_, bool) else (e_ if z3.is_bool(e_) else to_z3(e_) != 0))(te0(*idx))
        elim = lambda *idx: z3.Implies(z3.And(b0, inr0(idx)), tv(idx))
        iv0 = [z3.Int("i%d_all" % j) for j in range(len(dims0))]
        I.ex.assume(z3.ForAll(iv0, elim(*iv0)) if iv0 else elim())
        cex = z3.Implies(z3.Not(b0), z3.And(inr0(ws0), z3.Not(tv(ws0))))
        I.ex.assume(cex)
        rec_ = {"B": b0, "elim": elim, "cex": cex, "witness": ws0}
        I.ex.ghost.setdefault("alls", []).append(rec_)
        for hook in I.ex.ghost.get("all_hooks", []):  # the sidecar's quantified hypotheses, instantiated at the counterexample witness
            for x_ in hook(rec_):
                I.ex.instance(x_)
        return b0
    if dim is None or keepdim:
        raise Unsupported("all() with keepdim and no dimension on a symbolic-shape tensor")
    d = dim % len(t.shape)
    if not (isinstance(t.shape[d], int) and 0 <= t.shape[d] <= 8):
        raise Unsupported("all() along a dimension of symbolic extent")
    te, ext = t.elem, t.shape[d]

    def el(*idx):
        parts = [te(*(list(idx[:d]) + [j] + list(idx[d:]))) for j in range(ext)]
        parts = [z3.BoolVal(x) if isinstance(x, bool) else (x if z3.is_bool(x) else to_z3(x) != 0) for x in parts]
        return z3.And(parts) if parts else z3.BoolVal(True)

    return ST(t.shape[:d] + t.shape[d + 1:], el, "bool")


def f_max(I, a, b=None, **k):
    if isinstance(b, ST) or (b is not None and not isinstance(b, int)):
        return ST.ew(I, ct.sc_max, a, b, dtype=a.dtype)
    return _max(I, a, b, **k)


METH["softmax"] = f_softmax
FUNCS.update({"torch.nn.functional.one_hot": f_one_hot, "torch._C._nn.one_hot": f_one_hot, "torch.stack": f_stack, "torch.cat": f_cat, "torch.ones": f_ones, "torch.zeros": f_zeros, "torch.nn.functional.softmax": f_softmax, "torch.softmax": f_softmax, "torch.pow": f_pow, "torch.matmul": lambda I, a, b: _matmul(I, a, b), "torch.empty": f_empty, "torch.arange": f_arange, "torch.full": f_full, "torch.full_like": f_full_like, "torch.where": f_where, "torch.min": f_min, "torch.isfinite": f_isfinite, "torch.zeros_like": f_zeros_like, "torch.as_tensor": f_as_tensor, "torch.max": f_max, "torch.tensor": f_tensor})


# ---- spellings of operations that already exist (a maintainer's equivalent rewrite must not leave the verified subset)
METH["neg"] = METH["negative"] = lambda I, t: ST.ew(I, ct.sc_neg, t, dtype=t.dtype)
METH["logical_not"] = lambda I, t: ST.ew(I, ct.sc_not, t, dtype="bool")
METH["logical_and"] = METH["bitwise_and"] = lambda I, t, o: t.__vc_binop__(I, ast.BitAnd(), o, False)
METH["logical_or"] = METH["bitwise_or"] = lambda I, t, o: t.__vc_binop__(I, ast.BitOr(), o, False)
METH["where"] = lambda I, t, c, o: f_where(I, c, t, o)  # t.where(c, o) = torch.where(c, t, o)
METH["isfinite"] = lambda I, t: f_isfinite(I, t)
METH["select"] = lambda I, t, dim, index: t.__vc_getitem__(I, tuple([slice(None)] * (dim % len(t.shape)) + [index]))
METH["isneginf"] = FUNCS["torch.isneginf"] = lambda I, t: METH["eq"](I, t, -float("inf"))
METH["isposinf"] = FUNCS["torch.isposinf"] = lambda I, t: METH["eq"](I, t, float("inf"))
METH["subtract"], METH["multiply"], METH["divide"], METH["true_divide"] = METH["sub"], METH["mul"], METH["div"], METH["div"]
METH["greater"], METH["greater_equal"], METH["less"], METH["less_equal"], METH["not_equal"] = METH["gt"], METH["ge"], METH["lt"], METH["le"], METH["ne"]
METH["minimum"] = lambda I, t, o: f_min(I, t, o)
METH["maximum"] = lambda I, t, o: f_max(I, t, o)
FUNCS["torch.minimum"] = lambda I, a, b: f_min(I, a, b)
FUNCS["torch.maximum"] = lambda I, a, b: f_max(I, a, b)


def _as_function(name):
    def f(I, t, *a, **k):
        if not isinstance(t, ST):
            raise Unsupported("torch.%s with a non-tensor first argument next to a symbolic-shape tensor" % name)
        return METH[name](I, t, *a, **k)
    return f


for _n in ("neg", "negative", "logical_not", "logical_and", "logical_or", "bitwise_and", "bitwise_or", "eq", "ne", "lt", "le", "gt", "ge", "greater", "greater_equal",
           "less", "less_equal", "not_equal", "add", "sub", "mul", "div", "subtract", "multiply", "divide", "true_divide", "unsqueeze", "squeeze", "sum", "any", "all",
           "clamp", "clip", "clamp_min", "clamp_max", "masked_select", "masked_fill", "masked_scatter", "gather", "scatter", "flatten", "reshape", "transpose", "t",
           "sort", "topk", "tril", "triu", "log_softmax", "mm", "square", "sqrt", "repeat_interleave", "clone", "numel"):
    if _n in METH and "torch." + _n not in FUNCS:
        FUNCS["torch." + _n] = _as_function(_n)


def stubs():
    return {n: dispatch(n, ct.FUNCS.get(n)) for n in FUNCS}
