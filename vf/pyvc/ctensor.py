"""Concrete-shape symbolic tensors ("S" rung, DESIGN.md 2.1 concrete-shape mode).

A CT is a numpy object array of scalars - python numbers or SMT terms - plus a dtype tag
('long' | 'float' | 'bool'). Shapes are concrete, contents symbolic, so executing the real tensor
code over CTs yields quantifier-free formulas that are a complete decision *for that shape* over
all contents. Basic slicing gives numpy views, which alias their base exactly like torch views, so
in-place stores through a slice behave as in torch; writes into broadcast (expanded) views are
rejected as unsupported rather than guessed.

The assumed contracts of the torch primitives modelled here are listed in TORCH_CONTRACTS and are
differentially tested against real torch on random concrete tensors (crosscheck.py).
Floats are modelled as reals (+inf supported as a concrete python float or through guarded
terms); NaN is not modelled.
"""
from __future__ import annotations

import ast
import math
from fractions import Fraction

import numpy as np
import z3

from .interp import Opaque, PyRaise, Unsupported, is_z3, to_z3

INF = float("inf")
TORCH_CONTRACTS = set()


class NaNValue:
    """a NaN cell (e.g. the placeholder nodes of a flat trie): may be stored, indexed, copied and discarded under CONCRETE
    conditions; isfinite is False; any arithmetic, comparison or symbolic selection on it is outside the model"""

    def _no(self, *a):
        raise Unsupported("arithmetic or comparison on a NaN cell")

    __add__ = __radd__ = __sub__ = __rsub__ = __mul__ = __rmul__ = __truediv__ = __rtruediv__ = __neg__ = _no
    __lt__ = __le__ = __gt__ = __ge__ = _no

    def __repr__(self):
        return "NaN"


NAN = NaNValue()


def _c(name):
    TORCH_CONTRACTS.add(name)


# ---------------------------------------------------------------------------------------------
# scalar semantics (python numbers incl. +-inf, z3 Int/Real/Bool terms)


def is_inf(x):
    return isinstance(x, float) and math.isinf(x)


def lift(x):
    if isinstance(x, float) and not is_inf(x):
        return to_z3(x)
    return x


def _num(a, b):
    """coerce two finite scalars (python or z3) for arithmetic"""
    if is_z3(a) or is_z3(b):
        a, b = (to_z3(a, b if is_z3(b) else None), to_z3(b, a if is_z3(a) else None))
        if z3.is_bool(a):
            a = z3.If(a, 1, 0)
        if z3.is_bool(b):
            b = z3.If(b, 1, 0)
        if z3.is_int(a) and z3.is_real(b):
            a = z3.ToReal(a)
        if z3.is_real(a) and z3.is_int(b):
            b = z3.ToReal(b)
        return a, b
    if isinstance(a, bool):
        a = int(a)
    if isinstance(b, bool):
        b = int(b)
    if isinstance(a, float) or isinstance(b, float):
        a, b = Fraction(a) if isinstance(a, float) else a, Fraction(b) if isinstance(b, float) else b
    return a, b


def sc_add(a, b):
    if is_inf(a) or is_inf(b):
        if is_inf(a) and is_inf(b) and a != b:
            raise Unsupported("inf - inf (NaN) is not modelled")
        return a if is_inf(a) else b
    a, b = _num(a, b)
    return a + b


def sc_neg(a):
    if is_inf(a):
        return -a
    if isinstance(a, bool):
        return -int(a)
    if type(a).__name__ in ("NegGuarded", "Guarded"):
        raise Unsupported("negation of a possibly infinite value")
    return -a


def sc_sub(a, b):
    return sc_add(a, sc_neg(b))


def sc_mul(a, b):
    if is_inf(a) or is_inf(b):
        o = b if is_inf(a) else a
        i = a if is_inf(a) else b
        if is_z3(o):
            raise Unsupported("inf * symbolic")
        if o == 0:
            raise Unsupported("inf * 0 (NaN) is not modelled")
        return i if o > 0 else -i
    a, b = _num(a, b)
    return a * b


def sc_div(a, b):
    if is_inf(a) or is_inf(b):
        raise Unsupported("division involving inf")
    a, b = _num(a, b)
    if is_z3(a) or is_z3(b):
        a, b = to_z3(a), to_z3(b)
        if z3.is_int(a):
            a, b = z3.ToReal(a), z3.ToReal(b)
        return a / b
    if b == 0:
        # x/0 (inf or NaN in floats) is modelled as an arbitrary real, as SMT does for symbolic divisors: any
        # postcondition that depends on it fails, which is conservative except for comparisons on NaN
        return z3.FreshReal("div0")
    return Fraction(a) / Fraction(b)


def sc_cmp(op, a, b):
    if is_inf(a) or is_inf(b):
        if is_inf(a) and is_inf(b):
            return {"lt": a < b, "le": a <= b, "gt": a > b, "ge": a >= b, "eq": a == b, "ne": a != b}[op]
        if is_inf(a):
            big = a > 0
            return {"lt": not big, "le": not big, "gt": big, "ge": big, "eq": False, "ne": True}[op]
        big = b > 0
        return {"lt": big, "le": big, "gt": not big, "ge": not big, "eq": False, "ne": True}[op]
    if isinstance(a, bool) and isinstance(b, bool):
        a, b = int(a), int(b)
    if (is_z3(a) and z3.is_bool(a)) and (isinstance(b, bool) or (is_z3(b) and z3.is_bool(b))) and op in ("eq", "ne"):
        b = to_z3(b)
        return (a == b) if op == "eq" else (a != b)
    a, b = _num(a, b)
    return {"lt": a < b, "le": a <= b, "gt": a > b, "ge": a >= b, "eq": a == b, "ne": a != b}[op]


def sc_and(a, b):
    if isinstance(a, bool):
        return b if a else False
    if isinstance(b, bool):
        return a if b else False
    return z3.And(a, b)


def sc_or(a, b):
    if isinstance(a, bool):
        return True if a else b
    if isinstance(b, bool):
        return True if b else a
    return z3.Or(a, b)


def sc_not(a):
    return (not a) if isinstance(a, bool) else z3.Not(a)


class NegGuarded:
    """-inf-or-finite scalar (scores masked with -inf): -inf when `ninf` holds, else `val`. Only softmax consumes it."""

    def __init__(self, ninf, val):
        self.ninf, self.val = ninf, val


def _is_ninf(x):
    return is_inf(x) and x < 0


def sc_where(c, a, b):
    if isinstance(c, (bool, np.bool_)):
        return a if c else b
    if a is NAN or b is NAN:
        raise Unsupported("selection between a NaN cell and a value under a symbolic condition")
    if _is_ninf(a) or _is_ninf(b) or isinstance(a, NegGuarded) or isinstance(b, NegGuarded):
        def split(x):
            if isinstance(x, NegGuarded):
                return x.ninf, x.val
            if _is_ninf(x):
                return True, 0
            if is_inf(x) or isinstance(x, Guarded):
                raise Unsupported("+inf and -inf mixed in one term")
            return False, x
        na, va = split(a)
        nb, vb = split(b)
        n = z3.simplify(z3.If(c, z3.BoolVal(na) if isinstance(na, bool) else na, z3.BoolVal(nb) if isinstance(nb, bool) else nb))
        return NegGuarded(n, sc_where(c, va, vb))
    if is_inf(a) or is_inf(b):
        return Guarded.make(c, a, b)
    if isinstance(a, Guarded) or isinstance(b, Guarded):
        return Guarded.make(c, a, b)
    if isinstance(a, bool) or isinstance(b, bool) or (is_z3(a) and z3.is_bool(a)):
        return z3.If(c, to_z3(a), to_z3(b))
    a, b = _num(a, b)
    if not is_z3(a) and not is_z3(b) and a == b:
        return a
    return z3.If(c, to_z3(a, b if is_z3(b) else None), to_z3(b, a if is_z3(a) else None))


def sc_min(a, b):
    c = sc_cmp("le", a, b)
    return sc_where(c, a, b)


def sc_max(a, b):
    c = sc_cmp("ge", a, b)
    return sc_where(c, a, b)


class Guarded:
    """+inf-or-finite scalar: value is +inf when `pinf` holds, else the finite term `val`."""

    def __init__(self, pinf, val):
        self.pinf, self.val = pinf, val

    @staticmethod
    def split(x):
        if isinstance(x, Guarded):
            return x.pinf, x.val
        if is_inf(x):
            if x < 0:
                raise Unsupported("-inf in a guarded term")
            return True, 0
        return False, x

    @staticmethod
    def make(c, a, b):
        pa, va = Guarded.split(a)
        pb, vb = Guarded.split(b)
        p = sc_where(c, pa, pb) if not (isinstance(pa, bool) and isinstance(pb, bool) and pa == pb) else pa
        if isinstance(pa, bool) and isinstance(pb, bool):
            p = z3.simplify(z3.If(c, z3.BoolVal(pa), z3.BoolVal(pb)))
        v = sc_where(c, va, vb)
        if p is False or (is_z3(p) and z3.is_false(p)):
            return v
        return Guarded(p, v)


def g_binop(kind, a, b):
    """arithmetic / comparison on scalars where at least one is Guarded"""
    pa, va = Guarded.split(a)
    pb, vb = Guarded.split(b)
    if kind == "add":
        return Guarded(sc_or(pa, pb), sc_add(va, vb))
    if kind == "min":
        # min(inf, x) = x
        v = sc_where(pa, vb, sc_where(pb, va, sc_min(va, vb))) if not isinstance(pa, bool) or not isinstance(pb, bool) else None
        if v is None:
            v = vb if pa else (va if pb else sc_min(va, vb))
        return Guarded.simp(sc_and(pa, pb), v)
    if kind in ("lt", "le", "gt", "ge", "eq", "ne"):
        fin = sc_cmp(kind, va, vb)
        both, none = sc_and(pa, pb), sc_and(sc_not(pa), sc_not(pb))
        a_only, b_only = sc_and(pa, sc_not(pb)), sc_and(sc_not(pa), pb)
        tab = {"lt": (False, False, True), "le": (True, False, True), "gt": (False, True, False), "ge": (True, True, False),
               "eq": (True, False, False), "ne": (False, True, True)}[kind]  # (both inf, only a inf, only b inf)
        r = sc_and(none, fin)
        for cond, val in zip((both, a_only, b_only), tab):
            if val:
                r = sc_or(r, cond)
        return r
    raise Unsupported("operation %s on a possibly-infinite value" % kind)


Guarded.simp = staticmethod(lambda p, v: v if (p is False or (is_z3(p) and z3.is_false(z3.simplify(p)))) else Guarded(p, v))


def _g(kind, plain):
    def f(a, b):
        if isinstance(a, Guarded) or isinstance(b, Guarded):
            return g_binop(kind, a, b)
        return plain(a, b)

    return f


_sc_add_pg = _g("add", sc_add)


def sc_add_g(a, b):
    """addition over finite, possibly-+inf (Guarded) and possibly--inf (NegGuarded) scalars: -inf + finite = -inf"""
    if isinstance(a, NegGuarded) or isinstance(b, NegGuarded) or _is_ninf(a) or _is_ninf(b):
        fa, va = ng_split(a)
        fb, vb = ng_split(b)
        f = sc_or(fa, fb)
        if f is True:
            return -INF
        v = sc_add(va, vb)
        return v if f is False else NegGuarded(z3.simplify(f) if is_z3(f) else f, v)
    return _sc_add_pg(a, b)


sc_min_g = _g("min", sc_min)


def ng_split(x):
    """(is -inf, finite value) of a -inf-or-finite scalar"""
    if x is NAN:
        raise Unsupported("a NaN cell where a number is needed")
    if isinstance(x, NegGuarded):
        return x.ninf, x.val
    if _is_ninf(x):
        return True, 0
    if is_inf(x) or isinstance(x, Guarded):
        raise Unsupported("+inf and -inf mixed in one term")
    return False, x


def ng_cmp(op, a, b):
    """comparison of -inf-or-finite scalars (-inf below every finite value, equal to itself)"""
    fa, va = ng_split(a)
    fb, vb = ng_split(b)
    B = lambda c: z3.BoolVal(c) if isinstance(c, bool) else c
    fa, fb = B(fa), B(fb)
    if op in ("lt", "le"):
        return ng_cmp({"lt": "gt", "le": "ge"}[op], b, a)
    fin = lambda o: B(sc_cmp(o, va, vb))
    if op == "ge":
        return z3.simplify(z3.Or(fb, z3.And(z3.Not(fa), fin("ge"))))
    if op == "gt":
        return z3.simplify(z3.And(z3.Not(fa), z3.Or(fb, fin("gt"))))
    eq = z3.Or(z3.And(fa, fb), z3.And(z3.Not(fa), z3.Not(fb), fin("eq")))
    return z3.simplify(eq if op == "eq" else z3.Not(eq))


def sc_cmp_g(op, a, b):
    if isinstance(a, NegGuarded) or isinstance(b, NegGuarded):
        return ng_cmp(op, a, b)
    if isinstance(a, Guarded) or isinstance(b, Guarded):
        return g_binop(op, a, b)
    return sc_cmp(op, a, b)


# ---------------------------------------------------------------------------------------------


def obj_array(x, shape=None):
    a = np.empty(shape if shape is not None else (), dtype=object)
    if shape is None:
        a[()] = x
    else:
        a.fill(x)
    return a


def _vec(f, nin=2):
    return np.frompyfunc(f, nin, 1)


DT = {"long": "long", "float": "float", "bool": "bool"}


def dtype_tag(d, default=None):
    import torch

    if d is None:
        return default
    if isinstance(d, str):
        return d
    if d in (torch.long, torch.int64, torch.int32, torch.int16, torch.int8, torch.uint8, torch.int):
        return "long"
    if d in (torch.float, torch.float32, torch.float64, torch.double, torch.half):
        return "float"
    if d == torch.bool:
        return "bool"
    raise Unsupported("dtype %r" % (d,))


def int_width(d):
    """(bits, signed) of a torch integer dtype narrower than 64 bits, else None: arithmetic in such a type wraps around"""
    import torch

    return {torch.uint8: (8, False), torch.int8: (8, True), torch.int16: (16, True), torch.int32: (32, True), torch.int: (32, True)}.get(d)


def wrap_int(x, width):
    """value of the mathematical integer x after storing it in a `width` integer type (two's complement wrap-around)"""
    bits, signed = width
    m = 2 ** bits
    if not is_z3(x):
        x = int(x) % m
        return x - m if signed and x >= m // 2 else x
    r = to_z3(x) % m
    return z3.If(r >= m // 2, r - m, r) if signed else r


def promote(a, b):
    order = {"bool": 0, "long": 1, "float": 2}
    return a if order[a] >= order[b] else b


def scalar_dtype(x):
    if isinstance(x, bool) or (is_z3(x) and z3.is_bool(x)):
        return "bool"
    if isinstance(x, int) or (is_z3(x) and z3.is_int(x)):
        return "long"
    return "float"


class CT:
    def __init__(self, arr, dtype):
        if not isinstance(arr, np.ndarray) or arr.dtype != object:
            a = np.empty(np.shape(arr), dtype=object)
            a[...] = arr
            arr = a
        self.a, self.dtype = arr, dtype

    # -- construction helpers
    @staticmethod
    def wrap(x, like=None):
        if isinstance(x, CT):
            return x
        return CT(obj_array(x), scalar_dtype(x))

    @staticmethod
    def symbolic(name, shape, dtype):
        a = np.empty(shape, dtype=object)
        for idx in np.ndindex(*shape):
            nm = "%s_%s" % (name, "_".join(map(str, idx)))
            a[idx] = z3.Int(nm) if dtype == "long" else z3.Real(nm) if dtype == "float" else z3.Bool(nm)
        return CT(a, dtype)

    @staticmethod
    def concrete(t):
        """from a real torch tensor (cross-check mode)"""
        import torch

        tag = "bool" if t.dtype == torch.bool else "float" if t.dtype.is_floating_point else "long"
        a = np.empty(tuple(t.shape), dtype=object)
        flat = t.tolist()
        arr = np.array(flat, dtype=object) if t.dim() else None
        if t.dim() == 0:
            a[()] = flat
        else:
            a[...] = arr.reshape(tuple(t.shape)) if arr.size else arr.reshape(tuple(t.shape))
        if tag == "float":
            f = np.frompyfunc(lambda v: v if is_inf(v) else Fraction(v), 1, 1)
            a = f(a) if a.size else a
            if not isinstance(a, np.ndarray):
                a = obj_array(a)
        return CT(a, tag)

    @property
    def shape(self):
        return tuple(self.a.shape)

    def __repr__(self):
        return "CT(%s,%s)" % (self.dtype, self.shape)

    def cast(self, dtype):
        if dtype == self.dtype:
            return CT(self.a.copy(), dtype)

        def conv(v):
            src = self.dtype
            if isinstance(v, Guarded):
                raise Unsupported("cast of a possibly-infinite value")
            if dtype == "bool":
                return sc_cmp("ne", v, 0)
            if src == "bool":
                v = sc_where(v, 1, 0) if is_z3(v) else int(v)
            if dtype == "float":
                if is_z3(v) and z3.is_int(v):
                    return z3.ToReal(v)
                return v
            if dtype == "long":
                if is_z3(v) and z3.is_real(v):
                    return z3.If(v >= 0, z3.ToInt(v), -z3.ToInt(-v))
                if is_inf(v):
                    raise Unsupported("cast of inf to long")
                if isinstance(v, (float, Fraction)):
                    return int(v)
                return v
            return v

        return CT(_vec(conv, 1)(self.a) if self.a.size else self.a.copy(), dtype).fix()

    def fix(self):
        if not isinstance(self.a, np.ndarray):
            self.a = obj_array(self.a)
        return self

    # -- elementwise machinery
    @staticmethod
    def ew(f, *xs, dtype=None):
        cts = [CT.wrap(x) for x in xs]
        try:
            arrs = np.broadcast_arrays(*[c.a for c in cts])
        except ValueError:
            raise PyRaise("RuntimeError", "shapes do not broadcast: %s" % [c.shape for c in cts])
        if arrs[0].size == 0:
            return CT(np.empty(arrs[0].shape, dtype=object), dtype or cts[0].dtype)
        r = _vec(f, len(xs))(*arrs)
        return CT(r, dtype).fix()

    def binop(self, op, other, reflected=False):
        o = CT.wrap(other)
        a, b = (o, self) if reflected else (self, o)
        dt = promote(a.dtype, b.dtype)
        if isinstance(other, (int, float, bool)) or is_z3(other):
            # python scalars do not promote integer tensors beyond their category unless they are floats
            dt = self.dtype if not (scalar_dtype(other) == "float" and self.dtype != "float") else "float"
            if self.dtype == "bool" and scalar_dtype(other) != "bool":
                dt = scalar_dtype(other)
        if isinstance(op, ast.Add):
            return CT.ew(sc_add_g, a, b, dtype="long" if dt == "bool" else dt)
        if isinstance(op, ast.Sub):
            return CT.ew(lambda x, y: sc_add_g(x, sc_neg(y)), a, b, dtype=dt)
        if isinstance(op, ast.Mult):
            if a.dtype == "bool" and b.dtype == "bool":  # torch: bool * bool is the conjunction, dtype bool
                return CT.ew(sc_and, a, b, dtype="bool")
            return CT.ew(sc_mul, a, b, dtype=dt)
        if isinstance(op, ast.Div):
            return CT.ew(sc_div, a, b, dtype="float")
        if isinstance(op, ast.FloorDiv):
            if dt == "float":
                return CT.ew(lambda x, y: z3.ToReal(z3.ToInt(to_z3(sc_div(x, y)))), a, b, dtype="float")
            from .interp import pydiv

            return CT.ew(lambda x, y: (x // y) if not (is_z3(x) or is_z3(y)) else pydiv(to_z3(x), to_z3(y)), a, b, dtype="long")
        if isinstance(op, ast.Mod):
            from .interp import pymod

            return CT.ew(lambda x, y: (x % y) if not (is_z3(x) or is_z3(y)) else (to_z3(x) % to_z3(y) if (not is_z3(y) and y > 0) else pymod(to_z3(x), to_z3(y))), a, b, dtype=dt)
        if isinstance(op, ast.BitAnd):
            return CT.ew(sc_and, a, b, dtype="bool")
        if isinstance(op, ast.BitOr):
            return CT.ew(sc_or, a, b, dtype="bool")
        if isinstance(op, ast.BitXor):
            return CT.ew(lambda x, y: sc_cmp("ne", x, y), a, b, dtype="bool")
        if isinstance(op, ast.Pow) and isinstance(other, int) and not reflected and 0 <= other <= 4:
            r = CT.ew(lambda x: 1, a, dtype=dt)
            for _ in range(other):
                r = CT.ew(sc_mul, r, a, dtype=dt)
            return r
        raise Unsupported("tensor binary op %s" % type(op).__name__)

    def __vc_binop__(self, I, op, other, reflected):
        if isinstance(op, ast.MatMult) and isinstance(other, CT):  # a @ b = torch.matmul(a, b)
            return METHODS["matmul"](I, other, self) if reflected else METHODS["matmul"](I, self, other)
        if isinstance(other, (CT, int, float, bool, Fraction)) or is_z3(other):
            return self.binop(op, other, reflected)
        return NotImplemented

    def __vc_iop__(self, I, op, other):
        r = self.binop(op, other)
        if r.shape != self.shape:
            raise PyRaise("RuntimeError", "in-place result shape differs")
        self.store(Ellipsis, r.cast(self.dtype) if r.dtype != self.dtype else r)
        return self

    def __vc_compare__(self, I, op, other, reflected):
        if not (isinstance(other, (CT, int, float, bool, Fraction)) or is_z3(other)):
            return NotImplemented
        name = {ast.Lt: "lt", ast.LtE: "le", ast.Gt: "gt", ast.GtE: "ge", ast.Eq: "eq", ast.NotEq: "ne"}.get(type(op))
        if name is None:
            return NotImplemented
        a, b = (other, self) if reflected else (self, other)
        return CT.ew(lambda x, y: sc_cmp_g(name, x, y), a, b, dtype="bool")

    def __vc_unop__(self, I, op):
        if isinstance(op, ast.Invert):
            if self.dtype != "bool":
                raise Unsupported("~ on a non-bool tensor")
            return CT.ew(sc_not, self, dtype="bool")
        if isinstance(op, ast.USub):
            return CT.ew(sc_neg, self, dtype=self.dtype)
        if isinstance(op, ast.UAdd):
            return self
        raise Unsupported("unary op on tensor")

    def __vc_truth__(self, I):
        if self.a.size != 1:
            raise PyRaise("RuntimeError", "Boolean value of Tensor with more than one value is ambiguous")
        v = self.a.reshape(-1)[0]
        return I.truth(v) if self.dtype == "bool" else I.truth(sc_cmp("ne", v, 0))

    def __vc_len__(self, I):
        if not self.shape:
            raise PyRaise("TypeError", "len() of a 0-d tensor")
        return self.shape[0]

    def __vc_iter__(self, I):
        return [CT(self.a[i], self.dtype).fix() for i in range(self.shape[0])]

    def __vc_int__(self, I):
        return self.item(I, want="long")

    def __vc_float__(self, I):
        return self.item(I, want="float")

    def __vc_isinstance__(self, I, ts):
        import torch

        for k in ts:
            if k is torch.Tensor:
                return True
            if k is torch.LongTensor and self.dtype == "long":
                return True
            if k is torch.FloatTensor and self.dtype == "float":
                return True
            if k is torch.BoolTensor and self.dtype == "bool":
                return True
        return False

    def item(self, I, want=None):
        if self.a.size != 1:
            raise PyRaise("RuntimeError", "item() on a tensor with %d elements" % self.a.size)
        v = self.a.reshape(-1)[0]
        if isinstance(v, Fraction):
            v = float(v) if v.denominator != 1 or self.dtype == "float" else int(v)
        if want == "long" and self.dtype != "long":
            return CT(obj_array(v), self.dtype).cast("long").a[()]
        if want == "float" and is_z3(v) and z3.is_int(v):
            return z3.ToReal(v)
        return v

    # -- indexing
    def conv_index(self, I, idx):
        if not isinstance(idx, tuple):
            idx = (idx,)
        out = []
        for k in idx:
            if isinstance(k, CT):
                if k.dtype == "bool":
                    if not all(isinstance(v, (bool, np.bool_)) for v in k.a.reshape(-1)):
                        raise SymbolicMask(k)
                    out.append(k.a.astype(bool))
                else:
                    vals = []
                    for v in k.a.reshape(-1):
                        v = z3.simplify(v) if is_z3(v) else v
                        if is_z3(v):
                            if not z3.is_int_value(v):
                                raise Unsupported("indexing with a symbolic index tensor")
                            v = v.as_long()
                        vals.append(int(v))
                    out.append(np.array(vals, dtype=int).reshape(k.shape) if k.shape else vals[0])
            elif is_z3(k):
                k2 = z3.simplify(k)
                if not z3.is_int_value(k2):
                    raise Unsupported("indexing a concrete-shape tensor with a symbolic integer")
                out.append(k2.as_long())
            elif isinstance(k, slice):
                def cv(v):
                    if is_z3(v):
                        v2 = z3.simplify(v)
                        if not z3.is_int_value(v2):
                            raise Unsupported("symbolic slice bound")
                        return v2.as_long()
                    return v

                out.append(slice(cv(k.start), cv(k.stop), cv(k.step)))
            else:
                out.append(k)
        return tuple(out)

    def __vc_getitem__(self, I, idx):
        try:
            cidx = self.conv_index(I, idx)
        except SymbolicMask as sm:
            if isinstance(idx, CT) and idx.shape == self.shape:
                return m_masked_select(I, self, idx)
            raise Unsupported("boolean-mask indexing with a symbolic mask of a different shape (data-dependent shape)")
        try:
            r = self.a[cidx]
        except IndexError as e:
            raise PyRaise("IndexError", str(e))
        if not isinstance(r, np.ndarray):
            r = obj_array(r)
        return CT(r, self.dtype)

    def store(self, idx, value):
        if not self.a.flags.writeable:
            raise Unsupported("in-place write into an expanded (broadcast) view")
        v = CT.wrap(value)
        if v.dtype != self.dtype:
            v = v.cast(self.dtype)
        try:
            if v.a.shape == ():
                self.a[idx] = v.a[()]
            else:
                self.a[idx] = v.a
        except (ValueError, IndexError) as e:
            raise PyRaise("RuntimeError", str(e))

    def __vc_setitem__(self, I, idx, value):
        idx = self.conv_index(I, idx)
        if len(idx) == 1 and isinstance(idx[0], np.ndarray) and idx[0].dtype == bool:
            pass
        self.store(idx if len(idx) != 1 else idx[0], value)

    # -- attribute / method dispatch
    def __vc_getattr__(self, I, name):
        import torch

        if name == "shape":
            return self.shape
        if name == "ndim":
            return len(self.shape)
        if name == "dtype":
            return {"long": torch.long, "float": torch.float, "bool": torch.bool}[self.dtype]
        if name == "device":
            return torch.device("cpu")
        if name == "T":
            return CT(self.a.T, self.dtype)
        if name == "is_cuda":
            return False
        if name in METHODS:
            return Method(self, name)
        raise Unsupported("tensor attribute/method .%s is not modelled" % name)


class SymbolicMask(Exception):
    def __init__(self, mask):
        self.mask = mask


class MaskedSel:
    """result of x[mask] / masked_select with a symbolic mask: the row-major list of (selected?, value).
    Its length is data-dependent, so it can only be consumed by masked_scatter (stable compaction)."""

    def __init__(self, conds, vals, dtype):
        self.conds, self.vals, self.dtype = conds, vals, dtype
        self.before = []  # number of selected elements strictly before position p
        acc = 0
        for c in conds:
            self.before.append(acc)
            acc = sc_add(acc, sc_where(c, 1, 0) if not isinstance(c, bool) else int(c))
        self.total = acc

    def pick(self, r):
        """the r-th selected value (r an SMT/py integer); arbitrary if there is none"""
        acc = self.vals[-1] if self.vals else 0
        for c, v, b in reversed(list(zip(self.conds, self.vals, self.before))):
            acc = sc_where(sc_and(c, sc_cmp("eq", b, r)), v, acc)
        return acc

    def __vc_getattr__(self, I, name):
        if name in ("new_empty", "new_zeros", "new_ones", "new_full"):  # only the dtype of the selection is used
            return Method(CT(np.empty((0,), dtype=object), self.dtype), name)
        raise Unsupported("masked selection with a symbolic mask can only feed masked_scatter (.%s used)" % name)


# torch's own keyword names of the tensor methods modelled here, in positional order after the tensor (a call written with keywords
# is re-ordered to the positional form the model functions take)
TORCH_KW = {"masked_scatter": ("mask", "source"), "masked_scatter_": ("mask", "source"), "masked_fill": ("mask", "value"), "masked_fill_": ("mask", "value"),
            "masked_select": ("mask",), "gather": ("dim", "index"), "scatter": ("dim", "index", "src"), "topk": ("k", "dim"), "eq": ("other",), "ne": ("other",),
            "lt": ("other",), "le": ("other",), "gt": ("other",), "ge": ("other",), "unsqueeze": ("dim",), "squeeze": ("dim",), "transpose": ("dim0", "dim1"),
            "flatten": ("start_dim", "end_dim"), "clamp_min": ("min",), "clamp_max": ("max",), "repeat_interleave": ("repeats", "dim"), "expand_as": ("other",),
            "view_as": ("other",), "where": ("condition", "other"), "select": ("dim", "index"), "add": ("other",), "sub": ("other",), "mul": ("other",), "div": ("other",)}


def call_modelled(fn, shown, name, I, t, args, kwargs):
    """call a model function for a tensor method: torch's keyword names are mapped to positions; a call form the model function
    does not accept is outside the verified subset (not an engine crash)"""
    import inspect

    args, kwargs = list(args), dict(kwargs)
    order = TORCH_KW.get(name)
    if order and kwargs:  # the model functions take torch's positional order
        for pos in range(len(args), len(order)):
            if order[pos] in kwargs:
                args.append(kwargs.pop(order[pos]))
            else:
                break
    try:
        inspect.signature(fn).bind(I, t, *args, **kwargs)
    except TypeError as e:
        raise Unsupported("the call form of %s is not modelled (%s)" % (shown, e))
    except ValueError:
        pass
    return fn(I, t, *args, **kwargs)


class Method:
    def __init__(self, t, name):
        self.t, self.name = t, name

    def __vc_call__(self, I, args, kwargs):
        return call_modelled(METHODS[self.name], "." + self.name, self.name, I, self.t, args, kwargs)


METHODS = {}
FUNCS = {}


def method(*names, func=True):
    def deco(f):
        for n in names:
            METHODS[n] = f
            if func:
                FUNCS["torch." + n] = f
        _c(names[0])
        return f

    return deco


def _dim(t, d):
    n = len(t.shape)
    if is_z3(d):
        d = z3.simplify(d).as_long()
    if d < -n or d >= max(n, 1):
        raise PyRaise("IndexError", "Dimension out of range")
    return d % n if n else 0


@method("dim", "ndimension", func=False)
def m_dim(I, t):
    return len(t.shape)


@method("size", func=False)
def m_size(I, t, d=None):
    return t.shape if d is None else t.shape[_dim(t, d)]


@method("numel", "nelement")
def m_numel(I, t):
    return int(t.a.size)


@method("detach", "contiguous", "cpu", "clone_view_noop", func=False)
def m_detach(I, t, *a, **k):
    return t


@method("clone")
def m_clone(I, t, **k):
    return CT(t.a.copy(), t.dtype)


@method("t")
def m_t(I, t):
    if len(t.shape) > 2:
        raise PyRaise("RuntimeError", "t() expects a tensor with <= 2 dimensions")
    return CT(t.a.T, t.dtype)


@method("transpose")
def m_transpose(I, t, d0, d1):
    return CT(np.swapaxes(t.a, _dim(t, d0), _dim(t, d1)), t.dtype)


@method("permute")
def m_permute(I, t, *dims):
    if len(dims) == 1 and isinstance(dims[0], (tuple, list)):
        dims = dims[0]
    return CT(np.transpose(t.a, [_dim(t, d) for d in dims]), t.dtype)


@method("unsqueeze")
def m_unsqueeze(I, t, d):
    n = len(t.shape) + 1
    if d < -n or d >= n:
        raise PyRaise("IndexError", "Dimension out of range")
    return CT(np.expand_dims(t.a, d % n), t.dtype)


@method("squeeze")
def m_squeeze(I, t, d=None):
    if d is None:
        return CT(np.squeeze(t.a), t.dtype).fix()
    d = _dim(t, d)
    return CT(np.squeeze(t.a, d), t.dtype) if t.shape[d] == 1 else t


@method("expand", func=False)
def m_expand(I, t, *sizes):
    if len(sizes) == 1 and isinstance(sizes[0], (tuple, list)):
        sizes = tuple(sizes[0])
    sizes = list(sizes)
    off = len(sizes) - len(t.shape)
    if off < 0:
        raise PyRaise("RuntimeError", "expand: fewer sizes than dimensions")
    for i, s in enumerate(sizes):
        if is_z3(s):
            s = sizes[i] = z3.simplify(s).as_long()
        if s == -1:
            if i < off:
                raise PyRaise("RuntimeError", "expand: -1 in a new leading dimension")
            sizes[i] = t.shape[i - off]
    try:
        return CT(np.broadcast_to(t.a, sizes), t.dtype)
    except ValueError as e:
        raise PyRaise("RuntimeError", str(e))


@method("expand_as", func=False)
def m_expand_as(I, t, o):
    return m_expand(I, t, *o.shape)


@method("view", "reshape")
def m_view(I, t, *sizes):
    if len(sizes) == 1 and isinstance(sizes[0], (tuple, list)):
        sizes = tuple(sizes[0])
    try:
        return CT(t.a.reshape(sizes), t.dtype)
    except ValueError as e:
        raise PyRaise("RuntimeError", str(e))


@method("flatten")
def m_flatten(I, t, start_dim=0, end_dim=-1):
    if not t.shape:
        return CT(t.a.reshape(1), t.dtype)
    s, e = _dim(t, start_dim), _dim(t, end_dim)
    new = t.shape[:s] + (int(np.prod(t.shape[s:e + 1])),) + t.shape[e + 1:]
    return CT(t.a.reshape(new), t.dtype)


@method("to", "type", func=False)
def m_to(I, t, *a, **k):
    import torch

    d = k.get("dtype")
    for x in a:
        if isinstance(x, torch.dtype):
            d = x
        elif isinstance(x, CT):
            d = x.dtype
    if d is None:
        return t
    return t.cast(dtype_tag(d))


@method("float", "double", func=False)
def m_float(I, t):
    return t.cast("float")


@method("long", "int", func=False)
def m_long(I, t):
    return t.cast("long")


@method("new_full", func=False)
def m_new_full(I, t, size, fill_value, **k):
    return CT(obj_array(fill_value, _shape_args((size,))), dtype_tag(k.get("dtype"), t.dtype))


def f_nonzero(I, t, as_tuple=False):
    """torch.nonzero of a 1-D mask with symbolic entries: the result's shape depends on the data, so the paths split on every
    entry (2^L paths); on each path the indices are concrete, in increasing order (documented: lexicographic order)."""
    if as_tuple or len(t.shape) != 1:
        raise Unsupported("nonzero of a tensor that is not 1-D / as_tuple")
    idx = []
    for i, v in enumerate(t.a):
        c = v if t.dtype == "bool" else (to_z3(v) != 0)
        if isinstance(c, (bool, np.bool_)):
            hit = bool(c)
        else:
            hit = I.ex.branch(c)
        if hit:
            idx.append(i)
    a = np.empty((len(idx), 1), dtype=object)
    for r, i in enumerate(idx):
        a[r, 0] = i
    return CT(a, "long")


FUNCS["torch.nonzero"] = METHODS["nonzero"] = f_nonzero
_c("nonzero(1-D): indices of the true entries in increasing order")


@method("bool", func=False)
def m_bool(I, t):
    return t.cast("bool")


@method("item", func=False)
def m_item(I, t):
    return t.item(I)


@method("tolist", func=False)
def m_tolist(I, t):
    return t.a.tolist()


def _cmp(name):
    def f(I, t, o):
        return CT.ew(lambda x, y: sc_cmp_g(name, x, y), t, o, dtype="bool")

    return f


for _n in ("lt", "le", "gt", "ge", "eq", "ne"):
    METHODS[_n] = FUNCS["torch." + _n] = _cmp(_n)
    _c(_n)


@method("add")
def m_add(I, t, o, alpha=1):
    return t.binop(ast.Add(), o if alpha == 1 else CT.wrap(o).binop(ast.Mult(), alpha))


@method("sub")
def m_sub(I, t, o):
    return t.binop(ast.Sub(), o)


@method("mul")
def m_mul(I, t, o):
    return t.binop(ast.Mult(), o)


@method("div", "true_divide")
def m_div(I, t, o):
    return t.binop(ast.Div(), o)


@method("neg")
def m_neg(I, t):
    return CT.ew(sc_neg, t, dtype=t.dtype)


@method("abs")
def m_abs(I, t):
    return CT.ew(lambda x: sc_where(sc_cmp("lt", x, 0), sc_neg(x), x), t, dtype=t.dtype)


@method("floor")
def m_floor(I, t):
    if t.dtype != "float":
        return t
    return CT.ew(lambda x: z3.ToReal(z3.ToInt(to_z3(x))) if is_z3(x) else Fraction(math.floor(x)), t, dtype="float")


@method("logical_and")
def m_land(I, t, o):
    return t.cast("bool").binop(ast.BitAnd(), CT.wrap(o).cast("bool"))


@method("logical_or")
def m_lor(I, t, o):
    return t.cast("bool").binop(ast.BitOr(), CT.wrap(o).cast("bool"))


@method("logical_not")
def m_lnot(I, t):
    return CT.ew(sc_not, t.cast("bool"), dtype="bool")


@method("where")
def m_where(I, c, a, b):
    a_, b_ = CT.wrap(a), CT.wrap(b)
    dt = promote(a_.dtype, b_.dtype)
    if isinstance(a, CT) and not isinstance(b, CT):
        dt = a.dtype if not (scalar_dtype(b) == "float" and a.dtype != "float") else "float"
    if isinstance(b, CT) and not isinstance(a, CT):
        dt = b.dtype if not (scalar_dtype(a) == "float" and b.dtype != "float") else "float"
    return CT.ew(sc_where, c, a_, b_, dtype=dt)


def m_select(I, t, dim, index):
    """t.select(dim, i) = t[..., i, ...] at dimension dim"""
    d = _dim(t, dim)
    return t.__vc_getitem__(I, tuple([slice(None)] * d + [index]))


METHODS["select"] = m_select
METHODS["where"] = lambda I, t, c, o: m_where(I, c, t, o)  # the METHOD form t.where(c, o) is torch.where(c, t, o)


@method("masked_fill")
def m_masked_fill(I, t, mask, value):
    if isinstance(value, CT):
        value = value.item(I)
    return CT.ew(lambda m, x: sc_where(m, value, x), mask, t, dtype=t.dtype)


@method("masked_fill_", func=False)
def m_masked_fill_(I, t, mask, value):
    r = m_masked_fill(I, t, mask, value)
    if r.shape != t.shape:
        raise PyRaise("RuntimeError", "masked_fill_: mask does not broadcast to self")
    t.store(Ellipsis, r)
    return t


@method("masked_select")
def m_masked_select(I, t, mask):
    a, m = np.broadcast_arrays(t.a, CT.wrap(mask).a)
    if all(isinstance(c, (bool, np.bool_)) for c in m.reshape(-1)):  # concrete mask: an ordinary 1-D tensor
        sel = [v for c, v in zip(m.reshape(-1), a.reshape(-1)) if c]
        out = np.empty((len(sel),), dtype=object)
        for i, v in enumerate(sel):
            out[i] = v
        return CT(out, t.dtype)
    return MaskedSel(list(m.reshape(-1)), list(a.reshape(-1)), t.dtype)


def _masked_scatter(I, t, mask, source, inplace):
    m = np.broadcast_to(CT.wrap(mask).a, t.shape)
    if isinstance(source, CT):
        source = MaskedSel([True] * source.a.size, list(source.a.reshape(-1)), source.dtype)
    if not isinstance(source, MaskedSel):
        raise Unsupported("masked_scatter source")
    conds = list(m.reshape(-1))
    need = 0
    out = np.empty(t.a.size, dtype=object)
    flat = t.a.reshape(-1)
    for q, c in enumerate(conds):
        out[q] = sc_where(c, source.pick(need), flat[q])
        need = sc_add(need, sc_where(c, 1, 0) if not isinstance(c, bool) else int(c))
    # torch requires the source to hold at least as many elements as the mask selects
    g = sc_cmp("le", need, source.total)
    I.ex.oblige("masked_scatter.source_has_enough_elements", g if not isinstance(g, bool) else z3.BoolVal(g))
    r = CT(out.reshape(t.shape), t.dtype)
    if inplace:
        t.store(Ellipsis, r)
        return t
    return r


METHODS["masked_scatter"] = FUNCS["torch.masked_scatter"] = lambda I, t, mask, source: _masked_scatter(I, t, mask, source, False)
METHODS["masked_scatter_"] = lambda I, t, mask, source: _masked_scatter(I, t, mask, source, True)
_c("masked_select / masked_scatter: row-major order preserved (stable compaction)")


def _new_like(kind):
    def f(I, t, *size, dtype=None, device=None, **k):
        dt = dtype_tag(dtype, t.dtype)
        if kind == "full":
            return f_full(I, size[0], size[1], dtype=dt)
        return {"empty": f_empty, "zeros": f_zeros, "ones": f_ones}[kind](I, *size, dtype=dt)

    return f


for _k in ("empty", "zeros", "ones", "full"):
    METHODS["new_" + _k] = _new_like(_k)


@method("fill_", func=False)
def m_fill_(I, t, v):
    t.store(Ellipsis, v)
    return t


@method("zero_", func=False)
def m_zero_(I, t):
    t.store(Ellipsis, False if t.dtype == "bool" else 0)
    return t


@method("copy_", func=False)
def m_copy_(I, t, src):
    r = CT.ew(lambda x, y: y, t, src, dtype=t.dtype)
    t.store(Ellipsis, r if CT.wrap(src).dtype == t.dtype else CT.wrap(src).cast(t.dtype))
    return t


def _reduce(t, dim, f, init=None, keepdim=False):
    d = _dim(t, dim)
    moved = np.moveaxis(t.a, d, -1)
    out = np.empty(moved.shape[:-1], dtype=object)
    for idx in np.ndindex(*moved.shape[:-1]):
        vals = list(moved[idx])
        acc = init
        for v in vals:
            acc = v if acc is None else f(acc, v)
        out[idx] = acc
    if keepdim:
        out = np.expand_dims(out, d)
    return out


@method("sum")
def m_sum(I, t, dim=None, keepdim=False, dtype=None):
    dt = "long" if t.dtype in ("bool", "long") else "float"
    src = t.cast("long") if t.dtype == "bool" else t
    if dim is None:
        acc = 0
        for v in src.a.reshape(-1):
            acc = sc_add(acc, v)
        return CT(obj_array(acc), dt)
    if isinstance(dim, (tuple, list)):
        r = src
        for d in sorted([_dim(t, x) for x in dim], reverse=True):
            r = m_sum(I, r, d, keepdim)
        return r
    return CT(_reduce(src, dim, sc_add, 0, keepdim), dt)


@method("prod")
def m_prod(I, t, dim=None, keepdim=False, dtype=None):
    if dim is None:
        acc = 1
        for v in t.a.reshape(-1):
            acc = sc_mul(acc, v)
        return CT(obj_array(acc), t.dtype)
    return CT(_reduce(t, dim, sc_mul, 1, keepdim), t.dtype)


@method("mean")
def m_mean(I, t, dim=None, keepdim=False, dtype=None):
    s_ = m_sum(I, t.cast("float") if t.dtype != "float" else t, dim, keepdim)
    n = t.a.size if dim is None else (int(np.prod([t.shape[_dim(t, d)] for d in dim])) if isinstance(dim, (tuple, list)) else t.shape[_dim(t, dim)])
    return CT.ew(lambda x: sc_div(x, n), s_, dtype="float")


@method("any")
def m_any(I, t, dim=None, keepdim=False):
    src = t.cast("bool") if t.dtype != "bool" else t
    if dim is None:
        acc = False
        for v in src.a.reshape(-1):
            acc = sc_or(acc, v)
        return CT(obj_array(acc), "bool")
    return CT(_reduce(src, dim, sc_or, False, keepdim), "bool")


@method("all")
def m_all(I, t, dim=None, keepdim=False):
    src = t.cast("bool") if t.dtype != "bool" else t
    if dim is None:
        acc = True
        for v in src.a.reshape(-1):
            acc = sc_and(acc, v)
        return CT(obj_array(acc), "bool")
    return CT(_reduce(src, dim, sc_and, True, keepdim), "bool")


@method("cumsum")
def m_cumsum(I, t, dim, dtype=None):
    d = _dim(t, dim)
    src = t.cast("long") if t.dtype == "bool" else t
    out = np.empty(src.a.shape, dtype=object)
    moved_in, moved_out = np.moveaxis(src.a, d, -1), np.moveaxis(out, d, -1)
    width = int_width(dtype) if dtype is not None and not isinstance(dtype, str) else None
    for idx in np.ndindex(*moved_in.shape[:-1]):
        acc = 0
        for k in range(moved_in.shape[-1]):
            acc = sc_add(acc, moved_in[idx + (k,)])
            if width is not None:  # the running sum is kept in a narrow integer type: it wraps around
                acc = wrap_int(acc, width)
            moved_out[idx + (k,)] = acc
    r = CT(out, src.dtype)
    if dtype is not None and dtype_tag(dtype) != r.dtype:
        r = r.cast(dtype_tag(dtype))
    return r


def _minmax_reduce(I, t, dim, keepdim, is_min):
    """(values, indices): values = extremum along dim; indices = SOME index attaining it (torch
    documents no tie rule): a fresh integer constrained to be in range and to attain the extremum."""
    d = _dim(t, dim)
    if t.shape[d] == 0:
        raise PyRaise("IndexError", "max(): Expected reduction dim to have non-zero size")  # torch raises IndexError here
    src = t.cast("long") if t.dtype == "bool" else t
    f = sc_min_g if is_min else (lambda a, b: sc_max(a, b))
    vals = _reduce(src, d, f, None, False)
    v = CT(vals, src.dtype if t.dtype != "bool" else "bool")
    if t.dtype == "bool":
        v = CT(vals, "long").cast("bool")

    def make_indices():
        moved = np.moveaxis(src.a, d, -1)
        idxs = np.empty(vals.shape, dtype=object)
        n = t.shape[d]
        for pos in np.ndindex(*vals.shape):
            if n == 1:
                idxs[pos] = 0
                continue
            k = I.ex.fresh("int", "argext")
            att = False
            for j in range(n):
                att = sc_or(att, sc_and(k == j, sc_cmp_g("eq", moved[pos + (j,)], vals[pos])))
            I.ex.assume(z3.And(k >= 0, k < n))
            I.ex.assume(att if not isinstance(att, bool) else z3.BoolVal(att))
            idxs[pos] = k
        I.ex.ghost.setdefault("argext", []).append((src, d, idxs.copy()))  # copy: the index tensor may be written in place later
        return np.expand_dims(idxs, d) if keepdim else idxs

    if keepdim:
        v = CT(np.expand_dims(v.a, d), v.dtype)
    return MinMaxResult(v.fix(), LazyCT(make_indices, "long"))


class LazyCT(CT):
    """index tensor of a min/max reduction, materialised (fresh constrained integers) only if used"""

    def __init__(self, thunk, dtype):
        self._thunk, self._arr, self.dtype = thunk, None, dtype

    @property
    def a(self):
        if self._arr is None:
            self._arr = self._thunk()
        return self._arr

    @a.setter
    def a(self, v):
        self._arr = v


class MinMaxResult(tuple):
    def __new__(cls, v, i):
        return super().__new__(cls, (v, i))

    values = property(lambda s: s[0])
    indices = property(lambda s: s[1])

    def __vc_getattr__(self, I, name):
        if name == "values":
            return self[0]
        if name == "indices":
            return self[1]
        raise Unsupported("attribute %s of a (values, indices) result" % name)

    def __vc_getitem__(self, I, idx):
        return tuple.__getitem__(self, idx)

    def __vc_unpack__(self, I, n):
        if n != 2:
            raise PyRaise("ValueError", "unpack")
        return [self[0], self[1]]


def _minmax(is_min):
    def f(I, t, other=None, keepdim=False, dim=None):
        if isinstance(other, CT):
            g = sc_min_g if is_min else sc_max
            return CT.ew(g, t, other, dtype=promote(t.dtype, other.dtype))
        if dim is None and other is None:
            acc = None
            for v in t.a.reshape(-1):
                acc = v if acc is None else (sc_min_g if is_min else sc_max)(acc, v)
            if acc is None:
                raise PyRaise("RuntimeError", "min/max of an empty tensor")
            return CT(obj_array(acc), t.dtype)
        return _minmax_reduce(I, t, other if dim is None else dim, keepdim, is_min)

    return f


METHODS["min"] = FUNCS["torch.min"] = _minmax(True)
METHODS["max"] = FUNCS["torch.max"] = _minmax(False)
FUNCS["torch.minimum"] = lambda I, a, b: CT.ew(sc_min_g, a, b, dtype=promote(a.dtype, b.dtype))
FUNCS["torch.maximum"] = lambda I, a, b: CT.ew(sc_max, a, b, dtype=promote(a.dtype, b.dtype))
_c("min/max(dim): value is the extremum, index is SOME position attaining it (no tie rule)")


@method("clamp", "clip")
def m_clamp(I, t, min=None, max=None):
    r = t
    if min is not None:
        r = CT.ew(sc_max, r, min, dtype=t.dtype if not isinstance(min, float) else "float")
    if max is not None:
        r = CT.ew(sc_min, r, max, dtype=r.dtype if not isinstance(max, float) else "float")
    return r


METHODS["clamp_min"] = lambda I, t, m: m_clamp(I, t, min=m)
METHODS["clamp_max"] = lambda I, t, m: m_clamp(I, t, max=m)


def _inplace(fn):
    def f(I, t, *a, **k):
        r = fn(I, t, *a, **k)
        t.store(Ellipsis, r if r.dtype == t.dtype else r.cast(t.dtype))
        return t

    return f


METHODS["clamp_"] = _inplace(m_clamp)
METHODS["clamp_min_"] = _inplace(METHODS["clamp_min"])
METHODS["clamp_max_"] = _inplace(METHODS["clamp_max"])
for _n in ("add", "sub", "mul", "div", "neg", "abs", "floor"):
    METHODS[_n + "_"] = _inplace(METHODS[_n])


@method("gather")
def m_gather(I, t, dim, index):
    d = _dim(t, dim)
    out = np.empty(index.shape, dtype=object)
    for pos in np.ndindex(*index.shape):
        k = index.a[pos]
        k = z3.simplify(k) if is_z3(k) else k
        n = t.shape[d]
        if is_z3(k) and z3.is_int_value(k):
            k = k.as_long()
        if not is_z3(k):
            if not 0 <= k < n:
                raise PyRaise("RuntimeError", "gather: index out of bounds")
            out[pos] = t.a[pos[:d] + (int(k),) + pos[d + 1:]]
            continue
        I.ex.oblige("gather.index_in_bounds", z3.And(k >= 0, k < n))
        acc = t.a[pos[:d] + (n - 1,) + pos[d + 1:]]
        for j in range(n - 2, -1, -1):
            acc = sc_where(k == j, t.a[pos[:d] + (j,) + pos[d + 1:]], acc)
        out[pos] = acc
    return CT(out, t.dtype)


@method("triu")
def m_triu(I, t, diagonal=0):
    out = t.a.copy()
    zero = False if t.dtype == "bool" else 0
    for pos in np.ndindex(*t.shape):
        if pos[-1] - pos[-2] < diagonal:
            out[pos] = zero
    return CT(out, t.dtype)


@method("tril")
def m_tril(I, t, diagonal=0):
    out = t.a.copy()
    zero = False if t.dtype == "bool" else 0
    for pos in np.ndindex(*t.shape):
        if pos[-1] - pos[-2] > diagonal:
            out[pos] = zero
    return CT(out, t.dtype)


@method("flip")
def m_flip(I, t, *dims):
    if len(dims) == 1 and isinstance(dims[0], (tuple, list)):
        dims = dims[0]
    return CT(np.flip(t.a, [_dim(t, d) for d in dims]).copy(), t.dtype)


@method("unbind")
def m_unbind(I, t, dim=0):
    d = _dim(t, dim)
    return tuple(CT(np.take(t.a, i, axis=d), t.dtype).fix() for i in range(t.shape[d]))


@method("repeat", func=False)
def m_repeat(I, t, *reps):
    if len(reps) == 1 and isinstance(reps[0], (tuple, list)):
        reps = tuple(reps[0])
    return CT(np.tile(t.a, reps), t.dtype)


@method("repeat_interleave")
def m_repeat_interleave(I, t, repeats, dim=None):
    if not isinstance(repeats, int):
        raise Unsupported("repeat_interleave with a tensor of repeats")
    if dim is None:
        return CT(np.repeat(t.a.reshape(-1), repeats), t.dtype)
    return CT(np.repeat(t.a, repeats, axis=_dim(t, dim)), t.dtype)


def f_isfinite(I, t):
    def fin(x):
        if x is NAN:
            return False
        if isinstance(x, NegGuarded):
            return sc_not(x.ninf)
        if isinstance(x, Guarded):
            return sc_not(x.pinf)
        if is_inf(x):
            return False
        return True  # a symbolic real is finite (NaN is not modelled)
    return CT.ew(fin, t, dtype="bool")


FUNCS["torch.isfinite"] = METHODS["isfinite"] = f_isfinite
_c("isfinite: false exactly at the tracked +-inf entries")
# isneginf / isposinf / isinf: the comparisons with the infinities they abbreviate
FUNCS["torch.isneginf"] = METHODS["isneginf"] = lambda I, t: METHODS["eq"](I, t, -float("inf"))
FUNCS["torch.isposinf"] = METHODS["isposinf"] = lambda I, t: METHODS["eq"](I, t, float("inf"))
FUNCS["torch.isinf"] = METHODS["isinf"] = lambda I, t: CT.ew(sc_or, METHODS["eq"](I, t, -float("inf")), METHODS["eq"](I, t, float("inf")), dtype="bool")


@method("matmul", "mm")
def m_matmul(I, a, b):
    if len(a.shape) != 2 or len(b.shape) != 2 or a.shape[1] != b.shape[0]:
        raise Unsupported("matmul beyond 2-D x 2-D")
    out = np.empty((a.shape[0], b.shape[1]), dtype=object)
    for i in range(a.shape[0]):
        for j in range(b.shape[1]):
            acc = 0
            for k in range(a.shape[1]):
                acc = sc_add(acc, sc_mul(a.a[i, k], b.a[k, j]))
            out[i, j] = acc
    return CT(out, promote(a.dtype, b.dtype))


# -- module-level constructors ------------------------------------------------------------------------


def _shape_args(sizes):
    if len(sizes) == 1 and isinstance(sizes[0], (tuple, list)):
        sizes = tuple(sizes[0])
    out = []
    for s in sizes:
        if is_z3(s):
            s2 = z3.simplify(s)
            if not z3.is_int_value(s2):
                raise Unsupported("symbolic size in concrete-shape mode")
            s = s2.as_long()
        out.append(int(s))
    return tuple(out)


def f_full(I, size, fill_value, dtype=None, device=None, **k):
    dt = dtype_tag(dtype, scalar_dtype(fill_value))
    v = fill_value
    if dt == "float" and isinstance(v, int) and not isinstance(v, bool):
        v = Fraction(v)
    return CT(obj_array(v, _shape_args((size,))), dt)


def f_zeros(I, *size, dtype=None, device=None, **k):
    dt = dtype_tag(dtype, "float")
    return CT(obj_array(False if dt == "bool" else 0, _shape_args(size)), dt)


def f_ones(I, *size, dtype=None, device=None, **k):
    dt = dtype_tag(dtype, "float")
    return CT(obj_array(True if dt == "bool" else 1, _shape_args(size)), dt)


def f_empty(I, *size, dtype=None, device=None, **k):
    dt = dtype_tag(dtype, "float")
    shape = _shape_args(size)
    a = np.empty(shape, dtype=object)
    for pos in np.ndindex(*shape):  # uninitialised memory: arbitrary values
        a[pos] = I.ex.fresh({"long": "int", "float": "real", "bool": "bool"}[dt], "uninit")
    return CT(a, dt)


def f_like(kind):
    def f(I, t, *a, dtype=None, device=None, **k):
        dt = dtype_tag(dtype, t.dtype)
        if kind == "full":
            return f_full(I, t.shape, a[0], dtype=dt)
        if kind == "zeros":
            return f_zeros(I, t.shape, dtype=dt)
        if kind == "ones":
            return f_ones(I, t.shape, dtype=dt)
        return f_empty(I, t.shape, dtype=dt)

    return f


def f_arange(I, *args, dtype=None, device=None, **k):
    vals = []
    for x in args:
        if is_z3(x):
            x2 = z3.simplify(x)
            if not z3.is_int_value(x2):
                raise Unsupported("arange with symbolic bounds in concrete-shape mode")
            x = x2.as_long()
        vals.append(x)
    if any(isinstance(v, float) for v in vals):
        raise Unsupported("float arange")
    r = list(range(*vals))
    dt = dtype_tag(dtype, "long")
    a = np.empty((len(r),), dtype=object)
    for i, v in enumerate(r):
        a[i] = v
    return CT(a, dt)


def f_tensor(I, data, dtype=None, device=None, **k):
    if isinstance(data, CT):
        return data if dtype is None else data.cast(dtype_tag(dtype))
    arr = np.array(data, dtype=object) if not isinstance(data, (int, float, bool)) and not is_z3(data) else obj_array(data)
    flat = list(arr.reshape(-1))
    dt = dtype_tag(dtype, None)
    if dt is None:
        dt = "float" if any(scalar_dtype(v) == "float" for v in flat) else ("bool" if flat and all(scalar_dtype(v) == "bool" for v in flat) else "long")
        if not flat:
            dt = "float"
    return CT(arr, dt)


def f_stack(I, ts, dim=0):
    ts = list(ts)
    if not ts:
        raise PyRaise("RuntimeError", "stack expects a non-empty TensorList")
    return CT(np.stack([t.a for t in ts], axis=dim), ts[0].dtype)


def f_cat(I, ts, dim=0):
    ts = [t for t in ts if not (len(t.shape) == 1 and t.shape[0] == 0)] or list(ts)
    dt = ts[0].dtype
    for t in ts[1:]:
        dt = promote(dt, t.dtype)
    try:
        return CT(np.concatenate([(t if t.dtype == dt else t.cast(dt)).a for t in ts], axis=dim), dt)
    except ValueError as e:
        raise PyRaise("RuntimeError", str(e))


FUNCS.update({
    "torch.full": f_full, "torch.zeros": f_zeros, "torch.ones": f_ones, "torch.empty": f_empty,
    "torch.full_like": f_like("full"), "torch.zeros_like": f_like("zeros"), "torch.ones_like": f_like("ones"), "torch.empty_like": f_like("empty"),
    "torch.arange": f_arange, "torch.tensor": f_tensor, "torch.as_tensor": f_tensor, "torch.stack": f_stack, "torch.cat": f_cat,
    "torch.where": m_where,
})
for _k in ("full", "zeros", "ones", "empty(arbitrary contents)", "arange", "stack", "cat", "where"):
    _c(_k)


# -- softmax: assumed contract ---------------------------------------------------------------------------------------------
_SM = {}


def f_softmax(I, t, dim=-1, **k):
    """softmax along dim. Contract: weights >= 0; they sum to 1 when some score is not -inf; a weight is 0 where the
    score is -inf; the weights are a FUNCTION of (which scores are -inf, the finite scores) - uninterpreted otherwise."""
    d = _dim(t, dim)
    moved = np.moveaxis(t.a, d, -1)
    out = np.empty(moved.shape, dtype=object)
    T = moved.shape[-1]
    if T not in _SM:
        _SM[T] = [z3.Function("softmax_%d_of_%d" % (j, T), *([z3.BoolSort()] * T + [z3.RealSort()] * T + [z3.RealSort()])) for j in range(T)]
    for pos in np.ndindex(*moved.shape[:-1]):
        ms, es = [], []
        for j in range(T):
            x = moved[pos + (j,)]
            if isinstance(x, NegGuarded):
                m, v = x.ninf, x.val
            elif _is_ninf(x):
                m, v = True, 0
            elif is_inf(x) or isinstance(x, Guarded):
                raise Unsupported("softmax of +inf")
            else:
                m, v = False, x
            m = z3.BoolVal(m) if isinstance(m, bool) else m
            v = to_z3(v)
            v = z3.ToReal(v) if z3.is_int(v) else v
            ms.append(m)
            es.append(z3.If(m, z3.RealVal(0), v))
        ws = [z3.If(ms[j], z3.RealVal(0), _SM[T][j](*(ms + es))) for j in range(T)]
        I.ex.assume(z3.And([w >= 0 for w in ws] + [z3.Implies(z3.Not(z3.And(ms)), z3.Sum(ws) == 1)]))
        for j in range(T):
            out[pos + (j,)] = ws[j]
    return CT(np.moveaxis(out, -1, d), "float")


FUNCS["torch.nn.functional.softmax"] = f_softmax
METHODS["softmax"] = f_softmax
_c("softmax: non-negative weights summing to one, zero at -inf scores, a function of the finite scores and the -inf pattern")


def f_pow(I, base, exp):
    """torch.pow(scalar or tensor, tensor or scalar) for NON-NEGATIVE INTEGER exponents known concretely (x**k = x*...*x)."""
    def one(b, e):
        if isinstance(e, Fraction) and e.denominator == 1:
            e = int(e)
        if isinstance(e, float) and e == int(e):
            e = int(e)
        if not isinstance(e, int) or isinstance(e, bool):
            raise Unsupported("pow with a symbolic or fractional exponent")
        if e < 0:
            raise Unsupported("pow with a negative exponent")
        r = 1
        for _ in range(e):
            r = sc_mul(r, b)
        return r
    return CT.ew(one, base, exp, dtype="float")


FUNCS["torch.pow"] = f_pow
METHODS["pow"] = f_pow
_c("pow with concrete non-negative integer exponents = repeated product")


def m_topk(I, t, k, dim=-1, largest=True, sorted=True):
    """topk contract: k values in non-increasing order with pairwise distinct in-range indices, value = element at the
    index, and every element not selected is <= the smallest selected value. No tie rule."""
    if not largest:
        raise Unsupported("topk(largest=False)")
    d = _dim(t, dim)
    if is_z3(k):
        k = z3.simplify(k).as_long()
    n = t.shape[d]
    if k > n:
        raise PyRaise("RuntimeError", "selected index k out of range")
    moved = np.moveaxis(t.a, d, -1)
    vals = np.empty(moved.shape[:-1] + (k,), dtype=object)
    idxs = np.empty(moved.shape[:-1] + (k,), dtype=object)
    for pos in np.ndindex(*moved.shape[:-1]):
        row = [moved[pos + (j,)] for j in range(n)]
        if any(isinstance(x, NegGuarded) or _is_ninf(x) for x in row):
            # same contract over -inf-or-finite elements (-inf is the smallest value): the reported value is the element at the index
            ks = [I.ex.fresh("int", "topk_idx") for _ in range(k)]
            vs = [NegGuarded(I.ex.fresh("bool", "topk_ninf"), I.ex.fresh("real", "topk_val")) for _ in range(k)]
            cons = []
            for a in range(k):
                cons.append(z3.And(ks[a] >= 0, ks[a] < n))
                for j in range(n):
                    fj, vj = ng_split(row[j])
                    fj = z3.BoolVal(fj) if isinstance(fj, bool) else fj
                    cons.append(z3.Implies(ks[a] == j, z3.And(vs[a].ninf == fj, z3.Implies(z3.Not(fj), vs[a].val == to_z3(vj, vs[a].val)))))
                for b in range(a + 1, k):
                    cons.append(ks[a] != ks[b])
                    cons.append(ng_cmp("ge", vs[a], vs[b]))
            for j in range(n):
                if k:
                    cons.append(z3.Implies(z3.And([ks[a] != j for a in range(k)]), ng_cmp("le", row[j], vs[k - 1])))
            I.ex.assume(z3.And(cons) if cons else z3.BoolVal(True))
            for a in range(k):
                vals[pos + (a,)] = vs[a]
                idxs[pos + (a,)] = ks[a]
            continue
        ks = [I.ex.fresh("int", "topk_idx") for _ in range(k)]
        vs = [I.ex.fresh("real", "topk_val") for _ in range(k)]
        cons = []
        for a in range(k):
            cons.append(z3.And(ks[a] >= 0, ks[a] < n))
            pick = False
            for j in range(n):
                x = row[j]
                eq = sc_cmp_g("eq", vs[a], x) if not is_inf(x) else False
                pick = sc_or(pick, sc_and(ks[a] == j, eq))
            cons.append(pick if not isinstance(pick, bool) else z3.BoolVal(pick))
            for b in range(a + 1, k):
                cons.append(ks[a] != ks[b])
                cons.append(vs[a] >= vs[b])
        for j in range(n):  # optimality: an element that was not selected does not exceed the last selected value
            if k:
                notsel = z3.And([ks[a] != j for a in range(k)])
                le = sc_cmp_g("le", row[j], vs[k - 1])
                cons.append(z3.Implies(notsel, le if not isinstance(le, bool) else z3.BoolVal(le)))
        I.ex.assume(z3.And(cons) if cons else z3.BoolVal(True))
        for a in range(k):
            vals[pos + (a,)] = vs[a]
            idxs[pos + (a,)] = ks[a]
    return MinMaxResult(CT(np.moveaxis(vals, -1, d), "float"), CT(np.moveaxis(idxs, -1, d), "long"))


METHODS["topk"] = FUNCS["torch.topk"] = m_topk
_c("topk: sorted values, distinct in-range indices, value = element at index, unselected <= last selected; -inf elements are never reported with a finite value")


def m_scatter(I, t, dim, index, src):
    """out = t.clone(); out[index[pos]] along dim := src[pos] (indices assumed distinct along dim per position, as torch requires for determinism)"""
    d = _dim(t, dim)
    out = t.a.copy()
    srcv = CT.wrap(src)
    for pos in np.ndindex(*index.shape):
        k = index.a[pos]
        k = z3.simplify(k) if is_z3(k) else k
        v = srcv.a[pos] if srcv.a.shape else srcv.a[()]
        n = t.shape[d]
        if is_z3(k) and z3.is_int_value(k):
            k = k.as_long()
        if not is_z3(k):
            out[pos[:d] + (int(k),) + pos[d + 1:]] = v
            continue
        I.ex.oblige("scatter.index_in_bounds", z3.And(k >= 0, k < n))
        for j in range(n):
            q = pos[:d] + (j,) + pos[d + 1:]
            out[q] = sc_where(k == j, v, out[q])
    return CT(out, t.dtype)


METHODS["scatter"] = FUNCS["torch.scatter"] = m_scatter


def f_one_hot(I, t, num_classes=-1):
    if num_classes is None or (isinstance(num_classes, int) and num_classes < 0):
        raise Unsupported("one_hot without num_classes (data-dependent shape)")
    V = int(num_classes)
    out = np.empty(t.shape + (V,), dtype=object)
    for pos in np.ndindex(*t.shape):
        x = t.a[pos]
        if is_z3(x):
            I.ex.oblige("one_hot.class_in_range", z3.And(x >= 0, x < V))
        elif not (0 <= int(x) < V):
            raise PyRaise("RuntimeError", "Class values must be smaller than num_classes.")
        for v in range(V):
            out[pos + (v,)] = sc_where(to_z3(x) == v, 1, 0) if is_z3(x) else int(int(x) == v)
    return CT(out, "long")


FUNCS["torch.nn.functional.one_hot"] = FUNCS["torch._C._nn.one_hot"] = f_one_hot
_c("one_hot(x, V)[..., v] = [x = v], classes in range")
