"""Differential test of the assumed torch contracts of vf/pyvc/ctensor.py against real torch.

Every modelled primitive is run (i) through the model on CONCRETE tensors (exact rationals / integers / booleans) and
(ii) natively in float64 / int64; deterministic primitives must agree element-wise, and for the primitives whose contract
leaves a choice (top-k, min/max index along a dimension, softmax) the native result must SATISFY the contract's constraints
(checked with z3: path condition + "outputs = what torch returned" satisfiable). A disagreement is an engine error (exit 3):
it means obligations were discharged against a model that is not the library the code runs on.

Run on every check that uses the concrete-shape symbolic rung (guard clause `<property>.guard.torch_contracts`).
"""
from __future__ import annotations

import ast
import random
from fractions import Fraction

import numpy as np
import z3


def _to_ct(t):
    from . import ctensor as ct

    a = np.empty(tuple(t.shape), dtype=object)
    flat = t.reshape(-1).tolist()
    tag = "bool" if str(t.dtype) == "torch.bool" else ("float" if t.is_floating_point() else "long")
    vals = [bool(x) if tag == "bool" else (Fraction(x) if tag == "float" else int(x)) for x in flat]
    a.reshape(-1)[:] = np.array(vals + [None], dtype=object)[:-1] if vals else []
    return ct.CT(a, tag)


def _same(model, native, tol=1e-9):
    """model: CT with concrete contents (or python scalar / tuple); native: torch tensor (or scalar / tuple)"""
    import torch

    from . import ctensor as ct

    if isinstance(model, (tuple, list)) and isinstance(native, (tuple, list, torch.Size)):
        return len(model) == len(native) and all(_same(m, n, tol) for m, n in zip(model, native))
    if isinstance(model, ct.CT):
        if not isinstance(native, torch.Tensor) or tuple(model.shape) != tuple(native.shape):
            return False
        for m, n in zip(model.a.reshape(-1), native.reshape(-1).tolist()):
            if not _same(m, n, tol):
                return False
        return True
    if isinstance(native, torch.Tensor):
        native = native.item()
    if isinstance(model, z3.ExprRef):
        model = z3.simplify(model)
        if z3.is_true(model) or z3.is_false(model):
            model = z3.is_true(model)
        elif z3.is_int_value(model):
            model = model.as_long()
        elif z3.is_rational_value(model):
            model = Fraction(model.numerator_as_long(), model.denominator_as_long())
        else:
            return False
    if isinstance(model, bool) or isinstance(native, bool):
        return bool(model) == bool(native)
    if isinstance(native, float) and (native != native or native in (float("inf"), float("-inf"))):
        return isinstance(model, float) and model == native
    return abs(float(model) - float(native)) <= tol * (1 + abs(float(native)))


def _mk_interp():
    from . import interp as ip

    ex = ip.Explorer()
    ex._begin([])
    ex.worklist = []
    return ip.Interp(ex)


def run(seed=0, rounds=6):
    """-> (number of comparisons, list of disagreement messages)"""
    import torch

    from . import ctensor as ct

    rng = random.Random(1234 + seed)
    bad, n = [], [0]
    M, F = ct.METHODS, ct.FUNCS

    def rt(shape, kind="float"):
        numel = int(np.prod(shape)) if shape else 1
        if kind == "float":
            return torch.tensor([rng.randint(-8, 8) / 4.0 for _ in range(numel)], dtype=torch.float64).reshape(shape)
        if kind == "long":
            return torch.tensor([rng.randint(-3, 5) for _ in range(numel)], dtype=torch.long).reshape(shape)
        return torch.tensor([rng.random() < 0.5 for _ in range(numel)], dtype=torch.bool).reshape(shape)

    def case(name, model_fn, native_fn):
        n[0] += 1
        try:
            native = native_fn()
        except Exception as e:  # native raises: the model must raise too
            try:
                model_fn(_mk_interp())
            except Exception:
                return
            bad.append("%s: torch raises %s, the model does not" % (name, type(e).__name__))
            return
        try:
            model = model_fn(_mk_interp())
        except Exception as e:
            bad.append("%s: the model raises %s: %s" % (name, type(e).__name__, str(e)[:80]))
            return
        try:
            ok = _same(model, native)
        except Exception as e:
            ok = False
            model = "%r (not comparable: %s)" % (model, e)
        if not ok:
            bad.append("%s: model %r vs torch %r" % (name, getattr(model, "a", model) if not isinstance(model, tuple) else model, native))

    for _ in range(rounds):
        sh = rng.choice([(3,), (2, 3), (3, 2), (2, 2, 3), (1, 3)])
        x, y = rt(sh), rt(sh)
        xi, yi = rt(sh, "long"), rt(sh, "long")
        b, b2 = rt(sh, "bool"), rt(sh, "bool")
        X, Y, XI, YI, B, B2 = (_to_ct(t) for t in (x, y, xi, yi, b, b2))
        # element-wise arithmetic and comparisons (with broadcasting of the last dimension)
        for op, f in ((ast.Add(), lambda a, c: a + c), (ast.Sub(), lambda a, c: a - c), (ast.Mult(), lambda a, c: a * c)):
            case("float %s" % type(op).__name__, lambda I, op=op: X.binop(op, Y, False), lambda f=f: f(x, y))
            case("long %s" % type(op).__name__, lambda I, op=op: XI.binop(op, YI, False), lambda f=f: f(xi, yi))
            case("float %s scalar" % type(op).__name__, lambda I, op=op: X.binop(op, 3, False), lambda f=f: f(x, 3))
            case("broadcast %s" % type(op).__name__, lambda I, op=op: X.binop(op, _to_ct(y[..., :1]), False), lambda f=f: f(x, y[..., :1]))
        yz = y.clone()
        yz[yz == 0] = 1.5
        case("float div", lambda I: X.binop(ast.Div(), _to_ct(yz), False), lambda: x / yz)
        yp = yi.abs() + 1
        case("long floordiv", lambda I: XI.binop(ast.FloorDiv(), _to_ct(yp), False), lambda: torch.div(xi, yp, rounding_mode="floor"))
        case("long mod", lambda I: XI.binop(ast.Mod(), _to_ct(yp), False), lambda: xi % yp)
        for nm in ("lt", "le", "gt", "ge", "eq", "ne"):
            case(nm, lambda I, nm=nm: M[nm](I, XI, YI), lambda nm=nm: getattr(xi, nm)(yi))
        case("and", lambda I: B.binop(ast.BitAnd(), B2, False), lambda: b & b2)
        case("or", lambda I: B.binop(ast.BitOr(), B2, False), lambda: b | b2)
        case("not", lambda I: B.__vc_unop__(I, ast.Invert()), lambda: ~b)
        case("neg", lambda I: M["neg"](I, X), lambda: -x)
        case("abs", lambda I: M["abs"](I, X), lambda: x.abs())
        case("floor", lambda I: M["floor"](I, X), lambda: x.floor())
        case("float->long truncates", lambda I: M["long"](I, X), lambda: x.long())
        case("long->float", lambda I: M["float"](I, XI), lambda: xi.double())
        case("bool->long", lambda I: M["long"](I, B), lambda: b.long())
        case("long * bool", lambda I: XI.binop(ast.Mult(), B, False), lambda: xi * b)
        case("long + bool", lambda I: XI.binop(ast.Add(), B, False), lambda: xi + b)
        case("where", lambda I: F["torch.where"](I, B, X, Y), lambda: torch.where(b, x, y))
        case("masked_fill", lambda I: M["masked_fill"](I, X, B, 7.0), lambda: x.masked_fill(b, 7.0))
        case("bool * bool", lambda I: B.binop(ast.Mult(), B2, False), lambda: b * b2)
        case(".where method", lambda I: M["where"](I, X, B, Y), lambda: x.where(b, y))
        case("torch.where", lambda I: F["torch.where"](I, B, X, Y), lambda: torch.where(b, x, y))
        case("isneginf", lambda I: F["torch.isneginf"](I, M["masked_fill"](I, X, B, float("-inf"))), lambda: torch.isneginf(x.masked_fill(b, float("-inf"))))
        case("isposinf", lambda I: M["isposinf"](I, M["masked_fill"](I, X, B, float("inf"))), lambda: x.masked_fill(b, float("inf")).isposinf())
        case("isinf", lambda I: F["torch.isinf"](I, M["masked_fill"](I, X, B, float("-inf"))), lambda: torch.isinf(x.masked_fill(b, float("-inf"))))
        case("clamp", lambda I: M["clamp"](I, X, min=-1, max=1), lambda: x.clamp(min=-1, max=1))
        case("clamp max only", lambda I: M["clamp"](I, XI, max=2), lambda: xi.clamp(max=2))
        case("minimum", lambda I: F["torch.minimum"](I, X, Y), lambda: torch.minimum(x, y))
        case("maximum", lambda I: F["torch.maximum"](I, X, Y), lambda: torch.maximum(x, y))
        case("min elementwise", lambda I: M["min"](I, X, Y), lambda: torch.min(x, y))
        # reductions
        for d in range(len(sh)):
            case("sum dim %d" % d, lambda I, d=d: M["sum"](I, X, d), lambda d=d: x.sum(d))
            case("long sum dim %d" % d, lambda I, d=d: M["sum"](I, XI, d), lambda d=d: xi.sum(d))
            case("bool sum dim %d" % d, lambda I, d=d: M["sum"](I, B, d), lambda d=d: b.sum(d))
            case("cumsum dim %d" % d, lambda I, d=d: M["cumsum"](I, XI, d), lambda d=d: xi.cumsum(d))
            case("any dim %d" % d, lambda I, d=d: M["any"](I, B, d), lambda d=d: b.any(d))
            case("all dim %d" % d, lambda I, d=d: M["all"](I, B, d), lambda d=d: b.all(d))
            case("prod dim %d" % d, lambda I, d=d: M["prod"](I, X, d), lambda d=d: x.prod(d))
            case("mean dim %d" % d, lambda I, d=d: M["mean"](I, X, d), lambda d=d: x.mean(d))
            case("flip dim %d" % d, lambda I, d=d: M["flip"](I, X, [d]), lambda d=d: x.flip([d]))
            case("unsqueeze %d" % d, lambda I, d=d: M["unsqueeze"](I, X, d), lambda d=d: x.unsqueeze(d))
            case("min value dim %d" % d, lambda I, d=d: M["min"](I, X, d)[0], lambda d=d: x.min(d)[0])
            case("max value dim %d" % d, lambda I, d=d: M["max"](I, X, d)[0], lambda d=d: x.max(d)[0])
        case("sum all", lambda I: M["sum"](I, X), lambda: x.sum())
        case("any all", lambda I: M["any"](I, B), lambda: b.any())
        case("all all", lambda I: M["all"](I, B), lambda: b.all())
        # shape manipulation
        case("flatten", lambda I: M["flatten"](I, X), lambda: x.flatten())
        case("reshape", lambda I: M["reshape"](I, X, -1, sh[-1]), lambda: x.reshape(-1, sh[-1]))
        case("unsqueeze -1", lambda I: M["unsqueeze"](I, X, -1), lambda: x.unsqueeze(-1))
        case("cat 0", lambda I: F["torch.cat"](I, [X, Y], 0), lambda: torch.cat([x, y], 0))
        case("cat -1", lambda I: F["torch.cat"](I, [X, Y], -1), lambda: torch.cat([x, y], -1))
        case("stack 0", lambda I: F["torch.stack"](I, [X, Y], 0), lambda: torch.stack([x, y], 0))
        case("stack -1", lambda I: F["torch.stack"](I, [X, Y], -1), lambda: torch.stack([x, y], -1))
        case("repeat", lambda I: M["repeat"](I, X, *([2] * len(sh))), lambda: x.repeat(*([2] * len(sh))))
        case("slice", lambda I: X.__vc_getitem__(I, (Ellipsis, slice(1, None))), lambda: x[..., 1:])
        case("negative index", lambda I: X.__vc_getitem__(I, -1), lambda: x[-1])
        if len(sh) >= 2:
            case("transpose", lambda I: M["transpose"](I, X, 0, -1), lambda: x.transpose(0, -1))
            case("triu", lambda I: M["triu"](I, X, 1), lambda: x.triu(1))
            case("tril", lambda I: M["tril"](I, X), lambda: x.tril())
            case("expand", lambda I: M["expand"](I, _to_ct(x[:1]), *sh), lambda: x[:1].expand(*sh))
            idx = torch.tensor([[rng.randrange(sh[-1]) for _ in range(sh[-1])] for _ in range(int(np.prod(sh[:-1])))]).reshape(sh)
            case("gather -1", lambda I: M["gather"](I, X, -1, _to_ct(idx)), lambda: x.gather(-1, idx))
            perm = torch.stack([torch.randperm(sh[-1], generator=torch.Generator().manual_seed(rng.randrange(10 ** 6))) for _ in range(int(np.prod(sh[:-1])))]).reshape(sh)
            case("scatter -1", lambda I: M["scatter"](I, X, -1, _to_ct(perm), Y), lambda: x.scatter(-1, perm, y))
            case("scatter scalar", lambda I: M["scatter"](I, X, -1, _to_ct(perm[..., :1]), 0.0), lambda: x.scatter(-1, perm[..., :1], 0.0))
        if len(sh) == 2:
            case("t", lambda I: M["t"](I, X), lambda: x.t())
            case("matmul", lambda I: M["matmul"](I, X, _to_ct(y.t().contiguous())), lambda: x @ y.t())
            sel = lambda ms: _to_ct(torch.tensor([float(v) for c_, v in zip(ms.conds, ms.vals) if c_], dtype=torch.float64)) if isinstance(ms, ct.MaskedSel) else ms
            case("masked_select", lambda I: sel(M["masked_select"](I, X, B)), lambda: x.masked_select(b))
            case("boolean index", lambda I: sel(X.__vc_getitem__(I, B)), lambda: x[b])
            case("masked_scatter from a tensor", lambda I: M["masked_scatter"](I, X, B, Y), lambda: x.masked_scatter(b, y))
            allb = torch.ones_like(b)
            case("masked_scatter from a selection (stable compaction)", lambda I: M["masked_scatter"](I, X, B, M["masked_select"](I, Y, _to_ct(allb))), lambda: x.masked_scatter(b, y.masked_select(allb)))
        if len(sh) == 1:
            case("nonzero", lambda I: F["torch.nonzero"](I, B), lambda: torch.nonzero(b))
            cls = xi.clamp(0, 3)
            case("one_hot", lambda I: F["torch.nn.functional.one_hot"](I, _to_ct(cls), 4), lambda: torch.nn.functional.one_hot(cls, 4))
        e = rt(sh[-1:], "long").clamp(0, 3)
        case("pow scalar ** tensor", lambda I: F["torch.pow"](I, Fraction(3, 2), _to_ct(e.double())), lambda: torch.pow(1.5, e.double()))
        case("arange", lambda I: F["torch.arange"](I, 5), lambda: torch.arange(5))
        case("full", lambda I: F["torch.full"](I, (2, 2), 3), lambda: torch.full((2, 2), 3))
        # contracts that leave a choice: what torch returns must satisfy the assumed constraints
        n[0] += 3
        d = rng.randrange(len(sh))
        for nm, fn in (("min", torch.min), ("max", torch.max)):
            I = _mk_interp()
            res = M[nm](I, X, d)
            tv, ti = fn(x, d)
            idxs = res[1]
            cons = list(I.ex.pc) + [z3.IntVal(int(v)) == a for a, v in zip(_lazy(idxs, I), ti.reshape(-1).tolist()) if isinstance(a, z3.ExprRef)]
            s = z3.Solver()
            s.add(cons)
            if s.check() != z3.sat or not _same(res[0], tv):
                bad.append("%s(dim=%d): torch's (value, index) does not satisfy the contract" % (nm, d))
        k = rng.randint(1, sh[-1])
        I = _mk_interp()
        res = M["topk"](I, X, k, -1)
        tv, ti = x.topk(k, -1)
        cons = list(I.ex.pc)
        for a, v in zip(res[0].a.reshape(-1), tv.reshape(-1).tolist()):
            cons.append(a == z3.RealVal(str(Fraction(v))))
        for a, v in zip(res[1].a.reshape(-1), ti.reshape(-1).tolist()):
            cons.append(a == int(v))
        s = z3.Solver()
        s.add(cons)
        if s.check() != z3.sat:
            bad.append("topk(k=%d): torch's result does not satisfy the contract (%s, %s)" % (k, tv.tolist(), ti.tolist()))
        # softmax with -inf entries
        n[0] += 1
        sc = x.clone()
        mask = b.clone()
        mask[..., 0] = False  # keep at least one finite score per row
        sc = sc.masked_fill(mask, float("-inf"))
        I = _mk_interp()
        res = F["torch.nn.functional.softmax"](I, M["masked_fill"](I, X, _to_ct(mask), float("-inf")), -1)
        tv = torch.softmax(sc, -1)
        cons = list(I.ex.pc)
        for a, v in zip(res.a.reshape(-1), tv.reshape(-1).tolist()):
            if isinstance(a, z3.ExprRef):
                cons.append(z3.And(a >= z3.RealVal(str(Fraction(v))) - z3.RealVal("1/1000000000"), a <= z3.RealVal(str(Fraction(v))) + z3.RealVal("1/1000000000")))
            elif not _same(a, v):
                bad.append("softmax: concrete weight %r vs torch %r" % (a, v))
        s = z3.Solver()
        s.add(cons)
        if s.check() != z3.sat:
            bad.append("softmax: torch's weights do not satisfy the contract")
    return n[0], bad


def _lazy(idxs, I):
    """indices of min/max(dim) are created lazily on first access"""
    out = []
    for pos in np.ndindex(*idxs.shape):
        out.append(idxs.a[pos] if not hasattr(idxs, "force") else idxs.force(I, pos))
    return out


def guard(ctx):
    """record the differential test as a guard clause of the running check (once per process)"""
    from .. import core

    if getattr(ctx, "_torch_contracts_checked", False):
        return
    ctx._torch_contracts_checked = True
    n, bad = run(seed=ctx.seed, rounds=4 if ctx.quick else 12)
    c = core.Clause(name="%s.guard.torch_contracts" % ctx.prop, kind="guard", status="ok" if not bad else "error", evaluations=n,
                    text="assumed torch contracts of vf/pyvc/ctensor.py agree with real torch on seeded random concrete tensors (deterministic primitives element-wise; top-k, min/max index and softmax: torch's result satisfies the contract)",
                    detail="%d disagreements%s" % (len(bad), (" first: %s" % bad[0][:300]) if bad else ""))
    ctx.add_clause(c)
    if bad:
        ctx.errors.append("torch contract disagreement: %s" % bad[0][:200])


if __name__ == "__main__":
    import sys

    n, bad = run(rounds=int(sys.argv[1]) if len(sys.argv) > 1 else 6)
    print("%d comparisons, %d disagreements" % (n, len(bad)))
    for b in bad[:40]:
        print("  ", b[:300])
