"""Locating the verified text: functions and fragments are extracted from /repo's working tree
on every run (never cached), by module + qualified name, and hashed for the evidence."""
import ast
import hashlib
import os

from ..core import REPO

_cache = {}


def module_path(modname: str) -> str:
    # "pydrobert.torch._dataloaders" -> /repo/src/pydrobert/torch/_dataloaders.py
    return os.path.join(REPO, "src", *modname.split(".")) + ".py"


def module_ast(modname: str) -> ast.Module:
    if modname not in _cache:
        with open(module_path(modname)) as f:
            src = f.read()
        _cache[modname] = (ast.parse(src), src)
    return _cache[modname][0]


def module_src(modname: str) -> str:
    module_ast(modname)
    return _cache[modname][1]


def _defs_at_level(body):
    """definitions of one scope in source order, looking through if / try / with blocks (version switches) but not into
    functions or classes"""
    out = []
    for n in body:
        if isinstance(n, (ast.FunctionDef, ast.ClassDef, ast.AsyncFunctionDef)):
            out.append(n)
        elif isinstance(n, ast.If):
            out += _defs_at_level(n.body) + _defs_at_level(n.orelse)
        elif isinstance(n, ast.Try):
            out += _defs_at_level(n.body) + [d for h in n.handlers for d in _defs_at_level(h.body)] + _defs_at_level(n.orelse) + _defs_at_level(n.finalbody)
        elif isinstance(n, ast.With):
            out += _defs_at_level(n.body)
    return out


def find_def(modname: str, qualname: str, ordinal: int = -1, firstlineno=None):
    """FunctionDef/ClassDef by dotted qualified name inside the module ('Cls.method', 'func').
    When a name is defined several times at one level (typing.overload stubs followed by the implementation, or one definition
    per branch of a version switch) the one Python bound is identified by `firstlineno` (the code object's first line, which is
    the first decorator's line) when the caller has the function object; otherwise the LAST definition at the top level of the
    scope, as before."""
    node = module_ast(modname)
    parts = qualname.split(".")
    for pi, part in enumerate(parts):
        top = [n for n in node.body if isinstance(n, (ast.FunctionDef, ast.ClassDef, ast.AsyncFunctionDef)) and n.name == part]
        cands = [n for n in _defs_at_level(node.body) if n.name == part]
        if not cands:
            raise KeyError("%s: no definition %r (in %s)" % (modname, part, qualname))
        if pi == len(parts) - 1:
            if firstlineno is not None:
                hit = [n for n in cands if min([n.lineno] + [d.lineno for d in n.decorator_list]) == firstlineno]
                if hit:
                    node = hit[0]
                    continue
            node = (top or cands)[ordinal]
        else:
            node = (top or cands)[-1]
    return node


def seg_hash(modname: str, node: ast.AST) -> str:
    seg = ast.get_source_segment(module_src(modname), node) or ast.unparse(node)
    return hashlib.sha256(seg.encode()).hexdigest()[:16]


def find_loops(fn: ast.AST, kind=(ast.For, ast.While)):
    """Loops of a function in source order (the 'loop ordinal' used by sidecar invariants)."""
    out = []

    class V(ast.NodeVisitor):
        def visit_For(self, n):
            if isinstance(n, kind):
                out.append(n)
            self.generic_visit(n)

        def visit_While(self, n):
            if isinstance(n, kind):
                out.append(n)
            self.generic_visit(n)

        def visit_FunctionDef(self, n):
            if n is fn:
                self.generic_visit(n)

    V().visit(fn)
    return out
