"""Locating the verified text: functions and fragments are extracted from /repo's working tree
on every run (never cached), by module + qualified name, and hashed for the evidence."""
import ast
import hashlib
import os

from ..core import REPO

_cache = {}


def module_path(modname: str) -> str:
    # "pydrobert.torch._dataloaders" -> /repo/src/pydrobert/torch/_dataloaders.py
    return os.path.join(REPO, "src", *modname.split(".")) + ".py"


def module_ast(modname: str) -> ast.Module:
    if modname not in _cache:
        with open(module_path(modname)) as f:
            src = f.read()
        _cache[modname] = (ast.parse(src), src)
    return _cache[modname][0]


def module_src(modname: str) -> str:
    module_ast(modname)
    return _cache[modname][1]


def find_def(modname: str, qualname: str, ordinal: int = -1):
    """FunctionDef/ClassDef by dotted qualified name inside the module ('Cls.method', 'func').
    When a name is defined several times at one level (typing.overload stubs followed by the
    implementation) the LAST definition is the one Python binds, hence ordinal=-1."""
    node = module_ast(modname)
    for part in qualname.split("."):
        cands = [n for n in node.body if isinstance(n, (ast.FunctionDef, ast.ClassDef, ast.AsyncFunctionDef)) and n.name == part]
        if not cands:
            raise KeyError("%s: no definition %r (in %s)" % (modname, part, qualname))
        node = cands[ordinal] if part == qualname.split(".")[-1] else cands[-1]
    return node


def seg_hash(modname: str, node: ast.AST) -> str:
    seg = ast.get_source_segment(module_src(modname), node) or ast.unparse(node)
    return hashlib.sha256(seg.encode()).hexdigest()[:16]


def find_loops(fn: ast.AST, kind=(ast.For, ast.While)):
    """Loops of a function in source order (the 'loop ordinal' used by sidecar invariants)."""
    out = []

    class V(ast.NodeVisitor):
        def visit_For(self, n):
            if isinstance(n, kind):
                out.append(n)
            self.generic_visit(n)

        def visit_While(self, n):
            if isinstance(n, kind):
                out.append(n)
            self.generic_visit(n)

        def visit_FunctionDef(self, n):
            if n is fn:
                self.generic_visit(n)

    V().visit(fn)
    return out
