"""Symbolic-LENGTH vectors ("P" rung for reductions along one dimension).

A SymVec is one generic column of a tensor along the reduced dimension: length `n` is an SMT
integer, the element at position t is `elem(t)` (an SMT function application). Reductions over the
symbolic extent introduce fresh functions constrained by the primitive's assumed contract
(DESIGN.md 2.1): cumsum by its recurrence, sum by its partial-sum recurrence. The contracts are
quantified axioms collected in `I.ex.ghost['axioms']`; the sidecar then proves its postcondition
from them by a ghost induction (base + step obligations) - the solver is never asked to do the
induction itself.
"""
from __future__ import annotations

import z3

from .interp import PyRaise, Unsupported, to_z3

_ctr = [0]


def _fresh_fn(name, rng):
    _ctr[0] += 1
    return z3.Function("%s!%d" % (name, _ctr[0]), z3.IntSort(), rng)


class SymVec:
    def __init__(self, n, elem, dtype, dim=0):
        self.n, self.elem, self.dtype, self.dim = n, elem, dtype, dim

    @staticmethod
    def symbolic(name, n, dtype="long"):
        f = z3.Function(name, z3.IntSort(), z3.IntSort() if dtype == "long" else z3.RealSort() if dtype == "float" else z3.BoolSort())
        return SymVec(n, lambda t: f(t), dtype)

    def _axiom(self, I, ax):
        I.ex.ghost.setdefault("axioms", []).append(ax)
        I.ex.assume(ax)

    def __vc_getattr__(self, I, name):
        v = self
        if name == "shape":
            return ShapeProxy(v)

        class M:
            def __vc_call__(s, I, a, k):
                return METH[name](I, v, *a, **k)

        if name in METH:
            return M()
        raise Unsupported("symbolic-length vector .%s" % name)


class ShapeProxy:
    def __init__(self, v):
        self.v = v

    def __vc_getitem__(self, I, idx):
        return self.v.n


def _eq(I, v, other):
    o = to_z3(other)
    return SymVec(v.n, lambda t: v.elem(t) == o, "bool", v.dim)


def _cumsum(I, v, dim, dtype=None):
    from . import ctensor as ct

    c = _fresh_fn("cumsum", z3.IntSort())
    t = z3.Int("t_cs")
    one = lambda b: z3.If(b, 1, 0) if v.dtype == "bool" else b
    width = ct.int_width(dtype) if dtype is not None and not isinstance(dtype, str) else None
    w = (lambda x: ct.wrap_int(x, width)) if width is not None else (lambda x: x)  # a narrow integer dtype wraps around
    # assumed contract of torch.cumsum along the dimension
    base = c(0) == w(one(v.elem(0)))
    step = lambda tt: z3.Implies(tt >= 0, c(tt + 1) == w(c(tt) + one(v.elem(tt + 1))))
    v._axiom(I, z3.And(base, z3.ForAll([t], step(t))))
    I.ex.ghost.setdefault("defs", {})["cumsum"] = c
    I.ex.ghost["defs"]["cumsum_instances"] = (base, step)  # instance builders of exactly the contract assumed above
    I.ex.ghost["defs"]["cumsum_operand"] = v.elem
    return SymVec(v.n, lambda t_: c(t_), "long", v.dim)


def _sum(I, v, dim=None, **k):
    s = _fresh_fn("partial_sum", z3.IntSort())
    t = z3.Int("t_sum")
    one = lambda b: z3.If(b, 1, 0) if v.dtype == "bool" else b
    # assumed contract of sum along the dimension: partial sums S(0)=0, S(t+1)=S(t)+x(t); the result is S(n)
    base = s(0) == 0
    step = lambda tt: z3.Implies(tt >= 0, s(tt + 1) == s(tt) + one(v.elem(tt)))
    v._axiom(I, z3.And(base, z3.ForAll([t], step(t))))
    I.ex.ghost.setdefault("defs", {})["partial_sum"] = s
    I.ex.ghost["defs"]["partial_sum_instances"] = (base, step)
    I.ex.ghost["defs"]["partial_sum_operand"] = v.elem
    return s(v.n)


METH = {"eq": _eq, "cumsum": _cumsum, "sum": _sum}
FUNCS = {"torch.cumsum": _cumsum}
