"""Differential test of the symbolic-shape layer (vf/pyvc/symtensor.py) against real torch, at concrete small sizes.

A symbolic-shape tensor is an index function; here its shape is concrete and its contents are an uninterpreted table pinned by
ground facts to a random torch tensor. Each modelled operation is applied through the model; then

  * structural operations (no assumed contract: indexing, slicing stores, transpose, view / flatten incl. the row-major split of two
    merged dimensions, expand, unsqueeze, cat, stack, gather, scatter, arange, where, masked_fill, comparisons, arithmetic, clamp,
    one_hot, triu / tril): every element of the model's result, evaluated under the ground facts, must EQUAL torch's element;
  * operations with an assumed contract (sum, matmul, any, min / max along a dimension or over all elements, top-k, sort, softmax, pow):
    "ground facts + the contract's
    assumptions + model result = torch's result" must be SATISFIABLE, i.e. the contract admits what torch computes (for the
    recurrence contracts all instances over the concrete extent are supplied, so the query is quantifier-free);
  * the compaction contract of masked_select / masked_scatter (per-dimension counters): with all instances it must DETERMINE torch's
    result (negation unsatisfiable) and must not be contradictory.

A disagreement is an engine error (exit 3). Run as guard clause `<property>.guard.symbolic_shape_contracts` by every check that has a
symbolic-shape (P) clause over tensors.
"""
from __future__ import annotations

import ast
import random
from fractions import Fraction

import z3


def _mk():
    from . import interp as ip
    from . import symtensor as stn

    ex = ip.Explorer()
    ex._begin([])
    ex.worklist = []
    I = ip.Interp(ex)
    I.stubs.update(stn.stubs())
    return I


_n = [0]


def _table(t, dtype):
    """ST over an uninterpreted table + the ground facts that pin it to the torch tensor t"""
    from . import symtensor as stn
    from .interp import to_z3

    _n[0] += 1
    rng = {"long": z3.IntSort(), "float": z3.RealSort(), "bool": z3.BoolSort()}[dtype]
    f = z3.Function("tab!%d" % _n[0], *([z3.IntSort()] * t.dim() + [rng]))
    facts = []
    import itertools

    for pos in itertools.product(*[range(d) for d in t.shape]):
        v = t[pos].item()
        val = z3.BoolVal(bool(v)) if dtype == "bool" else (z3.IntVal(int(v)) if dtype == "long" else z3.RealVal(str(Fraction(v))))
        facts.append(f(*[z3.IntVal(i) for i in pos]) == val)
    return stn.ST(tuple(int(d) for d in t.shape), lambda *idx: f(*[to_z3(i) for i in idx]), dtype), facts


def _val(x):
    from . import ctensor as ct

    if isinstance(x, (ct.NegGuarded, ct.Guarded)):
        return x
    if isinstance(x, bool):
        return z3.BoolVal(x)
    if isinstance(x, int):
        return z3.IntVal(x)
    if isinstance(x, float):
        return z3.RealVal(str(Fraction(x)))
    if isinstance(x, Fraction):
        return z3.RealVal(str(x))
    return x


def _eq_term(model_elem, native):
    """formula: the model's element equals torch's element"""
    from . import ctensor as ct

    inf = float("inf")
    if isinstance(model_elem, ct.NegGuarded):
        f = model_elem.ninf if not isinstance(model_elem.ninf, bool) else z3.BoolVal(model_elem.ninf)
        return f if native == -inf else z3.And(z3.Not(f), _val(model_elem.val) == z3.RealVal(str(Fraction(native))))
    if isinstance(model_elem, ct.Guarded):
        f = model_elem.pinf if not isinstance(model_elem.pinf, bool) else z3.BoolVal(model_elem.pinf)
        return f if native == inf else z3.And(z3.Not(f), _val(model_elem.val) == z3.RealVal(str(Fraction(native))))
    if isinstance(model_elem, float) and model_elem in (inf, -inf):
        return z3.BoolVal(model_elem == native)
    m = _val(model_elem)
    if isinstance(native, bool):
        return m == z3.BoolVal(native) if z3.is_bool(m) else m == z3.IntVal(int(native))
    if isinstance(native, int):
        return m == (z3.IntVal(native) if z3.is_int(m) else z3.RealVal(native))
    if native in (inf, -inf):
        return z3.BoolVal(False)
    return (z3.ToReal(m) if z3.is_int(m) else m) == z3.RealVal(str(Fraction(native)))


def _all_equal(st, native):
    import itertools

    if tuple(int(z3.simplify(d).as_long()) if isinstance(d, z3.ExprRef) else int(d) for d in st.shape) != tuple(native.shape):
        return None
    return [_eq_term(st.elem(*[z3.IntVal(i) for i in pos]), native[pos].item()) for pos in itertools.product(*[range(d) for d in native.shape])]


def run(seed=0, rounds=3):
    import torch

    from . import symtensor as stn

    rng = random.Random(4321 + seed)
    bad, n = [], [0]
    M, F = stn.METH, stn.FUNCS

    def rt(shape, kind="float"):
        numel = 1
        for d in shape:
            numel *= d
        if kind == "float":
            return torch.tensor([rng.randint(-8, 8) / 4.0 for _ in range(numel)], dtype=torch.float64).reshape(shape)
        if kind == "long":
            return torch.tensor([rng.randint(-3, 5) for _ in range(numel)], dtype=torch.long).reshape(shape)
        return torch.tensor([rng.random() < 0.5 for _ in range(numel)], dtype=torch.bool).reshape(shape)

    def structural(name, model_fn, native_fn, tensors):
        """tensors: [(torch tensor, dtype tag)] -> the model gets table STs; result must equal torch element-wise"""
        n[0] += 1
        I = _mk()
        sts, facts = [], []
        for t, tag in tensors:
            s_, f_ = _table(t, tag)
            sts.append(s_)
            facts += f_
        try:
            native = native_fn(*[t for t, _ in tensors])
            model = model_fn(I, *sts)
            eqs = _all_equal(model, native)
        except Exception as e:
            bad.append("%s: %s: %s" % (name, type(e).__name__, str(e)[:120]))
            return
        if eqs is None:
            bad.append("%s: shape %s vs torch %s" % (name, model.shape, tuple(native.shape)))
            return
        s = z3.Solver()
        s.set("timeout", 20000)
        s.add(facts + list(I.ex.pc))
        s.add(z3.Not(z3.And(eqs)) if eqs else z3.BoolVal(False))
        if s.check() != z3.unsat:
            bad.append("%s: the model's result is not determined to equal torch's" % name)

    def admits(name, model_fn, native_fn, tensors, extra=lambda I: []):
        """contract operations: facts + assumptions + instances + (result = torch) must be satisfiable"""
        n[0] += 1
        I = _mk()
        sts, facts = [], []
        for t, tag in tensors:
            s_, f_ = _table(t, tag)
            sts.append(s_)
            facts += f_
        try:
            native = native_fn(*[t for t, _ in tensors])
            model = model_fn(I, *sts)
            outs = model if isinstance(model, (tuple, list)) else [model]
            nats = native if isinstance(native, (tuple, list)) else [native]
            eqs = []
            for m_, n_ in zip(outs, nats):
                e_ = _all_equal(m_, n_)
                if e_ is None:
                    bad.append("%s: shape %s vs torch %s" % (name, m_.shape, tuple(n_.shape)))
                    return
                eqs += e_
        except Exception as e:
            bad.append("%s: %s: %s" % (name, type(e).__name__, str(e)[:120]))
            return
        from .interp import has_quantifier

        s = z3.Solver()
        s.set("timeout", 20000)
        s.add(facts + [h for h in I.ex.pc if not has_quantifier(h)] + list(I.ex.insts) + list(extra(I)) + eqs)
        r = s.check()
        if r == z3.unsat:
            bad.append("%s: the contract (with all instances over the concrete extent) excludes what torch computes" % name)

    for rnd in range(rounds):
        lo = 2 if rnd % 2 == 0 else 1  # every other round without unit dimensions (which hide index mix-ups)
        A, Bd, C = rng.randint(lo, 3), rng.randint(lo, 3), rng.randint(lo, 3)
        x, y = rt((A, Bd)), rt((A, Bd))
        xi = rt((A, Bd), "long")
        b = rt((A, Bd), "bool")
        x3 = rt((A, Bd, C))
        F_ = [(x, "float")]
        structural("add", lambda I, a, c: a._bin(I, ast.Add(), c, False), lambda a, c: a + c, [(x, "float"), (y, "float")])
        # alternative spellings (method / function forms, None in an index)
        b2 = rt((A, Bd), "bool")
        structural("bool * bool", lambda I, a, c: a._bin(I, ast.Mult(), c, False), lambda a, c: a * c, [(b, "bool"), (b2, "bool")])
        structural(".neg", lambda I, a: M["neg"](I, a), lambda a: a.neg(), [(xi, "long")])
        structural("torch.neg", lambda I, a: F["torch.neg"](I, a), lambda a: torch.neg(a), F_)
        structural(".logical_not", lambda I, a: M["logical_not"](I, a), lambda a: a.logical_not(), [(b, "bool")])
        structural(".logical_and", lambda I, a, c: M["logical_and"](I, a, c), lambda a, c: a.logical_and(c), [(b, "bool"), (b2, "bool")])
        structural("torch.logical_or", lambda I, a, c: F["torch.logical_or"](I, a, c), lambda a, c: torch.logical_or(a, c), [(b, "bool"), (b2, "bool")])
        structural(".where", lambda I, a, c, d: M["where"](I, a, c, d), lambda a, c, d: a.where(c, d), [(x, "float"), (b, "bool"), (y, "float")])
        structural("torch.minimum", lambda I, a, c: F["torch.minimum"](I, a, c), lambda a, c: torch.minimum(a, c), [(x, "float"), (y, "float")])
        structural("torch.maximum", lambda I, a, c: F["torch.maximum"](I, a, c), lambda a, c: torch.maximum(a, c), [(xi, "long"), (rt((A, Bd), "long"), "long")])
        structural("torch.eq", lambda I, a, c: F["torch.eq"](I, a, c), lambda a, c: torch.eq(a, c), [(xi, "long"), (rt((A, Bd), "long"), "long")])
        structural("torch.lt scalar", lambda I, a: F["torch.lt"](I, a, 1), lambda a: torch.lt(a, 1), [(xi, "long")])
        structural("torch.sub", lambda I, a, c: F["torch.sub"](I, a, c), lambda a, c: torch.sub(a, c), [(x, "float"), (y, "float")])
        structural("torch.unsqueeze", lambda I, a: F["torch.unsqueeze"](I, a, 1), lambda a: torch.unsqueeze(a, 1), F_)
        structural("x[:, None]", lambda I, a: a.__vc_getitem__(I, (slice(None), None)), lambda a: a[:, None], F_)
        structural("x[None]", lambda I, a: a.__vc_getitem__(I, None), lambda a: a[None], F_)
        structural("x[..., None]", lambda I, a: a.__vc_getitem__(I, (Ellipsis, None)), lambda a: a[..., None], [(x3, "float")])
        structural("x[None, :, None]", lambda I, a: a.__vc_getitem__(I, (None, slice(None), None)), lambda a: a[None, :, None], F_)
        structural("x[1, None]", lambda I, a: a.__vc_getitem__(I, (A - 1, None)), lambda a: a[A - 1, None], F_)
        structural("x[:, None, 0]", lambda I, a: a.__vc_getitem__(I, (slice(None), None, 0)), lambda a: a[:, None, 0], [(x3, "float")])
        structural("torch.masked_fill", lambda I, a, c: F["torch.masked_fill"](I, a, c, 2.0), lambda a, c: torch.masked_fill(a, c, 2.0), [(x, "float"), (b, "bool")])
        structural("torch.clamp_min", lambda I, a: F["torch.clamp_min"](I, a, 0), lambda a: torch.clamp_min(a, 0), [(xi, "long")])
        structural("sub scalar", lambda I, a: a._bin(I, ast.Sub(), 2, False), lambda a: a - 2, F_)
        structural("mul", lambda I, a, c: a._bin(I, ast.Mult(), c, False), lambda a, c: a * c, [(x, "float"), (y, "float")])
        structural("long mod", lambda I, a: a._bin(I, ast.Mod(), 3, False), lambda a: a % 3, [(xi, "long")])
        structural("long floordiv", lambda I, a: a._bin(I, ast.FloorDiv(), 3, False), lambda a: torch.div(a, 3, rounding_mode="floor"), [(xi, "long")])
        structural("compare ge", lambda I, a, c: a.__vc_compare__(I, ast.GtE(), c, False), lambda a, c: a >= c, [(x, "float"), (y, "float")])
        structural("long + bool", lambda I, a, c: a._bin(I, ast.Add(), c, False), lambda a, c: a + c, [(xi, "long"), (b, "bool")])
        structural("long * bool", lambda I, a, c: a._bin(I, ast.Mult(), c, False), lambda a, c: a * c, [(xi, "long"), (b, "bool")])
        structural("invert", lambda I, a: a.__vc_unop__(I, ast.Invert()), lambda a: ~a, [(b, "bool")])
        structural("where", lambda I, c, a, d: F["torch.where"](I, c, a, d), lambda c, a, d: torch.where(c, a, d), [(b, "bool"), (x, "float"), (y, "float")])
        structural("masked_fill", lambda I, a, c: M["masked_fill"](I, a, c, 7.0), lambda a, c: a.masked_fill(c, 7.0), [(x, "float"), (b, "bool")])
        structural("masked_fill -inf", lambda I, a, c: M["masked_fill"](I, a, c, -float("inf")), lambda a, c: a.masked_fill(c, -float("inf")), [(x, "float"), (b, "bool")])
        structural("transpose", lambda I, a: M["transpose"](I, a, 0, 1), lambda a: a.transpose(0, 1), F_)
        structural("t", lambda I, a: M["t"](I, a), lambda a: a.t(), F_)
        structural("unsqueeze", lambda I, a: M["unsqueeze"](I, a, 1), lambda a: a.unsqueeze(1), F_)
        structural("expand", lambda I, a: M["expand"](I, M["unsqueeze"](I, a, 0), 2, -1, -1), lambda a: a.unsqueeze(0).expand(2, -1, -1), F_)
        structural("flatten two dims", lambda I, a: M["flatten"](I, a, 1), lambda a: a.flatten(1), [(x3, "float")])
        structural("flatten all of two", lambda I, a: M["flatten"](I, a), lambda a: a.flatten(), F_)
        structural("view merge", lambda I, a: M["view"](I, a, A, Bd * C), lambda a: a.view(A, Bd * C), [(x3, "float")])
        structural("view unit dims", lambda I, a: M["view"](I, a, A, 1, Bd), lambda a: a.view(A, 1, Bd), F_)
        structural("slice", lambda I, a: a.__vc_getitem__(I, (slice(None), slice(1, None))), lambda a: a[:, 1:], F_)
        structural("index row", lambda I, a: a.__vc_getitem__(I, A - 1), lambda a: a[A - 1], F_)
        structural("negative slice", lambda I, a: a.__vc_getitem__(I, slice(None, -1)), lambda a: a[:-1], F_)
        structural("cat 0", lambda I, a, c: F["torch.cat"](I, [a, c], 0), lambda a, c: torch.cat([a, c], 0), [(x, "float"), (y, "float")])
        structural("cat 1", lambda I, a, c: F["torch.cat"](I, [a, c], 1), lambda a, c: torch.cat([a, c], 1), [(x, "float"), (y, "float")])
        structural("stack 2", lambda I, a, c: F["torch.stack"](I, [a, c], 2), lambda a, c: torch.stack([a, c], 2), [(x, "float"), (y, "float")])
        structural("triu", lambda I, a: M["triu"](I, a, 1), lambda a: a.triu(1), F_)
        structural("tril", lambda I, a: M["tril"](I, a), lambda a: a.tril(), F_)
        structural("clamp", lambda I, a: M["clamp"](I, a, 0, 1), lambda a: a.clamp(0, 1), [(xi, "long")])
        structural("square", lambda I, a: M["square"](I, a), lambda a: a.square(), F_)
        idx = torch.tensor([[rng.randrange(Bd) for _ in range(Bd)] for _ in range(A)])
        structural("gather 1", lambda I, a, i_: M["gather"](I, a, 1, i_), lambda a, i_: a.gather(1, i_), [(x, "float"), (idx, "long")])
        i1 = torch.tensor([[rng.randrange(Bd)] for _ in range(A)])
        structural("scatter one per line", lambda I, a, i_: M["scatter"](I, a, 1, i_, 0.0), lambda a, i_: a.scatter(1, i_, 0.0), [(x, "float"), (i1, "long")])
        cls = xi.clamp(0, 2)
        structural("one_hot", lambda I, a: F["torch.nn.functional.one_hot"](I, a, 3), lambda a: torch.nn.functional.one_hot(a, 3), [(cls, "long")])
        st_, sp_, sh_ = rng.randint(-2, 1), rng.randint(0, 6), rng.randint(1, 3)
        structural("arange(start, stop, step)", lambda I: F["torch.arange"](I, st_, z3.IntVal(sp_), sh_), lambda: torch.arange(st_, sp_, sh_), [])
        structural("setitem slice", lambda I, a, c: (a.__vc_setitem__(I, (slice(1, None),), c.__vc_getitem__(I, (slice(1, None),))), a)[1],
                   lambda a, c: torch.cat([a[:1], c[1:]], 0), [(x, "float"), (y, "float")])
        structural("in-place add", lambda I, a, c: a.__vc_iop__(I, ast.Add(), c), lambda a, c: a + c, [(x, "float"), (y, "float")])
        # operations of the flat-trie descent (C06): tensor indices, repeats, row-major split, integer sums, symbolic negative index
        v1, vi = rt((Bd,)), rt((Bd,), "long")
        it_ = torch.tensor([[rng.randrange(Bd) for _ in range(C)] for _ in range(A)])
        structural("index by tensor (rank 2 index)", lambda I, a, i_: a.__vc_getitem__(I, i_), lambda a, i_: a[i_], [(v1, "float"), (it_, "long")])
        structural("repeat", lambda I, a: M["repeat"](I, a, z3.IntVal(A)), lambda a: a.repeat(A), [(v1, "float")])
        structural("repeat of a matrix", lambda I, a: M["repeat"](I, a, 1, z3.IntVal(C)), lambda a: a.repeat(1, C), F_)
        structural("repeat_interleave", lambda I, a: M["repeat_interleave"](I, a, z3.IntVal(C)), lambda a: a.repeat_interleave(C), [(vi, "long")])
        structural("view split", lambda I, a: M["view"](I, M["flatten"](I, a), z3.IntVal(A), z3.IntVal(Bd)), lambda a: a.flatten().view(A, Bd), F_)
        structural("view split of a leading dimension", lambda I, a: M["view"](I, M["flatten"](I, a, 0, 1), z3.IntVal(A), z3.IntVal(Bd), z3.IntVal(C)), lambda a: a.flatten(0, 1).view(A, Bd, C), [(x3, "float")])
        kneg = z3.Int("k_neg!%d" % rnd)
        for kk in range(1, A + 1):
            n[0] += 1
            I_ = _mk()
            s_, f_ = _table(x, "float")
            row = s_.__vc_getitem__(I_, -kneg)
            sol = z3.Solver()
            sol.add(f_ + [kneg == kk] + [z3.Not(z3.And(_all_equal(row, x[-kk])))])
            if sol.check() != z3.unsat:
                bad.append("symbolic negative index: x[-k] at k = %d differs from torch" % kk)
        structural("isneginf", lambda I, a, c: F["torch.isneginf"](I, M["masked_fill"](I, a, c, -float("inf"))), lambda a, c: torch.isneginf(a.masked_fill(c, -float("inf"))), [(x, "float"), (b, "bool")])
        structural("isfinite", lambda I, a, c: F["torch.isfinite"](I, M["masked_fill"](I, a, c, -float("inf"))), lambda a, c: torch.isfinite(a.masked_fill(c, -float("inf"))), [(x, "float"), (b, "bool")])
        structural("zeros_like", lambda I, a: F["torch.zeros_like"](I, a), lambda a: torch.zeros_like(a), F_)
        structural("min of one element + item", lambda I, a: M["expand"](I, stn.ST((), lambda: M["item"](I, M["min"](I, a.__vc_getitem__(I, (0, 0)))), "float"), 2), lambda a: a[0, 0].min().expand(2), F_)
        # contracts
        def sum_insts(I):
            out = []
            for sm in I.ex.ghost.get("sums", []):
                T_ = z3.simplify(sm["T"]).as_long()
                import itertools

                if sm.get("kind") == "sum":
                    for o in range(3):
                        out.append(sm["base"](z3.IntVal(o)))
                        out += [sm["step"](z3.IntVal(o), z3.IntVal(j)) for j in range(T_)]
                else:
                    for o, p_ in itertools.product(range(3), range(3)):
                        out.append(sm["base"](z3.IntVal(o), z3.IntVal(p_)))
                        out += [sm["step"](z3.IntVal(o), z3.IntVal(p_), z3.IntVal(j)) for j in range(T_)]
            return out

        admits("sum dim 1", lambda I, a: M["sum"](I, a, 1), lambda a: a.sum(1), F_, sum_insts)
        admits("sum dim 0", lambda I, a: M["sum"](I, a, 0), lambda a: a.sum(0), F_, sum_insts)
        yT = rt((Bd, C))
        admits("matmul", lambda I, a, c: M["matmul"](I, a, c), lambda a, c: a @ c, [(x, "float"), (yT, "float")], sum_insts)

        def any_insts(I):
            out = []
            for an in I.ex.ghost.get("anys", []):
                n_ = z3.simplify(an["n"]).as_long()
                for o in range(3):
                    out.append(an["B"](z3.IntVal(o)) == z3.Or([an["el"]([z3.IntVal(o)], z3.IntVal(j)) if not isinstance(an["el"]([z3.IntVal(o)], z3.IntVal(j)), bool) else z3.BoolVal(an["el"]([z3.IntVal(o)], z3.IntVal(j))) for j in range(n_)] or [z3.BoolVal(False)]))
            return out

        admits("any dim 1", lambda I, a: M["any"](I, a, 1), lambda a: a.any(1), [(b, "bool")], any_insts)
        for bt in (b, torch.ones_like(b)):
            admits("all over every element", lambda I, a: stn.ST((), (lambda r_: (lambda: r_))(M["all"](I, a)), "bool"), lambda a: a.all(), [(bt, "bool")],
                   lambda I: [al["elim"](z3.IntVal(i), z3.IntVal(j)) for al in I.ex.ghost.get("alls", []) for i in range(3) for j in range(3)])
        admits("any dim 1 (witness form)", lambda I, a: M["any"](I, a, 1), lambda a: a.any(1), [(b, "bool")],
               lambda I: [x_ for an in I.ex.ghost.get("anys", []) for o in range(3) for x_ in [an["witness"]([z3.IntVal(o)])] + [an["intro"]([z3.IntVal(o)], z3.IntVal(j)) for j in range(3)]])
        # row-major compaction (masked_select / masked_scatter) and max over a vector: the contracts, with every instance over the
        # concrete extents, must admit what torch computes - and must determine it (the compaction contract is meant to be exact)
        def cmp_insts(I):
            import itertools

            out = []
            for rec in I.ex.ghost.get("compactions", []):
                dims = [z3.simplify(d).as_long() for d in rec["dims"]]
                for j in range(len(dims)):
                    for pre_ in itertools.product(*[range(d) for d in dims[:j]]):
                        pz = [z3.IntVal(a) for a in pre_]
                        out.append(rec["base"](j, pz))
                        out += [rec["step"](j, pz, z3.IntVal(i)) for i in range(dims[j])]
                if rec.get("kind") == "select":
                    tot = 1
                    for d in dims:
                        tot *= d
                    out += [rec["sel"](z3.IntVal(k)) for k in range(tot + 1)]
                    out += [rec["inj"]([z3.IntVal(a) for a in idx]) for idx in itertools.product(*[range(d) for d in dims])]
            return out

        for nm_, xs_, bs_ in (("rank 2", x, b), ("rank 3", x3, rt((A, Bd, C), "bool"))):
            n[0] += 1
            I_ = _mk()
            sx, fx = _table(xs_, "float")
            sb, fb = _table(bs_, "bool")
            try:
                sel_m = M["masked_select"](I_, sx, sb)
                nat = xs_.masked_select(bs_)
                base_ = torch.zeros_like(xs_) - 7
                sbase, fbase = _table(base_, "float")
                sc_m = M["masked_scatter"](I_, sbase, sb, sel_m)
                nat_sc = base_.masked_scatter(bs_, nat)
                from .interp import has_quantifier, to_z3

                hy = fx + fb + fbase + [h for h in I_.ex.pc if not has_quantifier(h)] + cmp_insts(I_)
                claim = [to_z3(sel_m.shape[0]) == len(nat)] + [to_z3(sel_m.elem(z3.IntVal(k))) == _val(float(nat[k])) for k in range(len(nat))]
                sol = z3.Solver()
                sol.set("timeout", 20000)
                sol.add(hy + [z3.Not(z3.And(claim))])
                if sol.check() != z3.unsat:
                    bad.append("masked_select %s: the compaction contract does not determine torch's result" % nm_)
                eq2 = _all_equal(sc_m, nat_sc)
                sol = z3.Solver()
                sol.set("timeout", 20000)
                sol.add(hy + [z3.Not(z3.And(eq2)) if eq2 else z3.BoolVal(True)])
                if eq2 is None or sol.check() != z3.unsat:
                    bad.append("masked_scatter %s: the compaction contract does not determine torch's result" % nm_)
                sol = z3.Solver()
                sol.set("timeout", 20000)
                sol.add(hy)
                if sol.check() == z3.unsat:
                    bad.append("masked_select %s: the compaction contract is contradictory on a concrete mask" % nm_)
            except Exception as e:
                bad.append("masked_select %s: %s: %s" % (nm_, type(e).__name__, str(e)[:120]))
        admits("max over a vector", lambda I, a: M["max"](I, a), lambda a: a.max(), [(rt((Bd,), "long"), "long")],
               lambda I: [mx["ub"](z3.IntVal(j)) for mx in I.ex.ghost.get("maxes", []) for j in range(3)])
        admits("max dim 1 (values, indices)", lambda I, a: tuple(M["max"](I, a, 1)), lambda a: tuple(a.max(1)), F_,
               lambda I: [y_ for mx in I.ex.ghost.get("dim_maxes", []) for o in range(3) for y_ in [mx["att"]([z3.IntVal(o)])] + [mx["ub"]([z3.IntVal(o)], z3.IntVal(j)) for j in range(3)]])
        admits("sort dim 1 (values, indices)", lambda I, a: tuple(M["sort"](I, a, 1)), lambda a: tuple(a.sort(dim=1, stable=True)), [(xi, "long")],
               lambda I: [y_ for so in I.ex.ghost.get("sorts", []) for o in range(3) for a_ in range(3) for y_ in [so["fwd"](z3.IntVal(o), z3.IntVal(a_)), so["bwd"](z3.IntVal(o), z3.IntVal(a_))] + [so["sorted"](z3.IntVal(o), z3.IntVal(a_), z3.IntVal(b_)) for b_ in range(3)]])
        admits("min over a vector", lambda I, a: M["min"](I, a), lambda a: a.min(), [(rt((Bd,), "long"), "long")],
               lambda I: [mn["lb"](z3.IntVal(j)) for mn in I.ex.ghost.get("mins_all", []) for j in range(3)])
        admits("max over a matrix", lambda I, a: M["max"](I, a), lambda a: a.max(), [(xi, "long")],
               lambda I: [mx["ub"](z3.IntVal(i), z3.IntVal(j)) for mx in I.ex.ghost.get("maxes", []) for i in range(3) for j in range(3)])
        admits("integer sum dim 1", lambda I, a: M["sum"](I, a, 1), lambda a: a.sum(1), [(xi, "long")], sum_insts)
        admits("Boolean sum dim 1", lambda I, a: M["sum"](I, a, 1), lambda a: a.sum(1), [(b, "bool")], sum_insts)

        def min_insts(I):
            out = []
            for mm in I.ex.ghost.get("mins", []):
                ext = mm["t"].shape[mm["d"]]
                for o in range(3):
                    out.append(mm["att"]([z3.IntVal(o)]))
                    out += [mm["lb"]([z3.IntVal(o)], z3.IntVal(j)) for j in range(int(ext))]
            return out

        admits("min dim 1 (values)", lambda I, a: M["min"](I, a, 1)[0], lambda a: a.min(1)[0], F_, min_insts)
        k_ = rng.randint(1, Bd)

        def topk_insts(I):
            out = []
            for tk in I.ex.ghost.get("topks", []):
                for r_ in range(A):
                    for a_ in range(k_):
                        out.append(tk["at"](z3.IntVal(r_), z3.IntVal(a_)))
                        for c_ in range(k_):
                            out += [tk["distinct"](z3.IntVal(r_), z3.IntVal(a_), z3.IntVal(c_)), tk["ordered"](z3.IntVal(r_), z3.IntVal(a_), z3.IntVal(c_))]
            return out

        admits("topk", lambda I, a: tuple(M["topk"](I, a, k_, 1)), lambda a: tuple(a.topk(k_, 1)), F_, topk_insts)
        sc = x[0].clone()
        mk = b[0].clone()
        mk[0] = False
        scm = sc.masked_fill(mk, -float("inf"))

        def sm_insts(I):
            out = []
            for sm in I.ex.ghost.get("softmaxes", []):
                n_ = z3.simplify(sm["n"]).as_long()
                for j in range(n_):
                    out += [sm["weight"](z3.IntVal(j)), sm["wstep"](z3.IntVal(j)), sm["total_if_finite_at"](z3.IntVal(j))]
            return out

        # softmax: torch's weights are irrational; the contract only constrains signs, zeros and the total - check those natively
        n[0] += 1
        w = torch.softmax(scm, 0)
        if not (bool((w >= 0).all()) and bool((w[mk] == 0).all()) and abs(float(w.sum()) - 1) < 1e-12):
            bad.append("softmax: torch's weights violate the assumed contract (non-negative, zero at -inf, total one)")
        e = torch.tensor([rng.randint(0, 3) for _ in range(Bd)], dtype=torch.long)
        admits("pow scalar ** tensor", lambda I, a: F["torch.pow"](I, z3.RealVal("3/2"), M["float"](I, a)), lambda a: torch.pow(1.5, a.double()), [(e, "long")],
               lambda I: [x_ for j in range(4) for x_ in stn.pow_instances(I, z3.IntVal(j))])
    return n[0], bad


def guard(ctx):
    from .. import core

    if getattr(ctx, "_sym_contracts_checked", False):
        return
    ctx._sym_contracts_checked = True
    n, bad = run(seed=ctx.seed, rounds=2 if ctx.quick else 6)
    c = core.Clause(name="%s.guard.symbolic_shape_contracts" % ctx.prop, kind="guard", status="ok" if not bad else "error", evaluations=n,
                    text="the symbolic-shape tensor layer (vf/pyvc/symtensor.py) at concrete small sizes against real torch: structural operations equal torch element-wise; the assumed contracts (sum incl. integer sums, matmul, any with its witness form, min / max along a dimension and over all elements, top-k, pow, sort; softmax natively) admit what torch computes; the row-major compaction contract of masked_select / masked_scatter determines torch's result and is not contradictory",
                    detail="%d disagreements%s" % (len(bad), (" first: %s" % bad[0][:300]) if bad else ""))
    ctx.add_clause(c)
    if bad:
        ctx.errors.append("symbolic-shape contract disagreement: %s" % bad[0][:200])


if __name__ == "__main__":
    import sys

    n, bad = run(rounds=int(sys.argv[1]) if len(sys.argv) > 1 else 3)
    print("%d comparisons, %d disagreements" % (n, len(bad)))
    for b_ in bad[:40]:
        print("  ", b_[:300])
