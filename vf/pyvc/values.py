"""Small symbolic value classes used by the scalar layer (the tensor layer is in tensors.py)."""
from __future__ import annotations

import ast

import z3

from .interp import Opaque, PyRaise, SObj, Unsupported, is_z3, to_z3


class OpenObj(SObj):
    """A record whose unlisted attributes are opaque (argparse `options`, data-set objects)."""

    def __init__(self, fields=None, name="obj", cls=None):
        super().__init__(cls, fields, name)

    def __vc_getattr__(self, I, name):
        if name not in self.fields:
            self.fields[name] = Opaque("%s.%s" % (self.name, name))
        return self.fields[name]


class Vec:
    """1-D integer tensor of concrete length with symbolic entries (a row of a reference tensor).
    Supports r[i], r[i] = v, r[a:] = scalar (broadcast store) - the operations the validated
    fragments perform. Mutation is in place, as for a tensor row view."""

    def __init__(self, items):
        self.items = list(items)

    def __vc_getitem__(self, I, idx):
        if isinstance(idx, int):
            try:
                return self.items[idx]
            except IndexError:
                raise PyRaise("IndexError")
        if isinstance(idx, slice):
            return Vec(self.items[idx])
        raise Unsupported("Vec index %r" % (idx,))

    def __vc_setitem__(self, I, idx, v):
        if isinstance(v, Vec):
            vals = v.items
        else:
            vals = None
        if isinstance(idx, int):
            self.items[idx] = v
            return
        if isinstance(idx, slice):
            rng = range(*idx.indices(len(self.items)))
            for k, i in enumerate(rng):
                self.items[i] = vals[k] if vals is not None else v
            return
        raise Unsupported("Vec store %r" % (idx,))

    def __vc_len__(self, I):
        return len(self.items)

    def __vc_iter__(self, I):
        return list(self.items)

    def __vc_getattr__(self, I, name):
        if name == "tolist":
            v = self

            class M:
                def __vc_call__(s, I, a, k):
                    return list(v.items)

            return M()
        raise Unsupported("Vec.%s" % name)


class ShapeOnly:
    """A tensor of which only the shape matters (length checks / cropping in validation)."""

    def __init__(self, shape, tag="t"):
        self.shape, self.tag = tuple(shape), tag

    def __vc_getattr__(self, I, name):
        t = self
        if name == "shape":
            return self.shape
        if name == "ndim":
            return len(self.shape)

        class M:
            def __vc_call__(s, I, a, k):
                if name == "size":
                    return t.shape[a[0]] if a else t.shape
                if name == "dim":
                    return len(t.shape)
                raise Unsupported("ShapeOnly.%s()" % name)

        if name in ("size", "dim"):
            return M()
        raise Unsupported("ShapeOnly.%s" % name)

    def __vc_getitem__(self, I, idx):
        if isinstance(idx, slice) and idx.start is None and idx.step is None:
            n, stop = self.shape[0], idx.stop
            if stop is None:
                return self
            stop, n = to_z3(stop), to_z3(n)
            # python slice semantics for x[:stop] on a length-n axis
            eff = z3.If(stop < 0, z3.If(stop + n < 0, z3.IntVal(0), stop + n), z3.If(stop > n, n, stop))
            return ShapeOnly((z3.simplify(eff),) + self.shape[1:], self.tag + "[:]")
        raise Unsupported("ShapeOnly index %r" % (idx,))
